(* Proofs/RetrieverProofs.v — lemmas about Model/Retriever.v (property C09). *)
From Coq Require Import NArith List Bool Lia ZifyBool ZifyN ZifyNat Arith.
From Verif Require Import Model.Retriever.
Import ListNotations.
Open Scope N_scope.

(* ---- chunking --------------------------------------------------------------------------------------- *)
Lemma chunks_from_concat : forall fuel off l, (length l <= fuel)%nat ->
  concat (map snd (chunks_from fuel off l)) = l.
Proof.
  induction fuel as [|f IH]; intros off l Hl.
  - destruct l; [reflexivity | cbn in Hl; lia].
  - destruct l as [|b l']; [reflexivity|].
    cbn [chunks_from map snd concat].
    rewrite IH.
    + apply firstn_skipn.
    + rewrite skipn_length. cbn [length] in *. unfold batch_size. lia.
Qed.

Lemma skipn_add : forall (A : Type) (b a : nat) (l : list A), skipn a (skipn b l) = skipn (b + a) l.
Proof.
  induction b as [|b IH]; intros a l; [reflexivity|].
  destruct l as [|x l]; [cbn; destruct a; reflexivity|]. cbn [skipn Nat.add]. apply IH.
Qed.

Lemma chunks_concat : forall l, concat (map snd (chunks l)) = l.
Proof. intro l. apply chunks_from_concat. lia. Qed.

Lemma chunks_from_nth : forall fuel off l k o c, (length l <= fuel)%nat ->
  nth_error (chunks_from fuel off l) k = Some (o, c) ->
  o = (off + k * batch_size)%nat /\ c = firstn batch_size (skipn (k * batch_size) l) /\ c <> [].
Proof.
  induction fuel as [|f IH]; intros off l k o c Hl Hn.
  - destruct k; discriminate.
  - destruct l as [|b l']; [destruct k; discriminate|].
    cbn [chunks_from] in Hn.
    destruct k as [|k'].
    + cbn in Hn. inversion Hn; subst. split; [lia|]. split; [reflexivity|]. unfold batch_size. cbn. discriminate.
    + cbn [nth_error] in Hn. apply IH in Hn.
      * destruct Hn as (Ho & Hc & Hne). split; [lia|]. split; [|exact Hne].
        rewrite Hc. rewrite skipn_add. reflexivity.
      * rewrite skipn_length. cbn [length] in *. unfold batch_size. lia.
Qed.

Lemma chunks_nth : forall l k o c, nth_error (chunks l) k = Some (o, c) ->
  o = (k * batch_size)%nat /\ c = firstn batch_size (skipn (k * batch_size) l) /\ c <> [].
Proof.
  intros l k o c H. apply chunks_from_nth in H; [|lia]. destruct H as (A & B & C). repeat split; auto.
Qed.

Lemma get_chunks_none : forall cs h k,
  get_chunks h k None cs = (Some (concat (map snd cs)), false, map (get_call h) cs).
Proof.
  induction cs as [|[off c] r IH]; intros h k; [reflexivity|].
  cbn [get_chunks]. rewrite IH. reflexivity.
Qed.

Lemma get_chunks_fail : forall cs h k i e, (k <= i)%nat -> (i - k < length cs)%nat ->
  get_chunks h k (Some (i, e)) cs = (None, e_fut e, map (get_call h) (firstn (S (i - k)) cs)).
Proof.
  induction cs as [|[off c] r IH]; intros h k i e Hk Hl; [cbn in Hl; lia|].
  cbn [get_chunks]. destruct (Nat.eqb i k) eqn:E.
  - apply Nat.eqb_eq in E. subst. rewrite Nat.sub_diag. reflexivity.
  - apply Nat.eqb_neq in E. rewrite IH; [|lia|cbn [length] in Hl; lia].
    replace (i - k)%nat with (S (i - S k)) by lia. reflexivity.
Qed.

(* whatever the failure script: a successful result is the concatenation, all calls are Gets of h *)
Lemma get_chunks_any : forall cs h k fail res fm calls,
  get_chunks h k fail cs = (res, fm, calls) ->
  (forall got, res = Some got -> got = concat (map snd cs)) /\ Forall (call_at h) calls.
Proof.
  induction cs as [|[off c] r IH]; intros h k fail res fm calls H.
  - cbn in H. inversion H; subst. split; [intros got E; inversion E; reflexivity | constructor].
  - cbn [get_chunks] in H.
    destruct (get_chunks h (S k) fail r) as [[res' fm'] calls'] eqn:E.
    specialize (IH _ _ _ _ _ _ E). destruct IH as [IHr IHc].
    assert (Hgen : (res, fm, calls) = (match res' with Some bl => Some (c ++ bl) | None => None end, fm', CGet h off (length c) :: calls') ->
                   (forall got, res = Some got -> got = concat (map snd ((off, c) :: r))) /\ Forall (call_at h) calls).
    { intro Q. inversion Q; subst. split.
      - intros got G. destruct res'; [|discriminate]. inversion G; subst. cbn. f_equal. apply IHr. reflexivity.
      - constructor; [reflexivity | exact IHc]. }
    destruct fail as [[i e]|].
    + destruct (Nat.eqb i k).
      * inversion H; subst. split; [intros got G; discriminate|]. constructor; [reflexivity|constructor].
      * apply Hgen. symmetry. exact H.
    + apply Hgen. symmetry. exact H.
Qed.

Lemma fetch_listed_spec : forall h bl fail,
  (exists rest, snd (fetch_listed h bl fail) = CGetIDs h :: rest) /\
  Forall (call_at h) (snd (fetch_listed h bl fail)) /\
  (forall got, fst (fetch_listed h bl fail) = SSuccess got -> got = bl).
Proof.
  intros h bl fail. unfold fetch_listed. destruct bl as [|b bl'].
  - cbn. split; [eexists; reflexivity|]. split; [repeat constructor|]. intros got G; discriminate.
  - destruct (get_chunks h 0 fail (chunks (b :: bl'))) as [[res fm] calls] eqn:E.
    apply get_chunks_any in E. destruct E as [Er Ec]. cbn [fst snd].
    split; [eexists; reflexivity|]. split; [constructor; [reflexivity|exact Ec]|].
    intros got G. destruct res; [|discriminate]. inversion G; subst.
    rewrite <- (chunks_concat (b :: bl')). apply Er. reflexivity.
Qed.

Lemma retrieve_spec : forall h bl o,
  (exists rest, snd (retrieve h bl o) = CGetIDs h :: rest) /\
  Forall (call_at h) (snd (retrieve h bl o)) /\
  (forall got, fst (retrieve h bl o) = SSuccess got -> got = bl).
Proof.
  intros h bl o. destruct o; cbn [retrieve]; try apply fetch_listed_spec.
  - cbn [fst snd]. split; [eexists; reflexivity|]. split; [repeat constructor|].
    intros got G. destruct (e_nf e); [discriminate|]. destruct (e_fut e); discriminate.
  - cbn [fst snd]. split; [eexists; reflexivity|]. split; [repeat constructor|]. intros got G; discriminate.
Qed.

Lemma retrieve_ok : forall h bl, bl <> [] ->
  retrieve h bl OOk = (SSuccess bl, CGetIDs h :: map (get_call h) (chunks bl)).
Proof.
  intros h bl Hne. cbn [retrieve]. unfold fetch_listed. destruct bl as [|b bl']; [congruence|].
  rewrite get_chunks_none. rewrite chunks_concat. reflexivity.
Qed.

Lemma retrieve_chunk_err : forall h bl i e, (i < length (chunks bl))%nat ->
  retrieve h bl (OChunkErr i e) = (SError (e_fut e), CGetIDs h :: map (get_call h) (firstn (S i) (chunks bl))).
Proof.
  intros h bl i e Hi. cbn [retrieve]. unfold fetch_listed. destruct bl as [|b bl']; [cbn in Hi; lia|].
  rewrite get_chunks_fail; [|lia|lia]. rewrite Nat.sub_0_r. reflexivity.
Qed.

Lemma chunks_all : forall (h : N) (bl : list blob),
  concat (map snd (chunks bl)) = bl /\
  (forall k off c, nth_error (chunks bl) k = Some (off, c) ->
       off = (k * batch_size)%nat /\ c = firstn batch_size (skipn (k * batch_size) bl) /\ c <> []) /\
  (bl <> [] -> retrieve h bl OOk = (SSuccess bl, CGetIDs h :: map (get_call h) (chunks bl))) /\
  (forall i e, (i < length (chunks bl))%nat ->
       retrieve h bl (OChunkErr i e) =
       (SError (e_fut e), CGetIDs h :: map (get_call h) (firstn (S i) (chunks bl)))).
Proof.
  intros h bl. split; [apply chunks_concat|]. split; [apply chunks_nth|].
  split; [apply retrieve_ok | apply retrieve_chunk_err].
Qed.

(* ---- handling a fetched blob list ------------------------------------------------------------------ *)
Lemma handle_spec : forall c daH bl, fst (handle c daH bl) = genuine_events c daH bl.
Proof.
  intros c daH. induction bl as [|b r IH]; [reflexivity|].
  cbn [handle genuine_events flat_map]. destruct (handle c daH r) as [ev mk]. cbn [fst] in IH. subst ev.
  destruct b; cbn [fst app]; try reflexivity.
  - destruct (mem id (c_seen_h c)); reflexivity.
  - destruct (mem id (c_seen_d c)); reflexivity.
Qed.

(* ---- attempts --------------------------------------------------------------------------------------- *)
Lemma last_app1 : forall (l : list aclass) a d, last (l ++ [a]) d = a.
Proof. intros. apply last_last. Qed.

Lemma last_repeat_error : forall k, last (repeat AError k) AError = AError.
Proof. induction k as [|k IH]; [reflexivity|]. cbn [repeat]. destruct (repeat AError k) eqn:E; [reflexivity|]. exact IH. Qed.

Definition events_for (c : cfg) (h : N) (bl : list blob) (cl : list aclass) : list event :=
  if succeeded cl then genuine_events c h bl else [].

Lemma succeeded_cons_error : forall cl, succeeded (AError :: cl) = succeeded cl.
Proof. intro cl. unfold succeeded. destruct cl; reflexivity. Qed.

Definition attempts_post (c : cfg) (h : N) (bl : list blob) (n : nat) (p : pout) : Prop :=
  (n <> O -> exists rest, p_calls p = CGetIDs h :: rest) /\
  Forall (call_at h) (p_calls p) /\
  (exists k : nat,
      (k = n /\ p_classes p = repeat AError k /\ p_res p = PErr) \/
      ((k < n)%nat /\ exists a, deciding a /\ p_classes p = repeat AError k ++ [a] /\ p_res p = result_of a)) /\
  p_events p = events_for c h bl (p_classes p).

Lemma attempts_spec : forall c h bl n outs, attempts_post c h bl n (attempts c h bl n outs).
Proof.
  intros c h bl n. unfold attempts_post. induction n as [|n IH]; intros outs.
  - cbn. split; [congruence|]. split; [constructor|]. split; [|reflexivity].
    exists O. left. repeat split; reflexivity.
  - cbn [attempts].
    set (o := match outs with [] => OListErr err_future | o :: _ => o end).
    destruct (retrieve_spec h bl o) as ((rest & Hc) & Hall & Hgot).
    destruct (retrieve h bl o) as [st calls] eqn:E. cbn [fst snd] in *.
    destruct st as [got| | |[|]].
    + (* success *)
      specialize (Hgot got eq_refl). subst got.
      pose proof (handle_spec c h bl) as He.
      destruct (handle c h bl) as [ev mk]. cbn [fst] in He. subst.
      cbn [p_calls p_classes p_res p_events].
      split; [intros _; eexists; reflexivity|]. split; [exact Hall|]. split.
      * exists O. right. split; [lia|]. exists ASuccess. split; [discriminate|]. split; [reflexivity|].
        cbn [result_of]. reflexivity.
      * reflexivity.
    + cbn [p_calls p_classes p_res p_events].
      split; [intros _; eexists; exact Hc|]. split; [exact Hall|]. split; [|reflexivity].
      exists O. right. split; [lia|]. exists ANotFound. split; [discriminate|]. split; reflexivity.
    + cbn [p_calls p_classes p_res p_events].
      split; [intros _; eexists; exact Hc|]. split; [exact Hall|]. split; [|reflexivity].
      exists O. right. split; [lia|]. exists AFuture. split; [discriminate|]. split; reflexivity.
    + cbn [p_calls p_classes p_res p_events].
      split; [intros _; eexists; exact Hc|]. split; [exact Hall|]. split; [|reflexivity].
      exists O. right. split; [lia|]. exists AErrFut. split; [discriminate|]. split; reflexivity.
    + (* transient error: retry *)
      specialize (IH (tl outs)). destruct IH as (_ & IHall & (k & IHk) & IHev).
      cbn [p_calls p_classes p_res p_events].
      split; [intros _; subst calls; eexists; cbn; reflexivity|].
      split; [apply Forall_app; split; assumption|]. split.
      * exists (S k). destruct IHk as [(Hk & Hcl & Hr)|(Hk & a & Ha & Hcl & Hr)].
        -- left. subst k. rewrite Hcl. repeat split; auto.
        -- right. split; [lia|]. exists a. rewrite Hcl. repeat split; auto.
      * rewrite IHev. unfold events_for. rewrite succeeded_cons_error. reflexivity.
Qed.

(* ---- per-record facts -------------------------------------------------------------------------------- *)
Lemma mk_rec_ok_gen : forall (c : cfg) (h : N) (loop : bool) (bl : list blob) (p : pout) (next : N),
  attempts_post c h bl retries p ->
  next = (match p_res p with PNil => if loop then h + 1 else h | _ => h end) ->
  rec_ok (mk_rec h loop bl p next) /\ emits_ok c (mk_rec h loop bl p next).
Proof.
  intros c h loop bl p next (Hc & Hall & Hk & Hev) Hn. unfold events_for in Hev.
  assert (Hr : retries <> O) by (unfold retries; discriminate).
  split.
  - unfold rec_ok, mk_rec. cbn [i_calls i_height i_classes i_result i_blobs i_next i_loop].
    split; [apply Hc; exact Hr|]. split; [exact Hall|]. split; [exact Hk|exact Hn].
  - unfold emits_ok, mk_rec. cbn [i_events i_classes i_height i_blobs]. exact Hev.
Qed.

Lemma process_post : forall c h hi, attempts_post c h (h_blobs hi) retries (process c h hi).
Proof. intros c h hi. exact (attempts_spec c h (h_blobs hi) retries (h_outs hi)). Qed.

Lemma mk_rec_ok : forall (c : cfg) (h : N) (loop : bool) (hi : hinfo) (next : N),
  next = (match p_res (process c h hi) with PNil => if loop then h + 1 else h | _ => h end) ->
  rec_ok (mk_rec h loop (h_blobs hi) (process c h hi) next) /\
  emits_ok c (mk_rec h loop (h_blobs hi) (process c h hi) next).
Proof. intros c h loop hi next Hn. apply mk_rec_ok_gen; [apply process_post|exact Hn]. Qed.

(* ---- the loop ---------------------------------------------------------------------------------------- *)
Definition rec_good (c : cfg) (r : iter_rec) : Prop := rec_ok r /\ emits_ok c r.

Lemma last_next_cons : forall cur r rs, last_next cur (r :: rs) = last_next (i_next r) rs.
Proof. reflexivity. Qed.

Lemma last_next_app : forall a b cur, last_next cur (a ++ b) = last_next (last_next cur a) b.
Proof. intros. unfold last_next. apply fold_left_app. Qed.

Lemma linked_app : forall a b cur, linked cur a -> linked (last_next cur a) b -> linked cur (a ++ b).
Proof.
  induction a as [|r a IH]; intros b cur Ha Hb; [exact Hb|].
  cbn [app linked] in *. destruct Ha as [H1 H2]. split; [exact H1|]. apply IH; [exact H2|exact Hb].
Qed.

(* content invariant: the model's remaining DA is the described DA from the cursor on *)
Definition aligned (c : cfg) (da : list hinfo) (cur : N) (rest : list hinfo) : Prop :=
  exists pre, map h_blobs da = pre ++ map h_blobs rest /\ cur = boot c + N.of_nat (length pre).

Lemma aligned_content : forall c da cur rest, aligned c da cur rest ->
  content c da cur = h_blobs (hd no_height rest).
Proof.
  intros c da cur rest (pre & Hm & Hc). unfold content.
  replace (cur <? boot c) with false by lia.
  replace (N.to_nat (cur - boot c)) with (length pre) by lia.
  rewrite Hm. rewrite app_nth2 by lia. rewrite Nat.sub_diag.
  destruct rest; reflexivity.
Qed.

Lemma aligned_next : forall c da cur hi rest, aligned c da cur (hi :: rest) -> aligned c da (cur + 1) rest.
Proof.
  intros c da cur hi rest (pre & Hm & Hc). exists (pre ++ [h_blobs hi]). split.
  - rewrite Hm. cbn [map]. rewrite <- app_assoc. reflexivity.
  - rewrite app_length. cbn [length]. lia.
Qed.

Lemma aligned_same : forall c da cur hi rest outs,
  aligned c da cur (hi :: rest) -> aligned c da cur ({| h_blobs := h_blobs hi; h_outs := outs |} :: rest).
Proof. intros c da cur hi rest outs (pre & Hm & Hc). exists pre. split; [exact Hm|exact Hc]. Qed.

Definition rec_content (c : cfg) (da : list hinfo) (r : iter_rec) : Prop := i_blobs r = content c da (i_height r).

Lemma scan_spec : forall c da rest cur, aligned c da cur rest ->
  let '(st, recs) := scan c cur rest in
  linked cur recs /\ Forall (rec_good c) recs /\ Forall (rec_content c da) recs /\
  s_cursor st = last_next cur recs /\ aligned c da (s_cursor st) (s_rest st) /\ recs <> [].
Proof.
  intros c da rest. induction rest as [|hi rest' IH]; intros cur Hal.
  - cbn [scan].
    assert (Hres : p_res (process c cur no_height) = PFuture) by reflexivity.
    destruct (mk_rec_ok c cur true no_height cur) as [Hok Hem]; [rewrite Hres; reflexivity|].
    split; [cbn [linked mk_rec i_height i_next]; auto|]. split; [constructor; [split; assumption|constructor]|].
    split; [constructor; [|constructor]; unfold rec_content; cbn [i_blobs i_height mk_rec];
            rewrite (aligned_content _ _ _ _ Hal); reflexivity|].
    split; [reflexivity|]. split; [exact Hal|]. discriminate.
  - cbn [scan].
    assert (Hcont : h_blobs hi = content c da cur) by (rewrite (aligned_content _ _ _ _ Hal); reflexivity).
    destruct (p_res (process c cur hi)) eqn:Hres.
    + (* advanced *)
      specialize (IH (cur + 1) (aligned_next _ _ _ _ _ Hal)).
      destruct (scan c (cur + 1) rest') as [st recs].
      destruct IH as (Hl & Hg & Hct & Hcur & Hal' & Hne).
      destruct (mk_rec_ok c cur true hi (cur + 1)) as [Hok Hem]; [rewrite Hres; reflexivity|].
      split; [cbn [linked]; split; [reflexivity|exact Hl]|].
      split; [constructor; [split; assumption|exact Hg]|].
      split; [constructor; [exact Hcont|exact Hct]|].
      split; [rewrite last_next_cons; exact Hcur|]. split; [exact Hal'|]. discriminate.
    + destruct (mk_rec_ok c cur true hi cur) as [Hok Hem]; [rewrite Hres; reflexivity|].
      split; [cbn [linked mk_rec i_height i_next]; auto|]. split; [constructor; [split; assumption|constructor]|].
      split; [constructor; [exact Hcont|constructor]|].
      split; [reflexivity|]. split; [cbn [s_cursor s_rest]; apply aligned_same; exact Hal|]. discriminate.
    + destruct (mk_rec_ok c cur true hi cur) as [Hok Hem]; [rewrite Hres; reflexivity|].
      split; [cbn [linked mk_rec i_height i_next]; auto|]. split; [constructor; [split; assumption|constructor]|].
      split; [constructor; [exact Hcont|constructor]|].
      split; [reflexivity|]. split; [cbn [s_cursor s_rest]; apply aligned_same; exact Hal|]. discriminate.
Qed.

Lemma step_spec : forall c da st it, aligned c da (s_cursor st) (s_rest st) ->
  let '(st', recs) := step c st it in
  linked (s_cursor st) recs /\ Forall (rec_good c) recs /\ Forall (rec_content c da) recs /\
  s_cursor st' = last_next (s_cursor st) recs /\ aligned c da (s_cursor st') (s_rest st') /\ recs <> [].
Proof.
  intros c da st it Hal. destruct it; cbn [step].
  - apply scan_spec. exact Hal.
  - set (hi := hd no_height (s_rest st)).
    assert (Hcont : h_blobs hi = content c da (s_cursor st)) by (rewrite (aligned_content _ _ _ _ Hal); reflexivity).
    destruct (mk_rec_ok c (s_cursor st) false hi (s_cursor st)) as [Hok Hem];
      [destruct (p_res (process c (s_cursor st) hi)); reflexivity|].
    split; [cbn [linked mk_rec i_height i_next]; auto|]. split; [constructor; [split; assumption|constructor]|].
    split; [constructor; [exact Hcont|constructor]|].
    split; [cbn [last_next fold_left i_next mk_rec s_cursor]; reflexivity|].
    split; [|discriminate].
    cbn [s_cursor s_rest]. destruct (s_rest st) as [|hi0 r] eqn:Er; [exact Hal|].
    apply aligned_same. exact Hal.
Qed.

Lemma run_from_spec : forall c da h st, aligned c da (s_cursor st) (s_rest st) ->
  let '(st', rr) := run_from c st h in
  linked (s_cursor st) (concat rr) /\ Forall (rec_good c) (concat rr) /\ Forall (rec_content c da) (concat rr) /\
  s_cursor st' = last_next (s_cursor st) (concat rr) /\ aligned c da (s_cursor st') (s_rest st') /\
  length rr = length h /\ Forall (fun recs => recs <> []) rr.
Proof.
  intros c da h. induction h as [|it h IH]; intros st Hal.
  - cbn [run_from concat]. split; [exact I|]. split; [constructor|]. split; [constructor|]. split; [reflexivity|].
    split; [exact Hal|]. split; [reflexivity|constructor].
  - cbn [run_from]. pose proof (step_spec c da st it Hal) as S.
    destruct (step c st it) as [st1 recs]. destruct S as (A & B & C & D & E & F).
    specialize (IH st1 E). destruct (run_from c st1 h) as [st2 rr].
    destruct IH as (A' & B' & C' & D' & E' & L' & F').
    cbn [concat].
    split; [apply linked_app; [exact A|rewrite <- D; exact A']|].
    split; [apply Forall_app; split; assumption|].
    split; [apply Forall_app; split; assumption|].
    split; [rewrite last_next_app, <- D; exact D'|]. split; [exact E'|].
    split; [cbn [length]; rewrite L'; reflexivity|]. constructor; assumption.
Qed.

Lemma aligned_init : forall c da, aligned c da (s_cursor (init c da)) (s_rest (init c da)).
Proof. intros c da. exists []. split; [reflexivity|]. cbn. lia. Qed.

(* ---- the theorems of Props/C09.v --------------------------------------------------------------------- *)
Lemma cursor_thm : forall c da h,
  linked (boot c) (iterations c da h) /\
  Forall rec_ok (iterations c da h) /\
  s_cursor (final c da h) = last_next (boot c) (iterations c da h).
Proof.
  intros c da h. unfold iterations, final, run.
  pose proof (run_from_spec c da h (init c da) (aligned_init c da)) as S.
  destruct (run_from c (init c da) h) as [st rr]. cbn [fst snd].
  destruct S as (A & B & _ & D & _ & _ & _). split; [exact A|]. split; [|exact D].
  eapply Forall_impl; [|exact B]. intros r [H _]. exact H.
Qed.

Lemma emits_thm : forall c da h,
  Forall (fun r => emits_ok c r /\ i_blobs r = content c da (i_height r)) (iterations c da h).
Proof.
  intros c da h. unfold iterations, run.
  pose proof (run_from_spec c da h (init c da) (aligned_init c da)) as S.
  destruct (run_from c (init c da) h) as [st rr]. cbn [fst snd].
  destruct S as (_ & B & C & _ & _ & _ & _).
  rewrite Forall_forall in *. intros r Hr. split; [apply (B r Hr)|apply (C r Hr)].
Qed.

(* a linked chain of steps of +0/+1 passes every height between its ends in a +1 step *)
Lemma passes_every : forall its cur n,
  linked cur its ->
  Forall (fun r => i_next r = i_height r \/ i_next r = i_height r + 1) its ->
  cur <= n < last_next cur its ->
  exists r, In r its /\ i_height r = n /\ i_next r = n + 1.
Proof.
  induction its as [|r rs IH]; intros cur n Hl Hs Hn.
  - cbn in Hn. lia.
  - cbn [linked] in Hl. destruct Hl as [Hh Hl]. inversion Hs as [|? ? Hr Hrs]; subst.
    rewrite last_next_cons in Hn.
    destruct (N.eq_dec (i_height r) n) as [E|E].
    + destruct Hr as [Hr|Hr].
      * destruct (IH (i_next r) n Hl Hrs) as (r' & Hin & A & B); [lia|]. exists r'. split; [right; exact Hin|auto].
      * exists r. split; [left; reflexivity|]. split; [exact E|lia].
    + destruct (IH (i_next r) n Hl Hrs) as (r' & Hin & A & B); [lia|]. exists r'. split; [right; exact Hin|auto].
Qed.

Lemma rec_ok_step : forall r, rec_ok r -> i_next r = i_height r \/ i_next r = i_height r + 1.
Proof.
  intros r (_ & _ & _ & Hn). rewrite Hn. destruct (i_result r); auto. destruct (i_loop r); auto.
Qed.

Lemma no_skip_thm : forall c da h n,
  boot c <= n < s_cursor (final c da h) ->
  exists r, In r (iterations c da h) /\ i_height r = n /\ i_next r = n + 1 /\
            i_loop r = true /\ i_result r = PNil /\
            (last (i_classes r) AError = ASuccess \/ last (i_classes r) AError = ANotFound) /\
            i_events r = (if succeeded (i_classes r) then genuine_events c n (content c da n) else []).
Proof.
  intros c da h n Hn.
  destruct (cursor_thm c da h) as (Hl & Hok & Hc). rewrite Hc in Hn.
  destruct (passes_every _ _ _ Hl (Forall_impl _ rec_ok_step Hok) Hn) as (r & Hin & Hh & Hnx).
  exists r. split; [exact Hin|]. split; [exact Hh|]. split; [exact Hnx|].
  pose proof (proj1 (Forall_forall _ _) Hok r Hin) as Hr.
  pose proof (proj1 (Forall_forall _ _) (emits_thm c da h) r Hin) as [Hem Hct].
  assert (Hadv : i_next r = i_height r + 1) by lia.
  destruct Hr as (Hc1 & Hc2 & (k & Hk) & Hnext).
  rewrite Hnext in Hadv.
  destruct (i_result r) eqn:Hres; try lia. destruct (i_loop r) eqn:Hlp; try lia.
  split; [reflexivity|]. split; [reflexivity|].
  destruct Hk as [(_ & _ & Hx)|(Hk & a & Ha & Hcl & Hx)]; [discriminate|].
  unfold emits_ok in Hem. rewrite Hct, Hh in Hem.
  split; [|exact Hem].
  rewrite Hcl, last_last.
  destruct a; cbn [result_of] in Hx; try discriminate; auto.
Qed.

Lemma run_from_app : forall c h1 h2 st,
  run_from c st (h1 ++ h2) =
  let '(st1, r1) := run_from c st h1 in let '(st2, r2) := run_from c st1 h2 in (st2, r1 ++ r2).
Proof.
  intros c h1. induction h1 as [|it h1 IH]; intros h2 st.
  - cbn [app run_from]. destruct (run_from c st h2); reflexivity.
  - cbn [app run_from]. destruct (step c st it) as [st1 recs]. rewrite IH.
    destruct (run_from c st1 h1) as [st2 r1]. destruct (run_from c st2 h2) as [st3 r2]. reflexivity.
Qed.

Lemma last_next_mono : forall its cur, Forall (fun r => i_next r = i_height r \/ i_next r = i_height r + 1) its ->
  linked cur its -> cur <= last_next cur its.
Proof.
  induction its as [|r rs IH]; intros cur Hs Hl; [cbn; lia|].
  inversion Hs as [|? ? Hr Hrs]; subst. cbn [linked] in Hl. destruct Hl as [Hh Hl].
  rewrite last_next_cons. specialize (IH (i_next r) Hrs Hl). lia.
Qed.

Lemma rec_good_step : forall c r, rec_good c r -> i_next r = i_height r \/ i_next r = i_height r + 1.
Proof. intros c r [H _]. apply rec_ok_step. exact H. Qed.

Lemma monotone_thm : forall c da h1 h2,
  boot c <= s_cursor (final c da h1) /\ s_cursor (final c da h1) <= s_cursor (final c da (h1 ++ h2)).
Proof.
  intros c da h1 h2. unfold final, run. rewrite run_from_app.
  pose proof (run_from_spec c da h1 (init c da) (aligned_init c da)) as S1.
  destruct (run_from c (init c da) h1) as [st1 r1].
  destruct S1 as (A1 & B1 & _ & D1 & E1 & _ & _).
  pose proof (run_from_spec c da h2 st1 E1) as S2.
  destruct (run_from c st1 h2) as [st2 r2].
  destruct S2 as (A2 & B2 & _ & D2 & _ & _ & _).
  cbn [fst]. split.
  - rewrite D1. apply last_next_mono; [eapply Forall_impl; [apply rec_good_step|exact B1]|exact A1].
  - rewrite D2. apply last_next_mono; [eapply Forall_impl; [apply rec_good_step|exact B2]|exact A2].
Qed.

Lemma served_thm : forall c da h,
  length (snd (run c da h)) = length h /\ Forall (fun recs => recs <> []) (snd (run c da h)).
Proof.
  intros c da h. unfold run.
  pose proof (run_from_spec c da h (init c da) (aligned_init c da)) as S.
  destruct (run_from c (init c da) h) as [st rr]. cbn [snd].
  destruct S as (_ & _ & _ & _ & _ & L & F). split; assumption.
Qed.

(* any blob list, fetched successfully, is survived: the call returns nil and hands over exactly the genuine
   unseen items, whatever else is in the list *)
Lemma attempts_ok_first : forall c h (bl : list blob) n outs, bl <> [] ->
  let p := attempts c h bl (S n) (OOk :: outs) in
  p_res p = PNil /\ p_events p = genuine_events c h bl /\ p_outs p = outs.
Proof.
  intros c h bl n outs Hne. cbn [attempts tl]. rewrite (retrieve_ok h bl Hne).
  pose proof (handle_spec c h bl) as He. destruct (handle c h bl) as [ev mk]. cbn [fst] in He. subst ev.
  cbn [p_res p_events p_outs]. repeat split; reflexivity.
Qed.

Lemma survives_thm : forall c h (bl : list blob) outs, bl <> [] ->
  let p := attempts c h bl retries (OOk :: outs) in
  p_res p = PNil /\ p_events p = genuine_events c h bl /\ p_outs p = outs.
Proof. intros c h bl outs Hne. apply (attempts_ok_first c h bl 9 outs Hne). Qed.

(* ==== the loop with its two wake-up channels (Model/Retriever.v, lturn / lrun) ========================= *)

Lemma process_no_height : forall c cur, p_res (process c cur no_height) = PFuture.
Proof. reflexivity. Qed.

(* one iteration: examines the cursor's height; passes it (by one) exactly when the call returned nil *)
Lemma iterate_spec : forall c st,
  let '(st1, r, adv) := iterate c st in
  i_height r = s_cursor st /\ i_loop r = true /\ s_cursor st1 = i_next r /\
  (adv = true <-> i_result r = PNil) /\
  i_next r = (if adv then s_cursor st + 1 else s_cursor st) /\
  (adv = true -> exists hi, s_rest st = hi :: s_rest st1) /\
  (adv = false -> length (s_rest st1) = length (s_rest st)).
Proof.
  intros c [cur rest]. unfold iterate. cbn [s_cursor s_rest]. destruct rest as [|hi rest'].
  - cbn [mk_rec i_height i_loop i_next i_result s_cursor s_rest]. rewrite process_no_height.
    repeat split; try reflexivity; try discriminate.
  - destruct (p_res (process c cur hi)) eqn:Hres;
      cbn [mk_rec i_height i_loop i_next i_result s_cursor s_rest]; rewrite ?Hres;
      repeat split; try reflexivity; try discriminate.
    intros _. exists hi. reflexivity.
Qed.

(* [scan] is [iterate] repeated as long as the height is passed *)
Lemma scan_iterate : forall c st,
  scan c (s_cursor st) (s_rest st) =
  let '(st1, r, adv) := iterate c st in
  if adv then let '(st2, rs) := scan c (s_cursor st1) (s_rest st1) in (st2, r :: rs) else (st1, [r]).
Proof.
  intros c [cur rest]. unfold iterate. cbn [s_cursor s_rest]. destruct rest as [|hi rest'].
  - reflexivity.
  - cbn [scan]. destruct (p_res (process c cur hi)); cbn [s_cursor s_rest]; reflexivity.
Qed.

Lemma send_token_nonblocking : forall full, send_token RNonBlocking full = Some true.
Proof. destruct full; reflexivity. Qed.

(* ---- the re-arm never blocks ------------------------------------------------------------------------- *)
Lemma lturn_not_stuck : forall c ls t, l_stuck ls = false -> l_stuck (fst (lturn RNonBlocking c ls t)) = false.
Proof.
  intros c ls t Hs. unfold lturn. rewrite Hs.
  destruct (negb (l_tick ls || l_tok ls)); [reflexivity|].
  destruct (iterate c (l_scan ls)) as [[st1 r] adv].
  destruct adv; [rewrite send_token_nonblocking|]; reflexivity.
Qed.

Lemma never_blocks_thm : forall c ts ls, l_stuck ls = false -> l_stuck (fst (lrun RNonBlocking c ls ts)) = false.
Proof.
  intros c ts. induction ts as [|t ts IH]; intros ls Hs; [exact Hs|].
  cbn [lrun]. pose proof (lturn_not_stuck c ls t Hs) as H1.
  destruct (lturn RNonBlocking c ls t) as [ls1 recs]. cbn [fst] in H1.
  specialize (IH ls1 H1). destruct (lrun RNonBlocking c ls1 ts) as [ls2 rr]. exact IH.
Qed.

(* ---- every pending wake-up is served, whichever channel select takes and whenever ticks arrive; after a
   passed height the token is in the channel again, so the next select does not wait -------------------- *)
Lemma turn_served_thm : forall c ls t,
  l_stuck ls = false -> l_tick ls || l_tok ls = true ->
  exists r, snd (lturn RNonBlocking c ls t) = [r] /\
            i_height r = s_cursor (l_scan ls) /\ i_loop r = true /\
            l_stuck (fst (lturn RNonBlocking c ls t)) = false /\
            s_cursor (l_scan (fst (lturn RNonBlocking c ls t))) = i_next r /\
            (i_result r = PNil -> l_tok (fst (lturn RNonBlocking c ls t)) = true /\ i_next r = i_height r + 1) /\
            (i_result r <> PNil -> i_next r = i_height r).
Proof.
  intros c ls t Hs Hp. unfold lturn. rewrite Hs, Hp. cbn [negb].
  pose proof (iterate_spec c (l_scan ls)) as S.
  destruct (iterate c (l_scan ls)) as [[st1 r] adv].
  destruct S as (Hh & Hl & Hc & Hadv & Hn & _ & _).
  exists r. destruct adv.
  - rewrite send_token_nonblocking. cbn [fst snd l_stuck l_scan l_tok].
    split; [reflexivity|]. split; [exact Hh|]. split; [exact Hl|]. split; [reflexivity|]. split; [exact Hc|].
    split.
    + intros _. split; [reflexivity|]. rewrite Hn, Hh. reflexivity.
    + intros Hne. exfalso. apply Hne. apply Hadv. reflexivity.
  - cbn [fst snd l_stuck l_scan l_tok].
    split; [reflexivity|]. split; [exact Hh|]. split; [exact Hl|]. split; [reflexivity|]. split; [exact Hc|].
    split.
    + intros Hr. apply Hadv in Hr. discriminate.
    + intros _. rewrite Hn, Hh. reflexivity.
Qed.

(* ---- ticks and select's choices only decide HOW MANY wake-ups are served: the iterations of any loop run
   are an initial part of the iterations of [scan]-wake-ups served one after the other ----------------- *)
Lemma run_from_signal : forall c st k,
  run_from c st (repeat ISignal (S k)) =
  let '(st1, recs) := scan c (s_cursor st) (s_rest st) in
  let '(st2, rr) := run_from c st1 (repeat ISignal k) in (st2, recs :: rr).
Proof. reflexivity. Qed.

Lemma lrun_refines_gen : forall c ts ls, l_stuck ls = false ->
  exists k, is_prefix (literations RNonBlocking c ls ts) (concat (snd (run_from c (l_scan ls) (repeat ISignal k)))).
Proof.
  intros c ts. induction ts as [|t ts IH]; intros ls Hs.
  - exists O. exists []. reflexivity.
  - unfold literations. cbn [lrun].
    pose proof (lturn_not_stuck c ls t Hs) as Hs1.
    unfold lturn in *. rewrite Hs in *.
    destruct (negb (l_tick ls || l_tok ls)).
    + (* waiting: nothing happens *)
      cbn [fst] in Hs1.
      match goal with |- context [lrun RNonBlocking c ?l ts] => set (ls1 := l) in * end.
      destruct (IH ls1 Hs1) as (k & s & Hk). unfold literations in Hk.
      destruct (lrun RNonBlocking c ls1 ts) as [ls2 rr]. cbn [snd concat app] in *.
      exists k. exists s. exact Hk.
    + pose proof (scan_iterate c (l_scan ls)) as Hsc.
      destruct (iterate c (l_scan ls)) as [[st1 r] adv].
      destruct adv.
      * rewrite send_token_nonblocking in *. cbn [fst] in Hs1.
        match goal with |- context [lrun RNonBlocking c ?l ts] => set (ls1 := l) in * end.
        destruct (IH ls1 Hs1) as (k & s & Hk). unfold literations in Hk.
        destruct (lrun RNonBlocking c ls1 ts) as [ls2 rr]. cbn [snd concat] in *.
        subst ls1. cbn [l_scan] in Hk.
        destruct (scan c (s_cursor st1) (s_rest st1)) as [st2 rs] eqn:Esc.
        destruct k as [|k].
        -- (* the rest of the run made no iteration *)
           cbn [repeat run_from snd concat] in Hk.
           destruct (concat rr); [|destruct s; discriminate].
           exists 1%nat. rewrite run_from_signal, Hsc. cbn [repeat run_from snd concat].
           exists rs. rewrite app_nil_r. reflexivity.
        -- exists (S k). rewrite run_from_signal in Hk. rewrite Esc in Hk.
           rewrite run_from_signal, Hsc.
           destruct (run_from c st2 (repeat ISignal k)) as [st3 rr3]. cbn [snd concat] in *.
           exists s. cbn [app]. rewrite Hk. reflexivity.
      * cbn [fst] in Hs1.
        match goal with |- context [lrun RNonBlocking c ?l ts] => set (ls1 := l) in * end.
        destruct (IH ls1 Hs1) as (k & s & Hk). unfold literations in Hk.
        destruct (lrun RNonBlocking c ls1 ts) as [ls2 rr]. cbn [snd concat] in *.
        subst ls1. cbn [l_scan] in Hk.
        exists (S k). rewrite run_from_signal, Hsc.
        destruct (run_from c st1 (repeat ISignal k)) as [st3 rr3]. cbn [snd concat] in *.
        exists s. cbn [app]. rewrite Hk. reflexivity.
Qed.

Lemma ticks_refine_thm : forall c da tick ts,
  exists k, is_prefix (literations RNonBlocking c (linit c da tick) ts) (iterations c da (repeat ISignal k)).
Proof. intros c da tick ts. apply (lrun_refines_gen c ts (linit c da tick)). reflexivity. Qed.

(* ---- consequences for the chain of iterations of any loop run ------------------------------------------ *)
Lemma linked_prefix : forall a s cur, linked cur (a ++ s) -> linked cur a.
Proof.
  induction a as [|r a IH]; intros s cur H; [exact I|].
  cbn [app linked] in *. destruct H as [H1 H2]. split; [exact H1|]. eapply IH. exact H2.
Qed.

Lemma lrun_cursor : forall m c ts ls,
  s_cursor (l_scan (fst (lrun m c ls ts))) = last_next (s_cursor (l_scan ls)) (literations m c ls ts).
Proof.
  intros m c ts. induction ts as [|t ts IH]; intros ls; [reflexivity|].
  unfold literations in *. cbn [lrun].
  assert (H1 : s_cursor (l_scan (fst (lturn m c ls t))) = last_next (s_cursor (l_scan ls)) (snd (lturn m c ls t))).
  { unfold lturn. destruct (l_stuck ls); [reflexivity|].
    destruct (negb (l_tick ls || l_tok ls)); [reflexivity|].
    pose proof (iterate_spec c (l_scan ls)) as S.
    destruct (iterate c (l_scan ls)) as [[st1 r] adv]. destruct S as (_ & _ & Hc & _).
    destruct adv; [destruct (send_token m _)|]; cbn [fst snd l_scan]; exact Hc. }
  destruct (lturn m c ls t) as [ls1 recs]. cbn [fst snd] in H1.
  specialize (IH ls1). destruct (lrun m c ls1 ts) as [ls2 rr]. cbn [fst snd concat] in *.
  rewrite last_next_app, <- H1. exact IH.
Qed.

Lemma ticks_cursor_thm : forall c da tick ts,
  let its := literations RNonBlocking c (linit c da tick) ts in
  linked (boot c) its /\ Forall rec_ok its /\
  Forall (fun r => emits_ok c r /\ i_blobs r = content c da (i_height r)) its /\
  s_cursor (l_scan (fst (lrun RNonBlocking c (linit c da tick) ts))) = last_next (boot c) its.
Proof.
  intros c da tick ts its.
  destruct (ticks_refine_thm c da tick ts) as (k & s & Hk). fold its in Hk.
  destruct (cursor_thm c da (repeat ISignal k)) as (Hl & Hok & _).
  pose proof (emits_thm c da (repeat ISignal k)) as Hem.
  rewrite Hk in Hl, Hok, Hem.
  split; [eapply linked_prefix; exact Hl|].
  split; [apply Forall_app in Hok; apply Hok|].
  split; [apply Forall_app in Hem; apply Hem|].
  exact (lrun_cursor RNonBlocking c ts (linit c da tick)).
Qed.

Lemma ticks_no_skip_thm : forall c da tick ts n,
  boot c <= n < s_cursor (l_scan (fst (lrun RNonBlocking c (linit c da tick) ts))) ->
  exists r, In r (literations RNonBlocking c (linit c da tick) ts) /\ i_height r = n /\ i_next r = n + 1 /\
            i_loop r = true /\ i_result r = PNil /\
            (last (i_classes r) AError = ASuccess \/ last (i_classes r) AError = ANotFound) /\
            i_events r = (if succeeded (i_classes r) then genuine_events c n (content c da n) else []).
Proof.
  intros c da tick ts n Hn.
  destruct (ticks_cursor_thm c da tick ts) as (Hl & Hok & Hem & Hc). cbv zeta in *. rewrite Hc in Hn.
  destruct (passes_every _ _ _ Hl (Forall_impl _ rec_ok_step Hok) Hn) as (r & Hin & Hh & Hnx).
  exists r. split; [exact Hin|]. split; [exact Hh|]. split; [exact Hnx|].
  pose proof (proj1 (Forall_forall _ _) Hok r Hin) as Hr.
  pose proof (proj1 (Forall_forall _ _) Hem r Hin) as [Hem1 Hct].
  assert (Hadv : i_next r = i_height r + 1) by lia.
  destruct Hr as (Hc1 & Hc2 & (k & Hk) & Hnext).
  rewrite Hnext in Hadv.
  destruct (i_result r) eqn:Hres; try lia. destruct (i_loop r) eqn:Hlp; try lia.
  split; [reflexivity|]. split; [reflexivity|].
  destruct Hk as [(_ & _ & Hx)|(Hk & a & Ha & Hcl & Hx)]; [discriminate|].
  unfold emits_ok in Hem1. rewrite Hct, Hh in Hem1.
  split; [|exact Hem1].
  rewrite Hcl, last_last.
  destruct a; cbn [result_of] in Hx; try discriminate; auto.
Qed.

(* ---- catch-up: over heights the DA serves, the cursor reaches their end after as many turns, whatever
   ticks arrive during them and whichever ready channel select takes ------------------------------------- *)
Lemma catch_up_thm : forall c pre rest cur tick tok ts,
  tick || tok = true -> all_pass c cur pre -> length ts = length pre ->
  let ls' := fst (lrun RNonBlocking c {| l_scan := {| s_cursor := cur; s_rest := pre ++ rest |};
                                         l_tick := tick; l_tok := tok; l_stuck := false |} ts) in
  s_cursor (l_scan ls') = cur + N.of_nat (length pre) /\ s_rest (l_scan ls') = rest /\
  l_stuck ls' = false /\ l_tok ls' = (match pre with [] => tok | _ => true end) /\
  length (literations RNonBlocking c {| l_scan := {| s_cursor := cur; s_rest := pre ++ rest |};
                                        l_tick := tick; l_tok := tok; l_stuck := false |} ts) = length pre.
Proof.
  intros c pre rest. induction pre as [|hi pre IH]; intros cur tick tok ts Hp Hall Hlen.
  - destruct ts; [|discriminate]. cbn. repeat split; try reflexivity. lia.
  - destruct ts as [|t ts]; [discriminate|]. cbn [length] in Hlen.
    cbn [all_pass] in Hall. destruct Hall as [Hres Hall].
    unfold literations. cbn [lrun]. unfold lturn. cbn [l_stuck l_tick l_tok l_scan]. rewrite Hp. cbn [negb].
    unfold iterate. cbn [s_cursor s_rest app]. rewrite Hres. rewrite send_token_nonblocking.
    specialize (IH (cur + 1)
                   ((if (if tick && tok then t_pick_tick t else tick) then false else tick) || t_tick t)
                   true ts).
    cbv zeta in IH. unfold literations in IH.
    destruct (lrun RNonBlocking c _ ts) as [ls2 rr] eqn:E. cbn [fst snd concat] in *.
    destruct IH as (A & B & C & D & L); [apply orb_true_r|exact Hall|lia|].
    split; [rewrite A; cbn [length]; lia|]. split; [exact B|]. split; [exact C|].
    split; [destruct pre; exact D|].
    cbn [app length]. rewrite L. reflexivity.
Qed.

(* ==== the payload of signed data: handed over = posted ================================================== *)
Lemma map_id_tx : forall l : list tx, map (fun t : tx => t) l = l.
Proof. induction l as [|x l IH]; [reflexivity|]. cbn [map]. rewrite IH. reflexivity. Qed.

Lemma txs_eqb_refl : forall l, txs_eqb l l = true.
Proof. induction l as [|x l IH]; [reflexivity|]. cbn [txs_eqb]. rewrite N.eqb_refl, IH. reflexivity. Qed.

Lemma txs_eqb_eq : forall a b, txs_eqb a b = true <-> a = b.
Proof.
  induction a as [|x a IH]; intros [|y b]; cbn [txs_eqb]; split; intro H; try reflexivity; try discriminate.
  - apply andb_true_iff in H. destruct H as [H1 H2]. apply N.eqb_eq in H1. apply IH in H2. subst. reflexivity.
  - inversion H; subst. rewrite N.eqb_refl. apply txs_eqb_refl.
Qed.

(* the codec as it is: decode after encode is the identity on EVERY transaction list, zero-length
   entries in any position included *)
Lemma codec_roundtrip : forall l, slices_to_txs DCopyAll (txs_to_slices l) = l.
Proof. intro l. unfold slices_to_txs, txs_to_slices. rewrite !map_id_tx. reflexivity. Qed.

Lemma decode_copyall : forall sp, decode_sd DCopyAll sp = sp_wire sp.
Proof. intro sp. unfold decode_sd, slices_to_txs. apply map_id_tx. Qed.

(* the payload-level handler refines the class-level one, whatever the decoder does *)
Lemma phandle_erase : forall m c daH posts,
  map erase (phandle m c daH posts) = genuine_events c daH (map (classify m) posts).
Proof.
  intros m c daH. induction posts as [|p r IH]; [reflexivity|].
  cbn [phandle map genuine_events flat_map]. fold (genuine_events c daH (map (classify m) r)). rewrite <- IH.
  destruct p as [id|sp|k]; cbn [classify].
  - destruct (mem id (c_seen_h c)); reflexivity.
  - unfold classify_sd. destruct (decode_sd m sp) as [|t ts]; [reflexivity|].
    destruct (sp_meta sp); cbn [negb]; [|reflexivity].
    destruct (sig_valid sp (t :: ts)); cbn [negb]; [|reflexivity].
    destruct (mem (sp_id sp) (c_seen_d c)); reflexivity.
  - reflexivity.
Qed.

Lemma sig_valid_genuine : forall sp t ts, sp_wire sp = t :: ts -> sp_meta sp = true ->
  sig_valid sp (t :: ts) = genuineb sp.
Proof.
  intros sp t ts Hw Hm. unfold sig_valid, genuineb, txs_to_slices. rewrite map_id_tx, Hw, Hm.
  destruct (sp_signer sp); cbn [andb]; reflexivity.
Qed.

(* with the decoder as it is, what is handed over is exactly what was posted *)
Lemma phandle_posted : forall c daH posts, phandle DCopyAll c daH posts = posted_events c daH posts.
Proof.
  intros c daH. induction posts as [|p r IH]; [reflexivity|].
  cbn [phandle posted_events flat_map]. fold (posted_events c daH r). rewrite IH.
  destruct p as [id|sp|k].
  - destruct (mem id (c_seen_h c)); reflexivity.
  - rewrite decode_copyall. destruct (sp_wire sp) as [|t ts] eqn:Hw.
    + unfold genuineb. rewrite Hw, !andb_false_r. reflexivity.
    + destruct (sp_meta sp) eqn:Hm; cbn [negb].
      * rewrite (sig_valid_genuine sp t ts Hw Hm).
        destruct (genuineb sp); cbn [negb andb]; [|reflexivity].
        destruct (mem (sp_id sp) (c_seen_d c)); reflexivity.
      * unfold genuineb. rewrite Hm, andb_false_r. reflexivity.
  - reflexivity.
Qed.

Lemma genuine_admitted_thm : forall sp, genuineb sp = true ->
  classify_sd DCopyAll sp = BData (sp_id sp) /\ decode_sd DCopyAll sp = sp_wire sp.
Proof.
  intros sp Hg. split; [|apply decode_copyall].
  unfold classify_sd. rewrite decode_copyall.
  pose proof Hg as Hg'. unfold genuineb in Hg'.
  apply andb_true_iff in Hg'. destruct Hg' as [Hg' _]. apply andb_true_iff in Hg'. destruct Hg' as [Hg' Hne].
  apply andb_true_iff in Hg'. destruct Hg' as [_ Hm].
  destruct (sp_wire sp) as [|t ts] eqn:Hw; [discriminate|].
  rewrite Hm. cbn [negb]. rewrite (sig_valid_genuine sp t ts Hw Hm), Hg. reflexivity.
Qed.

Lemma content_da_of : forall m c pda n, content c (da_of m pda) n = map (classify m) (pcontent c pda n).
Proof.
  intros m c pda n. unfold content, pcontent. destruct (n <? boot c); [reflexivity|].
  unfold da_of. rewrite map_map. cbn [h_blobs].
  rewrite <- (map_map hp_posts (map (classify m))).
  change (@nil blob) with (map (classify m) []). rewrite map_nth. reflexivity.
Qed.

(* per iteration: erasing the payload of what is handed over gives the iteration's events (any decoder);
   with the decoder as it is, what is handed over is what was posted *)
Lemma handed_rec : forall m c pda r,
  i_events r = (if succeeded (i_classes r) then genuine_events c (i_height r) (content c (da_of m pda) (i_height r)) else []) ->
  map erase (handed m c pda r) = i_events r.
Proof.
  intros m c pda r He. unfold handed. rewrite He.
  destruct (succeeded (i_classes r)); [|reflexivity].
  rewrite phandle_erase, content_da_of. reflexivity.
Qed.

Lemma handed_posted : forall c pda r,
  handed DCopyAll c pda r =
  (if succeeded (i_classes r) then posted_events c (i_height r) (pcontent c pda (i_height r)) else []).
Proof. intros c pda r. unfold handed. rewrite phandle_posted. reflexivity. Qed.

Lemma handed_ok_of_emits : forall c pda r,
  emits_ok c r /\ i_blobs r = content c (da_of DCopyAll pda) (i_height r) -> handed_ok c pda r.
Proof.
  intros c pda r [He Hb]. unfold handed_ok. split; [rewrite Hb; apply content_da_of|].
  split; [|apply handed_posted].
  apply handed_rec. unfold emits_ok in He. rewrite He, Hb. reflexivity.
Qed.

Lemma hands_over_thm : forall c pda h,
  Forall (handed_ok c pda) (iterations c (da_of DCopyAll pda) h).
Proof.
  intros c pda h. eapply Forall_impl; [|apply emits_thm]. intros r H. apply handed_ok_of_emits. exact H.
Qed.

Lemma payload_no_skip_thm : forall c pda h n,
  boot c <= n < s_cursor (final c (da_of DCopyAll pda) h) ->
  exists r, In r (iterations c (da_of DCopyAll pda) h) /\ i_height r = n /\ i_next r = n + 1 /\
            i_loop r = true /\ i_result r = PNil /\
            (last (i_classes r) AError = ASuccess \/ last (i_classes r) AError = ANotFound) /\
            map erase (handed DCopyAll c pda r) = i_events r /\
            handed DCopyAll c pda r = (if succeeded (i_classes r) then posted_events c n (pcontent c pda n) else []).
Proof.
  intros c pda h n Hn.
  destruct (no_skip_thm c (da_of DCopyAll pda) h n Hn) as (r & Hin & Hh & Hnx & Hl & Hr & Hc & He).
  exists r. repeat (split; [assumption|]).
  pose proof (proj1 (Forall_forall _ _) (hands_over_thm c pda h) r Hin) as (_ & H1 & H2).
  rewrite Hh in H2. split; assumption.
Qed.

Lemma ticks_hands_over_thm : forall c pda tick ts,
  Forall (handed_ok c pda) (literations RNonBlocking c (linit c (da_of DCopyAll pda) tick) ts).
Proof.
  intros c pda tick ts.
  destruct (ticks_cursor_thm c (da_of DCopyAll pda) tick ts) as (_ & _ & Hem & _).
  eapply Forall_impl; [|exact Hem]. intros r H. apply handed_ok_of_emits. exact H.
Qed.

Lemma ticks_payload_no_skip_thm : forall c pda tick ts n,
  boot c <= n < s_cursor (l_scan (fst (lrun RNonBlocking c (linit c (da_of DCopyAll pda) tick) ts))) ->
  exists r, In r (literations RNonBlocking c (linit c (da_of DCopyAll pda) tick) ts) /\ i_height r = n /\ i_next r = n + 1 /\
            i_loop r = true /\ i_result r = PNil /\
            (last (i_classes r) AError = ASuccess \/ last (i_classes r) AError = ANotFound) /\
            map erase (handed DCopyAll c pda r) = i_events r /\
            handed DCopyAll c pda r = (if succeeded (i_classes r) then posted_events c n (pcontent c pda n) else []).
Proof.
  intros c pda tick ts n Hn.
  destruct (ticks_no_skip_thm c (da_of DCopyAll pda) tick ts n Hn) as (r & Hin & Hh & Hnx & Hl & Hr & Hc & He).
  exists r. repeat (split; [assumption|]).
  pose proof (proj1 (Forall_forall _ _) (ticks_hands_over_thm c pda tick ts) r Hin) as (_ & H1 & H2).
  rewrite Hh in H2. split; assumption.
Qed.

(* a genuine, unseen data blob among the posts is among the posted events, with its transaction list *)
Lemma posted_events_in : forall c daH posts sp,
  In (PSigned sp) posts -> genuineb sp = true -> mem (sp_id sp) (c_seen_d c) = false ->
  In (PEData (sp_id sp) daH (sp_wire sp)) (posted_events c daH posts).
Proof.
  intros c daH posts sp Hin Hg Hs. unfold posted_events. apply in_flat_map.
  exists (PSigned sp). split; [exact Hin|]. rewrite Hg, Hs. left. reflexivity.
Qed.

(* ---- the signature payload of headers --------------------------------------------------------------- *)
(* with the node's provider installed when ValidateBasic runs, a header blob is admitted iff it is genuine
   for the node's chain *)
Lemma hd_sig_valid_configured : forall conf hp, hd_sig_valid VConfigured conf hp = hd_genuineb conf hp.
Proof. reflexivity. Qed.

Lemma header_admitted_iff_thm : forall conf hp,
  (hd_genuineb conf hp = true -> view_hd VConfigured conf hp = PHeader (hd_id hp)) /\
  (hd_genuineb conf hp = false -> view_hd VConfigured conf hp = PJunk junk_bad_header).
Proof.
  intros conf hp. unfold view_hd. change (hd_sig_valid VConfigured conf hp) with (hd_genuineb conf hp).
  split; intros H; rewrite H; reflexivity.
Qed.

Lemma genuine_header_admitted_thm : forall conf hp m, hd_genuineb conf hp = true ->
  classify m (view VConfigured conf (XHeader hp)) = BHeader (hd_id hp).
Proof.
  intros conf hp m H. cbn [view]. rewrite (proj1 (header_admitted_iff_thm conf hp) H). reflexivity.
Qed.

(* on a chain with the default provider the fall-back cannot be told from the configured one *)
Lemma fallback_same_on_default_chain : forall x, view VFallback default_scheme x = view VConfigured default_scheme x.
Proof. intros [hp|p]; reflexivity. Qed.

Lemma pcontent_pda_of : forall v conf c xda n,
  pcontent c (pda_of v conf xda) n = map (view v conf) (xcontent c xda n).
Proof.
  intros v conf c xda n. unfold pcontent, xcontent. destruct (n <? boot c); [reflexivity|].
  unfold pda_of. rewrite map_map. cbn [hp_posts].
  rewrite <- (map_map xp_posts (map (view v conf))).
  change (@nil post) with (map (view v conf) []). rewrite map_nth. reflexivity.
Qed.

Lemma posted_events_admit : forall conf c daH xs,
  posted_events c daH (map (view VConfigured conf) xs) = xposted_events conf c daH xs.
Proof.
  intros conf c daH xs. unfold posted_events, xposted_events.
  induction xs as [|x r IH]; [reflexivity|].
  cbn [map flat_map]. rewrite IH. f_equal.
  destruct x as [hp|p].
  - cbn [view]. unfold view_hd. change (hd_sig_valid VConfigured conf hp) with (hd_genuineb conf hp).
    destruct (hd_genuineb conf hp); [|reflexivity].
    cbn [andb]. destruct (mem (hd_id hp) (c_seen_h c)); reflexivity.
  - cbn [view]. unfold posted_events. cbn [flat_map]. rewrite app_nil_r. reflexivity.
Qed.

Lemma xhanded_ok_of_handed_ok : forall conf c xda r,
  handed_ok c (pda_of VConfigured conf xda) r -> xhanded_ok VConfigured conf c xda r.
Proof.
  intros conf c xda r (_ & H1 & H2). split; [exact H1|].
  rewrite H2, pcontent_pda_of, posted_events_admit. reflexivity.
Qed.

Lemma hands_over_headers_thm : forall conf c xda h,
  Forall (xhanded_ok VConfigured conf c xda) (iterations c (da_of DCopyAll (pda_of VConfigured conf xda)) h).
Proof.
  intros conf c xda h. eapply Forall_impl; [|apply hands_over_thm].
  intros r H. apply xhanded_ok_of_handed_ok. exact H.
Qed.

Lemma ticks_hands_over_headers_thm : forall conf c xda tick ts,
  Forall (xhanded_ok VConfigured conf c xda)
         (literations RNonBlocking c (linit c (da_of DCopyAll (pda_of VConfigured conf xda)) tick) ts).
Proof.
  intros conf c xda tick ts. eapply Forall_impl; [|apply ticks_hands_over_thm].
  intros r H. apply xhanded_ok_of_handed_ok. exact H.
Qed.

Lemma headers_no_skip_thm : forall conf c xda h n,
  boot c <= n < s_cursor (final c (da_of DCopyAll (pda_of VConfigured conf xda)) h) ->
  exists r, In r (iterations c (da_of DCopyAll (pda_of VConfigured conf xda)) h) /\ i_height r = n /\ i_next r = n + 1 /\
            i_loop r = true /\ i_result r = PNil /\
            (last (i_classes r) AError = ASuccess \/ last (i_classes r) AError = ANotFound) /\
            map erase (handed DCopyAll c (pda_of VConfigured conf xda) r) = i_events r /\
            handed DCopyAll c (pda_of VConfigured conf xda) r =
            (if succeeded (i_classes r) then xposted_events conf c n (xcontent c xda n) else []).
Proof.
  intros conf c xda h n Hn.
  destruct (payload_no_skip_thm c (pda_of VConfigured conf xda) h n Hn) as (r & Hin & Hh & Hnx & Hl & Hr & Hc & He & Hp).
  exists r. repeat (split; [assumption|]).
  rewrite Hp, pcontent_pda_of, posted_events_admit. reflexivity.
Qed.

Lemma ticks_headers_no_skip_thm : forall conf c xda tick ts n,
  boot c <= n < s_cursor (l_scan (fst (lrun RNonBlocking c (linit c (da_of DCopyAll (pda_of VConfigured conf xda)) tick) ts))) ->
  exists r, In r (literations RNonBlocking c (linit c (da_of DCopyAll (pda_of VConfigured conf xda)) tick) ts) /\
            i_height r = n /\ i_next r = n + 1 /\ i_loop r = true /\ i_result r = PNil /\
            (last (i_classes r) AError = ASuccess \/ last (i_classes r) AError = ANotFound) /\
            map erase (handed DCopyAll c (pda_of VConfigured conf xda) r) = i_events r /\
            handed DCopyAll c (pda_of VConfigured conf xda) r =
            (if succeeded (i_classes r) then xposted_events conf c n (xcontent c xda n) else []).
Proof.
  intros conf c xda tick ts n Hn.
  destruct (ticks_payload_no_skip_thm c (pda_of VConfigured conf xda) tick ts n Hn) as (r & Hin & Hh & Hnx & Hl & Hr & Hc & He & Hp).
  exists r. repeat (split; [assumption|]).
  rewrite Hp, pcontent_pda_of, posted_events_admit. reflexivity.
Qed.

(* a genuine, unseen header of the chain among the posts is among the posted events *)
Lemma xposted_header_in : forall conf c daH xs hp,
  In (XHeader hp) xs -> hd_genuineb conf hp = true -> mem (hd_id hp) (c_seen_h c) = false ->
  In (PEHeader (hd_id hp) daH) (xposted_events conf c daH xs).
Proof.
  intros conf c daH xs hp Hin Hg Hs. unfold xposted_events. apply in_flat_map.
  exists (XHeader hp). split; [exact Hin|]. rewrite Hg, Hs. left. reflexivity.
Qed.
