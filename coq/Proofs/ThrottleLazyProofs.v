(* Proofs/ThrottleLazyProofs.v — proofs about Model/ThrottleLazy.v (C08: the limit inside the lazy aggregation loop). *)
From Coq Require Import NArith List Bool Lia.
From Verif Require Import Model.Throttle Proofs.ThrottleProofs Model.ThrottleLazy.
Import ListNotations.
Open Scope N_scope.

Lemma final_nil : forall c, final c [] = init_state c.
Proof. reflexivity. Qed.

Lemma final_snoc : forall c h i, final c (h ++ [i]) = fst (step c (final c h) i).
Proof.
  intros. rewrite final_app. cbn [run_from]. destruct (step c (final c h) i). reflexivity.
Qed.

Lemma produce_is_step : forall c s ne, produce c s ne = fst (step c s (IProduce ne)).
Proof. reflexivity. Qed.

(* the store / watermark / DA part of a reachable state of the node is the state after a history of Model/Throttle.v:
   every theorem about [final c hist] is a theorem about the node with its lazy loop *)
Lemma lreach_hist : forall c s, lreach c s -> exists hist, l_s s = final (l_c c) hist.
Proof.
  intros c s R. induction R as [| s t e R [h Hh] Hn Ht | s R [h Hh]].
  - exists []. reflexivity.
  - destruct e as [sc | sc |].
    + exists (h ++ [IHeaders sc]). rewrite final_snoc, <- Hh. unfold event.
      destruct (step (l_c c) (l_s s) (IHeaders sc)). reflexivity.
    + exists (h ++ [IData sc]). rewrite final_snoc, <- Hh. unfold event.
      destruct (step (l_c c) (l_s s) (IData sc)). reflexivity.
    + exists h. exact Hh.
  - exists (h ++ [IProduce (l_txs s)]). rewrite final_snoc, <- Hh. reflexivity.
Qed.

Lemma lreach_inv : forall c s, 1 <= c_init (l_c c) -> lreach c s -> Inv (l_c c) (l_s s).
Proof. intros c s Hi R. destruct (lreach_hist c s R) as [h Hh]. rewrite Hh. now apply final_inv. Qed.

Lemma next_attempt_le_lz : forall c s, next_attempt c s <= l_lz s.
Proof. intros. unfold next_attempt. destruct (l_avail s); lia. Qed.

(* an event leaves the timers alone *)
Lemma event_timers : forall c s t e,
  l_lz (fst (event c s t e)) = l_lz s /\ l_bk (fst (event c s t e)) = l_bk s /\ l_now (fst (event c s t e)) = t /\
  l_atts (fst (event c s t e)) = l_atts s.
Proof.
  intros. destruct e as [sc | sc |]; unfold event.
  - destruct (step (l_c c) (l_s s) (IHeaders sc)). cbn. auto.
  - destruct (step (l_c c) (l_s s) (IData sc)). cbn. auto.
  - cbn. auto.
Qed.

(* the lazy timer is always armed, at most one interval ahead *)
Lemma lreach_armed : forall c s, lreach c s ->
  l_now s <= l_lz s /\ l_lz s <= l_now s + N.max (l_li c) (l_bt c).
Proof.
  intros c s R. induction R as [| s t e R [H1 H2] Hn Ht | s R [H1 H2]].
  - cbn. lia.
  - destruct (event_timers c s t e) as [E1 [_ [E3 _]]]. rewrite E1, E3.
    pose proof (next_attempt_le_lz c s). lia.
  - cbn. lia.
Qed.

(* the block timer's next instant is not in the past *)
Lemma next_bk_ge_now : forall c s, 0 < l_bt c -> l_now s <= next_bk c s.
Proof.
  intros c s Hb. unfold next_bk. destruct (l_now s <=? l_bk s) eqn:E.
  - apply N.leb_le in E. exact E.
  - apply N.leb_gt in E. set (x := l_now s - l_bk s). set (b := l_bt c) in *.
    assert (Hx : l_now s = l_bk s + x) by (unfold x; lia).
    pose proof (N.div_mod (x + b - 1) b ltac:(lia)) as D.
    pose proof (N.mod_lt (x + b - 1) b ltac:(lia)) as M.
    rewrite Hx. replace (l_bk s + x - l_bk s) with x by lia. nia.
Qed.

(* the next call of publishBlock lies between now and the armed lazy timer *)
Lemma lreach_next_attempt : forall c s, 0 < l_bt c -> lreach c s ->
  l_now s <= next_attempt c s /\ next_attempt c s <= l_lz s.
Proof.
  intros c s Hb R. split; [|apply next_attempt_le_lz].
  destruct (lreach_armed c s R) as [H1 _]. pose proof (next_bk_ge_now c s Hb).
  unfold next_attempt. destruct (l_avail s); lia.
Qed.

(* EVERY attempt, produced or refused, re-arms both timers *)
Lemma attempt_rearms : forall c s,
  l_now (attempt c s) = next_attempt c s /\
  l_lz (attempt c s) = next_attempt c s + l_li c /\ l_bk (attempt c s) = next_attempt c s + l_bt c.
Proof. intros. cbn. auto. Qed.

(* with nothing else happening, the node's next step is that attempt, as soon as the horizon reaches its instant *)
Lemma lrun_quiet_attempts : forall f c s H, next_attempt c s <= H ->
  lrun (S f) c s [] H = lrun f c (attempt c s) [] H.
Proof. intros f c s H Hle. cbn [lrun]. apply N.leb_le in Hle. rewrite Hle. reflexivity. Qed.

(* no deadlock in lazy mode: in any reachable state in which fewer than L committed blocks wait for the DA layer (or
   there is no limit), the loop's next call of publishBlock comes no later than the armed lazy timer — at most one
   lazy interval (one block time, before the first block) after the last thing that happened — and it produces *)
Lemma c08_lazy_resumes : forall c s, 1 <= c_init (l_c c) -> lreach c s ->
  num_waiting_blocks (l_c c) (l_s s) < c_limit (l_c c) \/ c_limit (l_c c) = 0 ->
  next_attempt c s <= l_lz s /\ l_lz s <= l_now s + N.max (l_li c) (l_bt c) /\
  t_height (l_s (attempt c s)) = t_height (l_s s) + 1 /\
  l_atts (attempt c s) = (next_attempt c s, (true, t_height (l_s s) + 1)) :: l_atts s.
Proof.
  intros c s Hi R Hw.
  pose proof (settled_not_refused _ _ Hi (lreach_inv c s Hi R) Hw) as Hr.
  pose proof (not_refused_produces (l_c c) (l_s s) (l_txs s) Hr) as Hp.
  destruct (lreach_armed c s R) as [_ H2].
  split; [apply next_attempt_le_lz|]. split; [exact H2|].
  split; [exact Hp|]. unfold attempt. cbn [l_atts]. rewrite Hr, Hp. reflexivity.
Qed.

(* … and a DA layer that is back does get the node there: after ANY reachable state — an outage of any length, any
   number of refused attempts — one header and one data iteration (either order, at any instants before the next
   attempt) against a DA layer that accepts leave nothing waiting; the lazy timer is still armed where it was; the
   attempt it triggers produces a block.  Nothing of the refusals is remembered: not in the counts, not in the timers. *)
Lemma c08_lazy_resumes_after_outage : forall c s (hfirst : bool) sh sd t1 t2, 1 <= c_init (l_c c) -> lreach c s ->
  eventually_accepts sh -> eventually_accepts sd ->
  let e1 := if hfirst then LHeaders sh else LData sd in
  let e2 := if hfirst then LData sd else LHeaders sh in
  let s1 := fst (event c s t1 e1) in
  let s2 := fst (event c s1 t2 e2) in
  l_now s <= t1 -> t1 < next_attempt c s -> t1 <= t2 -> t2 < next_attempt c s1 ->
  lreach c s2 /\ num_waiting_blocks (l_c c) (l_s s2) = 0 /\ l_lz s2 = l_lz s /\
  next_attempt c s2 <= l_lz s /\ l_lz s <= l_now s + N.max (l_li c) (l_bt c) /\
  t_height (l_s (attempt c s2)) = t_height (l_s s) + 1 /\
  l_atts (attempt c s2) = (next_attempt c s2, (true, t_height (l_s s) + 1)) :: l_atts s.
Proof.
  intros c s hfirst sh sd t1 t2 Hi R Hsh Hsd e1 e2 s1 s2 Ht1 Hn1 Ht12 Hn2.
  assert (R1 : lreach c s1) by (apply lr_event; assumption).
  destruct (event_timers c s t1 e1) as [L1 [B1 [N1 A1]]]. fold s1 in L1, B1, N1, A1.
  assert (R2 : lreach c s2) by (apply lr_event; [exact R1 | lia | exact Hn2]).
  destruct (event_timers c s1 t2 e2) as [L2 [B2 [N2 A2]]]. fold s2 in L2, B2, N2, A2.
  assert (Hs2 : l_s s2 = fst (run_from (l_c c) (l_s s) (sub_round hfirst sh sd))).
  { subst s2 s1 e1 e2. destruct hfirst; unfold sub_round, event; cbn [run_from].
    - destruct (step (l_c c) (l_s s) (IHeaders sh)) as [a oa] eqn:Ea. cbn [fst l_s].
      destruct (step (l_c c) a (IData sd)) as [b ob] eqn:Eb. reflexivity.
    - destruct (step (l_c c) (l_s s) (IData sd)) as [a oa] eqn:Ea. cbn [fst l_s].
      destruct (step (l_c c) a (IHeaders sh)) as [b ob] eqn:Eb. reflexivity. }
  destruct (sub_round_settles (l_c c) (l_s s) hfirst sh sd Hi (lreach_inv c s Hi R) Hsh Hsd) as [I2 [E2 Z2]].
  rewrite <- Hs2 in I2, E2, Z2.
  assert (Hlz : l_lz s2 = l_lz s) by congruence.
  assert (Hw : num_waiting_blocks (l_c c) (l_s s2) < c_limit (l_c c) \/ c_limit (l_c c) = 0).
  { destruct (N.eq_dec (c_limit (l_c c)) 0); [now right | left; lia]. }
  destruct (c08_lazy_resumes c s2 Hi R2 Hw) as [Q1 [_ [Q3 Q4]]].
  destruct (lreach_armed c s R) as [_ Q0].
  repeat split; try assumption.
  - rewrite <- Hlz. exact Q1.
  - rewrite Q3, E2. reflexivity.
  - rewrite Q4, E2. congruence.
Qed.
