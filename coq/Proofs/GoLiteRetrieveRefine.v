(* Proofs/GoLiteRetrieveRefine.v — the translated retry loop of Manager.processNextDAHeaderAndData refines
   Retriever.attempts (Model/Retriever.v), the function the theorems of C09 ("DA scanning never skips a height, retries
   on failure") are stated over.

     attempts_is_examine   for EVERY configuration, DA height, blob list and script of DA outcomes: run the code's
                           attempts one after the other (Check/GoLiteRetrieveAttempt.examine — every attempt IS the
                           translated Go iteration, by go_processNext_iter) on the statuses the model's DA helper
                           (Retriever.retrieve) gives for the successive outcomes; the examination returns nil exactly
                           when the model's p_res is PNil, and an error exactly when it is PFuture / PErr.
     attempt_class_is_models   the code's reaction to ONE status is the model's class of that attempt (success /
                           not found end with nil; "from the future" — as a status, or as text inside an error
                           status — ends with that error; any other error goes round again).
   Composition with GoLiteRetrieveTick.go_RetrieveLoop (the register advances iff the examination returned nil) gives
   the cursor rule of Retriever.iterate from the translated code alone. *)
From Coq Require Import String List NArith ZArith Bool Lia.
From Verif Require Import Model.GoLite Check.GoLiteRetrieveAttempt.
From Verif Require Model.Retriever.
Import ListNotations.
Open Scope list_scope.
Import Retriever.

Definition class_of (st : status) : fetched :=
  match st with
  | SSuccess _ => FFound
  | SNotFound => FNotFound
  | SFuture => FFuture
  | SError true => FFailedFut
  | SError false => FFailed
  end.

(* the outcome the model reads at an attempt (Retriever.attempts: a script that has run out reads "from the future") *)
Definition outcome_at (outs : list outcome) : outcome := match outs with [] => OListErr err_future | o :: _ => o end.
Fixpoint classes (h : N) (bl : list blob) (n : nat) (outs : list outcome) : list fetched :=
  match n with
  | O => []
  | S n' => class_of (fst (retrieve h bl (outcome_at outs))) :: classes h bl n' (tl outs)
  end.

Definition is_pnil (p : presult) : bool := match p with PNil => true | _ => false end.

Lemma examine_decided : forall h prev r f rest, (r <? 10)%Z = true ->
  f <> FFailed -> examine h prev r (f :: rest) = Some (match f with FNotFound | FFound => true | _ => false end).
Proof.
  intros h prev r f rest Hr Hf. cbn [examine]. unfold attempt_expect, world_at; cbn [a_r a_cancel a_fetch a_h a_prev fst].
  rewrite Hr. cbn [negb]. destruct f; try reflexivity. contradiction.
Qed.

Theorem attempts_is_examine : forall (c : cfg) (h : N) (bl : list blob) (n : nat) (outs : list outcome) (r : Z) (prev : bool),
  (Z.of_nat n + r = 10)%Z -> (0 <= r)%Z -> (r = 0%Z \/ prev = true) ->
  examine h prev r (classes h bl n outs) = Some (is_pnil (p_res (attempts c h bl n outs))).
Proof.
  intros c h bl n. induction n as [|n IH]; intros outs r prev Hn Hr0 Hp.
  - cbn [classes examine attempts p_res is_pnil].
    assert (r = 10%Z) by lia. subst r. cbn. destruct Hp as [Hp|Hp]; [discriminate|]. rewrite Hp. reflexivity.
  - assert (Hr : (r <? 10)%Z = true) by (apply Z.ltb_lt; lia).
    cbn [classes attempts]. fold (outcome_at outs).
    destruct (retrieve h bl (outcome_at outs)) as [st calls] eqn:Hret. cbn [fst].
    destruct st as [got| | |[|]]; cbn [class_of].
    + rewrite examine_decided by (assumption || discriminate). destruct (handle c h got). reflexivity.
    + rewrite examine_decided by (assumption || discriminate). reflexivity.
    + rewrite examine_decided by (assumption || discriminate). reflexivity.
    + rewrite examine_decided by (assumption || discriminate). reflexivity.
    + rewrite (examine_failed h prev r FFailed _ Hr eq_refl).
      rewrite (IH (tl outs) (r + 1)%Z true) by (lia || auto). reflexivity.
Qed.

(* the statement for a whole examination as the node runs it: r = 0, no error yet, 10 attempts *)
Corollary examination_refines_process : forall (c : cfg) (h : N) (hi : hinfo),
  examine h false 0 (classes h (h_blobs hi) retries (h_outs hi)) = Some (is_pnil (p_res (process c h hi))).
Proof. intros c h hi. unfold process. apply attempts_is_examine; [reflexivity|lia|left; reflexivity]. Qed.

(* one attempt: the code's reaction is the model's class *)
Definition reaction (h : N) (prev : bool) (r : Z) (f : fetched) : aclass :=
  match fst (attempt_expect (world_at h prev r f)) with
  | [VTok _ []; _; _; _] => AError                        (* goes round again *)
  | [VNil] => match f with FNotFound => ANotFound | _ => ASuccess end
  | [VDAErr e] => if Proxy.is_sent e Proxy.SFuture then AFuture else AErrFut
  | _ => AError
  end.
Lemma attempt_class_is_models : forall h prev r st, (r <? 10)%Z = true ->
  reaction h prev r (class_of st) =
  match st with SSuccess _ => ASuccess | SNotFound => ANotFound | SFuture => AFuture | SError true => AErrFut | SError false => AError end.
Proof.
  intros h prev r st Hr. unfold reaction, attempt_expect, world_at; cbn [a_r a_cancel a_fetch a_h a_prev fst].
  rewrite Hr. cbn [negb]. destruct st as [got| | |[|]]; reflexivity.
Qed.

(* non-vacuity: a script with two failures, then a listing that succeeds *)
Example refines_somewhere :
  let hi := {| h_blobs := [BJunk 1]; h_outs := [OListErr {| e_nf := false; e_fut := false |};
                                                  OChunkErr 0 {| e_nf := false; e_fut := false |}; OOk] |} in
  classes 5 (h_blobs hi) retries (h_outs hi) = [FFailed; FFailed; FFound; FFuture; FFuture; FFuture; FFuture; FFuture; FFuture; FFuture]
  /\ examine 5 false 0 (classes 5 (h_blobs hi) retries (h_outs hi)) = Some true.
Proof. vm_compute. split; reflexivity. Qed.

Print Assumptions attempts_is_examine.
Print Assumptions examination_refines_process.
Print Assumptions attempt_class_is_models.
