(* Proofs/GoLiteReaperRefine.v — the selection loop of the translated Reaper.SubmitTxs refines Reaper.select
   (Model/Reaper.v), the function the theorems of C11 ("no transaction taken from the mempool is lost") use for what a
   reap hands to the sequencer.

   [code_select] walks over the transactions with the CODE's body: for each one it runs select_expect — which
   go_select_one proves IS the translated body of `for _, tx := range txs` — in the world the model describes (the
   transaction is in this batch already iff [memb t inb]; the seen-store has it iff [memb t sn]; the seen-store
   answers), reads the new value of newTxs off the body's own result and, from the body's calls, whether the hash
   was added to the batch set.
     code_select_is_select   for every seen set, batch set, selected-so-far list and transaction list the walk ends
                             with newTxs = (selected so far) ++ Reaper.select sn inb l.
     reap_hands_over_new_txs with go_SubmitTxs: the ONE SubmitBatchTxs of a reap carries exactly Reaper.new_txs. *)
From Coq Require Import String List NArith ZArith Bool Lia.
From Verif Require Import Model.GoLite Check.GoLiteReaper.
From Verif Require Model.Reaper.
Import ListNotations.
Open Scope list_scope.
Import Reaper.

Definition world_of (sn inb : list tx) (acc : list gval) (t : tx) : sworld :=
  {| s_tx := t; s_dup := memb t inb; s_hasok := true; s_has := memb t sn; s_new := acc |}.
Definition added (calls : list gval) : bool :=
  existsb (fun e => match e with VEff name _ => String.eqb name "pkg.$set_add" | _ => false end) calls.

Fixpoint code_select (sn inb : list tx) (acc : list gval) (l : list tx) : list gval :=
  match l with
  | [] => acc
  | t :: r =>
      let o := select_expect (world_of sn inb acc t) in
      match fst o with
      | [VList acc'; _] => code_select sn (if added (snd o) then t :: inb else inb) acc' r
      | _ => acc
      end
  end.

Theorem code_select_is_select : forall (sn : list tx) (l : list tx) (inb : list tx) (acc : list gval),
  code_select sn inb acc l = acc ++ map VN (select sn inb l).
Proof.
  intros sn l. induction l as [|t r IH]; intros inb acc; cbn [code_select select map].
  - rewrite app_nil_r. reflexivity.
  - unfold select_expect, world_of; cbn [s_tx s_dup s_hasok s_has s_new negb fst snd].
    destruct (memb t inb) eqn:Hd; cbn [fst snd].
    + rewrite IH. reflexivity.
    + destruct (memb t sn) eqn:Hs; cbn [fst snd].
      * cbn. rewrite IH. reflexivity.
      * cbn. rewrite IH. unfold lapp, tx_v; cbn [s_tx]. rewrite <- app_assoc. reflexivity.
Qed.

(* the batch a reap hands to the sequencer, read off the code: the selection over the pool from nothing *)
Corollary reap_hands_over_new_txs : forall (s : st),
  code_select (seen s) [] [] (mem s) = map VN (new_txs s).
Proof. intros s. rewrite code_select_is_select. reflexivity. Qed.

(* a seen-store that fails for a transaction: the code passes it over (it is offered again by the next reap) and the
   selection of the others is untouched *)
Lemma failing_lookup_passes_over : forall t dup has acc,
  fst (select_expect {| s_tx := t; s_dup := dup; s_hasok := false; s_has := has; s_new := acc |}) = [VList acc; set_v].
Proof. intros t dup has acc. unfold select_expect; cbn [s_dup s_hasok negb]. destruct dup; reflexivity. Qed.

(* non-vacuity *)
Example selects_somewhere : code_select [2%N] [] [] [1%N; 2%N; 1%N; 3%N] = [VN 1; VN 3].
Proof. vm_compute. reflexivity. Qed.

Print Assumptions code_select_is_select.
Print Assumptions reap_hands_over_new_txs.
Print Assumptions failing_lookup_passes_over.
