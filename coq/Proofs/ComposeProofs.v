(* Proofs/ComposeProofs.v — end-to-end composition lemmas that CONNECT the per-property models.
   Nothing here re-models anything: every definition below is a translation between the record types /
   event vocabularies of two existing models, every lemma is about the existing step functions.
     Part 1  Producer (C01/C04)  ->  Syncer (C02/C05)
     Part 2  Retriever (C09)     ->  Syncer (C02/C05)
     Part 3  Submitter (C06)     ->  Includer (C07)
     Part 4  Submitter (C06)     <-> Throttle (C08)  (see the end of the file)
   Statements are in Props/Compose.v; what is assumed and why is in Props/Compose.README. *)
From Coq Require Import String NArith ZArith List Bool Lia ZifyBool ZifyN ZifyNat.
From Verif Require Import Base.KV Base.Keys Model.Types.
From Verif Require Model.Producer Model.Syncer Proofs.ProducerProofs Proofs.SyncerProofs.
Import ListNotations.
Open Scope list_scope.
Open Scope N_scope.

Module P := Verif.Model.Producer.
Module PP := Verif.Proofs.ProducerProofs.
Module S := Verif.Model.Syncer.
Module SP := Verif.Proofs.SyncerProofs.

(* ================================================================================================ *)
(* Part 1.  Producer -> Syncer                                                                       *)
(* ================================================================================================ *)

(* ---- 1.1 translation of the record types -------------------------------------------------------- *)

(* genesis.Genesis as the full node reads it; [r0] = what InitChain returns on the full node.  The
   composition takes it to be the root InitChain returned on the sequencer (same genesis, deterministic
   execution layer). *)
Definition cfg_sync (c : P.cfg) (r0 : root) : S.config :=
  {| S.g_chain := P.c_chain c; S.g_initial := P.c_initial c; S.g_time := P.c_gtime c;
     S.g_proposer := P.c_gaddr c; S.g_initroot := r0 |}.

(* what the sequencer publishes of a stored block: the signed header and the data (the third stored
   component, the signature under the signature key, is the header's signature) *)
Definition tr_blk (b : P.blk) : S.block := (P.b_sh b, P.b_data b).

Definition opt_list {A} (o : option A) : list A := match o with Some x => [x] | None => [] end.

(* the blocks stored at heights init, init+1, ..., init+cnt-1 (a missing height contributes nothing;
   [blocks_upto_nth] shows that under the producer's invariant none is missing) *)
Definition blocks_upto (blocks : N -> option P.blk) (init : N) (cnt : nat) : list S.block :=
  flat_map (fun i => opt_list (option_map tr_blk (blocks (init + N.of_nat i)))) (seq 0 cnt).

(* the InitChain root the committed chain starts from = AppHash of the block at the initial height *)
Definition init_root (c : P.cfg) (st : P.mach) : root :=
  match P.g_block (P.img_of st) (P.c_initial c) with Some b => h_app (P.hdr_of b) | None => 0 end.

Definition sync_config (c : P.cfg) (st : P.mach) : S.config := cfg_sync c (init_root c st).

(* the committed chain of a producer state: the blocks up to the height of the RECORDED STATE (after a
   crash between the state write and the height write the store height is one less, C04) *)
Definition state_height (c : P.cfg) (m : P.img) : N :=
  match P.g_state m with Some s => s_height s | None => P.c_initial c - 1 end.

Definition committed_chain (c : P.cfg) (st : P.mach) : list S.block :=
  blocks_upto (P.g_block (P.img_of st)) (P.c_initial c)
              (N.to_nat (state_height c (P.img_of st) + 1 - P.c_initial c)).

(* the bridge hypothesis on the execution layer: every successful ExecuteTxs call the sequencer made
   returned what the function [exec] returns for its arguments.  Decidable. *)
Definition exec_followsb (exec : root -> N -> Z -> list tx -> root)
           (l : list (N * list tx * Z * root * root)) : bool :=
  forallb (fun e => let '(n, txs, t, p, r) := e in (r =? exec p n t txs)) l.

Definition meta_ok (b : P.blk) : Prop := d_meta (P.b_data b) <> None.

(* ---- 1.2 an additional invariant of the producer model --------------------------------------------
   Two facts the Syncer's notion of a valid chain needs and Producer.chain does not record:
   (Q1) the only block ever built for the initial height is the genesis block, stamped with the genesis
        time (for initial height 1, Types.validate does not compare the first block's time with anything);
   (Q2) every committed block carries its Data metadata (the block is written in its final form before
        the state that commits it). *)
Section Extra.
Variable c : P.cfg.
Hypothesis Hwf : P.wf_cfg c.

Definition Q1 (built : list (N * list tx * Z)) : Prop :=
  forall n txs t, In (n, txs, t) built -> n = P.c_initial c -> t = P.c_gtime c.

Definition Q2 (m : P.img) : Prop :=
  forall s, P.g_state m = Some s ->
  forall k b, P.c_initial c <= k <= s_height s -> P.g_block m k = Some b -> meta_ok b.

Definition QI (st : P.mach) : Prop := Q1 (P.g_built st) /\ Q2 (P.img_of st).

(* writes that touch neither the state nor any block *)
Definition is_hc (w : P.wr) : Prop := (exists n, w = P.w_height n) \/ (exists x, w = P.w_cursor x).
(* ... nor the state *)
Definition is_hcb (w : P.wr) : Prop := is_hc w \/ exists n b, w = P.w_block n b.
(* the writes of a step before its commit group: cursor, or the block of height H+1 *)
Definition is_pre (H : N) (w : P.wr) : Prop := (exists x, w = P.w_cursor x) \/ (exists b, w = P.w_block (H + 1) b).

Lemma hc_writes ws : forall m, Forall is_hc ws ->
  P.g_state (apply_writes m ws) = P.g_state m /\ forall k, P.g_block (apply_writes m ws) k = P.g_block m k.
Proof.
  induction ws as [|w ws IH]; intros m Hf; [split; reflexivity|].
  inversion Hf as [|? ? Hw Hws]; subst. rewrite PP.apply_writes_cons.
  destruct (IH (apply_write m w) Hws) as (A & B). rewrite A.
  destruct Hw as [[n ->]|[x ->]].
  - destruct (PP.aw_height m n) as (_ & E2 & _ & E4). split; [exact E2|]. intros k. rewrite B. apply E4.
  - destruct (PP.aw_cursor m x) as (_ & E2 & _ & E4). split; [exact E2|]. intros k. rewrite B. apply E4.
Qed.

Lemma hcb_writes ws : forall m, Forall is_hcb ws -> P.g_state (apply_writes m ws) = P.g_state m.
Proof.
  induction ws as [|w ws IH]; intros m Hf; [reflexivity|].
  inversion Hf as [|? ? Hw Hws]; subst. rewrite PP.apply_writes_cons, (IH _ Hws).
  destruct Hw as [[[n ->]|[x ->]]|(n & b & ->)].
  - apply (PP.aw_height m n).
  - apply (PP.aw_cursor m x).
  - apply (PP.aw_block m n b).
Qed.

Lemma pre_writes H ws : forall m, Forall (is_pre H) ws ->
  P.g_state (apply_writes m ws) = P.g_state m /\ P.g_height (apply_writes m ws) = P.g_height m /\
  forall k, k <> H + 1 -> P.g_block (apply_writes m ws) k = P.g_block m k.
Proof.
  induction ws as [|w ws IH]; intros m Hf; [split; [reflexivity|split; reflexivity]|].
  inversion Hf as [|? ? Hw Hws]; subst. rewrite PP.apply_writes_cons.
  destruct (IH (apply_write m w) Hws) as (A & B & C). rewrite A, B.
  destruct Hw as [[x ->]|[b ->]].
  - destruct (PP.aw_cursor m x) as (E1 & E2 & _ & E4). split; [exact E2|split; [exact E1|]].
    intros k Hk. rewrite C by exact Hk. apply E4.
  - destruct (PP.aw_block m (H + 1) b) as (E1 & E2 & _ & E4). split; [exact E2|split; [exact E1|]].
    intros k Hk. rewrite C by exact Hk. rewrite E4. destruct (N.eqb_spec k (H + 1)); [contradiction|reflexivity].
Qed.

Lemma safe_is_pre m built s w : PP.safe c m built s w -> is_pre (P.g_height m) w.
Proof. intros [[x ->]|(b & -> & _)]; [left|right]; eexists; reflexivity. Qed.

(* Q2 is kept by writes that leave the state and the blocks up to its height alone *)
Lemma q2_transport m m' :
  P.g_state m' = P.g_state m ->
  (forall s, P.g_state m = Some s -> forall k, k <= s_height s -> P.g_block m' k = P.g_block m k) ->
  Q2 m -> Q2 m'.
Proof.
  intros Hs Hb HQ s Hs' k b Hk Hb'. rewrite Hs in Hs'. rewrite (Hb s Hs') in Hb' by lia.
  eapply HQ; eassumption.
Qed.

(* ---- what a step builds and how its commit is shaped ---- *)
Lemma finish_built m v b ws0 req bu e : P.a_built (P.finish c m v b ws0 req bu e) = bu.
Proof. unfold P.finish. destruct e; [destruct (validate _ _ _)|]; reflexivity. Qed.

Lemma step_built m v sq e n txs t :
  P.a_built (P.step c m v sq e) = Some (n, txs, t) -> n = P.g_height m + 1 /\ P.g_block m n = None.
Proof.
  unfold P.step. destruct (P.last_info c m (P.g_height m)) as [[[lsig lhdr] ltime]|]; [|discriminate].
  destruct (P.g_block m (P.g_height m + 1)) as [pb|] eqn:Hpb.
  - rewrite finish_built. discriminate.
  - destruct sq as [| |txs' ts cur]; try discriminate. cbv zeta.
    repeat match goal with |- context [if ?x then _ else _] => destruct x end; try discriminate.
    rewrite finish_built. intros Hx; inversion Hx; subst. split; [reflexivity|exact Hpb].
Qed.

Lemma finish_meta m v b ws0 req bu e :
  P.a_commit (P.finish c m v b ws0 req bu e) <> [] ->
  exists fb, P.a_pre (P.finish c m v b ws0 req bu e) = ws0 ++ [P.w_block (h_height (P.hdr_of b)) fb] /\ meta_ok fb.
Proof.
  unfold P.finish. destruct e as [r|]; [destruct (validate _ _ _)|]; cbn [P.a_commit P.a_pre]; intros Hne;
    try (exfalso; apply Hne; reflexivity).
  exists (P.final_block c b). split; [reflexivity|]. unfold meta_ok. cbn. discriminate.
Qed.

Lemma step_meta m v sq e :
  P.a_commit (P.step c m v sq e) <> [] ->
  exists pre0 n fb, P.a_pre (P.step c m v sq e) = pre0 ++ [P.w_block n fb] /\ meta_ok fb.
Proof.
  unfold P.step. destruct (P.last_info c m (P.g_height m)) as [[[lsig lhdr] ltime]|];
    [|intros Hne; exfalso; apply Hne; reflexivity].
  destruct (P.g_block m (P.g_height m + 1)) as [pb|].
  - intros Hne. destruct (finish_meta _ _ _ _ _ _ _ Hne) as (fb & E & M). eauto.
  - destruct sq as [| |txs' ts cur]; try (intros Hne; exfalso; apply Hne; reflexivity). cbv zeta.
    repeat match goal with |- context [if ?x then _ else _] => destruct x end;
      try (intros Hne; exfalso; apply Hne; reflexivity).
    intros Hne. destruct (finish_meta _ _ _ _ _ _ _ Hne) as (fb & E & M). eauto.
Qed.

(* ---- one action, cut after any number of writes ---- *)
Lemma step_extra m inits built execs v sq e :
  PP.RF c m inits built execs (P.v_state v) -> Q1 built -> Q2 m ->
  let r := P.step c m v sq e in
  Q1 (P.log_opt built (P.a_built r)) /\ forall k, Q2 (apply_writes m (firstn k (P.a_ws r))).
Proof.
  intros Hrf HQ1 HQ2 r.
  pose proof (PP.step_spec c Hwf m inits built execs v sq e Hrf) as (_ & Hsafe & Hcase). fold r in Hsafe, Hcase.
  pose proof (PP.rf_height c m inits built execs _ Hrf) as (Hsh & Hge).
  pose proof (PP.wf_initial c Hwf) as Hi.
  assert (Hst : forall s, P.g_state m = Some s -> s = P.v_state v /\ P.c_initial c <= P.g_height m).
  { destruct Hrf as (_ & _ & _ & [[Hs Hle]|(Hs & _)]); intros s Hs'; rewrite Hs in Hs'; [|discriminate].
    inversion Hs'; subst. split; [reflexivity|exact Hle]. }
  split.
  { (* Q1 *)
    destruct (P.a_built r) as [[[n txs] t]|] eqn:Hb; cbn [P.log_opt]; [|exact HQ1].
    intros n' txs' t' [Heq|Hin]; [|intros Hn'; eapply HQ1; eassumption].
    inversion Heq; subst n' txs' t'. intros Hn'. exfalso.
    destruct (step_built _ _ _ _ _ _ _ Hb) as (Hn & Hnone).
    destruct Hrf as (_ & _ & _ & [[_ Hle]|(_ & HH & b0 & Hb0)]); [lia|].
    rewrite Hn' in Hnone. congruence. }
  assert (Hpre : Forall (is_pre (P.g_height m)) (P.a_pre r)).
  { eapply Forall_impl; [|exact Hsafe]. intros w Hw. eapply safe_is_pre; exact Hw. }
  assert (Hprefix : forall ws, Forall (is_pre (P.g_height m)) ws -> Q2 (apply_writes m ws)).
  { intros ws Hws. destruct (pre_writes _ ws m Hws) as (A & B & C).
    apply (q2_transport m); [exact A| |exact HQ2].
    intros s Hs k Hk. apply C. destruct (Hst s Hs) as (-> & _). lia. }
  intros k.
  destruct Hcase as [(Hcm & _)|(b & ret & pre0 & Hcm & Hpr & Hbv & _ & _)].
  - assert (Hws : P.a_ws r = P.a_pre r) by (unfold P.a_ws; rewrite Hcm; apply app_nil_r).
    rewrite Hws. apply Hprefix, PP.Forall_firstn_, Hpre.
  - destruct (Nat.leb_spec k (length (P.a_pre r))) as [Hle|Hgt].
    + assert (Hf : firstn k (P.a_ws r) = firstn k (P.a_pre r)).
      { unfold P.a_ws. rewrite firstn_app. replace (k - length (P.a_pre r))%nat with 0%nat by lia.
        cbn [firstn]. apply app_nil_r. }
      rewrite Hf. apply Hprefix, PP.Forall_firstn_, Hpre.
    + (* the cut is after the state write *)
      assert (Hne : P.a_commit r <> []) by (rewrite Hcm; discriminate).
      destruct (step_meta _ _ _ _ Hne) as (pre1 & n1 & fb & Hpr1 & Hmeta). fold r in Hpr1.
      rewrite Hpr in Hpr1. apply app_inj_tail in Hpr1. destruct Hpr1 as (_ & Hwb).
      assert (Hfb : b = fb).
      { unfold P.w_block in Hwb. inversion Hwb; reflexivity. }
      subst fb.
      set (s' := next_state (P.v_state v) (P.hdr_of b) ret) in *.
      assert (Hs'h : s_height s' = P.g_height m + 1).
      { destruct Hbv as (Hval & _). apply PP.validate_facts in Hval. destruct Hval as (Hhh & _).
        unfold s'. cbn [next_state s_height]. unfold P.hdr_of. lia. }
      set (m1 := apply_writes m (P.a_pre r)).
      destruct (pre_writes _ _ m Hpre) as (A & B & C). fold m1 in A, B, C.
      assert (Hb1 : P.g_block m1 (P.g_height m + 1) = Some b).
      { unfold m1. rewrite Hpr, PP.aws_app, PP.apply_writes_cons, PP.apply_writes_nil.
        destruct (PP.aw_block (apply_writes m pre0) (P.g_height m + 1) b) as (_ & _ & _ & E4).
        rewrite E4, N.eqb_refl. reflexivity. }
      assert (Hafter : forall m2, P.g_state m2 = Some s' -> (forall j, P.g_block m2 j = P.g_block m1 j) -> Q2 m2).
      { intros m2 Hs2 Hb2 s Hs j b' Hj Hbj. rewrite Hs2 in Hs. inversion Hs; subst s. rewrite Hb2 in Hbj.
        destruct (N.eq_dec j (P.g_height m + 1)) as [->|Hne'].
        - rewrite Hb1 in Hbj. inversion Hbj; subst b'. exact Hmeta.
        - rewrite C in Hbj by exact Hne'.
          destruct Hrf as (_ & _ & _ & [[Hs0 Hle0]|(_ & HH & _)]); [|lia].
          apply (HQ2 _ Hs0 j b'); [lia|exact Hbj]. }
      destruct (Nat.eq_dec k (S (length (P.a_pre r)))) as [->|Hne'].
      * assert (Hf : firstn (S (length (P.a_pre r))) (P.a_ws r) = P.a_pre r ++ [P.w_state s']).
        { unfold P.a_ws. rewrite firstn_app, firstn_all2 by lia.
          replace (S (length (P.a_pre r)) - length (P.a_pre r))%nat with 1%nat by lia. rewrite Hcm. reflexivity. }
        rewrite Hf, PP.aws_app. fold m1. rewrite PP.apply_writes_cons, PP.apply_writes_nil.
        destruct (PP.aw_state m1 s') as (_ & E2 & _ & E4). apply Hafter; assumption.
      * assert (Hall : (length (P.a_ws r) <= k)%nat).
        { unfold P.a_ws. rewrite app_length, Hcm. cbn [length]. lia. }
        rewrite firstn_all2 by exact Hall. unfold P.a_ws. rewrite PP.aws_app. fold m1. rewrite Hcm.
        rewrite PP.apply_writes_cons, PP.apply_writes_cons, PP.apply_writes_nil.
        destruct (PP.aw_state m1 s') as (_ & E2 & _ & E4).
        destruct (PP.aw_height (apply_write m1 (P.w_state s')) (P.g_height m + 1)) as (_ & F2 & _ & F4).
        apply Hafter; [congruence|]. intros j. rewrite F4. apply E4.
Qed.

Lemma set_height_hc m n : Forall is_hc (P.set_height m n).
Proof. unfold P.set_height. destruct (_ <=? _); [constructor|]. constructor; [left; eexists; reflexivity|constructor]. Qed.

Lemma boot_extra m built fok ic :
  Q1 built -> Q2 m ->
  let r := P.boot c m fok ic in
  Q1 (P.log_opt built (P.a_built r)) /\ forall k, Q2 (apply_writes m (firstn k (P.a_ws r))).
Proof.
  intros HQ1 HQ2 r.
  assert (Hgen : Q1 (P.log_opt built (Some (P.c_initial c, [], P.c_gtime c)))).
  { intros n txs t [Heq|Hin] Hn; [inversion Heq; reflexivity|eapply HQ1; eassumption]. }
  unfold r, P.boot. destruct (P.g_state m) as [s|] eqn:Hst.
  - (* a state is stored: only the store height may be written *)
    assert (Hhc : forall ws k, Forall is_hc ws -> Q2 (apply_writes m (firstn k ws))).
    { intros ws k Hws. destruct (hc_writes _ m (PP.Forall_firstn_ _ k _ Hws)) as (A & B).
      apply (q2_transport m); [exact A|intros; apply B|exact HQ2]. }
    destruct (s_height s <? P.c_initial c).
    + cbn [P.fail_res P.a_built P.a_ws P.a_pre P.a_commit P.log_opt app]. split; [exact HQ1|]. intros k. apply Hhc. constructor.
    + destruct fok; cbn [P.fail_res P.a_built P.a_ws P.a_pre P.a_commit P.log_opt]; unfold P.a_ws;
        cbn [P.a_pre P.a_commit]; rewrite app_nil_r; (split; [exact HQ1|]); intros k; apply Hhc, set_height_hc.
  - (* no state: whatever is written, no state appears *)
    assert (Hnone : forall ws k, Forall is_hcb ws -> Q2 (apply_writes m (firstn k ws))).
    { intros ws k Hws s Hs. rewrite (hcb_writes _ m (PP.Forall_firstn_ _ k _ Hws)), Hst in Hs. discriminate. }
    destruct ic as [r0|].
    + assert (Hws : Forall is_hcb ([P.w_block (P.c_initial c) (P.genesis_block c r0)] ++ P.set_height m (P.c_initial c - 1))).
      { apply Forall_app. split.
        - constructor; [right; eexists; eexists; reflexivity|constructor].
        - eapply Forall_impl; [|apply set_height_hc]. intros w Hw; left; exact Hw. }
      destruct fok; cbn [P.fail_res P.a_built P.a_ws P.a_pre P.a_commit P.log_opt]; unfold P.a_ws;
        cbn [P.a_pre P.a_commit]; rewrite app_nil_r; (split; [exact Hgen|]); intros k; apply Hnone, Hws.
    + cbn [P.fail_res P.a_built P.a_ws P.a_pre P.a_commit P.log_opt app]. split; [exact HQ1|]. intros k. apply Hnone. constructor.
Qed.

Lemma act_extra st a :
  PP.Inv c st -> QI st ->
  let r := P.do_act c st a in
  Q1 (P.log_opt (P.g_built st) (P.a_built r)) /\ forall k, Q2 (apply_writes (P.img_of st) (firstn k (P.a_ws r))).
Proof.
  intros (HD & HR) (HQ1 & HQ2). destruct a as [ic|sq e]; cbn [P.do_act].
  - apply boot_extra; assumption.
  - destruct (P.vol_of st) as [v|] eqn:Hv.
    + eapply step_extra; [apply HR; reflexivity|exact HQ1|exact HQ2].
    + cbn [P.not_running P.a_built P.a_ws P.a_pre P.a_commit P.log_opt app]. split; [exact HQ1|].
      intros k. rewrite firstn_nil. exact HQ2.
Qed.

Lemma extra_item st i : PP.Inv c st -> QI st -> QI (fst (P.exec_item c st i)).
Proof.
  intros HI HQ. destruct i as [a|a k|cut|f].
  - destruct (act_extra st a HI HQ) as (A & B). cbn [P.exec_item fst]. split; cbn [P.g_built P.img_of]; [exact A|].
    specialize (B (length (P.a_ws (P.do_act c st a)))). rewrite firstn_all in B. exact B.
  - destruct (act_extra st a HI HQ) as (A & B). cbn [P.exec_item fst]. split; cbn [P.g_built P.img_of]; [exact A|].
    unfold crash_after. apply B.
  - cbn [P.exec_item]. destruct (P.vol_of st); cbn [fst]; [|exact HQ]. destruct HQ as (A & B). split; assumption.
  - cbn [P.exec_item fst]. destruct HQ as (A & B). split; assumption.
Qed.

Lemma extra_run h : forall st, PP.Inv c st -> QI st -> QI (fst (P.run_from c st h)).
Proof.
  induction h as [|i r IH]; intros st HI HQ; [exact HQ|].
  rewrite PP.run_from_cons. apply IH.
  - apply (PP.inv_item c Hwf st i HI).
  - apply extra_item; assumption.
Qed.

Lemma extra_fresh : QI P.fresh.
Proof. split; [intros n txs t []|intros s Hs; discriminate Hs]. Qed.

End Extra.

Theorem reach_extra c h : P.wf_cfg c -> QI c (P.run c h).
Proof. intros Hwf. unfold P.run. apply extra_run; [exact Hwf|apply PP.inv_fresh|apply extra_fresh]. Qed.

(* ---- 1.3 Producer.chain implies Syncer.ChainValid ------------------------------------------------- *)

(* where the left-to-right check of Syncer.chain_fromb stands after a list of blocks *)
Fixpoint walk (exec : root -> N -> Z -> list tx -> root) (prev : option header) (n : N) (t : Z) (r : root)
         (C : list S.block) : option header * N * Z * root :=
  match C with
  | [] => (prev, n, t, r)
  | b :: C' => walk exec (Some (sh_hdr (fst b))) (n + 1) (h_time (sh_hdr (fst b)))
                    (exec r n (h_time (sh_hdr (fst b))) (d_txs (snd b))) C'
  end.

Lemma chain_fromb_app exec g k C1 : forall C2 prev n t r,
  S.chain_fromb exec g k prev n t r (C1 ++ C2) =
  S.chain_fromb exec g k prev n t r C1 &&
  (let '(p', n', t', r') := walk exec prev n t r C1 in S.chain_fromb exec g k p' n' t' r' C2).
Proof.
  induction C1 as [|b C1 IH]; intros C2 prev n t r.
  - cbn [app S.chain_fromb walk andb]. reflexivity.
  - cbn [app S.chain_fromb walk]. rewrite IH, andb_assoc. reflexivity.
Qed.

Lemma walk_app exec C1 : forall C2 prev n t r,
  walk exec prev n t r (C1 ++ C2) =
  (let '(p', n', t', r') := walk exec prev n t r C1 in walk exec p' n' t' r' C2).
Proof.
  induction C1 as [|b C1 IH]; intros C2 prev n t r; [reflexivity|]. cbn [app walk]. apply IH.
Qed.

Lemma state_after_app exec C1 : forall C2 s j,
  S.state_after exec s (C1 ++ C2) (length C1 + j) = S.state_after exec (S.state_after exec s C1 (length C1)) C2 j.
Proof.
  induction C1 as [|[sh d] C1 IH]; intros C2 s j; [reflexivity|]. cbn [app length plus S.state_after]. apply IH.
Qed.

Lemma blocks_upto_S blocks init cnt :
  blocks_upto blocks init (S cnt) =
  blocks_upto blocks init cnt ++ opt_list (option_map tr_blk (blocks (init + N.of_nat cnt))).
Proof.
  unfold blocks_upto. rewrite seq_S, flat_map_app. cbn [plus flat_map]. rewrite app_nil_r. reflexivity.
Qed.

Section Bridge.
Variable exec : root -> N -> Z -> list tx -> root.
Variable c : P.cfg.
Hypothesis Hwf : P.wf_cfg c.
Variable blocks : N -> option P.blk.
Variable built : list (N * list tx * Z).
Variable execs : list (N * list tx * Z * root * root).
Variable r0 : root.
Hypothesis HQ1 : Q1 c built.
Hypothesis Hexec : exec_followsb exec execs = true.

Let g := cfg_sync c r0.
Let init := P.c_initial c.

Lemma exec_follows_in n txs t p r : In (n, txs, t, p, r) execs -> r = exec p n t txs.
Proof.
  intros Hin. unfold exec_followsb in Hexec. rewrite forallb_forall in Hexec.
  specialize (Hexec _ Hin). cbn in Hexec. apply N.eqb_eq in Hexec. exact Hexec.
Qed.

(* the main induction: along Producer.chain, the translated block list passes Syncer.chain_fromb and the
   check arrives exactly at the producer's recorded state *)
Lemma chain_bridge n s :
  P.chain c blocks built execs r0 n s ->
  (forall k b, init <= k <= n -> blocks k = Some b -> meta_ok b) ->
  let cnt := N.to_nat (n + 1 - init) in
  let C := blocks_upto blocks init cnt in
  length C = cnt /\
  (forall i, (i < cnt)%nat -> nth_error C i = option_map tr_blk (blocks (init + N.of_nat i)) /\
                               blocks (init + N.of_nat i) <> None) /\
  S.chain_fromb exec g (P.c_key c) None init (P.c_gtime c) r0 C = true /\
  walk exec None init (P.c_gtime c) r0 C =
    ((if n <? init then None else option_map P.hdr_of (blocks n)), n + 1, s_time s, s_app s) /\
  S.state_after exec (S.genesis_state g) C (length C) = s /\
  (n + 1 = init -> s_time s = P.c_gtime c /\ s_app s = r0) /\
  (init <= n -> forall b, blocks init = Some b -> h_app (P.hdr_of b) = r0).
Proof.
  pose proof (PP.wf_initial c Hwf) as Hi. fold init in Hi.
  induction 1 as [|n s b r Hc IH Hb Hv]; intros Hmeta.
  - (* nothing committed *)
    fold init. replace (init - 1 + 1 - init) with 0 by lia. cbn [N.to_nat blocks_upto seq flat_map length].
    split; [reflexivity|]. split; [intros i Hlt; lia|]. split; [reflexivity|].
    split; [|split; [reflexivity|split; [intros _; split; reflexivity|intros Hx; lia]]].
    cbn [walk]. destruct (N.ltb_spec (init - 1) init); [|lia].
    replace (init - 1 + 1) with init by lia. reflexivity.
  - pose proof (PP.chain_height _ _ _ _ _ _ _ Hc) as (Hsh & Hle & Hch & Hin). fold init in Hle.
    destruct IH as (Hlen & Hnth & Hcf & Hwalk & Hsa & Htime & Hroot).
    { intros k b' Hk. apply Hmeta. lia. }
    destruct Hv as (Hval & Hlink & (Hsig & Hsigner & _) & Hbuilt & Hexecd).
    pose proof (PP.validate_facts _ _ _ Hval) as (Hhh & Hhc & Hha & Hht & Hdc & Hpa & _).
    fold (P.hdr_of b) in Hhh, Hhc, Hha, Hht, Hdc, Hpa.
    assert (Hhn : h_height (P.hdr_of b) = n + 1) by lia.
    set (cnt := N.to_nat (n + 1 - init)) in *.
    assert (Hcnt : N.to_nat (n + 1 + 1 - init) = S cnt) by (unfold cnt; lia).
    assert (Hidx : init + N.of_nat cnt = n + 1) by (unfold cnt; lia).
    cbv zeta. rewrite Hcnt, blocks_upto_S, Hidx, Hb. cbn [option_map opt_list].
    set (C := blocks_upto blocks init cnt) in *.
    assert (Hret : r = exec (s_app s) (n + 1) (h_time (P.hdr_of b)) (d_txs (P.b_data b))).
    { rewrite Hhn in Hexecd. apply exec_follows_in in Hexecd. exact Hexecd. }
    split; [rewrite app_length, Hlen; cbn; lia|].
    split.
    { intros i Hlt. destruct (Nat.eq_dec i cnt) as [->|Hne].
      - rewrite nth_error_app2 by lia. rewrite Hlen, Nat.sub_diag, Hidx, Hb. cbn. split; [reflexivity|discriminate].
      - rewrite nth_error_app1 by lia. apply Hnth. lia. }
    split.
    { rewrite chain_fromb_app, Hcf, Hwalk. cbn [andb S.chain_fromb]. rewrite andb_true_r.
      (* the new block against Syncer.block_okb *)
      unfold S.block_okb, tr_blk. fold (P.hdr_of b).
      assert (Hmb : meta_ok b) by (apply (Hmeta (n + 1)); [lia|exact Hb]).
      unfold meta_ok in Hmb.
      assert (Hvp : validate_pair (P.b_sh b) (P.b_data b) = true).
      { unfold validate in Hval. rewrite !andb_true_iff in Hval. tauto. }
      unfold validate_pair in Hvp. fold (P.hdr_of b) in Hvp.
      destruct (d_meta (P.b_data b)) as [mt|] eqn:Hmt; [|contradiction].
      rewrite !andb_true_iff in Hvp. destruct Hvp as (((M1 & M2) & M3) & _).
      rewrite Hsig, Hsigner. cbn [P.mk_signer sg_pub sg_addr verify_header S.g_chain g cfg_sync].
      rewrite (PP.wf_gaddr c Hwf) in *.
      assert (Hprop : h_proposer (P.hdr_of b) = Addr (P.c_key c)).
      { rewrite Hpa, Hsigner. cbn. apply (PP.wf_gaddr c Hwf). }
      rewrite Hprop, Hhn, Hhc, Hch, Hha, Hdc, !N.eqb_refl, PP.header_eqb_refl. cbn [addr_eqb andb].
      rewrite !N.eqb_refl. cbn [andb].
      assert (Hlast : match h_last (P.hdr_of b), (if n <? init then None else option_map P.hdr_of (blocks n)) with
                      | None, None => true | Some x, Some y => header_eqb x y | _, _ => false end = true).
      { rewrite Hlink, Hhn. unfold P.link. fold init.
        destruct (N.leb_spec (n + 1) init) as [H1|H1]; destruct (N.ltb_spec n init) as [H2|H2].
        - reflexivity.
        - exfalso; lia.
        - exfalso; lia.
        - replace (n + 1 - 1) with n by lia. destruct (blocks n) as [pb|]; cbn; [apply PP.header_eqb_refl|reflexivity]. }
      rewrite Hlast. cbn [andb].
      assert (Htm : (s_time s <=? h_time (P.hdr_of b))%Z = true).
      { apply Z.leb_le. destruct (N.eq_dec (n + 1) init) as [Heq|Hne].
        - rewrite (proj1 (Htime Heq)). rewrite Hhn in Hbuilt.
          rewrite (HQ1 _ _ _ Hbuilt Heq). lia.
        - apply Hht. lia. }
      rewrite Htm. cbn [andb].
      apply N.eqb_eq in M1, M2. apply Z.eqb_eq in M3.
      rewrite <- M1, <- M2, <- M3, Hhc, Hch, Hhn, !N.eqb_refl, Z.eqb_refl. reflexivity. }
    split.
    { rewrite walk_app, Hwalk. cbn [walk tr_blk fst snd]. fold (P.hdr_of b).
      destruct (N.ltb_spec (n + 1) init); [lia|]. cbn [option_map next_state s_time s_app].
      rewrite <- Hret. reflexivity. }
    split.
    { rewrite app_length. rewrite state_after_app, Hsa. cbn [length S.state_after tr_blk].
      fold (P.hdr_of b). rewrite Hhn, <- Hret. reflexivity. }
    split; [intros Heq; lia|].
    intros _ b' Hb'. destruct (N.eq_dec (n + 1) init) as [Heq|Hne].
    + rewrite <- Heq, Hb in Hb'. inversion Hb'; subst b'. rewrite Hha. apply (Htime Heq).
    + apply Hroot; [lia|exact Hb'].
Qed.

End Bridge.

(* ---- 1.4 history-level statements ------------------------------------------------------------------ *)

(* what the translation delivers, as one record-free conjunction *)
Definition chain_bridged (exec : root -> N -> Z -> list tx -> root) (c : P.cfg) (st : P.mach) : Prop :=
  let m := P.img_of st in
  let C := committed_chain c st in
  let g := sync_config c st in
  S.ChainValid exec g (P.c_key c) C /\
  length C = N.to_nat (state_height c m + 1 - P.c_initial c) /\
  (forall i, (i < length C)%nat ->
     nth_error C i = option_map tr_blk (P.g_block m (P.c_initial c + N.of_nat i)) /\
     P.g_block m (P.c_initial c + N.of_nat i) <> None) /\
  (forall s, P.g_state m = Some s ->
     P.c_initial c <= s_height s /\ In (init_root c st) (P.g_inits st) /\
     S.state_after exec (S.genesis_state g) C (length C) = s).

Lemma durable_bridged exec c st :
  P.wf_cfg c -> P.ChainDurable c st -> QI c st -> exec_followsb exec (P.g_execs st) = true ->
  chain_bridged exec c st.
Proof.
  intros Hwf HD (HQ1 & HQ2) Hex. pose proof (PP.wf_initial c Hwf) as Hi.
  unfold chain_bridged, committed_chain, state_height.
  destruct HD as [(Hlt & Hnone)|(r0 & s & Hr & Hc & Hs & Hle & _)].
  - rewrite Hnone. replace (P.c_initial c - 1 + 1 - P.c_initial c) with 0 by lia.
    cbn [N.to_nat blocks_upto seq flat_map length].
    split; [split; [exact Hi|split; [apply (PP.wf_gaddr c Hwf)|reflexivity]]|].
    split; [reflexivity|]. split; [intros i Hlt'; inversion Hlt'|]. intros s Hs. discriminate Hs.
  - rewrite Hs.
    destruct (chain_bridge exec c Hwf (P.g_block (P.img_of st)) (P.g_built st) (P.g_execs st) r0 HQ1 Hex
                (s_height s) s Hc (HQ2 s Hs)) as (Hlen & Hnth & Hcf & _ & Hsa & _ & Hroot).
    assert (Hr0 : init_root c st = r0).
    { unfold init_root. destruct (Hnth 0%nat) as (_ & Hne); [lia|].
      replace (P.c_initial c + N.of_nat 0) with (P.c_initial c) in Hne by lia.
      destruct (P.g_block (P.img_of st) (P.c_initial c)) as [b|] eqn:Hb; [|contradiction].
      apply Hroot; [exact Hle|reflexivity]. }
    unfold sync_config. rewrite Hr0.
    split; [split; [exact Hi|split; [apply (PP.wf_gaddr c Hwf)|exact Hcf]]|].
    split; [exact Hlen|]. split; [rewrite Hlen; exact Hnth|].
    intros s' Hs'. inversion Hs'; subst s'. split; [exact Hle|]. split; [exact Hr|exact Hsa].
Qed.

(* Target 1, every history (crashes anywhere, restarts, shutdowns, hand-damaged cache files included) *)
Theorem producer_chain_sync_valid_all exec c h :
  P.wf_cfg c -> exec_followsb exec (P.g_execs (P.run c h)) = true ->
  chain_bridged exec c (P.run c h).
Proof.
  intros Hwf Hex. apply durable_bridged; [exact Hwf|apply PP.chain_durable_all, Hwf|apply reach_extra, Hwf|exact Hex].
Qed.

(* in a crash-free history (and whenever a process runs) the committed chain reaches the store height *)
Lemma valid_state_height c st : P.wf_cfg c -> P.ChainValid c st ->
  N.to_nat (state_height c (P.img_of st) + 1 - P.c_initial c) = N.to_nat (P.g_height (P.img_of st) + 1 - P.c_initial c).
Proof.
  intros Hwf [(Hlt & Hnone)|(r0 & s & _ & Hc & Hs & _)]; unfold state_height.
  - rewrite Hnone. lia.
  - rewrite Hs. apply PP.chain_height in Hc. destruct Hc as (-> & _). reflexivity.
Qed.

Theorem producer_chain_sync_valid_crash_free exec c h :
  P.wf_cfg c -> P.crash_free h = true -> exec_followsb exec (P.g_execs (P.run c h)) = true ->
  chain_bridged exec c (P.run c h) /\
  length (committed_chain c (P.run c h)) = N.to_nat (P.g_height (P.img_of (P.run c h)) + 1 - P.c_initial c).
Proof.
  intros Hwf Hcf Hex. pose proof (producer_chain_sync_valid_all exec c h Hwf Hex) as HB.
  split; [exact HB|]. destruct HB as (_ & Hlen & _). rewrite Hlen.
  apply valid_state_height; [exact Hwf|apply PP.chain_valid_crash_free; assumption].
Qed.

Theorem producer_chain_sync_valid_running exec c h v :
  P.wf_cfg c -> P.vol_of (P.run c h) = Some v -> exec_followsb exec (P.g_execs (P.run c h)) = true ->
  length (committed_chain c (P.run c h)) = N.to_nat (P.g_height (P.img_of (P.run c h)) + 1 - P.c_initial c).
Proof.
  intros Hwf Hv Hex. destruct (producer_chain_sync_valid_all exec c h Hwf Hex) as (_ & Hlen & _). rewrite Hlen.
  apply valid_state_height; [exact Hwf|eapply PP.chain_valid_running; eassumption].
Qed.

(* ---- the full node on the sequencer's chain ---- *)

(* E2E, every producer history and EVERY delivery history (any order, duplicates, clean restarts, crashes
   after any number of writes, crashes during start-up): the full node runs and holds exactly a prefix of
   the sequencer's committed chain, with the state of exactly that height (C05_recovery_full instantiated) *)
Theorem e2e_follows exec c h hs :
  P.wf_cfg c -> exec_followsb exec (P.g_execs (P.run c h)) = true ->
  let C := committed_chain c (P.run c h) in let g := sync_config c (P.run c h) in
  Forall (S.item_in C) hs ->
  S.recovered exec g C (S.run exec g hs).
Proof.
  intros Hwf Hex C g Hin. destruct (producer_chain_sync_valid_all exec c h Hwf Hex) as (HV & _).
  eapply SP.recovery; eassumption.
Qed.

(* the same for crash-free delivery histories, with the execution-call log (C02_safety_full instantiated) *)
Theorem e2e_follows_clean exec c h hs :
  P.wf_cfg c -> exec_followsb exec (P.g_execs (P.run c h)) = true ->
  let C := committed_chain c (P.run c h) in let g := sync_config c (P.run c h) in
  Forall (S.item_in C) hs -> forallb S.is_clean hs = true ->
  S.n_status (S.run exec g hs) = S.Running /\
  exists j, S.synced_to exec g C (S.run exec g hs) j /\
            S.n_log (S.run exec g hs) = S.calls_after exec (S.genesis_state g) C j.
Proof.
  intros Hwf Hex C g Hin Hcl. destruct (producer_chain_sync_valid_all exec c h Hwf Hex) as (HV & _).
  eapply SP.safety; eassumption.
Qed.

(* a full node that holds a prefix of C and is at least at the height of C's last block IS at the sequencer's
   recorded state: same height, same state record (state root included), same block at every height *)
Lemma synced_full exec c st nd j :
  P.wf_cfg c -> chain_bridged exec c st ->
  let C := committed_chain c st in let g := sync_config c st in
  S.synced_to exec g C nd j ->
  S.g_initial g + N.of_nat (length C) - 1 <= S.d_height (S.n_disk nd) ->
  forall s, P.g_state (P.img_of st) = Some s ->
    S.d_height (S.n_disk nd) = s_height s /\ S.n_last nd = s /\ S.d_state (S.n_disk nd) = Some s /\
    forall k, P.c_initial c <= k <= s_height s ->
      S.d_block (S.n_disk nd) k = option_map tr_blk (P.g_block (P.img_of st) k).
Proof.
  intros Hwf (HV & Hlen & Hnth & Hst) C g (Hj & Hh & Hblk & Hlast & Hds & _) Hge s Hs.
  pose proof (PP.wf_initial c Hwf) as Hi.
  destruct (Hst s Hs) as (Hle & _ & Hsa).
  fold C in Hlen, Hnth, Hsa. fold g in Hsa.
  assert (Hs' : state_height c (P.img_of st) = s_height s) by (unfold state_height; rewrite Hs; reflexivity).
  rewrite Hs' in Hlen.
  change (S.g_initial g) with (P.c_initial c) in *.
  assert (Hjl : j = length C) by lia. subst j.
  split; [lia|]. split; [rewrite Hlast; exact Hsa|].
  split; [rewrite Hds by lia; rewrite Hlast, Hsa; reflexivity|].
  intros k Hk. set (i := N.to_nat (k - P.c_initial c)).
  assert (Hki : k = P.c_initial c + N.of_nat i) by (unfold i; lia).
  rewrite Hki. rewrite Hblk by lia. apply Hnth. lia.
Qed.

(* E2E completeness, under the guard of C02_complete_partial on the sequencer's committed chain: if the
   delivery history is clean and contains the header of every committed block and the data of every
   non-empty one, the full node is at the sequencer's recorded state *)
Theorem e2e_reaches exec c h hs :
  P.wf_cfg c -> exec_followsb exec (P.g_execs (P.run c h)) = true ->
  let st := P.run c h in let C := committed_chain c st in let g := sync_config c st in
  Forall (S.item_in C) hs -> forallb S.is_clean hs = true ->
  S.distinct_commitmentsb C = true ->
  (forall b, In b C -> S.header_delivered hs b) ->
  (forall b, In b C -> d_txs (snd b) <> [] -> S.data_delivered hs b) ->
  forall s, P.g_state (P.img_of st) = Some s ->
    let nd := S.run exec g hs in
    S.n_status nd = S.Running /\
    S.d_height (S.n_disk nd) = s_height s /\ S.n_last nd = s /\ S.d_state (S.n_disk nd) = Some s /\
    (forall k, P.c_initial c <= k <= s_height s ->
       S.d_block (S.n_disk nd) k = option_map tr_blk (P.g_block (P.img_of st) k)) /\
    S.n_log nd = S.calls_after exec (S.genesis_state g) C (length C).
Proof.
  intros Hwf Hex st C g Hin Hcl Hdist Hhd Hdd s Hs nd.
  pose proof (producer_chain_sync_valid_all exec c h Hwf Hex) as HB. fold st in HB.
  pose proof HB as (HV & Hlen & _).
  destruct (SP.safety exec g _ C hs HV Hin Hcl) as (Hrun & j & Hsync & Hlog).
  assert (Hge : S.g_initial g + N.of_nat (length C) - 1 <= S.d_height (S.n_disk (S.run exec g hs))).
  { eapply SP.complete_partial; try eassumption; [apply le_n| |].
    - intros i b _ Hb. apply Hhd. eapply nth_error_In; exact Hb.
    - intros i b _ Hb. apply Hdd. eapply nth_error_In; exact Hb. }
  destruct (synced_full exec c st _ j Hwf HB Hsync Hge s Hs) as (A & B & D & E).
  split; [exact Hrun|]. split; [exact A|]. split; [exact B|]. split; [exact D|]. split; [exact E|].
  fold nd in Hlog. rewrite Hlog. f_equal.
  destruct Hsync as (Hj & Hh & _). fold C in Hj. change (S.g_initial g) with (P.c_initial c) in *.
  pose proof (PP.wf_initial c Hwf). lia.
Qed.

(* E2E recovery + resynchronisation (C05_resync_partial instantiated): after ANY past hs1 of the full node
   (crashes included), a clean suffix hs2 that delivers what is still missing brings it to the sequencer's
   recorded state *)
Theorem e2e_resyncs exec c h hs1 hs2 :
  P.wf_cfg c -> exec_followsb exec (P.g_execs (P.run c h)) = true ->
  let st := P.run c h in let C := committed_chain c st in let g := sync_config c st in
  Forall (S.item_in C) (hs1 ++ hs2) -> forallb S.is_clean hs2 = true ->
  S.distinct_commitmentsb C = true ->
  (forall b, In b C -> S.header_delivered hs2 b) ->
  (forall b, In b C -> d_txs (snd b) <> [] -> S.data_delivered hs2 b) ->
  forall s, P.g_state (P.img_of st) = Some s ->
    let nd := S.run exec g (hs1 ++ hs2) in
    S.n_status nd = S.Running /\
    S.d_height (S.n_disk nd) = s_height s /\ S.n_last nd = s /\ S.d_state (S.n_disk nd) = Some s /\
    (forall k, P.c_initial c <= k <= s_height s ->
       S.d_block (S.n_disk nd) k = option_map tr_blk (P.g_block (P.img_of st) k)).
Proof.
  intros Hwf Hex st C g Hin Hcl Hdist Hhd Hdd s Hs nd.
  pose proof (producer_chain_sync_valid_all exec c h Hwf Hex) as HB. fold st in HB.
  pose proof HB as (HV & Hlen & _).
  destruct (SP.recovery exec g _ C (hs1 ++ hs2) HV Hin) as (Hrun & j & Hsync).
  assert (Hge : S.g_initial g + N.of_nat (length C) - 1 <= S.d_height (S.n_disk (S.run exec g (hs1 ++ hs2)))).
  { eapply SP.progress; try eassumption; [apply le_n| |].
    - intros i b _ Hb. right. apply Hhd. eapply nth_error_In; exact Hb.
    - intros i b _ Hb Hne. right. apply Hdd; [eapply nth_error_In; exact Hb|exact Hne]. }
  destruct (synced_full exec c st _ j Hwf HB Hsync Hge s Hs) as (A & B & D & E).
  split; [exact Hrun|]. split; [exact A|]. split; [exact B|]. split; [exact D|exact E].
Qed.

(* ================================================================================================ *)
(* Part 2.  Retriever -> Syncer                                                                      *)
(* ================================================================================================ *)
From Verif Require Model.Retriever Proofs.RetrieverProofs.
Module R := Verif.Model.Retriever.
Module RP := Verif.Proofs.RetrieverProofs.

(* every event the DA scan emitted in a run, in emission order *)
Definition scan_events (c : R.cfg) (da : list R.hinfo) (h : list R.item) : list R.event :=
  flat_map R.i_events (R.iterations c da h).

(* ---- 2.1 an honest DA layer: "not found" is answered only for heights that hold no blob.  Decidable.
   Needed only for convergence (a DA node that answers "not found" for a height that holds blobs makes the
   scan pass that height without handing anything over: C09 allows it, the DA double can script it). *)
Definition honest_out (o : R.outcome) : bool :=
  match o with R.OListNil => false | R.OListErr e => negb (R.e_nf e) | _ => true end.
Definition honest_hi (hi : R.hinfo) : bool :=
  match R.h_blobs hi with [] => true | _ => forallb honest_out (R.h_outs hi) end.
Definition honest_da (da : list R.hinfo) : bool := forallb honest_hi da.

Definition rec_honest (r : R.iter_rec) : Prop := In R.ANotFound (R.i_classes r) -> R.i_blobs r = [].

Lemma retrieve_honest h bl o : bl <> [] -> honest_out o = true -> fst (R.retrieve h bl o) <> R.SNotFound.
Proof.
  intros Hne Ho. destruct o as [e| |i e|]; cbn [R.retrieve honest_out] in *.
  - apply negb_true_iff in Ho. rewrite Ho. destruct (R.e_fut e); cbn; discriminate.
  - discriminate Ho.
  - unfold R.fetch_listed. destruct bl as [|b bl]; [contradiction|].
    destruct (R.get_chunks h 0 (Some (i, e)) (R.chunks (b :: bl))) as [[res fm] calls].
    cbn [fst]. destruct res; discriminate.
  - unfold R.fetch_listed. destruct bl as [|b bl]; [contradiction|].
    destruct (R.get_chunks h 0 None (R.chunks (b :: bl))) as [[res fm] calls].
    cbn [fst]. destruct res; discriminate.
Qed.

Lemma attempts_honest c h bl : bl <> [] -> forall n outs, forallb honest_out outs = true ->
  ~ In R.ANotFound (R.p_classes (R.attempts c h bl n outs)) /\
  forallb honest_out (R.p_outs (R.attempts c h bl n outs)) = true.
Proof.
  intros Hne. induction n as [|n IH]; intros outs Hh.
  - cbn. split; [tauto|exact Hh].
  - cbn [R.attempts].
    set (o := match outs with [] => R.OListErr R.err_future | o :: _ => o end).
    assert (Ho : honest_out o = true).
    { unfold o. destruct outs as [|o' outs']; [reflexivity|]. cbn in Hh. apply andb_true_iff in Hh. apply Hh. }
    assert (Ht : forallb honest_out (tl outs) = true).
    { destruct outs as [|o' outs']; [reflexivity|]. cbn in Hh. apply andb_true_iff in Hh. apply Hh. }
    pose proof (retrieve_honest h bl o Hne Ho) as Hnf.
    destruct (R.retrieve h bl o) as [st calls]. cbn [fst] in Hnf.
    destruct st as [got| | |[|]]; try contradiction.
    + destruct (R.handle c h got) as [ev mk]. cbn [R.p_classes R.p_outs].
      split; [intros [Hx|[]]; discriminate Hx|exact Ht].
    + cbn [R.p_classes R.p_outs]. split; [intros [Hx|[]]; discriminate Hx|exact Ht].
    + cbn [R.p_classes R.p_outs]. split; [intros [Hx|[]]; discriminate Hx|exact Ht].
    + destruct (IH (tl outs) Ht) as (A & B). cbn [R.p_classes R.p_outs].
      split; [intros [Hx|Hx]; [discriminate Hx|exact (A Hx)]|exact B].
Qed.

Lemma process_honest c h hi : honest_hi hi = true ->
  (In R.ANotFound (R.p_classes (R.process c h hi)) -> R.h_blobs hi = []) /\
  forall outs, outs = R.p_outs (R.process c h hi) -> honest_hi {| R.h_blobs := R.h_blobs hi; R.h_outs := outs |} = true.
Proof.
  intros Hh. unfold honest_hi in *. cbn [R.h_blobs R.h_outs]. unfold R.process.
  destruct (R.h_blobs hi) as [|b bl] eqn:Hb; [split; [reflexivity|intros; reflexivity]|].
  destruct (attempts_honest c h (b :: bl) ltac:(discriminate) R.retries (R.h_outs hi) Hh) as (A & B).
  split; [intros Hx; contradiction|intros outs ->; exact B].
Qed.

Lemma scan_honest c : forall rest cur, forallb honest_hi rest = true ->
  Forall rec_honest (snd (R.scan c cur rest)) /\ forallb honest_hi (R.s_rest (fst (R.scan c cur rest))) = true.
Proof.
  induction rest as [|hi rest IH]; intros cur Hh.
  - cbn [R.scan fst snd R.s_rest forallb]. split; [|reflexivity].
    constructor; [|constructor]. intros _. reflexivity.
  - cbn [forallb] in Hh. apply andb_true_iff in Hh. destruct Hh as (Hhi & Hrest).
    destruct (process_honest c cur hi Hhi) as (A & B).
    cbn [R.scan]. destruct (R.p_res (R.process c cur hi)) eqn:Hres.
    + specialize (IH (cur + 1) Hrest). destruct (R.scan c (cur + 1) rest) as [st recs]. cbn [fst snd] in *.
      destruct IH as (IH1 & IH2). split; [|exact IH2]. constructor; [exact A|exact IH1].
    + cbn [fst snd R.s_rest forallb]. split; [constructor; [exact A|constructor]|].
      rewrite (B _ eq_refl), Hrest. reflexivity.
    + cbn [fst snd R.s_rest forallb]. split; [constructor; [exact A|constructor]|].
      rewrite (B _ eq_refl), Hrest. reflexivity.
Qed.

Lemma step_honest c st it : forallb honest_hi (R.s_rest st) = true ->
  Forall rec_honest (snd (R.step c st it)) /\ forallb honest_hi (R.s_rest (fst (R.step c st it))) = true.
Proof.
  intros Hh. destruct it; cbn [R.step].
  - apply scan_honest, Hh.
  - cbn [fst snd R.s_rest].
    assert (Hhd : honest_hi (hd R.no_height (R.s_rest st)) = true).
    { destruct (R.s_rest st) as [|hi r]; [reflexivity|]. cbn in Hh. apply andb_true_iff in Hh. apply Hh. }
    destruct (process_honest c (R.s_cursor st) _ Hhd) as (A & B).
    split; [constructor; [exact A|constructor]|].
    destruct (R.s_rest st) as [|hi r]; [reflexivity|]. cbn [forallb hd] in *.
    apply andb_true_iff in Hh. rewrite (B _ eq_refl), (proj2 Hh). reflexivity.
Qed.

Lemma run_from_honest c : forall h st, forallb honest_hi (R.s_rest st) = true ->
  Forall rec_honest (concat (snd (R.run_from c st h))).
Proof.
  induction h as [|it h IH]; intros st Hh; [constructor|].
  cbn [R.run_from]. destruct (step_honest c st it Hh) as (A & B).
  destruct (R.step c st it) as [st1 recs]. cbn [fst snd] in *.
  specialize (IH st1 B). destruct (R.run_from c st1 h) as [st2 rr]. cbn [snd concat] in *.
  apply Forall_app. split; assumption.
Qed.

(* with an honest DA, every height the cursor has passed handed over ALL its genuine unseen blobs *)
Lemma passed_height_emits c da h n :
  honest_da da = true -> R.boot c <= n < R.s_cursor (R.final c da h) ->
  forall e, In e (R.genuine_events c n (R.content c da n)) -> In e (scan_events c da h).
Proof.
  intros Hh Hn e He.
  destruct (RP.no_skip_thm c da h n Hn) as (r & Hin & Hht & _ & _ & _ & Hlast & Hev).
  assert (Hrh : rec_honest r).
  { pose proof (run_from_honest c h (R.init c da) Hh) as HF. rewrite Forall_forall in HF. apply HF. exact Hin. }
  pose proof (proj1 (Forall_forall _ _) (RP.emits_thm c da h) r Hin) as [_ Hct].
  unfold scan_events. apply in_flat_map. exists r. split; [exact Hin|]. rewrite Hev.
  destruct Hlast as [Hl|Hl].
  - unfold R.succeeded. rewrite Hl. exact He.
  - exfalso. assert (Hin' : In R.ANotFound (R.i_classes r)).
    { destruct (R.i_classes r) as [|a l] eqn:Hc; [discriminate Hl|].
      rewrite <- Hl.
      assert (Hne : a :: l <> []) by discriminate.
      destruct (exists_last Hne) as (l' & x & Hx). rewrite Hx. rewrite last_last. apply in_or_app. right. left. reflexivity. }
    specialize (Hrh Hin'). rewrite Hct, Hht in Hrh. rewrite Hrh in He. exact He.
Qed.

(* ---- 2.2 the retriever's events as sync events ---------------------------------------------------- *)
Section Scan.
Variable hd_of : N -> sheader.      (* the signed header a BHeader id decodes to *)
Variable dd_of : N -> data.         (* the data of the SignedData a BData id decodes to *)

Definition tr_event (e : R.event) : S.event :=
  match e with R.EHeader id da => S.EvHeader (hd_of id) da | R.EData id da => S.EvData (dd_of id) da end.

(* the genuine blobs of a DA description are header / data blobs of the chain C *)
Definition blob_of_chain (C : list S.block) (b : R.blob) : Prop :=
  match b with
  | R.BHeader id => exists d, In (hd_of id, d) C
  | R.BData id => exists sh, In (sh, dd_of id) C
  | _ => True
  end.
Definition da_of_chain (C : list S.block) (da : list R.hinfo) : Prop :=
  Forall (fun hi => Forall (blob_of_chain C) (R.h_blobs hi)) da.

(* a delivery history fed by a set of events: every event it delivers (also the one being handled when the
   process dies) is one of them; order, multiplicity, restarts and crashes are free *)
Definition fed_by (evs : list S.event) (hs : list S.item) : Prop :=
  Forall (fun i => match i with S.IEv e | S.ICrash e _ => In e evs | _ => True end) hs.

Lemma content_blob C c da n b : da_of_chain C da -> In b (R.content c da n) -> blob_of_chain C b.
Proof.
  intros Hda Hin. unfold R.content in Hin. destruct (n <? R.boot c); [destruct Hin|].
  set (i := N.to_nat (n - R.boot c)) in *.
  destruct (Nat.lt_ge_cases i (length (map R.h_blobs da))) as [Hlt|Hge].
  - assert (Hnth : In (nth i (map R.h_blobs da) []) (map R.h_blobs da)) by (apply nth_In; exact Hlt).
    apply in_map_iff in Hnth. destruct Hnth as (hi & Heq & Hhi).
    unfold da_of_chain in Hda. rewrite Forall_forall in Hda. specialize (Hda hi Hhi).
    rewrite Forall_forall in Hda. apply Hda. rewrite Heq. exact Hin.
  - rewrite nth_overflow in Hin by exact Hge. destruct Hin.
Qed.

Lemma genuine_in c n bl e : In e (R.genuine_events c n bl) ->
  match e with R.EHeader id _ => In (R.BHeader id) bl | R.EData id _ => In (R.BData id) bl end.
Proof.
  unfold R.genuine_events. intros Hin. apply in_flat_map in Hin. destruct Hin as (b & Hb & He).
  destruct b as [id|id| |id|k]; try destruct He.
  - destruct (R.mem id (R.c_seen_h c)); [destruct He|]. destruct He as [<-|[]]. exact Hb.
  - destruct (R.mem id (R.c_seen_d c)); [destruct He|]. destruct He as [<-|[]]. exact Hb.
Qed.

(* every event of every run of the scan over a DA whose genuine blobs are C's is an item of C *)
Lemma scan_events_in C c da h :
  da_of_chain C da -> Forall (S.ev_in C) (map tr_event (scan_events c da h)).
Proof.
  intros Hda. rewrite Forall_forall. intros e He. apply in_map_iff in He. destruct He as (re & <- & Hre).
  unfold scan_events in Hre. apply in_flat_map in Hre. destruct Hre as (r & Hr & Hev).
  pose proof (proj1 (Forall_forall _ _) (RP.emits_thm c da h) r Hr) as [Hem Hct].
  unfold R.emits_ok in Hem. rewrite Hem in Hev.
  destruct (R.succeeded (R.i_classes r)); [|destruct Hev].
  apply genuine_in in Hev. rewrite Hct in Hev.
  destruct re as [id daH|id daH]; apply (content_blob C) in Hev; try exact Hda; exact Hev.
Qed.

Lemma fed_item_in C evs hs : Forall (S.ev_in C) evs -> fed_by evs hs -> Forall (S.item_in C) hs.
Proof.
  intros Hev Hfed. unfold fed_by in Hfed. rewrite Forall_forall in *. intros i Hi. specialize (Hfed i Hi).
  destruct i as [e| |e k|k]; cbn [S.item_in]; try exact I; apply Hev, Hfed.
Qed.

(* the events of any number of scan runs (a node restart starts a new run from the stored DA height) *)
Definition runs_events (runs : list (R.cfg * list R.hinfo * list R.item)) : list S.event :=
  flat_map (fun x => let '(c, da, h) := x in map tr_event (scan_events c da h)) runs.

Lemma runs_events_in C runs :
  Forall (fun x => let '(c, da, h) := x in da_of_chain C da) runs -> Forall (S.ev_in C) (runs_events runs).
Proof.
  intros Hr. rewrite Forall_forall in *. intros e He. unfold runs_events in He. apply in_flat_map in He.
  destruct He as ([[c da] h] & Hx & He). specialize (Hr _ Hx). cbn in Hr.
  pose proof (scan_events_in C c da h Hr) as HF. rewrite Forall_forall in HF. apply HF, He.
Qed.

(* Target 2, safety: DA scan + sync.  Any number of scan runs over DA descriptions whose genuine blobs are
   the header / data blobs of a valid chain; the sync loop is handed their events in any order, with any
   duplication, across clean restarts and crashes: the node holds exactly a prefix of the chain. *)
Theorem scan_sync_follows exec g k C runs hs :
  S.ChainValid exec g k C ->
  Forall (fun x => let '(c, da, h) := x in da_of_chain C da) runs ->
  fed_by (runs_events runs) hs ->
  S.recovered exec g C (S.run exec g hs).
Proof.
  intros HV Hr Hfed. eapply SP.recovery; [exact HV|]. eapply fed_item_in; [apply runs_events_in; exact Hr|exact Hfed].
Qed.

Theorem scan_sync_follows_clean exec g k C runs hs :
  S.ChainValid exec g k C ->
  Forall (fun x => let '(c, da, h) := x in da_of_chain C da) runs ->
  fed_by (runs_events runs) hs -> forallb S.is_clean hs = true ->
  S.n_status (S.run exec g hs) = S.Running /\
  exists j, S.synced_to exec g C (S.run exec g hs) j /\
            S.n_log (S.run exec g hs) = S.calls_after exec (S.genesis_state g) C j.
Proof.
  intros HV Hr Hfed Hcl. eapply SP.safety; [exact HV| |exact Hcl].
  eapply fed_item_in; [apply runs_events_in; exact Hr|exact Hfed].
Qed.

(* the header blob of block b is on the DA, unseen, at a height the scan has passed *)
Definition header_on_da (c : R.cfg) (da : list R.hinfo) (h : list R.item) (b : S.block) : Prop :=
  exists n id, R.boot c <= n < R.s_cursor (R.final c da h) /\ In (R.BHeader id) (R.content c da n) /\
               R.mem id (R.c_seen_h c) = false /\ hd_of id = fst b.
Definition data_on_da (c : R.cfg) (da : list R.hinfo) (h : list R.item) (b : S.block) : Prop :=
  exists n id, R.boot c <= n < R.s_cursor (R.final c da h) /\ In (R.BData id) (R.content c da n) /\
               R.mem id (R.c_seen_d c) = false /\ dd_of id = snd b.

Lemma genuine_header c n bl id : In (R.BHeader id) bl -> R.mem id (R.c_seen_h c) = false ->
  In (R.EHeader id n) (R.genuine_events c n bl).
Proof.
  intros Hin Hm. unfold R.genuine_events. apply in_flat_map. exists (R.BHeader id). split; [exact Hin|].
  rewrite Hm. left. reflexivity.
Qed.
Lemma genuine_data c n bl id : In (R.BData id) bl -> R.mem id (R.c_seen_d c) = false ->
  In (R.EData id n) (R.genuine_events c n bl).
Proof.
  intros Hin Hm. unfold R.genuine_events. apply in_flat_map. exists (R.BData id). split; [exact Hin|].
  rewrite Hm. left. reflexivity.
Qed.

(* Target 2, convergence: one scan run over an HONEST DA that holds — below the scan's cursor — the header
   blob of each of the first m blocks and the data blob of each non-empty one; the sync loop consumes, in any
   order and with clean restarts, a history that contains every emitted event (and nothing else): the node
   reaches height initial + m - 1.  Guard distinct_commitmentsb: C02's open finding. *)
Theorem scan_sync_converges exec g k C c da h hs m :
  S.ChainValid exec g k C -> S.distinct_commitmentsb C = true ->
  da_of_chain C da -> honest_da da = true ->
  (m <= length C)%nat ->
  (forall i b, (i < m)%nat -> nth_error C i = Some b -> header_on_da c da h b) ->
  (forall i b, (i < m)%nat -> nth_error C i = Some b -> d_txs (snd b) <> [] -> data_on_da c da h b) ->
  fed_by (map tr_event (scan_events c da h)) hs -> forallb S.is_clean hs = true ->
  (forall e, In e (scan_events c da h) -> In (S.IEv (tr_event e)) hs) ->
  S.n_status (S.run exec g hs) = S.Running /\
  S.g_initial g + N.of_nat m - 1 <= S.d_height (S.n_disk (S.run exec g hs)) /\
  exists j, S.synced_to exec g C (S.run exec g hs) j.
Proof.
  intros HV Hdist Hda Hhon Hm Hhd Hdd Hfed Hcl Hall.
  assert (Hitems : Forall (S.item_in C) hs).
  { eapply fed_item_in; [apply scan_events_in; exact Hda|exact Hfed]. }
  destruct (SP.safety exec g k C hs HV Hitems Hcl) as (Hrun & j & Hsync & _).
  split; [exact Hrun|]. split; [|exists j; exact Hsync].
  eapply SP.complete_partial; try eassumption.
  - intros i b Hi Hb. destruct (Hhd i b Hi Hb) as (n & id & Hn & Hin & Hseen & Heq).
    exists n. rewrite <- Heq. apply (Hall (R.EHeader id n)).
    eapply passed_height_emits; [exact Hhon|exact Hn|]. apply genuine_header; assumption.
  - intros i b Hi Hb Hne. destruct (Hdd i b Hi Hb Hne) as (n & id & Hn & Hin & Hseen & Heq).
    exists n. rewrite <- Heq. apply (Hall (R.EData id n)).
    eapply passed_height_emits; [exact Hhon|exact Hn|]. apply genuine_data; assumption.
Qed.

End Scan.

(* Producer -> DA -> Retriever -> Syncer in one statement: the chain is the sequencer's committed chain *)
Theorem e2e_da_path exec c h (hd_of : N -> sheader) (dd_of : N -> data) runs hs :
  P.wf_cfg c -> exec_followsb exec (P.g_execs (P.run c h)) = true ->
  let C := committed_chain c (P.run c h) in let g := sync_config c (P.run c h) in
  Forall (fun x => let '(rc, da, rh) := x in da_of_chain hd_of dd_of C da) runs ->
  fed_by (runs_events hd_of dd_of runs) hs ->
  S.recovered exec g C (S.run exec g hs).
Proof.
  intros Hwf Hex C g Hruns Hfed. destruct (producer_chain_sync_valid_all exec c h Hwf Hex) as (HV & _).
  eapply scan_sync_follows; eassumption.
Qed.

(* ================================================================================================ *)
(* Part 3.  Submitter -> Includer                                                                    *)
(* ================================================================================================ *)
From Verif Require Model.Submitter Model.Includer Proofs.SubmitterProofs Proofs.IncluderProofs.
Module Sub := Verif.Model.Submitter.
Module SubP := Verif.Proofs.SubmitterProofs.
Module Inc := Verif.Model.Includer.
Module IncP := Verif.Proofs.IncluderProofs.

Section SubInc.
Variable dah : Sub.kind -> nat -> N.   (* the DA height at which the DA layer included the j-th submit call of a kind
                                          (j = 0 for the oldest call): res.Height of that call *)

(* ---- 3.1 the submitter model's DA log, with DA heights ------------------------------------------- *)
(* the heights of the blobs the DA layer kept of a call: exactly the model's own [log_call] *)
Definition call_accepts (cl : Sub.call) : list N :=
  firstn (N.to_nat (Sub.da_accepts (Sub.c_out cl) (N.of_nat (length (Sub.c_hs cl))))) (Sub.c_hs cl).

(* the heights the CALLER was told were accepted (StatusSuccess, SubmittedCount): postSubmit marks these *)
Definition call_acked (cl : Sub.call) : list N :=
  match Sub.helper_status (Sub.c_out cl) (N.of_nat (length (Sub.c_hs cl))) with
  | (Sub.SSuccess, cnt) => firstn (N.to_nat cnt) (Sub.c_hs cl)
  | _ => []
  end.

(* calls are logged newest first; the index of a call is the number of older calls *)
Fixpoint da_entries (k : Sub.kind) (cs : list Sub.call) : list (N * N) :=   (* (block height, DA height) *)
  match cs with
  | [] => []
  | cl :: r => map (fun x => (x, dah k (length r))) (rev (call_accepts cl)) ++ da_entries k r
  end.

Fixpoint acked_entries (k : Sub.kind) (cs : list Sub.call) (lo : nat) : list (N * N) :=   (* calls of index >= lo, oldest first *)
  match cs with
  | [] => []
  | cl :: r => if (lo <=? length r)%nat
               then acked_entries k r lo ++ map (fun x => (x, dah k (length r))) (call_acked cl)
               else []
  end.

Lemma acked_sub_accepts cl x : In x (call_acked cl) -> In x (call_accepts cl).
Proof.
  unfold call_acked, call_accepts, Sub.helper_status, Sub.da_accepts.
  destruct (Sub.c_out cl) as [k|f|k f|b].
  - destruct ((N.min k (N.of_nat (length (Sub.c_hs cl))) =? 0) && negb (N.of_nat (length (Sub.c_hs cl)) =? 0)); [intros []|].
    intros H; exact H.
  - destruct f; intros [].
  - destruct f; intros [].
  - intros [].
Qed.

Lemma acked_in_da k cs : forall lo e, In e (acked_entries k cs lo) -> In e (da_entries k cs).
Proof.
  induction cs as [|cl r IH]; intros lo e He; [destruct He|].
  cbn [acked_entries da_entries] in *. destruct (lo <=? length r)%nat; [|destruct He].
  apply in_or_app. apply in_app_or in He. destruct He as [He|He].
  - right. eapply IH; exact He.
  - left. apply in_map_iff in He. destruct He as (x & <- & Hx). apply in_map_iff. exists x. split; [reflexivity|].
    apply -> in_rev. apply acked_sub_accepts, Hx.
Qed.

Lemma acked_lo k cs : forall lo e, In e (acked_entries k cs lo) -> In e (acked_entries k cs 0).
Proof.
  induction cs as [|cl r IH]; intros lo e He; [destruct He|].
  cbn [acked_entries] in *. destruct (lo <=? length r)%nat; [|destruct He].
  cbn [Nat.leb]. apply in_or_app. apply in_app_or in He. destruct He as [He|He]; [left; eapply IH; exact He|right; exact He].
Qed.

Lemma acked_ext k new : forall cs e, In e (acked_entries k cs 0) -> In e (acked_entries k (new ++ cs) 0).
Proof.
  induction new as [|cl r IH]; intros cs e He; [exact He|].
  cbn [app acked_entries Nat.leb]. apply in_or_app. left. apply IH, He.
Qed.

Lemma da_entries_ext k new : forall cs e, In e (da_entries k cs) -> In e (da_entries k (new ++ cs)).
Proof.
  induction new as [|cl r IH]; intros cs e He; [exact He|].
  cbn [app da_entries]. apply in_or_app. right. apply IH, He.
Qed.

(* the heights of [da_entries] are exactly the model's [acc] *)
Definition acc_is_log (sd : Sub.side) : Prop :=
  Sub.acc sd = flat_map (fun cl => rev (call_accepts cl)) (Sub.calls sd).

Lemma da_entries_heights k cs : map fst (da_entries k cs) = flat_map (fun cl => rev (call_accepts cl)) cs.
Proof.
  induction cs as [|cl r IH]; [reflexivity|]. cbn [da_entries flat_map]. rewrite map_app, IH, map_map. cbn [fst].
  rewrite map_id. reflexivity.
Qed.

(* ---- 3.2 what every step of the submitter does to a side's call log -------------------------------- *)
Definition ext_of (sd0 sd : Sub.side) : Prop := exists new, Sub.calls sd = new ++ Sub.calls sd0.

Lemma ext_refl sd : ext_of sd sd. Proof. exists []. reflexivity. Qed.
Lemma ext_trans a b d : ext_of a b -> ext_of b d -> ext_of a d.
Proof. intros (n1 & E1) (n2 & E2). exists (n2 ++ n1). rewrite E2, E1, app_assoc. reflexivity. Qed.

Lemma set_last_fields n sd : Sub.calls (Sub.set_last n sd) = Sub.calls sd /\ Sub.acc (Sub.set_last n sd) = Sub.acc sd.
Proof. unfold Sub.set_last. destruct (_ <? _); split; reflexivity. Qed.

Lemma ext_log sd0 rem o sd : ext_of sd0 sd -> ext_of sd0 (Sub.log_call rem o sd).
Proof. intros (new & E). eexists (_ :: new). cbn [Sub.log_call Sub.calls]. rewrite E. reflexivity. Qed.
Lemma ext_set sd0 n sd : ext_of sd0 sd -> ext_of sd0 (Sub.set_last n sd).
Proof. intros (new & E). exists new. rewrite (proj1 (set_last_fields n sd)). exact E. Qed.

Lemma ail_log rem o sd : acc_is_log sd -> acc_is_log (Sub.log_call rem o sd).
Proof. unfold acc_is_log. intros E. cbn [Sub.log_call Sub.acc Sub.calls flat_map]. rewrite E. reflexivity. Qed.
Lemma ail_set n sd : acc_is_log sd -> acc_is_log (Sub.set_last n sd).
Proof. unfold acc_is_log. destruct (set_last_fields n sd) as (A & B). rewrite A, B. tauto. Qed.

Definition side_ok (sd0 sd : Sub.side) : Prop := ext_of sd0 sd /\ acc_is_log sd.

Lemma side_ok_log sd0 rem o sd : side_ok sd0 sd -> side_ok sd0 (Sub.log_call rem o sd).
Proof. intros (A & B). split; [apply ext_log, A|apply ail_log, B]. Qed.
Lemma side_ok_set sd0 n sd : side_ok sd0 sd -> side_ok sd0 (Sub.set_last n sd).
Proof. intros (A & B). split; [apply ext_set, A|apply ail_set, B]. Qed.

Lemma tick_side_ok c o init hi sc sd0 sd :
  side_ok sd0 sd -> side_ok sd0 (fst (fst (fst (Sub.tick_side c o init hi sc sd)))).
Proof. apply (SubP.tick_pres (side_ok sd0) (side_ok_log sd0) (side_ok_set sd0)). Qed.
Lemma loop_side_ok c o init hi fuel sc sd0 sd :
  side_ok sd0 sd -> side_ok sd0 (Sub.loop_side c o init hi fuel sc sd).
Proof. apply (SubP.loop_pres (side_ok sd0) (side_ok_log sd0) (side_ok_set sd0)). Qed.

Lemma step_side_ok c s i k :
  acc_is_log (Sub.get_side k s) ->
  side_ok (Sub.get_side k s) (Sub.get_side k (fst (Sub.step c s i))).
Proof.
  intros Ha.
  assert (Hsame : side_ok (Sub.get_side k s) (Sub.get_side k s)) by (split; [apply ext_refl|exact Ha]).
  destruct i as [b|k' sc|k' sc|]; cbn [Sub.step].
  - destruct k; exact Hsame.
  - destruct k, k'; cbn [Sub.get_side] in *.
    + pose proof (tick_side_ok c (Sub.rel_of Sub.KHeader s) (Sub.s_init s) (Sub.height s) sc (Sub.s_h s) (Sub.s_h s) Hsame) as Ht.
      destruct (Sub.tick_side c _ (Sub.s_init s) (Sub.height s) sc _) as [[[sd' sc'] r] el]. exact Ht.
    + destruct (Sub.tick_side c _ (Sub.s_init s) (Sub.height s) sc _) as [[[sd' sc'] r] el]. exact Hsame.
    + destruct (Sub.tick_side c _ (Sub.s_init s) (Sub.height s) sc _) as [[[sd' sc'] r] el]. exact Hsame.
    + pose proof (tick_side_ok c (Sub.rel_of Sub.KData s) (Sub.s_init s) (Sub.height s) sc (Sub.s_d s) (Sub.s_d s) Hsame) as Ht.
      destruct (Sub.tick_side c _ (Sub.s_init s) (Sub.height s) sc _) as [[[sd' sc'] r] el]. exact Ht.
  - pose proof (loop_side_ok c (Sub.rel_of k' s) (Sub.s_init s) (Sub.height s) (S (length sc)) sc (Sub.get_side k s) (Sub.get_side k s) Hsame) as Ht.
    destruct k, k'; cbn [fst Sub.get_side Sub.set_side Sub.s_h Sub.s_d] in *; try exact Hsame; exact Ht.
  - destruct k; cbn [fst Sub.get_side Sub.s_h Sub.s_d]; (split; [exists []; reflexivity|exact Ha]).
Qed.

Lemma run_from_side_ok c k : forall h s,
  acc_is_log (Sub.get_side k s) -> side_ok (Sub.get_side k s) (Sub.get_side k (Sub.run_from c s h)).
Proof.
  induction h as [|i h IH]; intros s Ha; [split; [apply ext_refl|exact Ha]|].
  cbn [Sub.run_from fold_left]. destruct (step_side_ok c s i k Ha) as (A & B).
  destruct (IH _ B) as (A' & B'). split; [eapply ext_trans; eassumption|exact B'].
Qed.

Lemma boot_acc_is_log init k : acc_is_log (Sub.get_side k (Sub.boot init)).
Proof. destruct k; reflexivity. Qed.

(* the DA log of the model ([acc]) and the DA log with heights ([da_entries]) hold the same block heights *)
Lemma acc_da_entries c init h k x :
  In x (Sub.acc (Sub.get_side k (Sub.run c init h))) <->
  exists da, In (x, da) (da_entries k (Sub.calls (Sub.get_side k (Sub.run c init h)))).
Proof.
  destruct (run_from_side_ok c k h (Sub.boot init) (boot_acc_is_log init k)) as (_ & Hail).
  fold (Sub.run c init h) in Hail. unfold acc_is_log in Hail. rewrite Hail, <- (da_entries_heights k).
  split.
  - intros Hin. apply in_map_iff in Hin. destruct Hin as ([y da] & <- & Hin). exists da. exact Hin.
  - intros (da & Hin). apply in_map_iff. exists (x, da). split; [reflexivity|exact Hin].
Qed.

(* ---- 3.3 the includer history that a submitter history produces ------------------------------------ *)
Variable hid : N -> N.                 (* height -> id of header.Hash() of the block committed at that height *)
Variable did : N -> N.                 (* height -> id of data.DACommitment() (used for blocks with transactions) *)
Definition mk_blk (n : N) (nonempty : bool) : Inc.blk :=
  {| Inc.bh := hid n; Inc.bd := if nonempty then did n else 0 |}.

Fixpoint blks_from (n : N) (l : list bool) : list Inc.blk :=
  match l with [] => [] | b :: r => mk_blk n b :: blks_from (n + 1) r end.

Definition mark_item (k : Sub.kind) (e : N * N) : Inc.item :=
  match k with Sub.KHeader => Inc.IMarkH (hid (fst e)) (snd e) | Sub.KData => Inc.IMarkD (did (fst e)) (snd e) end.

(* the combined node: block production, the two submission loops, the includer loop, restarts and crashes *)
Inductive citem :=
| CPublish (nonempty : bool)                 (* a block is committed: Submitter.IPublish + Includer.IAppend *)
| CTick (k : Sub.kind) (sc : list Sub.outcome)   (* one submission-loop iteration; its postSubmit marks follow *)
| CLoop (k : Sub.kind) (sc : list Sub.outcome)
| CInclude                                   (* the includer runs *)
| CRestart                                   (* clean stop and start *)
| CCrash (n : nat)                           (* the process dies n effects into an includer run; start *)
| CFault (n : nat).                          (* effect n+1 of an includer run fails; clean stop; start *)

Definition sub_item (i : citem) : list Sub.item :=
  match i with
  | CPublish b => [Sub.IPublish b]
  | CTick k sc => [Sub.ITick k sc]
  | CLoop k sc => [Sub.ILoop k sc]
  | CInclude => []
  | CRestart | CCrash _ | CFault _ => [Sub.IRestart]
  end.
Definition sub_hist (ch : list citem) : list Sub.item := flat_map sub_item ch.

Definition new_marks (k : Sub.kind) (s s' : Sub.state) : list Inc.item :=
  map (mark_item k) (acked_entries k (Sub.calls (Sub.get_side k s')) (length (Sub.calls (Sub.get_side k s)))).

Definition inc_items (c : Sub.cfg) (s : Sub.state) (i : citem) : list Inc.item :=
  let s' := Sub.run_from c s (sub_item i) in
  match i with
  | CPublish b => [Inc.IAppend (mk_blk (Sub.height s + 1) b)]
  | CTick k _ | CLoop k _ => new_marks k s s'
  | CInclude => [Inc.IInclude]
  | CRestart => [Inc.IRestart]
  | CCrash n => [Inc.ICrash n]
  | CFault n => [Inc.IFault n]
  end.

Fixpoint derive_from (c : Sub.cfg) (s : Sub.state) (ch : list citem) : list Inc.item :=
  match ch with
  | [] => []
  | i :: r => inc_items c s i ++ derive_from c (Sub.run_from c s (sub_item i)) r
  end.
Definition derive (c : Sub.cfg) (init : N) (ch : list citem) : list Inc.item := derive_from c (Sub.boot init) ch.

(* ---- 3.4 an includer history backed by a submitter state ------------------------------------------- *)
Definition appended (hi : list Inc.item) : list Inc.blk :=
  flat_map (fun i => match i with Inc.IAppend b => [b] | _ => [] end) hi.

Definition backed (s : Sub.state) (hi : list Inc.item) : Prop :=
  appended hi = blks_from (Sub.s_init s) (Sub.s_chain s) /\
  (forall id da, In (Inc.IMarkH id da) hi ->
     exists x, id = hid x /\ In (x, da) (acked_entries Sub.KHeader (Sub.calls (Sub.s_h s)) 0)) /\
  (forall id da, In (Inc.IMarkD id da) hi ->
     exists x, id = did x /\ In (x, da) (acked_entries Sub.KData (Sub.calls (Sub.s_d s)) 0)).

Lemma blks_from_app l : forall n b, blks_from n (l ++ [b]) = blks_from n l ++ [mk_blk (n + N.of_nat (length l)) b].
Proof.
  induction l as [|x l IH]; intros n b; cbn [app blks_from length].
  - replace (n + N.of_nat 0) with n by lia. reflexivity.
  - rewrite IH. replace (n + 1 + N.of_nat (length l)) with (n + N.of_nat (S (length l))) by lia. reflexivity.
Qed.

Lemma blks_from_nth l : forall n i, nth_error (blks_from n l) i = option_map (mk_blk (n + N.of_nat i)) (nth_error l i).
Proof.
  induction l as [|x l IH]; intros n i; [destruct i; reflexivity|].
  destruct i as [|i]; cbn [blks_from nth_error option_map].
  - replace (n + N.of_nat 0) with n by lia. reflexivity.
  - rewrite IH. replace (n + 1 + N.of_nat i) with (n + N.of_nat (S i)) by lia. reflexivity.
Qed.

Lemma sub_run_from_app c h1 : forall h2 s, Sub.run_from c s (h1 ++ h2) = Sub.run_from c (Sub.run_from c s h1) h2.
Proof. intros h2 s. unfold Sub.run_from. apply fold_left_app. Qed.

Lemma step_chain c s i : 
  Sub.s_chain (fst (Sub.step c s i)) = match i with Sub.IPublish b => Sub.s_chain s ++ [b] | _ => Sub.s_chain s end.
Proof.
  destruct i as [b|k sc|k sc|]; cbn [Sub.step]; try reflexivity.
  - destruct (Sub.tick_side c _ _ _ sc _) as [[[sd' sc'] r] el]. destruct k; reflexivity.
  - destruct k; reflexivity.
Qed.

(* a mark of index >= lo of a later log is a mark of the final log *)
Lemma marks_backed k s1 s2 e :
  ext_of (Sub.get_side k s1) (Sub.get_side k s2) ->
  In e (acked_entries k (Sub.calls (Sub.get_side k s1)) 0) ->
  In e (acked_entries k (Sub.calls (Sub.get_side k s2)) 0).
Proof. intros (new & E) He. rewrite E. apply acked_ext, He. Qed.

Lemma backed_mono c s hi h :
  acc_is_log (Sub.s_h s) -> acc_is_log (Sub.s_d s) ->
  Sub.s_chain (Sub.run_from c s h) = Sub.s_chain s -> Sub.s_init (Sub.run_from c s h) = Sub.s_init s ->
  backed s hi -> backed (Sub.run_from c s h) hi.
Proof.
  intros Hh Hd Hc Hi (A & B & D). split; [rewrite Hc, Hi; exact A|]. split.
  - intros id da Hin. destruct (B id da Hin) as (x & -> & Hx). exists x. split; [reflexivity|].
    apply (marks_backed Sub.KHeader s); [|exact Hx]. apply (run_from_side_ok c Sub.KHeader h s Hh).
  - intros id da Hin. destruct (D id da Hin) as (x & -> & Hx). exists x. split; [reflexivity|].
    apply (marks_backed Sub.KData s); [|exact Hx]. apply (run_from_side_ok c Sub.KData h s Hd).
Qed.

Lemma appended_app a b : appended (a ++ b) = appended a ++ appended b.
Proof. unfold appended. apply flat_map_app. Qed.

Lemma new_marks_no_append k s s' : appended (new_marks k s s') = [].
Proof.
  unfold new_marks. induction (acked_entries k _ _) as [|e l IH]; [reflexivity|].
  cbn [map appended flat_map]. destruct k; cbn [mark_item]; exact IH.
Qed.

Lemma in_new_marks k s s' it : In it (new_marks k s s') ->
  exists e, it = mark_item k e /\ In e (acked_entries k (Sub.calls (Sub.get_side k s')) 0).
Proof.
  unfold new_marks. intros Hin. apply in_map_iff in Hin. destruct Hin as (e & <- & He).
  exists e. split; [reflexivity|]. eapply acked_lo; exact He.
Qed.

(* the derived history is backed by the submitter state it was derived along *)
Lemma derive_backed c : forall ch s hi0,
  1 <= Sub.s_init s -> acc_is_log (Sub.s_h s) -> acc_is_log (Sub.s_d s) ->
  backed s hi0 -> backed (Sub.run_from c s (sub_hist ch)) (hi0 ++ derive_from c s ch).
Proof.
  induction ch as [|i ch IH]; intros s hi0 H1 Hh Hd HB.
  - cbn [sub_hist flat_map derive_from Sub.run_from fold_left]. rewrite app_nil_r. exact HB.
  - cbn [sub_hist flat_map derive_from]. fold (sub_hist ch). rewrite sub_run_from_app, app_assoc.
    set (s' := Sub.run_from c s (sub_item i)).
    assert (Hh' : side_ok (Sub.s_h s) (Sub.s_h s')) by (apply (run_from_side_ok c Sub.KHeader (sub_item i) s Hh)).
    assert (Hd' : side_ok (Sub.s_d s) (Sub.s_d s')) by (apply (run_from_side_ok c Sub.KData (sub_item i) s Hd)).
    assert (Hi' : Sub.s_init s' = Sub.s_init s) by apply SubP.run_from_init.
    apply IH; try (rewrite Hi'; exact H1); try apply Hh'; try apply Hd'.
    (* one combined item *)
    assert (Hkeep : Sub.s_chain s' = Sub.s_chain s -> forall items,
              appended items = [] ->
              (forall id da, In (Inc.IMarkH id da) items ->
                 exists x, id = hid x /\ In (x, da) (acked_entries Sub.KHeader (Sub.calls (Sub.s_h s')) 0)) ->
              (forall id da, In (Inc.IMarkD id da) items ->
                 exists x, id = did x /\ In (x, da) (acked_entries Sub.KData (Sub.calls (Sub.s_d s')) 0)) ->
              backed s' (hi0 ++ items)).
    { intros Hc items Hap HmH HmD.
      destruct (backed_mono c s hi0 (sub_item i) Hh Hd Hc Hi' HB) as (A & B & D). fold s' in A, B, D.
      split; [rewrite appended_app, Hap, app_nil_r; exact A|]. split.
      - intros id da Hin. apply in_app_or in Hin. destruct Hin as [Hin|Hin]; [apply B, Hin|apply HmH, Hin].
      - intros id da Hin. apply in_app_or in Hin. destruct Hin as [Hin|Hin]; [apply D, Hin|apply HmD, Hin]. }
    assert (Hsingle : forall it, (forall b, it <> Inc.IAppend b) -> (forall id da, it <> Inc.IMarkH id da) ->
              (forall id da, it <> Inc.IMarkD id da) -> Sub.s_chain s' = Sub.s_chain s -> backed s' (hi0 ++ [it])).
    { intros it N1 N2 N3 Hc. apply Hkeep; [exact Hc| | |].
      - cbn. destruct it; try reflexivity. exfalso; eapply N1; reflexivity.
      - intros id da [Hx|[]]. exfalso; eapply N2; exact Hx.
      - intros id da [Hx|[]]. exfalso; eapply N3; exact Hx. }
    assert (Hmarks : forall k, Sub.s_chain s' = Sub.s_chain s -> backed s' (hi0 ++ new_marks k s s')).
    { intros k Hc. apply Hkeep; [exact Hc|apply new_marks_no_append| |].
      - intros id da Hin. apply in_new_marks in Hin. destruct Hin as ([x da'] & Heq & He).
        destruct k; cbn [mark_item fst snd] in Heq; inversion Heq; subst. exists x. split; [reflexivity|exact He].
      - intros id da Hin. apply in_new_marks in Hin. destruct Hin as ([x da'] & Heq & He).
        destruct k; cbn [mark_item fst snd] in Heq; inversion Heq; subst. exists x. split; [reflexivity|exact He]. }
    assert (Hstep : forall it, sub_item i = [it] -> Sub.s_chain s' =
              match it with Sub.IPublish b => Sub.s_chain s ++ [b] | _ => Sub.s_chain s end).
    { intros it E. unfold s'. rewrite E. cbn [Sub.run_from fold_left]. apply step_chain. }
    destruct i as [b|k sc|k sc| | |n|n]; cbn [inc_items]; fold s'.
    + (* publish *)
      destruct HB as (A & B & D).
      assert (Hc : Sub.s_chain s' = Sub.s_chain s ++ [b]) by (apply (Hstep (Sub.IPublish b)); reflexivity).
      assert (Hcalls : Sub.s_h s' = Sub.s_h s /\ Sub.s_d s' = Sub.s_d s) by (split; reflexivity).
      destruct Hcalls as (E1 & E2).
      split; [|split; [intros id da Hin|intros id da Hin]].
      * rewrite appended_app, A, Hc, Hi', blks_from_app. cbn [appended flat_map app]. unfold Sub.height.
        replace (Sub.s_init s - 1 + N.of_nat (length (Sub.s_chain s)) + 1)
          with (Sub.s_init s + N.of_nat (length (Sub.s_chain s))) by lia. reflexivity.
      * rewrite E1. apply in_app_or in Hin. destruct Hin as [Hin|[Hx|[]]]; [apply B, Hin|discriminate Hx].
      * rewrite E2. apply in_app_or in Hin. destruct Hin as [Hin|[Hx|[]]]; [apply D, Hin|discriminate Hx].
    + apply Hmarks. apply (Hstep (Sub.ITick k sc)). reflexivity.
    + apply Hmarks. apply (Hstep (Sub.ILoop k sc)). reflexivity.
    + apply Hsingle; try discriminate. reflexivity.
    + apply Hsingle; try discriminate. apply (Hstep Sub.IRestart). reflexivity.
    + apply Hsingle; try discriminate. apply (Hstep Sub.IRestart). reflexivity.
    + apply Hsingle; try discriminate. apply (Hstep Sub.IRestart). reflexivity.
Qed.

Lemma backed_boot init : backed (Sub.boot init) [].
Proof. split; [reflexivity|]. split; intros id da []. Qed.

Theorem derive_is_backed c init ch : 1 <= init -> backed (Sub.run c init (sub_hist ch)) (derive c init ch).
Proof.
  intros H1. unfold Sub.run, derive.
  apply (derive_backed c ch (Sub.boot init) [] H1 (boot_acc_is_log init Sub.KHeader) (boot_acc_is_log init Sub.KData) (backed_boot init)).
Qed.

(* ---- 3.5 end to end: what the reported DA-included height says about the submitter's DA log --------- *)
Lemma inc_step_chain nd i :
  Inc.chain (Inc.step nd i) = Inc.chain nd ++ match i with Inc.IAppend b => [b] | _ => [] end.
Proof.
  destruct i as [b|id da|id da| |k|k|]; cbn [Inc.step Inc.chain Inc.boot Inc.save]; try (rewrite app_nil_r); try reflexivity.
  - apply (IncP.apply_effs_fields (Inc.include_effs nd) nd).
  - unfold Inc.dying. apply (IncP.apply_effs_fields _ nd).
  - unfold Inc.dying. apply (IncP.apply_effs_fields _ nd).
Qed.

Lemma inc_chain_run hi : forall nd, Inc.chain (Inc.run_from nd hi) = Inc.chain nd ++ appended hi.
Proof.
  induction hi as [|i hi IH]; intros nd; [cbn; rewrite app_nil_r; reflexivity|].
  cbn [Inc.run_from fold_left]. fold (Inc.run_from (Inc.step nd i) hi). rewrite IH, inc_step_chain, <- app_assoc.
  reflexivity.
Qed.

(* the statement about one height n: the block there, the recorded DA heights, and where its parts are in the
   submitter model's DA log *)
Definition included_in_da (s : Sub.state) (meta : Inc.metaT) (n : N) : Prop :=
  n <= Sub.height s /\
  exists hda dda,
    Inc.meta_get meta (Inc.KH n) = Some hda /\ Inc.meta_get meta (Inc.KT n) = Some dda /\
    (exists x, hid x = hid n /\ In (x, hda) (da_entries Sub.KHeader (Sub.calls (Sub.s_h s))) /\ In x (Sub.acc (Sub.s_h s))) /\
    (if Sub.nonempty_at (Sub.s_init s) (Sub.s_chain s) n
     then exists y, did y = did n /\ In (y, dda) (da_entries Sub.KData (Sub.calls (Sub.s_d s))) /\ In y (Sub.acc (Sub.s_d s))
     else dda = hda).

Lemma sound_to_da c init sh hi nd n :
  1 <= init -> (forall m, did m <> 0) ->
  let s := Sub.run c init sh in
  backed s hi ->
  Inc.base nd = init - 1 -> Inc.chain nd = blks_from init (Sub.s_chain s) ->
  init - 1 < n ->
  (exists x hda dda,
     Inc.block_at nd n = Some x /\
     Inc.meta_get (Inc.meta nd) (Inc.KH n) = Some hda /\ Inc.meta_get (Inc.meta nd) (Inc.KT n) = Some dda /\
     In (Inc.IMarkH (Inc.bh x) hda) hi /\
     (if Inc.bempty x then dda = hda else In (Inc.IMarkD (Inc.bd x) dda) hi)) ->
  included_in_da s (Inc.meta nd) n.
Proof.
  intros H1 Hdid s (HA & HH & HD) Hbase Hchain Hn (x & hda & dda & Hblk & Hkh & Hkt & Hmh & Hmd).
  assert (Hinit : Sub.s_init s = init) by apply SubP.run_init.
  unfold Inc.block_at in Hblk. rewrite Hbase in Hblk. destruct (N.leb_spec n (init - 1)); [lia|].
  rewrite Hchain, blks_from_nth in Hblk.
  set (i := N.to_nat (n - (init - 1) - 1)) in *.
  destruct (nth_error (Sub.s_chain s) i) as [b|] eqn:Hnth; [|discriminate Hblk].
  cbn [option_map] in Hblk. inversion Hblk; subst x. clear Hblk.
  assert (Hni : init + N.of_nat i = n) by (unfold i; lia). rewrite Hni in *.
  assert (Hlen : (i < length (Sub.s_chain s))%nat) by (apply nth_error_Some; congruence).
  assert (Hne : Sub.nonempty_at (Sub.s_init s) (Sub.s_chain s) n = b).
  { unfold Sub.nonempty_at. rewrite Hinit. destruct (N.leb_spec init n); [|lia]. cbn [andb].
    replace (N.to_nat (n - init)) with i by (unfold i; lia). apply nth_error_nth. exact Hnth. }
  split; [unfold Sub.height; rewrite Hinit; lia|].
  exists hda, dda. split; [exact Hkh|]. split; [exact Hkt|]. split.
  - cbn [mk_blk Inc.bh] in Hmh. destruct (HH _ _ Hmh) as (x & Hx & Hin). exists x. split; [symmetry; exact Hx|].
    apply acked_in_da in Hin. split; [exact Hin|].
    apply (acc_da_entries c init sh Sub.KHeader x). exists hda. exact Hin.
  - rewrite Hne. unfold Inc.bempty in Hmd. cbn [mk_blk Inc.bd] in Hmd. destruct b.
    + destruct (N.eqb_spec (did n) 0) as [E|_]; [exfalso; exact (Hdid n E)|].
      destruct (HD _ _ Hmd) as (y & Hy & Hin). exists y. split; [symmetry; exact Hy|].
      apply acked_in_da in Hin. split; [exact Hin|].
      apply (acc_da_entries c init sh Sub.KData y). exists dda. exact Hin.
    + cbn in Hmd. exact Hmd.
Qed.

Lemma inc_run_shape init s hi :
  1 <= init -> appended hi = blks_from init (Sub.s_chain s) ->
  Inc.base (Inc.run (init - 1) hi) = init - 1 /\ Inc.chain (Inc.run (init - 1) hi) = blks_from init (Sub.s_chain s).
Proof.
  intros H1 HA. split; [apply (IncP.run_inv (init - 1) hi)|].
  unfold Inc.run. rewrite inc_chain_run, HA. reflexivity.
Qed.

(* Target 3.  For every submitter history and every includer history backed by it (blocks appended = blocks
   committed; every mark = an acknowledged acceptance in the submitter's call log, at that call's DA height):
   every height the node reports as DA-included is a committed block whose header blob — and, if the block
   has transactions, a data blob with its commitment — is in the submitter model's DA log at the recorded
   DA heights. *)
Theorem sub_inc_sound c init sh hi n :
  1 <= init -> (forall m, did m <> 0) ->
  let s := Sub.run c init sh in
  backed s hi ->
  let nd := Inc.run (init - 1) hi in
  init - 1 < n <= Inc.rep nd ->
  included_in_da s (Inc.meta nd) n.
Proof.
  intros H1 Hdid s HB nd Hn.
  assert (Hinit : Sub.s_init s = init) by apply SubP.run_init.
  destruct (inc_run_shape init s hi H1) as (Hb & Hc); [rewrite <- Hinit; apply HB|].
  eapply sound_to_da; try eassumption; [lia|].
  apply (IncP.sound (init - 1) hi n). exact Hn.
Qed.

(* the same for every height visible at the instant of death k effects into an includer run *)
Theorem sub_inc_sound_at_death c init sh hi k n :
  1 <= init -> (forall m, did m <> 0) ->
  let s := Sub.run c init sh in
  backed s hi ->
  let nd := Inc.dying (Inc.run (init - 1) hi) k in
  init - 1 < n <= Inc.di nd ->
  included_in_da s (Inc.meta nd) n.
Proof.
  intros H1 Hdid s HB nd Hn.
  assert (Hinit : Sub.s_init s = init) by apply SubP.run_init.
  destruct (inc_run_shape init s hi H1) as (Hb & Hc); [rewrite <- Hinit; apply HB|].
  destruct (IncP.apply_effs_fields (firstn k (Inc.include_effs (Inc.run (init - 1) hi))) (Inc.run (init - 1) hi))
    as (F1 & _ & _ & _ & _ & F6).
  eapply sound_to_da; try eassumption.
  - unfold nd, Inc.dying. rewrite F6. exact Hb.
  - unfold nd, Inc.dying. rewrite F1. exact Hc.
  - lia.
  - apply (IncP.sound_at_death (init - 1) hi k n). exact Hn.
Qed.

(* the canonical composition: one combined history drives both models *)
Theorem e2e_da_included_sound c init ch n :
  1 <= init -> (forall m, did m <> 0) ->
  let s := Sub.run c init (sub_hist ch) in
  let nd := Inc.run (init - 1) (derive c init ch) in
  init - 1 < n <= Inc.rep nd ->
  included_in_da s (Inc.meta nd) n.
Proof.
  intros H1 Hdid s nd Hn. apply sub_inc_sound; try assumption. apply derive_is_backed, H1.
Qed.

(* with collision-free header hashes the header blob is the one of height n itself; with pairwise distinct
   data commitments so is the data blob *)
Corollary included_in_da_exact s meta n :
  (forall a b, hid a = hid b -> a = b) ->
  included_in_da s meta n ->
  exists hda, Inc.meta_get meta (Inc.KH n) = Some hda /\
              In (n, hda) (da_entries Sub.KHeader (Sub.calls (Sub.s_h s))) /\ In n (Sub.acc (Sub.s_h s)).
Proof.
  intros Hinj (_ & hda & dda & Hkh & _ & (x & Hx & Hin & Hacc) & _). apply Hinj in Hx. subst x.
  exists hda. split; [exact Hkh|]. split; assumption.
Qed.

Corollary included_in_da_exact_data s meta n :
  (forall a b, did a = did b -> a = b) ->
  included_in_da s meta n -> Sub.nonempty_at (Sub.s_init s) (Sub.s_chain s) n = true ->
  exists dda, Inc.meta_get meta (Inc.KT n) = Some dda /\
              In (n, dda) (da_entries Sub.KData (Sub.calls (Sub.s_d s))) /\ In n (Sub.acc (Sub.s_d s)).
Proof.
  intros Hinj (_ & hda & dda & _ & Hkt & _ & Hd) Hne. rewrite Hne in Hd. destruct Hd as (y & Hy & Hin & Hacc).
  apply Hinj in Hy. subst y. exists dda. split; [exact Hkt|]. split; assumption.
Qed.

End SubInc.
