(* Proofs/ComposeProofs.v — end-to-end composition lemmas that CONNECT the per-property models.
   Nothing here re-models anything: every definition below is a translation between the record types /
   event vocabularies of two existing models, every lemma is about the existing step functions.
     Part 1  Producer (C01/C04)  ->  Syncer (C02/C05)
     Part 2  Retriever (C09)     ->  Syncer (C02/C05)
     Part 3  Submitter (C06)     ->  Includer (C07)
     Part 4  Submitter (C06)     <-> Throttle (C08)  (see the end of the file)
   Statements are in Props/Compose.v; what is assumed and why is in Props/Compose.README. *)
From Coq Require Import String NArith ZArith List Bool Lia ZifyBool ZifyN ZifyNat.
From Verif Require Import Base.KV Base.Keys Model.Types.
From Verif Require Model.Producer Model.Syncer Proofs.ProducerProofs Proofs.SyncerProofs.
Import ListNotations.
Open Scope list_scope.
Open Scope N_scope.

Module P := Verif.Model.Producer.
Module PP := Verif.Proofs.ProducerProofs.
Module S := Verif.Model.Syncer.
Module SP := Verif.Proofs.SyncerProofs.

(* ================================================================================================ *)
(* Part 1.  Producer -> Syncer                                                                       *)
(* ================================================================================================ *)

(* ---- 1.1 translation of the record types -------------------------------------------------------- *)

(* genesis.Genesis as the full node reads it; [r0] = what InitChain returns on the full node.  The
   composition takes it to be the root InitChain returned on the sequencer (same genesis, deterministic
   execution layer). *)
Definition cfg_sync (c : P.cfg) (r0 : root) : S.config :=
  {| S.g_chain := P.c_chain c; S.g_initial := P.c_initial c; S.g_time := P.c_gtime c;
     S.g_proposer := P.c_gaddr c; S.g_initroot := r0 |}.

(* what the sequencer publishes of a stored block: the signed header and the data (the third stored
   component, the signature under the signature key, is the header's signature) *)
Definition tr_blk (b : P.blk) : S.block := (P.b_sh b, P.b_data b).

Definition opt_list {A} (o : option A) : list A := match o with Some x => [x] | None => [] end.

(* the blocks stored at heights init, init+1, ..., init+cnt-1 (a missing height contributes nothing;
   [blocks_upto_nth] shows that under the producer's invariant none is missing) *)
Definition blocks_upto (blocks : N -> option P.blk) (init : N) (cnt : nat) : list S.block :=
  flat_map (fun i => opt_list (option_map tr_blk (blocks (init + N.of_nat i)))) (seq 0 cnt).

(* the InitChain root the committed chain starts from = AppHash of the block at the initial height *)
Definition init_root (c : P.cfg) (st : P.mach) : root :=
  match P.g_block (P.img_of st) (P.c_initial c) with Some b => h_app (P.hdr_of b) | None => 0 end.

Definition sync_config (c : P.cfg) (st : P.mach) : S.config := cfg_sync c (init_root c st).

(* the committed chain of a producer state: the blocks up to the height of the RECORDED STATE (after a
   crash between the state write and the height write the store height is one less, C04) *)
Definition state_height (c : P.cfg) (m : P.img) : N :=
  match P.g_state m with Some s => s_height s | None => P.c_initial c - 1 end.

Definition committed_chain (c : P.cfg) (st : P.mach) : list S.block :=
  blocks_upto (P.g_block (P.img_of st)) (P.c_initial c)
              (N.to_nat (state_height c (P.img_of st) + 1 - P.c_initial c)).

(* the bridge hypothesis on the execution layer: every successful ExecuteTxs call the sequencer made
   returned what the function [exec] returns for its arguments.  Decidable. *)
Definition exec_followsb (exec : root -> N -> Z -> list tx -> root)
           (l : list (N * list tx * Z * root * root)) : bool :=
  forallb (fun e => let '(n, txs, t, p, r) := e in (r =? exec p n t txs)) l.

Definition meta_ok (b : P.blk) : Prop := d_meta (P.b_data b) <> None.

(* ---- 1.2 an additional invariant of the producer model --------------------------------------------
   Two facts the Syncer's notion of a valid chain needs and Producer.chain does not record:
   (Q1) the only block ever built for the initial height is the genesis block, stamped with the genesis
        time (for initial height 1, Types.validate does not compare the first block's time with anything);
   (Q2) every committed block carries its Data metadata (the block is written in its final form before
        the state that commits it). *)
Section Extra.
Variable c : P.cfg.
Hypothesis Hwf : P.wf_cfg c.

Definition Q1 (built : list (N * list tx * Z)) : Prop :=
  forall n txs t, In (n, txs, t) built -> n = P.c_initial c -> t = P.c_gtime c.

Definition Q2 (m : P.img) : Prop :=
  forall s, P.g_state m = Some s ->
  forall k b, P.c_initial c <= k <= s_height s -> P.g_block m k = Some b -> meta_ok b.

Definition QI (st : P.mach) : Prop := Q1 (P.g_built st) /\ Q2 (P.img_of st).

(* writes that touch neither the state nor any block *)
Definition is_hc (w : P.wr) : Prop := (exists n, w = P.w_height n) \/ (exists x, w = P.w_cursor x).
(* ... nor the state *)
Definition is_hcb (w : P.wr) : Prop := is_hc w \/ exists n b, w = P.w_block n b.
(* the writes of a step before its commit group: cursor, or the block of height H+1 *)
Definition is_pre (H : N) (w : P.wr) : Prop := (exists x, w = P.w_cursor x) \/ (exists b, w = P.w_block (H + 1) b).

Lemma hc_writes ws : forall m, Forall is_hc ws ->
  P.g_state (apply_writes m ws) = P.g_state m /\ forall k, P.g_block (apply_writes m ws) k = P.g_block m k.
Proof.
  induction ws as [|w ws IH]; intros m Hf; [split; reflexivity|].
  inversion Hf as [|? ? Hw Hws]; subst. rewrite PP.apply_writes_cons.
  destruct (IH (apply_write m w) Hws) as (A & B). rewrite A.
  destruct Hw as [[n ->]|[x ->]].
  - destruct (PP.aw_height m n) as (_ & E2 & _ & E4). split; [exact E2|]. intros k. rewrite B. apply E4.
  - destruct (PP.aw_cursor m x) as (_ & E2 & _ & E4). split; [exact E2|]. intros k. rewrite B. apply E4.
Qed.

Lemma hcb_writes ws : forall m, Forall is_hcb ws -> P.g_state (apply_writes m ws) = P.g_state m.
Proof.
  induction ws as [|w ws IH]; intros m Hf; [reflexivity|].
  inversion Hf as [|? ? Hw Hws]; subst. rewrite PP.apply_writes_cons, (IH _ Hws).
  destruct Hw as [[[n ->]|[x ->]]|(n & b & ->)].
  - apply (PP.aw_height m n).
  - apply (PP.aw_cursor m x).
  - apply (PP.aw_block m n b).
Qed.

Lemma pre_writes H ws : forall m, Forall (is_pre H) ws ->
  P.g_state (apply_writes m ws) = P.g_state m /\ P.g_height (apply_writes m ws) = P.g_height m /\
  forall k, k <> H + 1 -> P.g_block (apply_writes m ws) k = P.g_block m k.
Proof.
  induction ws as [|w ws IH]; intros m Hf; [split; [reflexivity|split; reflexivity]|].
  inversion Hf as [|? ? Hw Hws]; subst. rewrite PP.apply_writes_cons.
  destruct (IH (apply_write m w) Hws) as (A & B & C). rewrite A, B.
  destruct Hw as [[x ->]|[b ->]].
  - destruct (PP.aw_cursor m x) as (E1 & E2 & _ & E4). split; [exact E2|split; [exact E1|]].
    intros k Hk. rewrite C by exact Hk. apply E4.
  - destruct (PP.aw_block m (H + 1) b) as (E1 & E2 & _ & E4). split; [exact E2|split; [exact E1|]].
    intros k Hk. rewrite C by exact Hk. rewrite E4. destruct (N.eqb_spec k (H + 1)); [contradiction|reflexivity].
Qed.

Lemma safe_is_pre m built s w : PP.safe c m built s w -> is_pre (P.g_height m) w.
Proof. intros [[x ->]|(b & -> & _)]; [left|right]; eexists; reflexivity. Qed.

(* Q2 is kept by writes that leave the state and the blocks up to its height alone *)
Lemma q2_transport m m' :
  P.g_state m' = P.g_state m ->
  (forall s, P.g_state m = Some s -> forall k, k <= s_height s -> P.g_block m' k = P.g_block m k) ->
  Q2 m -> Q2 m'.
Proof.
  intros Hs Hb HQ s Hs' k b Hk Hb'. rewrite Hs in Hs'. rewrite (Hb s Hs') in Hb' by lia.
  eapply HQ; eassumption.
Qed.

(* ---- what a step builds and how its commit is shaped ---- *)
Lemma finish_built m v b ws0 req bu e : P.a_built (P.finish c m v b ws0 req bu e) = bu.
Proof. unfold P.finish. destruct e; [destruct (validate _ _ _)|]; reflexivity. Qed.

Lemma step_built m v sq e n txs t :
  P.a_built (P.step c m v sq e) = Some (n, txs, t) -> n = P.g_height m + 1 /\ P.g_block m n = None.
Proof.
  unfold P.step. destruct (P.last_info c m (P.g_height m)) as [[[lsig lhdr] ltime]|]; [|discriminate].
  destruct (P.g_block m (P.g_height m + 1)) as [pb|] eqn:Hpb.
  - rewrite finish_built. discriminate.
  - destruct sq as [| |txs' ts cur]; try discriminate. cbv zeta.
    repeat match goal with |- context [if ?x then _ else _] => destruct x end; try discriminate.
    rewrite finish_built. intros Hx; inversion Hx; subst. split; [reflexivity|exact Hpb].
Qed.

Lemma finish_meta m v b ws0 req bu e :
  P.a_commit (P.finish c m v b ws0 req bu e) <> [] ->
  exists fb, P.a_pre (P.finish c m v b ws0 req bu e) = ws0 ++ [P.w_block (h_height (P.hdr_of b)) fb] /\ meta_ok fb.
Proof.
  unfold P.finish. destruct e as [r|]; [destruct (validate _ _ _)|]; cbn [P.a_commit P.a_pre]; intros Hne;
    try (exfalso; apply Hne; reflexivity).
  exists (P.final_block c b). split; [reflexivity|]. unfold meta_ok. cbn. discriminate.
Qed.

Lemma step_meta m v sq e :
  P.a_commit (P.step c m v sq e) <> [] ->
  exists pre0 n fb, P.a_pre (P.step c m v sq e) = pre0 ++ [P.w_block n fb] /\ meta_ok fb.
Proof.
  unfold P.step. destruct (P.last_info c m (P.g_height m)) as [[[lsig lhdr] ltime]|];
    [|intros Hne; exfalso; apply Hne; reflexivity].
  destruct (P.g_block m (P.g_height m + 1)) as [pb|].
  - intros Hne. destruct (finish_meta _ _ _ _ _ _ _ Hne) as (fb & E & M). eauto.
  - destruct sq as [| |txs' ts cur]; try (intros Hne; exfalso; apply Hne; reflexivity). cbv zeta.
    repeat match goal with |- context [if ?x then _ else _] => destruct x end;
      try (intros Hne; exfalso; apply Hne; reflexivity).
    intros Hne. destruct (finish_meta _ _ _ _ _ _ _ Hne) as (fb & E & M). eauto.
Qed.

(* ---- one action, cut after any number of writes ---- *)
Lemma step_extra m inits built execs v sq e :
  PP.RF c m inits built execs (P.v_state v) -> Q1 built -> Q2 m ->
  let r := P.step c m v sq e in
  Q1 (P.log_opt built (P.a_built r)) /\ forall k, Q2 (apply_writes m (firstn k (P.a_ws r))).
Proof.
  intros Hrf HQ1 HQ2 r.
  pose proof (PP.step_spec c Hwf m inits built execs v sq e Hrf) as (_ & Hsafe & Hcase). fold r in Hsafe, Hcase.
  pose proof (PP.rf_height c m inits built execs _ Hrf) as (Hsh & Hge).
  pose proof (PP.wf_initial c Hwf) as Hi.
  assert (Hst : forall s, P.g_state m = Some s -> s = P.v_state v /\ P.c_initial c <= P.g_height m).
  { destruct Hrf as (_ & _ & _ & [[Hs Hle]|(Hs & _)]); intros s Hs'; rewrite Hs in Hs'; [|discriminate].
    inversion Hs'; subst. split; [reflexivity|exact Hle]. }
  split.
  { (* Q1 *)
    destruct (P.a_built r) as [[[n txs] t]|] eqn:Hb; cbn [P.log_opt]; [|exact HQ1].
    intros n' txs' t' [Heq|Hin]; [|intros Hn'; eapply HQ1; eassumption].
    inversion Heq; subst n' txs' t'. intros Hn'. exfalso.
    destruct (step_built _ _ _ _ _ _ _ Hb) as (Hn & Hnone).
    destruct Hrf as (_ & _ & _ & [[_ Hle]|(_ & HH & b0 & Hb0)]); [lia|].
    rewrite Hn' in Hnone. congruence. }
  assert (Hpre : Forall (is_pre (P.g_height m)) (P.a_pre r)).
  { eapply Forall_impl; [|exact Hsafe]. intros w Hw. eapply safe_is_pre; exact Hw. }
  assert (Hprefix : forall ws, Forall (is_pre (P.g_height m)) ws -> Q2 (apply_writes m ws)).
  { intros ws Hws. destruct (pre_writes _ ws m Hws) as (A & B & C).
    apply (q2_transport m); [exact A| |exact HQ2].
    intros s Hs k Hk. apply C. destruct (Hst s Hs) as (-> & _). lia. }
  intros k.
  destruct Hcase as [(Hcm & _)|(b & ret & pre0 & Hcm & Hpr & Hbv & _ & _)].
  - assert (Hws : P.a_ws r = P.a_pre r) by (unfold P.a_ws; rewrite Hcm; apply app_nil_r).
    rewrite Hws. apply Hprefix, PP.Forall_firstn_, Hpre.
  - destruct (Nat.leb_spec k (length (P.a_pre r))) as [Hle|Hgt].
    + assert (Hf : firstn k (P.a_ws r) = firstn k (P.a_pre r)).
      { unfold P.a_ws. rewrite firstn_app. replace (k - length (P.a_pre r))%nat with 0%nat by lia.
        cbn [firstn]. apply app_nil_r. }
      rewrite Hf. apply Hprefix, PP.Forall_firstn_, Hpre.
    + (* the cut is after the state write *)
      assert (Hne : P.a_commit r <> []) by (rewrite Hcm; discriminate).
      destruct (step_meta _ _ _ _ Hne) as (pre1 & n1 & fb & Hpr1 & Hmeta). fold r in Hpr1.
      rewrite Hpr in Hpr1. apply app_inj_tail in Hpr1. destruct Hpr1 as (_ & Hwb).
      assert (Hfb : b = fb).
      { unfold P.w_block in Hwb. inversion Hwb; reflexivity. }
      subst fb.
      set (s' := next_state (P.v_state v) (P.hdr_of b) ret) in *.
      assert (Hs'h : s_height s' = P.g_height m + 1).
      { destruct Hbv as (Hval & _). apply PP.validate_facts in Hval. destruct Hval as (Hhh & _).
        unfold s'. cbn [next_state s_height]. unfold P.hdr_of. lia. }
      set (m1 := apply_writes m (P.a_pre r)).
      destruct (pre_writes _ _ m Hpre) as (A & B & C). fold m1 in A, B, C.
      assert (Hb1 : P.g_block m1 (P.g_height m + 1) = Some b).
      { unfold m1. rewrite Hpr, PP.aws_app, PP.apply_writes_cons, PP.apply_writes_nil.
        destruct (PP.aw_block (apply_writes m pre0) (P.g_height m + 1) b) as (_ & _ & _ & E4).
        rewrite E4, N.eqb_refl. reflexivity. }
      assert (Hafter : forall m2, P.g_state m2 = Some s' -> (forall j, P.g_block m2 j = P.g_block m1 j) -> Q2 m2).
      { intros m2 Hs2 Hb2 s Hs j b' Hj Hbj. rewrite Hs2 in Hs. inversion Hs; subst s. rewrite Hb2 in Hbj.
        destruct (N.eq_dec j (P.g_height m + 1)) as [->|Hne'].
        - rewrite Hb1 in Hbj. inversion Hbj; subst b'. exact Hmeta.
        - rewrite C in Hbj by exact Hne'.
          destruct Hrf as (_ & _ & _ & [[Hs0 Hle0]|(_ & HH & _)]); [|lia].
          apply (HQ2 _ Hs0 j b'); [lia|exact Hbj]. }
      destruct (Nat.eq_dec k (S (length (P.a_pre r)))) as [->|Hne'].
      * assert (Hf : firstn (S (length (P.a_pre r))) (P.a_ws r) = P.a_pre r ++ [P.w_state s']).
        { unfold P.a_ws. rewrite firstn_app, firstn_all2 by lia.
          replace (S (length (P.a_pre r)) - length (P.a_pre r))%nat with 1%nat by lia. rewrite Hcm. reflexivity. }
        rewrite Hf, PP.aws_app. fold m1. rewrite PP.apply_writes_cons, PP.apply_writes_nil.
        destruct (PP.aw_state m1 s') as (_ & E2 & _ & E4). apply Hafter; assumption.
      * assert (Hall : (length (P.a_ws r) <= k)%nat).
        { unfold P.a_ws. rewrite app_length, Hcm. cbn [length]. lia. }
        rewrite firstn_all2 by exact Hall. unfold P.a_ws. rewrite PP.aws_app. fold m1. rewrite Hcm.
        rewrite PP.apply_writes_cons, PP.apply_writes_cons, PP.apply_writes_nil.
        destruct (PP.aw_state m1 s') as (_ & E2 & _ & E4).
        destruct (PP.aw_height (apply_write m1 (P.w_state s')) (P.g_height m + 1)) as (_ & F2 & _ & F4).
        apply Hafter; [congruence|]. intros j. rewrite F4. apply E4.
Qed.

Lemma set_height_hc m n : Forall is_hc (P.set_height m n).
Proof. unfold P.set_height. destruct (_ <=? _); [constructor|]. constructor; [left; eexists; reflexivity|constructor]. Qed.

Lemma boot_extra m built fok ic :
  Q1 built -> Q2 m ->
  let r := P.boot c m fok ic in
  Q1 (P.log_opt built (P.a_built r)) /\ forall k, Q2 (apply_writes m (firstn k (P.a_ws r))).
Proof.
  intros HQ1 HQ2 r.
  assert (Hgen : Q1 (P.log_opt built (Some (P.c_initial c, [], P.c_gtime c)))).
  { intros n txs t [Heq|Hin] Hn; [inversion Heq; reflexivity|eapply HQ1; eassumption]. }
  unfold r, P.boot. destruct (P.g_state m) as [s|] eqn:Hst.
  - (* a state is stored: only the store height may be written *)
    assert (Hhc : forall ws k, Forall is_hc ws -> Q2 (apply_writes m (firstn k ws))).
    { intros ws k Hws. destruct (hc_writes _ m (PP.Forall_firstn_ _ k _ Hws)) as (A & B).
      apply (q2_transport m); [exact A|intros; apply B|exact HQ2]. }
    destruct (s_height s <? P.c_initial c).
    + cbn [P.fail_res P.a_built P.a_ws P.a_pre P.a_commit P.log_opt app]. split; [exact HQ1|]. intros k. apply Hhc. constructor.
    + destruct fok; cbn [P.fail_res P.a_built P.a_ws P.a_pre P.a_commit P.log_opt]; unfold P.a_ws;
        cbn [P.a_pre P.a_commit]; rewrite app_nil_r; (split; [exact HQ1|]); intros k; apply Hhc, set_height_hc.
  - (* no state: whatever is written, no state appears *)
    assert (Hnone : forall ws k, Forall is_hcb ws -> Q2 (apply_writes m (firstn k ws))).
    { intros ws k Hws s Hs. rewrite (hcb_writes _ m (PP.Forall_firstn_ _ k _ Hws)), Hst in Hs. discriminate. }
    destruct ic as [r0|].
    + assert (Hws : Forall is_hcb ([P.w_block (P.c_initial c) (P.genesis_block c r0)] ++ P.set_height m (P.c_initial c - 1))).
      { apply Forall_app. split.
        - constructor; [right; eexists; eexists; reflexivity|constructor].
        - eapply Forall_impl; [|apply set_height_hc]. intros w Hw; left; exact Hw. }
      destruct fok; cbn [P.fail_res P.a_built P.a_ws P.a_pre P.a_commit P.log_opt]; unfold P.a_ws;
        cbn [P.a_pre P.a_commit]; rewrite app_nil_r; (split; [exact Hgen|]); intros k; apply Hnone, Hws.
    + cbn [P.fail_res P.a_built P.a_ws P.a_pre P.a_commit P.log_opt app]. split; [exact HQ1|]. intros k. apply Hnone. constructor.
Qed.

Lemma act_extra st a :
  PP.Inv c st -> QI st ->
  let r := P.do_act c st a in
  Q1 (P.log_opt (P.g_built st) (P.a_built r)) /\ forall k, Q2 (apply_writes (P.img_of st) (firstn k (P.a_ws r))).
Proof.
  intros (HD & HR) (HQ1 & HQ2). destruct a as [ic|sq e]; cbn [P.do_act].
  - apply boot_extra; assumption.
  - destruct (P.vol_of st) as [v|] eqn:Hv.
    + eapply step_extra; [apply HR; reflexivity|exact HQ1|exact HQ2].
    + cbn [P.not_running P.a_built P.a_ws P.a_pre P.a_commit P.log_opt app]. split; [exact HQ1|].
      intros k. rewrite firstn_nil. exact HQ2.
Qed.

Lemma extra_item st i : PP.Inv c st -> QI st -> QI (fst (P.exec_item c st i)).
Proof.
  intros HI HQ. destruct i as [a|a k|cut|f].
  - destruct (act_extra st a HI HQ) as (A & B). cbn [P.exec_item fst]. split; cbn [P.g_built P.img_of]; [exact A|].
    specialize (B (length (P.a_ws (P.do_act c st a)))). rewrite firstn_all in B. exact B.
  - destruct (act_extra st a HI HQ) as (A & B). cbn [P.exec_item fst]. split; cbn [P.g_built P.img_of]; [exact A|].
    unfold crash_after. apply B.
  - cbn [P.exec_item]. destruct (P.vol_of st); cbn [fst]; [|exact HQ]. destruct HQ as (A & B). split; assumption.
  - cbn [P.exec_item fst]. destruct HQ as (A & B). split; assumption.
Qed.

Lemma extra_run h : forall st, PP.Inv c st -> QI st -> QI (fst (P.run_from c st h)).
Proof.
  induction h as [|i r IH]; intros st HI HQ; [exact HQ|].
  rewrite PP.run_from_cons. apply IH.
  - apply (PP.inv_item c Hwf st i HI).
  - apply extra_item; assumption.
Qed.

Lemma extra_fresh : QI P.fresh.
Proof. split; [intros n txs t []|intros s Hs; discriminate Hs]. Qed.

End Extra.

Theorem reach_extra c h : P.wf_cfg c -> QI c (P.run c h).
Proof. intros Hwf. unfold P.run. apply extra_run; [exact Hwf|apply PP.inv_fresh|apply extra_fresh]. Qed.

(* ---- 1.3 Producer.chain implies Syncer.ChainValid ------------------------------------------------- *)

(* where the left-to-right check of Syncer.chain_fromb stands after a list of blocks *)
Fixpoint walk (exec : root -> N -> Z -> list tx -> root) (prev : option header) (n : N) (t : Z) (r : root)
         (C : list S.block) : option header * N * Z * root :=
  match C with
  | [] => (prev, n, t, r)
  | b :: C' => walk exec (Some (sh_hdr (fst b))) (n + 1) (h_time (sh_hdr (fst b)))
                    (exec r n (h_time (sh_hdr (fst b))) (d_txs (snd b))) C'
  end.

Lemma chain_fromb_app exec g k C1 : forall C2 prev n t r,
  S.chain_fromb exec g k prev n t r (C1 ++ C2) =
  S.chain_fromb exec g k prev n t r C1 &&
  (let '(p', n', t', r') := walk exec prev n t r C1 in S.chain_fromb exec g k p' n' t' r' C2).
Proof.
  induction C1 as [|b C1 IH]; intros C2 prev n t r.
  - cbn [app S.chain_fromb walk andb]. reflexivity.
  - cbn [app S.chain_fromb walk]. rewrite IH, andb_assoc. reflexivity.
Qed.

Lemma walk_app exec C1 : forall C2 prev n t r,
  walk exec prev n t r (C1 ++ C2) =
  (let '(p', n', t', r') := walk exec prev n t r C1 in walk exec p' n' t' r' C2).
Proof.
  induction C1 as [|b C1 IH]; intros C2 prev n t r; [reflexivity|]. cbn [app walk]. apply IH.
Qed.

Lemma state_after_app exec C1 : forall C2 s j,
  S.state_after exec s (C1 ++ C2) (length C1 + j) = S.state_after exec (S.state_after exec s C1 (length C1)) C2 j.
Proof.
  induction C1 as [|[sh d] C1 IH]; intros C2 s j; [reflexivity|]. cbn [app length plus S.state_after]. apply IH.
Qed.

Lemma blocks_upto_S blocks init cnt :
  blocks_upto blocks init (S cnt) =
  blocks_upto blocks init cnt ++ opt_list (option_map tr_blk (blocks (init + N.of_nat cnt))).
Proof.
  unfold blocks_upto. rewrite seq_S, flat_map_app. cbn [plus flat_map]. rewrite app_nil_r. reflexivity.
Qed.

Section Bridge.
Variable exec : root -> N -> Z -> list tx -> root.
Variable c : P.cfg.
Hypothesis Hwf : P.wf_cfg c.
Variable blocks : N -> option P.blk.
Variable built : list (N * list tx * Z).
Variable execs : list (N * list tx * Z * root * root).
Variable r0 : root.
Hypothesis HQ1 : Q1 c built.
Hypothesis Hexec : exec_followsb exec execs = true.

Let g := cfg_sync c r0.
Let init := P.c_initial c.

Lemma exec_follows_in n txs t p r : In (n, txs, t, p, r) execs -> r = exec p n t txs.
Proof.
  intros Hin. unfold exec_followsb in Hexec. rewrite forallb_forall in Hexec.
  specialize (Hexec _ Hin). cbn in Hexec. apply N.eqb_eq in Hexec. exact Hexec.
Qed.

(* the main induction: along Producer.chain, the translated block list passes Syncer.chain_fromb and the
   check arrives exactly at the producer's recorded state *)
Lemma chain_bridge n s :
  P.chain c blocks built execs r0 n s ->
  (forall k b, init <= k <= n -> blocks k = Some b -> meta_ok b) ->
  let cnt := N.to_nat (n + 1 - init) in
  let C := blocks_upto blocks init cnt in
  length C = cnt /\
  (forall i, (i < cnt)%nat -> nth_error C i = option_map tr_blk (blocks (init + N.of_nat i)) /\
                               blocks (init + N.of_nat i) <> None) /\
  S.chain_fromb exec g (P.c_key c) None init (P.c_gtime c) r0 C = true /\
  walk exec None init (P.c_gtime c) r0 C =
    ((if n <? init then None else option_map P.hdr_of (blocks n)), n + 1, s_time s, s_app s) /\
  S.state_after exec (S.genesis_state g) C (length C) = s /\
  (n + 1 = init -> s_time s = P.c_gtime c /\ s_app s = r0) /\
  (init <= n -> forall b, blocks init = Some b -> h_app (P.hdr_of b) = r0).
Proof.
  pose proof (PP.wf_initial c Hwf) as Hi. fold init in Hi.
  induction 1 as [|n s b r Hc IH Hb Hv]; intros Hmeta.
  - (* nothing committed *)
    fold init. replace (init - 1 + 1 - init) with 0 by lia. cbn [N.to_nat blocks_upto seq flat_map length].
    split; [reflexivity|]. split; [intros i Hlt; lia|]. split; [reflexivity|].
    split; [|split; [reflexivity|split; [intros _; split; reflexivity|intros Hx; lia]]].
    cbn [walk]. destruct (N.ltb_spec (init - 1) init); [|lia].
    replace (init - 1 + 1) with init by lia. reflexivity.
  - pose proof (PP.chain_height _ _ _ _ _ _ _ Hc) as (Hsh & Hle & Hch & Hin). fold init in Hle.
    destruct IH as (Hlen & Hnth & Hcf & Hwalk & Hsa & Htime & Hroot).
    { intros k b' Hk. apply Hmeta. lia. }
    destruct Hv as (Hval & Hlink & (Hsig & Hsigner & _) & Hbuilt & Hexecd).
    pose proof (PP.validate_facts _ _ _ Hval) as (Hhh & Hhc & Hha & Hht & Hdc & Hpa & _).
    fold (P.hdr_of b) in Hhh, Hhc, Hha, Hht, Hdc, Hpa.
    assert (Hhn : h_height (P.hdr_of b) = n + 1) by lia.
    set (cnt := N.to_nat (n + 1 - init)) in *.
    assert (Hcnt : N.to_nat (n + 1 + 1 - init) = S cnt) by (unfold cnt; lia).
    assert (Hidx : init + N.of_nat cnt = n + 1) by (unfold cnt; lia).
    cbv zeta. rewrite Hcnt, blocks_upto_S, Hidx, Hb. cbn [option_map opt_list].
    set (C := blocks_upto blocks init cnt) in *.
    assert (Hret : r = exec (s_app s) (n + 1) (h_time (P.hdr_of b)) (d_txs (P.b_data b))).
    { rewrite Hhn in Hexecd. apply exec_follows_in in Hexecd. exact Hexecd. }
    split; [rewrite app_length, Hlen; cbn; lia|].
    split.
    { intros i Hlt. destruct (Nat.eq_dec i cnt) as [->|Hne].
      - rewrite nth_error_app2 by lia. rewrite Hlen, Nat.sub_diag, Hidx, Hb. cbn. split; [reflexivity|discriminate].
      - rewrite nth_error_app1 by lia. apply Hnth. lia. }
    split.
    { rewrite chain_fromb_app, Hcf, Hwalk. cbn [andb S.chain_fromb]. rewrite andb_true_r.
      (* the new block against Syncer.block_okb *)
      unfold S.block_okb, tr_blk. fold (P.hdr_of b).
      assert (Hmb : meta_ok b) by (apply (Hmeta (n + 1)); [lia|exact Hb]).
      unfold meta_ok in Hmb.
      assert (Hvp : validate_pair (P.b_sh b) (P.b_data b) = true).
      { unfold validate in Hval. rewrite !andb_true_iff in Hval. tauto. }
      unfold validate_pair in Hvp. fold (P.hdr_of b) in Hvp.
      destruct (d_meta (P.b_data b)) as [mt|] eqn:Hmt; [|contradiction].
      rewrite !andb_true_iff in Hvp. destruct Hvp as (((M1 & M2) & M3) & _).
      rewrite Hsig, Hsigner. cbn [P.mk_signer sg_pub sg_addr verify_header S.g_chain g cfg_sync].
      rewrite (PP.wf_gaddr c Hwf) in *.
      assert (Hprop : h_proposer (P.hdr_of b) = Addr (P.c_key c)).
      { rewrite Hpa, Hsigner. cbn. apply (PP.wf_gaddr c Hwf). }
      rewrite Hprop, Hhn, Hhc, Hch, Hha, Hdc, !N.eqb_refl, PP.header_eqb_refl. cbn [addr_eqb andb].
      rewrite !N.eqb_refl. cbn [andb].
      assert (Hlast : match h_last (P.hdr_of b), (if n <? init then None else option_map P.hdr_of (blocks n)) with
                      | None, None => true | Some x, Some y => header_eqb x y | _, _ => false end = true).
      { rewrite Hlink, Hhn. unfold P.link. fold init.
        destruct (N.leb_spec (n + 1) init) as [H1|H1]; destruct (N.ltb_spec n init) as [H2|H2].
        - reflexivity.
        - exfalso; lia.
        - exfalso; lia.
        - replace (n + 1 - 1) with n by lia. destruct (blocks n) as [pb|]; cbn; [apply PP.header_eqb_refl|reflexivity]. }
      rewrite Hlast. cbn [andb].
      assert (Htm : (s_time s <=? h_time (P.hdr_of b))%Z = true).
      { apply Z.leb_le. destruct (N.eq_dec (n + 1) init) as [Heq|Hne].
        - rewrite (proj1 (Htime Heq)). rewrite Hhn in Hbuilt.
          rewrite (HQ1 _ _ _ Hbuilt Heq). lia.
        - apply Hht. lia. }
      rewrite Htm. cbn [andb].
      apply N.eqb_eq in M1, M2. apply Z.eqb_eq in M3.
      rewrite <- M1, <- M2, <- M3, Hhc, Hch, Hhn, !N.eqb_refl, Z.eqb_refl. reflexivity. }
    split.
    { rewrite walk_app, Hwalk. cbn [walk tr_blk fst snd]. fold (P.hdr_of b).
      destruct (N.ltb_spec (n + 1) init); [lia|]. cbn [option_map next_state s_time s_app].
      rewrite <- Hret. reflexivity. }
    split.
    { rewrite app_length. rewrite state_after_app, Hsa. cbn [length S.state_after tr_blk].
      fold (P.hdr_of b). rewrite Hhn, <- Hret. reflexivity. }
    split; [intros Heq; lia|].
    intros _ b' Hb'. destruct (N.eq_dec (n + 1) init) as [Heq|Hne].
    + rewrite <- Heq, Hb in Hb'. inversion Hb'; subst b'. rewrite Hha. apply (Htime Heq).
    + apply Hroot; [lia|exact Hb'].
Qed.

End Bridge.

(* ---- 1.4 history-level statements ------------------------------------------------------------------ *)

(* what the translation delivers, as one record-free conjunction *)
Definition chain_bridged (exec : root -> N -> Z -> list tx -> root) (c : P.cfg) (st : P.mach) : Prop :=
  let m := P.img_of st in
  let C := committed_chain c st in
  let g := sync_config c st in
  S.ChainValid exec g (P.c_key c) C /\
  length C = N.to_nat (state_height c m + 1 - P.c_initial c) /\
  (forall i, (i < length C)%nat ->
     nth_error C i = option_map tr_blk (P.g_block m (P.c_initial c + N.of_nat i)) /\
     P.g_block m (P.c_initial c + N.of_nat i) <> None) /\
  (forall s, P.g_state m = Some s ->
     P.c_initial c <= s_height s /\ In (init_root c st) (P.g_inits st) /\
     S.state_after exec (S.genesis_state g) C (length C) = s).

Lemma durable_bridged exec c st :
  P.wf_cfg c -> P.ChainDurable c st -> QI c st -> exec_followsb exec (P.g_execs st) = true ->
  chain_bridged exec c st.
Proof.
  intros Hwf HD (HQ1 & HQ2) Hex. pose proof (PP.wf_initial c Hwf) as Hi.
  unfold chain_bridged, committed_chain, state_height.
  destruct HD as [(Hlt & Hnone)|(r0 & s & Hr & Hc & Hs & Hle & _)].
  - rewrite Hnone. replace (P.c_initial c - 1 + 1 - P.c_initial c) with 0 by lia.
    cbn [N.to_nat blocks_upto seq flat_map length].
    split; [split; [exact Hi|split; [apply (PP.wf_gaddr c Hwf)|reflexivity]]|].
    split; [reflexivity|]. split; [intros i Hlt'; inversion Hlt'|]. intros s Hs. discriminate Hs.
  - rewrite Hs.
    destruct (chain_bridge exec c Hwf (P.g_block (P.img_of st)) (P.g_built st) (P.g_execs st) r0 HQ1 Hex
                (s_height s) s Hc (HQ2 s Hs)) as (Hlen & Hnth & Hcf & _ & Hsa & _ & Hroot).
    assert (Hr0 : init_root c st = r0).
    { unfold init_root. destruct (Hnth 0%nat) as (_ & Hne); [lia|].
      replace (P.c_initial c + N.of_nat 0) with (P.c_initial c) in Hne by lia.
      destruct (P.g_block (P.img_of st) (P.c_initial c)) as [b|] eqn:Hb; [|contradiction].
      apply Hroot; [exact Hle|reflexivity]. }
    unfold sync_config. rewrite Hr0.
    split; [split; [exact Hi|split; [apply (PP.wf_gaddr c Hwf)|exact Hcf]]|].
    split; [exact Hlen|]. split; [rewrite Hlen; exact Hnth|].
    intros s' Hs'. inversion Hs'; subst s'. split; [exact Hle|]. split; [exact Hr|exact Hsa].
Qed.

(* Target 1, every history (crashes anywhere, restarts, shutdowns, hand-damaged cache files included) *)
Theorem producer_chain_sync_valid_all exec c h :
  P.wf_cfg c -> exec_followsb exec (P.g_execs (P.run c h)) = true ->
  chain_bridged exec c (P.run c h).
Proof.
  intros Hwf Hex. apply durable_bridged; [exact Hwf|apply PP.chain_durable_all, Hwf|apply reach_extra, Hwf|exact Hex].
Qed.

(* in a crash-free history (and whenever a process runs) the committed chain reaches the store height *)
Lemma valid_state_height c st : P.wf_cfg c -> P.ChainValid c st ->
  N.to_nat (state_height c (P.img_of st) + 1 - P.c_initial c) = N.to_nat (P.g_height (P.img_of st) + 1 - P.c_initial c).
Proof.
  intros Hwf [(Hlt & Hnone)|(r0 & s & _ & Hc & Hs & _)]; unfold state_height.
  - rewrite Hnone. lia.
  - rewrite Hs. apply PP.chain_height in Hc. destruct Hc as (-> & _). reflexivity.
Qed.

Theorem producer_chain_sync_valid_crash_free exec c h :
  P.wf_cfg c -> P.crash_free h = true -> exec_followsb exec (P.g_execs (P.run c h)) = true ->
  chain_bridged exec c (P.run c h) /\
  length (committed_chain c (P.run c h)) = N.to_nat (P.g_height (P.img_of (P.run c h)) + 1 - P.c_initial c).
Proof.
  intros Hwf Hcf Hex. pose proof (producer_chain_sync_valid_all exec c h Hwf Hex) as HB.
  split; [exact HB|]. destruct HB as (_ & Hlen & _). rewrite Hlen.
  apply valid_state_height; [exact Hwf|apply PP.chain_valid_crash_free; assumption].
Qed.

Theorem producer_chain_sync_valid_running exec c h v :
  P.wf_cfg c -> P.vol_of (P.run c h) = Some v -> exec_followsb exec (P.g_execs (P.run c h)) = true ->
  length (committed_chain c (P.run c h)) = N.to_nat (P.g_height (P.img_of (P.run c h)) + 1 - P.c_initial c).
Proof.
  intros Hwf Hv Hex. destruct (producer_chain_sync_valid_all exec c h Hwf Hex) as (_ & Hlen & _). rewrite Hlen.
  apply valid_state_height; [exact Hwf|eapply PP.chain_valid_running; eassumption].
Qed.

(* ---- the full node on the sequencer's chain ---- *)

(* E2E, every producer history and EVERY delivery history (any order, duplicates, clean restarts, crashes
   after any number of writes, crashes during start-up): the full node runs and holds exactly a prefix of
   the sequencer's committed chain, with the state of exactly that height (C05_recovery_full instantiated) *)
Theorem e2e_follows exec c h hs :
  P.wf_cfg c -> exec_followsb exec (P.g_execs (P.run c h)) = true ->
  let C := committed_chain c (P.run c h) in let g := sync_config c (P.run c h) in
  Forall (S.item_in C) hs ->
  S.recovered exec g C (S.run exec g hs).
Proof.
  intros Hwf Hex C g Hin. destruct (producer_chain_sync_valid_all exec c h Hwf Hex) as (HV & _).
  eapply SP.recovery; eassumption.
Qed.

(* the same for crash-free delivery histories, with the execution-call log (C02_safety_full instantiated) *)
Theorem e2e_follows_clean exec c h hs :
  P.wf_cfg c -> exec_followsb exec (P.g_execs (P.run c h)) = true ->
  let C := committed_chain c (P.run c h) in let g := sync_config c (P.run c h) in
  Forall (S.item_in C) hs -> forallb S.is_clean hs = true ->
  S.n_status (S.run exec g hs) = S.Running /\
  exists j, S.synced_to exec g C (S.run exec g hs) j /\
            S.n_log (S.run exec g hs) = S.calls_after exec (S.genesis_state g) C j.
Proof.
  intros Hwf Hex C g Hin Hcl. destruct (producer_chain_sync_valid_all exec c h Hwf Hex) as (HV & _).
  eapply SP.safety; eassumption.
Qed.

(* a full node that holds a prefix of C and is at least at the height of C's last block IS at the sequencer's
   recorded state: same height, same state record (state root included), same block at every height *)
Lemma synced_full exec c st nd j :
  P.wf_cfg c -> chain_bridged exec c st ->
  let C := committed_chain c st in let g := sync_config c st in
  S.synced_to exec g C nd j ->
  S.g_initial g + N.of_nat (length C) - 1 <= S.d_height (S.n_disk nd) ->
  forall s, P.g_state (P.img_of st) = Some s ->
    S.d_height (S.n_disk nd) = s_height s /\ S.n_last nd = s /\ S.d_state (S.n_disk nd) = Some s /\
    forall k, P.c_initial c <= k <= s_height s ->
      S.d_block (S.n_disk nd) k = option_map tr_blk (P.g_block (P.img_of st) k).
Proof.
  intros Hwf (HV & Hlen & Hnth & Hst) C g (Hj & Hh & Hblk & Hlast & Hds & _) Hge s Hs.
  pose proof (PP.wf_initial c Hwf) as Hi.
  destruct (Hst s Hs) as (Hle & _ & Hsa).
  fold C in Hlen, Hnth, Hsa. fold g in Hsa.
  assert (Hs' : state_height c (P.img_of st) = s_height s) by (unfold state_height; rewrite Hs; reflexivity).
  rewrite Hs' in Hlen.
  change (S.g_initial g) with (P.c_initial c) in *.
  assert (Hjl : j = length C) by lia. subst j.
  split; [lia|]. split; [rewrite Hlast; exact Hsa|].
  split; [rewrite Hds by lia; rewrite Hlast, Hsa; reflexivity|].
  intros k Hk. set (i := N.to_nat (k - P.c_initial c)).
  assert (Hki : k = P.c_initial c + N.of_nat i) by (unfold i; lia).
  rewrite Hki. rewrite Hblk by lia. apply Hnth. lia.
Qed.

(* E2E completeness, under the guard of C02_complete_partial on the sequencer's committed chain: if the
   delivery history is clean and contains the header of every committed block and the data of every
   non-empty one, the full node is at the sequencer's recorded state *)
Theorem e2e_reaches exec c h hs :
  P.wf_cfg c -> exec_followsb exec (P.g_execs (P.run c h)) = true ->
  let st := P.run c h in let C := committed_chain c st in let g := sync_config c st in
  Forall (S.item_in C) hs -> forallb S.is_clean hs = true ->
  S.distinct_commitmentsb C = true ->
  (forall b, In b C -> S.header_delivered hs b) ->
  (forall b, In b C -> d_txs (snd b) <> [] -> S.data_delivered hs b) ->
  forall s, P.g_state (P.img_of st) = Some s ->
    let nd := S.run exec g hs in
    S.n_status nd = S.Running /\
    S.d_height (S.n_disk nd) = s_height s /\ S.n_last nd = s /\ S.d_state (S.n_disk nd) = Some s /\
    (forall k, P.c_initial c <= k <= s_height s ->
       S.d_block (S.n_disk nd) k = option_map tr_blk (P.g_block (P.img_of st) k)) /\
    S.n_log nd = S.calls_after exec (S.genesis_state g) C (length C).
Proof.
  intros Hwf Hex st C g Hin Hcl Hdist Hhd Hdd s Hs nd.
  pose proof (producer_chain_sync_valid_all exec c h Hwf Hex) as HB. fold st in HB.
  pose proof HB as (HV & Hlen & _).
  destruct (SP.safety exec g _ C hs HV Hin Hcl) as (Hrun & j & Hsync & Hlog).
  assert (Hge : S.g_initial g + N.of_nat (length C) - 1 <= S.d_height (S.n_disk (S.run exec g hs))).
  { eapply SP.complete_partial; try eassumption; [apply le_n| |].
    - intros i b _ Hb. apply Hhd. eapply nth_error_In; exact Hb.
    - intros i b _ Hb. apply Hdd. eapply nth_error_In; exact Hb. }
  destruct (synced_full exec c st _ j Hwf HB Hsync Hge s Hs) as (A & B & D & E).
  split; [exact Hrun|]. split; [exact A|]. split; [exact B|]. split; [exact D|]. split; [exact E|].
  fold nd in Hlog. rewrite Hlog. f_equal.
  destruct Hsync as (Hj & Hh & _). fold C in Hj. change (S.g_initial g) with (P.c_initial c) in *.
  pose proof (PP.wf_initial c Hwf). lia.
Qed.

(* E2E recovery + resynchronisation (C05_resync_partial instantiated): after ANY past hs1 of the full node
   (crashes included), a clean suffix hs2 that delivers what is still missing brings it to the sequencer's
   recorded state *)
Theorem e2e_resyncs exec c h hs1 hs2 :
  P.wf_cfg c -> exec_followsb exec (P.g_execs (P.run c h)) = true ->
  let st := P.run c h in let C := committed_chain c st in let g := sync_config c st in
  Forall (S.item_in C) (hs1 ++ hs2) -> forallb S.is_clean hs2 = true ->
  S.distinct_commitmentsb C = true ->
  (forall b, In b C -> S.header_delivered hs2 b) ->
  (forall b, In b C -> d_txs (snd b) <> [] -> S.data_delivered hs2 b) ->
  forall s, P.g_state (P.img_of st) = Some s ->
    let nd := S.run exec g (hs1 ++ hs2) in
    S.n_status nd = S.Running /\
    S.d_height (S.n_disk nd) = s_height s /\ S.n_last nd = s /\ S.d_state (S.n_disk nd) = Some s /\
    (forall k, P.c_initial c <= k <= s_height s ->
       S.d_block (S.n_disk nd) k = option_map tr_blk (P.g_block (P.img_of st) k)).
Proof.
  intros Hwf Hex st C g Hin Hcl Hdist Hhd Hdd s Hs nd.
  pose proof (producer_chain_sync_valid_all exec c h Hwf Hex) as HB. fold st in HB.
  pose proof HB as (HV & Hlen & _).
  destruct (SP.recovery exec g _ C (hs1 ++ hs2) HV Hin) as (Hrun & j & Hsync).
  assert (Hge : S.g_initial g + N.of_nat (length C) - 1 <= S.d_height (S.n_disk (S.run exec g (hs1 ++ hs2)))).
  { eapply SP.progress; try eassumption; [apply le_n| |].
    - intros i b _ Hb. right. apply Hhd. eapply nth_error_In; exact Hb.
    - intros i b _ Hb Hne. right. apply Hdd; [eapply nth_error_In; exact Hb|exact Hne]. }
  destruct (synced_full exec c st _ j Hwf HB Hsync Hge s Hs) as (A & B & D & E).
  split; [exact Hrun|]. split; [exact A|]. split; [exact B|]. split; [exact D|exact E].
Qed.
