(* Proofs/LazyProofs.v — lemmas about Model/Lazy.v (the lazy / normal aggregation loop).
   All results are invariants of [reach] / [steps], i.e. hold for every schedule, every list of
   notification instants, every duration list and every pair of intervals. *)
From Coq Require Import ZArith List Bool Lia.
From Verif Require Import Model.Lazy.
Import ListNotations.
Open Scope Z_scope.

(* ---- small arithmetic facts ---------------------------------------------------------------- *)

Lemma ms_pos : 0 < ms.
Proof. unfold ms; lia. Qed.

Lemma remaining_pos : forall d i, 0 < remaining d i.
Proof. intros d i; unfold remaining; destruct (Z.ltb_spec d i); [lia | apply ms_pos]. Qed.

Lemma remaining_ge : forall d i, i <= d + remaining d i.
Proof. intros d i; unfold remaining; destruct (Z.ltb_spec d i); pose proof ms_pos; lia. Qed.

Lemma remaining_le : forall d i, d + remaining d i <= Z.max i (d + ms).
Proof. intros d i; unfold remaining; destruct (Z.ltb_spec d i); lia. Qed.


(* ---- sorted notification lists --------------------------------------------------------------- *)

Fixpoint ssorted (l : list Z) : Prop :=
  match l with [] => True | x :: r => Forall (fun y => x <= y) r /\ ssorted r end.

Lemma insert_In : forall x y l, In y (insert x l) <-> y = x \/ In y l.
Proof.
  intros x y l; induction l as [|a l IH]; simpl.
  - intuition.
  - destruct (x <=? a); simpl; rewrite ?IH; intuition.
Qed.

Lemma insert_sorted : forall x l, ssorted l -> ssorted (insert x l).
Proof.
  intros x l; induction l as [|a l IH]; simpl; intros Hs.
  - split; [constructor | exact I].
  - destruct Hs as [Ha Hs]. destruct (Z.leb_spec x a) as [Hle|Hgt]; simpl.
    + split; [|split; assumption].
      constructor; [assumption|]. rewrite Forall_forall in *. intros y Hy. specialize (Ha y Hy). lia.
    + split; [|apply IH; assumption].
      rewrite Forall_forall in *. intros y Hy. apply insert_In in Hy. destruct Hy as [->|Hy]; [lia|auto].
Qed.

Lemma isort_sorted : forall l, ssorted (isort l).
Proof. induction l as [|a l IH]; simpl; [exact I | apply insert_sorted; exact IH]. Qed.

Lemma isort_In : forall y l, In y (isort l) <-> In y l.
Proof.
  intros y l; induction l as [|a l IH]; simpl; [tauto|].
  rewrite insert_In, IH. intuition.
Qed.

Lemma Forall_filter : forall (P : Z -> Prop) f l, Forall P l -> Forall P (filter f l).
Proof.
  intros P f l H. rewrite Forall_forall in *. intros x Hx. apply filter_In in Hx. apply H, Hx.
Qed.

Lemma filter_sorted : forall f l, ssorted l -> ssorted (filter f l).
Proof.
  intros f l; induction l as [|a l IH]; simpl; intros Hs; [exact I|].
  destruct Hs as [Ha Hs]. destruct (f a); simpl; [split|]; auto using Forall_filter.
Qed.

Lemma filter_gt : forall e l, Forall (fun x => e <= x) (filter (fun x => negb (x <=? e)) l).
Proof.
  intros e l. rewrite Forall_forall. intros x Hx. apply filter_In in Hx. destruct Hx as [_ Hx].
  destruct (Z.leb_spec x e); simpl in Hx; [discriminate | lia].
Qed.

(* ---- projections of [produce] ------------------------------------------------------------------ *)

Definition pstart (c : cfg) (s : st) : Z := tau c s.

Lemma produce_now : forall c s b, now (produce c s b) = tau c s + pdur c s.
Proof. reflexivity. Qed.
Lemma produce_lz : forall c s b,
  lz (produce c s b) = if c_lazy c then tau c s + pdur c s + remaining (pdur c s) (eff_li c) else lz s.
Proof. reflexivity. Qed.
Lemma produce_bk : forall c s b,
  bk (produce c s b) = tau c s + pdur c s + remaining (pdur c s) (eff_bt c).
Proof. reflexivity. Qed.
Lemma produce_chan : forall c s b,
  chan (produce c s b) = chan s || existsb (fun x => x <=? tau c s + pdur c s) (pend s).
Proof. reflexivity. Qed.
Lemma produce_avail : forall c s b,
  avail (produce c s b) = if c_lazy c && b then false else avail s.
Proof. reflexivity. Qed.
Lemma produce_pend : forall c s b,
  pend (produce c s b) = filter (fun x => negb (x <=? tau c s + pdur c s)) (pend s).
Proof. reflexivity. Qed.
Lemma produce_prods : forall c s b, prods (produce c s b) = (tau c s, pdur c s) :: prods s.
Proof. reflexivity. Qed.

Lemma pdur_nonneg : forall c s, 0 <= pdur c s.
Proof. intros; unfold pdur; lia. Qed.

(* ---- the global invariant ------------------------------------------------------------------------ *)

Definition W (c : cfg) : Z := Z.max (eff_bt c) ms.

Record G (c : cfg) (s : st) : Prop := {
  G_lz : c_lazy c = true -> now s <= lz s;
  G_bk : now s <= bk s;
  G_pend : Forall (fun x => now s <= x) (pend s);
  G_sorted : ssorted (pend s);
  G_bkW : bk s <= now s + W c
}.

Lemma tau_bounds : forall c s, G c s ->
  now s <= tau c s /\ tau c s <= bk s /\ (c_lazy c = true -> tau c s <= lz s) /\
  (chan s = true -> tau c s = now s) /\
  (forall h r, pend s = h :: r -> tau c s <= h).
Proof.
  intros c s [Hlz Hbk Hp Hs _]. unfold tau.
  destruct (chan s) eqn:Ech.
  - repeat split; try lia.
    + intros Hl; specialize (Hlz Hl); lia.
    + intros h r E. rewrite E in Hp. inversion Hp; subst; assumption.
  - destruct (c_lazy c) eqn:El; [specialize (Hlz eq_refl)|];
    (destruct (pend s) as [|h r] eqn:E;
     [ repeat split; try lia; try (intros; discriminate); try (intros; lia)
     | inversion Hp; subst; repeat split; try lia; try (intros; discriminate); try (intros; lia);
       try (intros h' r' E'; inversion E'; subst; lia) ]).
Qed.

Lemma G_produce : forall c s b, G c s -> G c (produce c s b).
Proof.
  intros c s b Hg. pose proof (tau_bounds c s Hg) as (Ht1 & Ht2 & Ht3 & _ & _).
  pose proof (pdur_nonneg c s) as Hd.
  constructor.
  - intros Hl. rewrite produce_now, produce_lz, Hl.
    pose proof (remaining_pos (pdur c s) (eff_li c)). lia.
  - rewrite produce_now, produce_bk. pose proof (remaining_pos (pdur c s) (eff_bt c)). lia.
  - rewrite produce_now, produce_pend. apply filter_gt.
  - rewrite produce_pend. apply filter_sorted, Hg.
  - rewrite produce_now, produce_bk. unfold W.
    pose proof (remaining_le (pdur c s) (eff_bt c)). lia.
Qed.

Lemma G_step : forall c s ch s', G c s -> step c s ch = Some s' -> G c s'.
Proof.
  intros c s ch s' Hg Hs.
  pose proof (tau_bounds c s Hg) as (Ht1 & Ht2 & Ht3 & Ht4 & Ht5).
  destruct Hg as [Hlz Hbk Hp Hso HW]. unfold step in Hs. destruct ch.
  - (* CEnv *)
    destruct (pend s) as [|h r] eqn:E; [discriminate|].
    destruct (Z.eqb_spec h (tau c s)) as [Eh|]; [|discriminate].
    inversion Hs; subst s'; clear Hs. destruct Hso as [Hh Hr].
    constructor; simpl.
    + intros Hl; specialize (Ht3 Hl); lia.
    + lia.
    + rewrite <- Eh. exact Hh.
    + exact Hr.
    + lia.
  - (* CRecv *)
    destruct (chan s); [|discriminate]. inversion Hs; subst s'; clear Hs.
    constructor; simpl; auto.
  - (* CLazy *)
    destruct (c_lazy c && (lz s =? tau c s)); [|discriminate].
    inversion Hs; subst s'. apply G_produce. constructor; assumption.
  - (* CBlock *)
    destruct (Z.eqb_spec (bk s) (tau c s)) as [Eb|]; [|discriminate].
    destruct (c_lazy c && negb (avail s)).
    + inversion Hs; subst s'; clear Hs. constructor; simpl.
      * intros Hl; specialize (Ht3 Hl); lia.
      * lia.
      * rewrite Forall_forall in *. intros x Hx.
        destruct (pend s) as [|h r] eqn:E; [destruct Hx|].
        specialize (Ht5 h r eq_refl). destruct Hso as [Hh _].
        destruct Hx as [->|Hx]; [lia|]. rewrite Forall_forall in Hh. specialize (Hh x Hx). lia.
      * exact Hso.
      * unfold W. pose proof ms_pos. lia.
    + inversion Hs; subst s'. apply G_produce. constructor; assumption.
Qed.

Lemma G_init : forall c ns, G c (init c ns).
Proof.
  intros c ns. constructor; simpl.
  - intros _; lia.
  - lia.
  - apply filter_gt.
  - apply filter_sorted, isort_sorted.
  - unfold W. pose proof ms_pos. lia.
Qed.

Lemma G_reach : forall c ns s, reach c ns s -> G c s.
Proof. induction 1; [apply G_init | eapply G_step; eassumption]. Qed.

Lemma G_steps : forall c s s', steps c s s' -> G c s -> G c s'.
Proof. induction 1; intros; [assumption | apply IHsteps; eapply G_step; eassumption]. Qed.

Lemma reach_steps : forall c ns s s', reach c ns s -> steps c s s' -> reach c ns s'.
Proof.
  intros c ns s s' Hr Hs. induction Hs; [assumption|].
  apply IHHs. eapply reach_step; eassumption.
Qed.

Lemma run_steps : forall c chs s s', run c s chs = Some s' -> steps c s s'.
Proof.
  intros c chs; induction chs as [|ch r IH]; simpl; intros s s' H.
  - inversion H; constructor.
  - destruct (step c s ch) as [s1|] eqn:E; [|discriminate].
    eapply steps_step; [exact E | apply IH; exact H].
Qed.

Lemma run_reach : forall c ns chs s, run c (init c ns) chs = Some s -> reach c ns s.
Proof. intros. eapply reach_steps; [constructor | eapply run_steps; eassumption]. Qed.

(* time never runs backwards *)
Lemma step_now_mono : forall c s ch s', G c s -> step c s ch = Some s' -> now s <= now s'.
Proof.
  intros c s ch s' Hg Hs. pose proof (tau_bounds c s Hg) as (Ht1 & _).
  unfold step in Hs. destruct ch.
  - destruct (pend s); [discriminate|]. destruct (z =? tau c s); [|discriminate].
    inversion Hs; subst; simpl; lia.
  - destruct (chan s); [|discriminate]. inversion Hs; subst; simpl; lia.
  - destruct (c_lazy c && (lz s =? tau c s)); [|discriminate]. inversion Hs; subst.
    rewrite produce_now. pose proof (pdur_nonneg c s); lia.
  - destruct (bk s =? tau c s); [|discriminate]. destruct (c_lazy c && negb (avail s));
      inversion Hs; subst; [simpl; lia|]. rewrite produce_now. pose proof (pdur_nonneg c s); lia.
Qed.

(* what a step does to the production list *)
Lemma step_prods : forall c s ch s', step c s ch = Some s' ->
  (produces c s ch = false /\ prods s' = prods s) \/
  (produces c s ch = true /\ s' = produce c s (match ch with CBlock => true | _ => false end)).
Proof.
  intros c s ch s' Hs. unfold step in Hs. destruct ch; simpl.
  - destruct (pend s); [discriminate|]. destruct (z =? tau c s); [|discriminate].
    inversion Hs; subst; left; auto.
  - destruct (chan s); [|discriminate]. inversion Hs; subst; left; auto.
  - destruct (c_lazy c && (lz s =? tau c s)); [|discriminate]. inversion Hs; subst; right; auto.
  - destruct (bk s =? tau c s); [|discriminate]. destruct (c_lazy c && negb (avail s));
      inversion Hs; subst; [left|right]; auto.
Qed.

(* a production starts at the deadline of the timer that fired *)
Lemma produces_at : forall c s ch s', step c s ch = Some s' -> produces c s ch = true ->
  (ch = CLazy /\ c_lazy c = true /\ lz s = tau c s) \/ (ch = CBlock /\ bk s = tau c s).
Proof.
  intros c s ch s' Hs Hp. unfold step in Hs. destruct ch; simpl in Hp; try discriminate.
  - left. destruct (c_lazy c); [|discriminate]. simpl in Hs.
    destruct (Z.eqb_spec (lz s) (tau c s)); [auto|discriminate].
  - right. destruct (Z.eqb_spec (bk s) (tau c s)); [auto|discriminate].
Qed.

(* ---- rate: never faster than one production per block interval (guarded) ------------------------ *)

Definition Rinv (c : cfg) (s : st) : Prop :=
  gaps_ge (eff_bt c) (prods s) /\
  match prods s with
  | p :: _ => fst p + eff_bt c <= bk s /\ (c_lazy c = true -> fst p + eff_bt c <= lz s)
  | [] => True
  end.

Lemma Rinv_step : forall c s ch s', rate_guard c = true ->
  G c s -> Rinv c s -> step c s ch = Some s' -> Rinv c s'.
Proof.
  intros c s ch s' Hguard Hg [Hgap Hhd] Hs.
  pose proof (tau_bounds c s Hg) as (Ht1 & Ht2 & Ht3 & _ & _).
  destruct (step_prods c s ch s' Hs) as [[Hnp Hpr]|[Hp ->]].
  - (* no production: prods unchanged; lz unchanged; bk unchanged or pushed later *)
    unfold Rinv. rewrite Hpr. split; [assumption|].
    destruct (prods s) as [|p r]; [exact I|]. destruct Hhd as [Hb Hl].
    unfold step in Hs. destruct ch; simpl in Hnp; try discriminate.
    + destruct (pend s); [discriminate|]. destruct (z =? tau c s); [|discriminate].
      inversion Hs; subst; simpl; auto.
    + destruct (chan s); [|discriminate]. inversion Hs; subst; simpl; auto.
    + destruct (Z.eqb_spec (bk s) (tau c s)) as [Eb|]; [|discriminate].
      destruct (c_lazy c && negb (avail s)); [|discriminate].
      inversion Hs; subst; simpl. split; [lia|auto].
  - (* a production at tau = the deadline of the timer that fired *)
    pose proof (produces_at c s ch _ Hs Hp) as Hat.
    unfold Rinv. rewrite produce_prods, produce_bk, produce_lz.
    pose proof (remaining_ge (pdur c s) (eff_bt c)) as Hrb.
    pose proof (remaining_ge (pdur c s) (eff_li c)) as Hrl.
    assert (Hli : c_lazy c = true -> eff_bt c <= eff_li c).
    { intros Hl. unfold rate_guard in Hguard. rewrite Hl in Hguard. simpl in Hguard.
      apply Z.leb_le; assumption. }
    split.
    + destruct (prods s) as [|p r] eqn:E; [exact I|]. destruct Hhd as [Hb Hl].
      simpl. split; [|exact Hgap]. simpl.
      destruct Hat as [(_ & Hlazy & El)|(_ & Eb)]; [specialize (Hl Hlazy)|]; lia.
    + simpl. split; [lia|]. intros Hl. rewrite Hl. specialize (Hli Hl). lia.
Qed.

Lemma rate_invariant : forall c ns s, rate_guard c = true -> reach c ns s -> Rinv c s.
Proof.
  intros c ns s Hguard Hr. induction Hr.
  - split; simpl; exact I.
  - eapply Rinv_step; eauto using G_reach.
Qed.

Lemma rate_partial : forall c ns s, rate_guard c = true -> reach c ns s ->
  gaps_ge (eff_bt c) (prods s).
Proof. intros; eapply rate_invariant; eassumption. Qed.

Lemma gaps_geb_spec : forall b l, gaps_geb b l = true <-> gaps_ge b l.
Proof.
  intros b l; induction l as [|p2 r IH]; simpl; [tauto|].
  destruct r as [|p1 r']; [tauto|].
  rewrite andb_true_iff, Z.leb_le, IH. tauto.
Qed.

(* the witness: lazy interval 1 s below the block time 2 s, no notification, instantaneous productions:
   the lazy timer fires at 0 and at 1 s *)
Definition refute_cfg : cfg :=
  {| c_lazy := true; c_bt := 2000 * ms; c_li := 1000 * ms; c_gen := -2000 * ms; c_durs := []; c_ddef := 0 |}.

Lemma rate_refuted :
  ~ (forall c ns s, reach c ns s -> gaps_ge (eff_bt c) (prods s)).
Proof.
  intros H.
  destruct (run refute_cfg (init refute_cfg []) [CLazy; CLazy]) as [s|] eqn:E; [|vm_compute in E; discriminate].
  specialize (H refute_cfg [] s (run_reach _ _ _ _ E)).
  apply gaps_geb_spec in H. vm_compute in E. inversion E; subst s. vm_compute in H. discriminate.
Qed.

(* the same witness read off as numbers: two productions 1 s apart, block time 2 s *)
Lemma rate_refuted_trace :
  exists s, reach refute_cfg [] s /\ prods s = [(1000 * ms, 0); (0, 0)] /\ eff_bt refute_cfg = 2000 * ms.
Proof.
  destruct (run refute_cfg (init refute_cfg []) [CLazy; CLazy]) as [s|] eqn:E; [|vm_compute in E; discriminate].
  exists s. split; [eapply run_reach; exact E|]. vm_compute in E. inversion E; subst s. split; reflexivity.
Qed.

(* ---- idle interval ---------------------------------------------------------------------------------- *)

Definition Iinv (c : cfg) (s : st) : Prop :=
  chain_le (eff_li c) (prods s) /\ lz s = armed (eff_li c) (t0 c) (prods s).

Lemma next_fire_pair : forall i t d, next_fire i (t, d) = t + d + remaining d i.
Proof. reflexivity. Qed.

Lemma Iinv_step : forall c s ch s', c_lazy c = true ->
  G c s -> Iinv c s -> step c s ch = Some s' -> Iinv c s'.
Proof.
  intros c s ch s' Hl Hg [Hch Hlz] Hs.
  pose proof (tau_bounds c s Hg) as (Ht1 & Ht2 & Ht3 & _ & _). specialize (Ht3 Hl).
  destruct (step_prods c s ch s' Hs) as [[Hnp Hpr]|[Hp ->]].
  - unfold Iinv. rewrite Hpr. split; [assumption|]. rewrite <- Hlz.
    unfold step in Hs. destruct ch; simpl in Hnp; try discriminate.
    + destruct (pend s); [discriminate|]. destruct (z =? tau c s); [|discriminate].
      inversion Hs; subst; reflexivity.
    + destruct (chan s); [|discriminate]. inversion Hs; subst; reflexivity.
    + destruct (bk s =? tau c s); [|discriminate].
      destruct (c_lazy c && negb (avail s)); [|discriminate]. inversion Hs; subst; reflexivity.
  - unfold Iinv. rewrite produce_prods, produce_lz, Hl. split.
    + destruct (prods s) as [|p r] eqn:E; [exact I|]. simpl in Hlz.
      simpl. split; [|exact Hch]. simpl. lia.
    + simpl. rewrite next_fire_pair. reflexivity.
Qed.

Lemma idle_upper : forall c ns s, c_lazy c = true -> reach c ns s ->
  chain_le (eff_li c) (prods s) /\ now s <= armed (eff_li c) (t0 c) (prods s).
Proof.
  intros c ns s Hl Hr.
  assert (Hi : Iinv c s).
  { induction Hr; [split; simpl; [exact I | reflexivity]|].
    eapply Iinv_step; eauto using G_reach. }
  destruct Hi as [Hc Hlz]. split; [assumption|]. rewrite <- Hlz.
  apply (G_lz c s (G_reach _ _ _ Hr) Hl).
Qed.

(* no notification at all: productions are exactly the lazy-timer chain *)
Definition Qinv (c : cfg) (s : st) : Prop :=
  pend s = [] /\ chan s = false /\ avail s = false /\
  chain (eff_li c) (t0 c) (prods s) /\ lz s = armed (eff_li c) (t0 c) (prods s).

Lemma Qinv_step : forall c s ch s', c_lazy c = true ->
  Qinv c s -> step c s ch = Some s' -> Qinv c s'.
Proof.
  intros c s ch s' Hl (Hp & Hc & Ha & Hch & Hlz) Hs.
  unfold step in Hs. rewrite Hl, Hp, Hc, Ha in Hs. simpl in Hs. destruct ch; try discriminate.
  - (* CLazy *)
    destruct (Z.eqb_spec (lz s) (tau c s)) as [El|]; [|discriminate].
    inversion Hs; subst s'; clear Hs. unfold Qinv.
    rewrite produce_pend, produce_chan, produce_avail, produce_prods, produce_lz, Hl, Hp, Hc, Ha.
    simpl. repeat split; try reflexivity.
    destruct (prods s) as [|p r] eqn:E; simpl in *.
    + congruence.
    + split; [congruence | exact Hch].
  - (* CBlock: txsAvailable is false, the timer is re-armed *)
    destruct (bk s =? tau c s); [|discriminate].
    inversion Hs; subst s'; clear Hs. unfold Qinv; simpl. auto.
Qed.

Lemma idle_exact : forall c s, c_lazy c = true -> reach c [] s ->
  chain (eff_li c) (t0 c) (prods s) /\ now s <= armed (eff_li c) (t0 c) (prods s).
Proof.
  intros c s Hl Hr.
  assert (Hq : Qinv c s).
  { remember [] as ns eqn:En. induction Hr.
    - subst ns. unfold Qinv; simpl. repeat split; reflexivity.
    - eapply Qinv_step; eauto. }
  destruct Hq as (_ & _ & _ & Hch & Hlz). split; [assumption|]. rewrite <- Hlz.
  apply (G_lz c s (G_reach _ _ _ Hr) Hl).
Qed.

(* ---- normal mode ------------------------------------------------------------------------------------ *)

Definition Ninv (c : cfg) (s : st) : Prop :=
  chain (eff_bt c) (t0 c) (prods s) /\ bk s = armed (eff_bt c) (t0 c) (prods s).

Lemma Ninv_step : forall c s ch s', c_lazy c = false ->
  Ninv c s -> step c s ch = Some s' -> Ninv c s'.
Proof.
  intros c s ch s' Hl (Hch & Hbk) Hs.
  unfold step in Hs. rewrite Hl in Hs. simpl in Hs. destruct ch; try discriminate.
  - destruct (pend s); [discriminate|]. destruct (z =? tau c s); [|discriminate].
    inversion Hs; subst; split; assumption.
  - destruct (chan s); [|discriminate]. inversion Hs; subst; split; assumption.
  - destruct (Z.eqb_spec (bk s) (tau c s)) as [Eb|]; [|discriminate].
    inversion Hs; subst s'; clear Hs. unfold Ninv. rewrite produce_prods, produce_bk. split.
    + destruct (prods s) as [|p r] eqn:E; simpl in *.
      * congruence.
      * split; [congruence | exact Hch].
    + simpl. rewrite next_fire_pair. reflexivity.
Qed.

Lemma normal_exact : forall c ns s, c_lazy c = false -> reach c ns s ->
  chain (eff_bt c) (t0 c) (prods s) /\ now s <= armed (eff_bt c) (t0 c) (prods s).
Proof.
  intros c ns s Hl Hr.
  assert (Hn : Ninv c s).
  { induction Hr; [split; simpl; [exact I | reflexivity]|]. eapply Ninv_step; eauto. }
  destruct Hn as [Hch Hbk]. split; [assumption|]. rewrite <- Hbk.
  apply (G_bk c s (G_reach _ _ _ Hr)).
Qed.

(* ---- response: a pending notification leads to a production before the block timer's bound ---------- *)

Definition Qb (c : cfg) (B : Z) (s : st) : Prop :=
  bk s <= B /\
  (avail s = true \/ (chan s = true /\ (now s < bk s \/ now s + Z.max 0 (eff_bt c) <= B))).

Definition Pb (c : cfg) (B t1 : Z) (base : list (Z * Z)) (s : st) : Prop :=
  exists new, prods s = new ++ base /\
    ((exists p, In p new /\ t1 <= fst p /\ fst p <= B) \/
     (Qb c B s /\ t1 <= lz s /\ t1 <= bk s)).

Lemma Pb_step : forall c B t1 base s ch s', c_lazy c = true ->
  G c s -> Pb c B t1 base s -> step c s ch = Some s' -> Pb c B t1 base s'.
Proof.
  intros c B t1 base s ch s' Hl Hg (new & Hnew & HP) Hs.
  pose proof (tau_bounds c s Hg) as (Ht1 & Ht2 & Ht3 & Ht4 & _). specialize (Ht3 Hl).
  destruct HP as [(p & Hin & Hp1 & Hp2)|((Hb & Hq) & Hlz & Hbk)].
  - (* already answered *)
    destruct (step_prods c s ch s' Hs) as [[_ Hpr]|[_ ->]].
    + exists new. rewrite Hpr. split; [assumption|]. left; exists p; auto.
    + exists ((tau c s, pdur c s) :: new). rewrite produce_prods, Hnew. split; [reflexivity|].
      left; exists p; simpl; auto.
  - destruct (step_prods c s ch s' Hs) as [[Hnp Hpr]|[Hp ->]].
    + (* no production *)
      exists new. rewrite Hpr. split; [assumption|]. right.
      unfold step in Hs. destruct ch; simpl in Hnp; try discriminate.
      * destruct (pend s); [discriminate|]. destruct (z =? tau c s); [|discriminate].
        inversion Hs; subst s'; clear Hs. unfold Qb; simpl. repeat split; try assumption.
        destruct Hq as [Ha|(Hc & Hq)]; [left; assumption|].
        right. split; [reflexivity|]. specialize (Ht4 Hc). rewrite Ht4. assumption.
      * destruct (chan s); [|discriminate]. inversion Hs; subst s'; clear Hs.
        unfold Qb; simpl. repeat split; try assumption. left; reflexivity.
      * destruct (Z.eqb_spec (bk s) (tau c s)) as [Eb|]; [|discriminate].
        rewrite Hl in Hs, Hnp. simpl in Hs, Hnp.
        destruct (avail s) eqn:Ea; simpl in Hnp; [discriminate|]. simpl in Hs.
        inversion Hs; subst s'; clear Hs.
        destruct Hq as [Ha|(Hc & Hq)]; [discriminate|]. specialize (Ht4 Hc).
        unfold Qb; simpl. rewrite Hc.
        assert (now s + Z.max 0 (eff_bt c) <= B) by lia.
        repeat split; try lia.
    + (* a production at tau, the deadline of the timer that fired *)
      pose proof (produces_at c s ch _ Hs Hp) as Hat.
      exists ((tau c s, pdur c s) :: new). rewrite produce_prods, Hnew. split; [reflexivity|].
      left. exists (tau c s, pdur c s). simpl. split; [left; reflexivity|].
      destruct Hat as [(_ & _ & El)|(_ & Eb)]; lia.
Qed.

Lemma Pb_steps : forall c B t1 base s s', c_lazy c = true ->
  steps c s s' -> G c s -> Pb c B t1 base s -> Pb c B t1 base s'.
Proof.
  intros c B t1 base s s' Hl Hs. induction Hs; intros Hg HP; [assumption|].
  apply IHHs; [eapply G_step; eassumption | eapply Pb_step; eassumption].
Qed.

Lemma response : forall c B t1 s s', c_lazy c = true -> G c s ->
  Qb c B s -> t1 <= lz s -> t1 <= bk s ->
  steps c s s' -> B < now s' ->
  exists new p, prods s' = new ++ prods s /\ In p new /\ t1 <= fst p /\ fst p <= B.
Proof.
  intros c B t1 s s' Hl Hg Hq H1 H2 Hs Hlate.
  assert (HP : Pb c B t1 (prods s) s) by (exists []; split; [reflexivity | right; auto]).
  pose proof (Pb_steps c B t1 (prods s) s s' Hl Hs Hg HP) as (new & Hnew & HP').
  destruct HP' as [(p & Hin & Hp1 & Hp2)|((Hb & _) & _)].
  - exists new, p; auto.
  - pose proof (G_bk c s' (G_steps _ _ _ Hs Hg)). lia.
Qed.

(* a notification delivered while the loop is waiting: a production starts within one block interval *)
Lemma on_demand : forall c ns s s1 s2, c_lazy c = true -> reach c ns s ->
  step c s CEnv = Some s1 -> steps c s1 s2 -> now s1 + W c < now s2 ->
  exists new p, prods s2 = new ++ prods s1 /\ In p new /\
                now s1 <= fst p /\ fst p <= now s1 + W c.
Proof.
  intros c ns s s1 s2 Hl Hr Hs Hss Hlate.
  assert (Hg1 : G c s1) by (eapply G_step; [eapply G_reach; eassumption | eassumption]).
  apply (response c (now s1 + W c) (now s1) s1 s2 Hl Hg1); auto.
  - split; [apply Hg1|]. right.
    assert (Hc : chan s1 = true).
    { unfold step in Hs. destruct (pend s); [discriminate|]. destruct (z =? tau c s); [|discriminate].
      inversion Hs; reflexivity. }
    split; [assumption|]. right. unfold W. pose proof ms_pos. lia.
  - apply (G_lz c s1 Hg1 Hl).
  - apply (G_bk c s1 Hg1).
Qed.

(* a notification arriving during a production (or still in the channel when it starts) is not lost *)
Lemma no_lost_wakeup : forall c ns s ch s1 s2, c_lazy c = true -> reach c ns s ->
  step c s ch = Some s1 -> produces c s ch = true ->
  (chan s = true \/ exists x, In x (pend s) /\ x <= tau c s + pdur c s) ->
  steps c s1 s2 -> next_fire (eff_bt c) (tau c s, pdur c s) < now s2 ->
  exists new p, prods s2 = new ++ (tau c s, pdur c s) :: prods s /\ In p new /\
                tau c s + pdur c s < fst p /\ fst p <= next_fire (eff_bt c) (tau c s, pdur c s).
Proof.
  intros c ns s ch s1 s2 Hl Hr Hs Hp Hnot Hss Hlate.
  pose proof (G_reach _ _ _ Hr) as Hg.
  assert (Hg1 : G c s1) by (eapply G_step; eassumption).
  destruct (step_prods c s ch s1 Hs) as [[Hnp _]|[_ E1]]; [congruence|].
  set (b := match ch with CBlock => true | _ => false end) in E1.
  assert (Hnow : now s1 = tau c s + pdur c s) by (rewrite E1; apply produce_now).
  assert (Hbk : bk s1 = next_fire (eff_bt c) (tau c s, pdur c s))
    by (rewrite E1, produce_bk, next_fire_pair; reflexivity).
  assert (Hlz : lz s1 = tau c s + pdur c s + remaining (pdur c s) (eff_li c))
    by (rewrite E1, produce_lz, Hl; reflexivity).
  assert (Hprods : prods s1 = (tau c s, pdur c s) :: prods s) by (rewrite E1; apply produce_prods).
  assert (Hchan : chan s1 = true).
  { rewrite E1, produce_chan. destruct Hnot as [->|(x & Hin & Hx)]; [reflexivity|].
    apply orb_true_iff; right. apply existsb_exists. exists x. split; [assumption|]. apply Z.leb_le; assumption. }
  pose proof (remaining_pos (pdur c s) (eff_bt c)) as Hrb.
  pose proof (remaining_pos (pdur c s) (eff_li c)) as Hrl.
  rewrite next_fire_pair in Hbk.
  destruct (response c (bk s1) (Z.min (lz s1) (bk s1)) s1 s2 Hl Hg1) as (new & p & Hnew & Hin & Hp1 & Hp2);
    try lia; auto.
  - split; [lia|]. right. split; [assumption|]. left. lia.
  - rewrite next_fire_pair in Hlate. lia.
  - exists new, p. rewrite <- Hprods. split; [assumption|]. split; [assumption|].
    rewrite next_fire_pair. lia.
Qed.

(* the first production of a lazy run starts the instant the loop enters its select *)
Lemma first_at_t0 : forall c ns s, c_lazy c = true -> reach c ns s ->
  (prods s = [] /\ now s = t0 c /\ lz s = t0 c) \/ (exists l d, prods s = l ++ [(t0 c, d)]).
Proof.
  intros c ns s Hl Hr. induction Hr.
  - left; simpl; auto.
  - pose proof (G_reach _ _ _ Hr) as Hg.
    pose proof (tau_bounds c s Hg) as (Ht1 & Ht2 & Ht3 & _ & _). specialize (Ht3 Hl).
    destruct (step_prods c s ch s' H) as [[Hnp Hpr]|[Hp ->]].
    + destruct IHHr as [(E & En & Elz)|(l & d & E)].
      * left. rewrite Hpr. split; [assumption|].
        pose proof (G_step c s ch s' Hg H) as Hg'. pose proof (step_now_mono c s ch s' Hg H).
        assert (lz s' = lz s).
        { unfold step in H. destruct ch; simpl in Hnp; try discriminate.
          - destruct (pend s); [discriminate|]. destruct (z =? tau c s); [|discriminate]. inversion H; reflexivity.
          - destruct (chan s); [|discriminate]. inversion H; reflexivity.
          - destruct (bk s =? tau c s); [|discriminate]. destruct (c_lazy c && negb (avail s)); [|discriminate].
            inversion H; reflexivity. }
        pose proof (G_lz c s' Hg' Hl). lia.
      * right. exists l, d. rewrite Hpr; assumption.
    + right. rewrite produce_prods. destruct IHHr as [(E & En & Elz)|(l & d & E)].
      * exists [], (pdur c s). rewrite E. simpl. replace (tau c s) with (t0 c) by lia. reflexivity.
      * exists ((tau c s, pdur c s) :: l), d. rewrite E. reflexivity.
Qed.

(* ---- the loop never blocks: in every state some select case or notification is enabled ------------- *)
Lemma progress : forall c s, exists ch s', step c s ch = Some s'.
Proof.
  intros c s. destruct (chan s) eqn:Ec.
  - exists CRecv. unfold step. rewrite Ec. eauto.
  - assert (Ht : (tau c s = lz s /\ c_lazy c = true) \/ tau c s = bk s \/
                 exists h r, pend s = h :: r /\ tau c s = h).
    { unfold tau. rewrite Ec. destruct (c_lazy c); destruct (pend s) as [|h r].
      - destruct (Z.min_spec (lz s) (bk s)) as [[_ E]|[_ E]]; rewrite E; auto.
      - destruct (Z.min_spec (Z.min (lz s) (bk s)) h) as [[_ E]|[_ E]]; rewrite E.
        + destruct (Z.min_spec (lz s) (bk s)) as [[_ E']|[_ E']]; rewrite E'; auto.
        + right; right; eauto.
      - auto.
      - destruct (Z.min_spec (bk s) h) as [[_ E]|[_ E]]; rewrite E; auto.
        right; right; eauto. }
    destruct Ht as [[E El]|[E|(h & r & Ep & E)]].
    + exists CLazy. unfold step. rewrite El, E, Z.eqb_refl. simpl. eauto.
    + exists CBlock. unfold step. rewrite E, Z.eqb_refl.
      destruct (c_lazy c && negb (avail s)); eauto.
    + exists CEnv. unfold step. rewrite Ep, E, Z.eqb_refl. eauto.
Qed.

(* ---- history level: every notification instant of the run is answered ------------------------------ *)

Lemma steps_snoc : forall c a b ch b', steps c a b -> step c b ch = Some b' -> steps c a b'.
Proof.
  intros c a b ch b' H. induction H; intros Hs.
  - eapply steps_step; [eassumption | constructor].
  - eapply steps_step; [eassumption | apply IHsteps; assumption].
Qed.

Lemma steps_prods : forall c a b, steps c a b -> exists new, prods b = new ++ prods a.
Proof.
  intros c a b H. induction H as [s|s ch s' s'' Hs _ IH].
  - exists []; reflexivity.
  - destruct IH as [new E]. destruct (step_prods _ _ _ _ Hs) as [[_ Hp]|[_ ->]].
    + exists new. rewrite E, Hp. reflexivity.
    + exists (new ++ [(tau c s, pdur c s)]). rewrite E, produce_prods, <- app_assoc. reflexivity.
Qed.

Lemma reach_now_t0 : forall c ns s, reach c ns s -> t0 c <= now s.
Proof.
  intros c ns s H. induction H; [simpl; lia|].
  pose proof (step_now_mono c s ch s' (G_reach _ _ _ H) H0). lia.
Qed.

(* how a notification instant [x] of the run left the environment's list: before the loop entered its
   select, by a delivery while the loop waits, or absorbed by a production in flight *)
Inductive delivered (c : cfg) (ns : list Z) (x : Z) (s : st) : Prop :=
| del_init : x <= t0 c -> delivered c ns x s
| del_env : forall sa sb, reach c ns sa -> step c sa CEnv = Some sb -> now sb = x -> steps c sb s ->
    delivered c ns x s
| del_prod : forall sa ch sb, reach c ns sa -> step c sa ch = Some sb -> produces c sa ch = true ->
    In x (pend sa) -> x <= tau c sa + pdur c sa -> steps c sb s -> delivered c ns x s.

Lemma delivered_step : forall c ns x s ch s', delivered c ns x s -> step c s ch = Some s' ->
  delivered c ns x s'.
Proof.
  intros c ns x s ch s' Hd Hs. destruct Hd as [H|sa sb Hr Ha Hn Hss|sa ch' sb Hr Ha Hp Hin Hx Hss].
  - apply del_init; assumption.
  - eapply del_env; eauto using steps_snoc.
  - eapply del_prod; eauto using steps_snoc.
Qed.

Lemma delivered_or_pending : forall c ns s x, reach c ns s -> In x ns ->
  In x (pend s) \/ delivered c ns x s.
Proof.
  intros c ns s x Hr Hin. induction Hr as [|s ch s' Hr IH Hs].
  - destruct (Z.leb_spec x (t0 c)) as [Hle|Hgt].
    + right; apply del_init; assumption.
    + left. simpl. apply filter_In. split; [apply isort_In; assumption|].
      destruct (Z.leb_spec x (t0 c)); [lia | reflexivity].
  - destruct IH as [Hp|Hd]; [|right; eapply delivered_step; eassumption].
    destruct (step_prods c s ch s' Hs) as [[Hnp _]|[Hpr E]].
    + (* no production *)
      unfold step in Hs. destruct ch; simpl in Hnp; try discriminate.
      * destruct (pend s) as [|h r] eqn:E; [destruct Hp|].
        destruct (Z.eqb_spec h (tau c s)) as [Eh|]; [|discriminate].
        assert (Hs' : step c s CEnv = Some s') by (unfold step; rewrite E, Eh, Z.eqb_refl; exact Hs).
        inversion Hs; subst s'; clear Hs.
        destruct Hp as [->|Hp]; [|left; exact Hp].
        right. eapply del_env; [exact Hr | exact Hs' | simpl; symmetry; exact Eh | constructor].
      * destruct (chan s); [|discriminate]. inversion Hs; subst s'; left; exact Hp.
      * destruct (bk s =? tau c s); [|discriminate].
        destruct (c_lazy c && negb (avail s)); [|discriminate]. inversion Hs; subst s'; left; exact Hp.
    + (* a production: absorbed if it arrives before its end *)
      destruct (Z.leb_spec x (tau c s + pdur c s)) as [Hle|Hgt].
      * right. eapply del_prod; [exact Hr | exact Hs | exact Hpr | exact Hp | exact Hle | constructor].
      * left. rewrite E, produce_pend. apply filter_In. split; [assumption|].
        destruct (Z.leb_spec x (tau c s + pdur c s)); [lia | reflexivity].
Qed.

Lemma every_notification_answered : forall c ns s x, c_lazy c = true -> reach c ns s -> In x ns ->
  answered c x s.
Proof.
  intros c ns s x Hl Hr Hin. pose proof (G_reach _ _ _ Hr) as Hg.
  unfold answered. change (resp c) with (W c). cbv zeta.
  assert (HW : 0 < W c) by (unfold W; pose proof ms_pos; lia).
  destruct (delivered_or_pending c ns s x Hr Hin) as [Hp|Hd].
  - (* not yet delivered: now s <= x *)
    left. intros Hlate. pose proof (G_pend c s Hg) as Hf. rewrite Forall_forall in Hf.
    specialize (Hf x Hp). lia.
  - destruct Hd as [Hx|sa sb Hra Ha Hn Hss|sa ch sb Hra Ha Hp Hpin Hx Hss].
    + (* in the channel when the loop enters its select: the production at t0 *)
      left. intros Hlate. replace (Z.max x (t0 c)) with (t0 c) in * by lia.
      destruct (first_at_t0 c ns s Hl Hr) as [(_ & En & _)|(l & d & E)]; [lia|].
      exists (t0 c, d). rewrite E. split; [apply in_or_app; right; left; reflexivity|]. simpl. lia.
    + (* delivered while the loop waits *)
      left. intros Hlate.
      assert (Hrb : reach c ns sb) by (eapply reach_step; eassumption).
      pose proof (reach_now_t0 _ _ _ Hrb) as H0. rewrite Hn in H0.
      replace (Z.max x (t0 c)) with x in * by lia.
      destruct (on_demand c ns sa sb s Hl Hra Ha Hss) as (new & p & E & Hpn & Hp1 & Hp2); [lia|].
      exists p. rewrite E. split; [apply in_or_app; left; assumption|]. lia.
    + (* absorbed by the production (tau c sa, pdur c sa) *)
      pose proof (G_reach _ _ _ Hra) as Hga.
      pose proof (tau_bounds c sa Hga) as (Ht1 & _ & _ & _ & Ht5).
      assert (Htx : tau c sa <= x).
      { destruct (pend sa) as [|h r] eqn:E; [destruct Hpin|]. specialize (Ht5 h r eq_refl).
        pose proof (G_sorted c sa Hga) as Hso. rewrite E in Hso. destruct Hso as [Hh _].
        destruct Hpin as [->|Hpin]; [lia|]. rewrite Forall_forall in Hh. specialize (Hh x Hpin). lia. }
      pose proof (reach_now_t0 _ _ _ Hra) as H0.
      replace (Z.max x (t0 c)) with x by lia.
      destruct (step_prods c sa ch sb Ha) as [[Hnp _]|[_ E1]]; [congruence|].
      assert (Hpb : prods sb = (tau c sa, pdur c sa) :: prods sa) by (rewrite E1; apply produce_prods).
      destruct (steps_prods c sb s Hss) as [new0 E0].
      destruct (Z.eq_dec x (tau c sa)) as [Ex|Nx].
      * (* at the very instant the production starts: that production *)
        left. intros _. exists (tau c sa, pdur c sa). rewrite E0, Hpb.
        split; [apply in_or_app; right; left; reflexivity|]. simpl. lia.
      * right. exists (tau c sa), (pdur c sa). rewrite E0, Hpb.
        split; [apply in_or_app; right; left; reflexivity|]. split; [lia|]. split; [assumption|].
        intros Hlate.
        destruct (no_lost_wakeup c ns sa ch sb s Hl Hra Ha Hp) as (new & p & E & Hpn & Hp1 & Hp2); auto.
        { right. exists x. split; assumption. }
        exists p. rewrite <- Hpb, <- E0, E. split; [apply in_or_app; left; assumption|]. split; assumption.
Qed.

(* ---- the reaper: each accepted batch of new transactions emits a notification ----------------------- *)

Lemma nonempty_spec : forall A (l : list A), nonempty l = true <-> l <> [].
Proof. intros A l; destruct l; simpl; split; intros H; try discriminate; try reflexivity; congruence. Qed.

Lemma rstep_facts : forall seen i seen' o, rstep seen i = (seen', o) ->
  (ro_acc o = true -> exists b, ro_call o = Some b /\ b <> [] /\ ro_notify o = true) /\
  (ro_notify o = true -> exists b, ro_call o = Some b /\ b <> [] /\ ro_acc o = true).
Proof.
  intros seen i seen' o H. unfold rstep in H.
  destruct (ri_get i) as [txs|]; [|inversion H; subst; simpl; split; discriminate].
  destruct (nonempty (fresh seen txs)) eqn:En; [|inversion H; subst; simpl; split; discriminate].
  apply nonempty_spec in En as Hne.
  destruct (ri_ok i); inversion H; subst; simpl; [|split; discriminate].
  split; intros _; exists (fresh seen txs); auto.
Qed.

Lemma rrun_sub_notifies : forall evs seen x b,
  In (x, b) (flat_map (fun to => match ro_call (snd to) with
                                  | Some b => if ro_acc (snd to) then [(fst to, b)] else []
                                  | None => [] end) (rrun seen evs)) ->
  b <> [] /\ In x (flat_map (fun to => if ro_notify (snd to) then [fst to] else []) (rrun seen evs)).
Proof.
  induction evs as [|[t i] r IH]; intros seen x b Hin; [destruct Hin|].
  simpl in Hin |- *. destruct (rstep seen i) as [seen' o] eqn:E.
  pose proof (rstep_facts _ _ _ _ E) as [Hacc _].
  simpl in Hin |- *. apply in_app_or in Hin. destruct Hin as [Hin|Hin].
  - destruct (ro_call o) as [b'|] eqn:Ec; [|destruct Hin].
    destruct (ro_acc o) eqn:Ea; [|destruct Hin].
    destruct Hin as [Hin|[]]. inversion Hin; subst t b'; clear Hin.
    destruct (Hacc eq_refl) as (b'' & Eb & Hne & Hn). inversion Eb; subst b''; clear Eb.
    split; [assumption|]. rewrite Hn. left; reflexivity.
  - destruct (IH seen' x b Hin) as [Hne Hn]. split; [assumption|]. apply in_or_app; right; exact Hn.
Qed.

Lemma rrun_notify_has_sub : forall evs seen x,
  In x (flat_map (fun to => if ro_notify (snd to) then [fst to] else []) (rrun seen evs)) ->
  exists b, b <> [] /\
    In (x, b) (flat_map (fun to => match ro_call (snd to) with
                                   | Some b => if ro_acc (snd to) then [(fst to, b)] else []
                                   | None => [] end) (rrun seen evs)).
Proof.
  induction evs as [|[t i] r IH]; intros seen x Hin; [destruct Hin|].
  simpl in Hin |- *. destruct (rstep seen i) as [seen' o] eqn:E.
  pose proof (rstep_facts _ _ _ _ E) as [_ Hnot].
  simpl in Hin |- *. apply in_app_or in Hin. destruct Hin as [Hin|Hin].
  - destruct (ro_notify o) eqn:En; [|destruct Hin]. destruct Hin as [<-|[]].
    destruct (Hnot eq_refl) as (b & Eb & Hne & Ha). exists b. split; [assumption|].
    apply in_or_app; left. rewrite Eb, Ha. left; reflexivity.
  - destruct (IH seen' x Hin) as (b & Hne & Hb). exists b. split; [assumption|].
    apply in_or_app; right; exact Hb.
Qed.

(* every batch the sequencer accepted is non-empty and its instant is a notification instant *)
Lemma reaper_sub_notifies : forall evs x b, In (x, b) (rsubs evs) -> b <> [] /\ In x (rnotifs evs).
Proof. intros evs x b H. apply (rrun_sub_notifies evs [] x b H). Qed.

(* and the reaper notifies only then *)
Lemma reaper_notify_has_sub : forall evs x, In x (rnotifs evs) -> exists b, b <> [] /\ In (x, b) (rsubs evs).
Proof. intros evs x H. apply (rrun_notify_has_sub evs [] x H). Qed.

(* the transactions handed over were not handed over (and accepted) before: [fresh] *)
Lemma fresh_not_seen : forall txs seen x, In x (fresh seen txs) -> ~ In x seen.
Proof.
  induction txs as [|a r IH]; intros seen x Hin; [destruct Hin|]. simpl in Hin.
  destruct (existsb (N.eqb a) seen) eqn:E.
  - apply IH; assumption.
  - destruct Hin as [<-|Hin].
    + intros Hs. assert (existsb (N.eqb a) seen = true); [|congruence].
      apply existsb_exists. exists a. split; [assumption | apply N.eqb_refl].
    + intros Hs. apply (IH (a :: seen) x Hin). right; assumption.
Qed.

(* lost wake-up, over histories of reaper submissions: every batch of new transactions the sequencer
   accepted from the reaper, at any instant relative to the timers and to productions in flight, and
   whatever other notifications [extra] there are, is answered *)
Lemma reaper_tx_answered : forall c extra evs s x b, c_lazy c = true ->
  reach c (extra ++ rnotifs evs) s -> In (x, b) (rsubs evs) -> b <> [] /\ answered c x s.
Proof.
  intros c extra evs s x b Hl Hr Hin. destruct (reaper_sub_notifies evs x b Hin) as [Hne Hn].
  split; [assumption|]. eapply every_notification_answered; [assumption | exact Hr |].
  apply in_or_app; right; assumption.
Qed.
