(* Proofs/StoreCallerProofs.v — lemmas about Model/StoreCaller.v. *)
From Coq Require Import String Ascii NArith List Bool.
From Verif Require Import Base.KV Base.Keys Model.Store Model.StoreCaller Proofs.StoreProofs.
Import ListNotations.

(* the database and everything the store returns depend on the CALLS only: whatever the caller holds, whatever it does
   to the objects it passed in or was given, between any two calls *)
Lemma crun_erase : forall (h : list citem) (st : cstate),
  c_img (fst (crun st h)) = fst (run (c_img st) (erase h)) /\
  snd (crun st h) = snd (run (c_img st) (erase h)).
Proof.
  induction h as [|ci r IH]; intros st.
  - cbn. split; reflexivity.
  - destruct ci as [i|hh dd|hh dd].
    + cbn [crun cstep erase flat_map app].
      change (flat_map (fun ci => match ci with CI i => [i] | _ => [] end) r) with (erase r).
      cbn [run].
      destruct (istep (c_img st) i) as [m' o] eqn:Ei.
      specialize (IH {| c_img := m'; c_saved := saved_after (c_saved st) i; c_read := read_after (c_read st) i o |}).
      cbn [c_img] in IH.
      destruct (crun {| c_img := m'; c_saved := saved_after (c_saved st) i; c_read := read_after (c_read st) i o |} r) as [st'' os] eqn:Ec.
      destruct (run m' (erase r)) as [m'' os'] eqn:Er.
      cbn [fst snd] in *. destruct IH as [IH1 IH2]. split; [exact IH1|]. cbn [app]. rewrite IH2. reflexivity.
    + cbn [crun cstep erase flat_map app].
      change (flat_map (fun ci => match ci with CI i => [i] | _ => [] end) r) with (erase r).
      specialize (IH {| c_img := c_img st; c_saved := overwrite (c_saved st) hh dd; c_read := c_read st |}).
      cbn [c_img] in IH.
      destruct (crun {| c_img := c_img st; c_saved := overwrite (c_saved st) hh dd; c_read := c_read st |} r) as [st'' os].
      cbn [fst snd app] in *. exact IH.
    + cbn [crun cstep erase flat_map app].
      change (flat_map (fun ci => match ci with CI i => [i] | _ => [] end) r) with (erase r).
      specialize (IH {| c_img := c_img st; c_saved := c_saved st; c_read := overwrite (c_read st) hh dd |}).
      cbn [c_img] in IH.
      destruct (crun {| c_img := c_img st; c_saved := c_saved st; c_read := overwrite (c_read st) hh dd |} r) as [st'' os].
      cbn [fst snd app] in *. exact IH.
Qed.

Lemma caller_objects_invisible : forall h : list citem,
  coutputs h = outputs (erase h) /\ cfinal h = final (erase h).
Proof.
  intros h. unfold coutputs, cfinal, outputs, final.
  destruct (crun_erase h c_init) as [H1 H2]. cbn [c_img c_init] in *. split; assumption.
Qed.

(* two callers that make the same calls get the same results and leave the same database *)
Lemma same_calls_same_results : forall h1 h2 : list citem,
  erase h1 = erase h2 -> coutputs h1 = coutputs h2 /\ cfinal h1 = cfinal h2.
Proof.
  intros h1 h2 E.
  destruct (caller_objects_invisible h1) as [A1 B1]. destruct (caller_objects_invisible h2) as [A2 B2].
  rewrite A1, A2, B1, B2, E. split; reflexivity.
Qed.

(* the refinement theorem, for histories in which the caller modifies its objects between calls *)
Lemma store_refines_caller : forall h : list citem,
  hash_consistentb (saves (erase h)) = true ->
  exists happened,
    coutputs h = snd (a_run a_init (erase h) happened) /\
    R (cfinal h) (fst (a_run a_init (erase h) happened)).
Proof.
  intros h Hh. destruct (caller_objects_invisible h) as [A B]. rewrite A, B. exact (store_refines (erase h) Hh).
Qed.
