(* Proofs/ProducerLoopProofs.v — C01 for the sequencer node under its own production loop
   (Model/ProducerLoop.v over Model/Producer.v): histories of starts and rounds in which a round that hands an
   error back to the loop halts the node.  Everything is derived from the invariant of Proofs/ProducerProofs.v. *)
From Coq Require Import String Ascii NArith ZArith List Bool Lia ZifyBool ZifyN ZifyNat.
From Verif Require Import Base.KV Base.Keys Model.Types Model.Producer Model.ProducerLoop Proofs.ProducerProofs.
Import ListNotations.
Open Scope list_scope.
Open Scope N_scope.

(* ---- what is carried along a history of the node under its loop --------------------------------- *)
Definition LInv (c : cfg) (st : mach) : Prop :=
  Inv c st /\ synced (img_of st) /\ bad_files st = [].

Lemma halt_inv c st : Inv c st -> Inv c (halt st).
Proof.
  intros (HD & _). split; [exact HD|]. intros v Hv. discriminate Hv.
Qed.

Lemma run_item_files c st a : bad_files (fst (exec_item c st (IRun a))) = bad_files st.
Proof. reflexivity. Qed.

Lemma loop_item_fst c st a :
  fst (loop_item c st a) =
  match a with
  | AStep _ _ => if round_failed (o_res (snd (exec_item c st (IRun a)))) then halt (fst (exec_item c st (IRun a)))
                 else fst (exec_item c st (IRun a))
  | ABoot _ => fst (exec_item c st (IRun a))
  end.
Proof.
  unfold loop_item. destruct (exec_item c st (IRun a)) as [st' o]. cbn [fst snd].
  destruct a as [ic|sq e]; [reflexivity|].
  unfold loop_ends. rewrite negb_involutive, andb_true_r.
  destruct (round_failed (o_res o)); reflexivity.
Qed.

Lemma loop_item_snd c st a : snd (loop_item c st a) = snd (exec_item c st (IRun a)).
Proof.
  unfold loop_item. destruct (exec_item c st (IRun a)) as [st' o]. cbn [snd].
  destruct a as [ic|sq e]; [reflexivity|]. destruct (loop_ends _ _); reflexivity.
Qed.

Lemma loop_item_inv c st a : wf_cfg c -> LInv c st -> LInv c (fst (loop_item c st a)).
Proof.
  intros Hwf (HI & Hsy & Hf).
  destruct (inv_item c Hwf st (IRun a) HI) as (HI' & _ & Hsy').
  specialize (Hsy' eq_refl Hsy).
  rewrite loop_item_fst.
  assert (Hkeep : LInv c (fst (exec_item c st (IRun a)))).
  { split; [exact HI'|]. split; [exact Hsy'|]. rewrite run_item_files; exact Hf. }
  destruct a as [ic|sq e]; [exact Hkeep|].
  destruct (round_failed _); [|exact Hkeep].
  destruct Hkeep as (A & B & C). split; [apply halt_inv, A|]. split; [exact B|exact C].
Qed.

Lemma loop_from_cons c st a r :
  fst (loop_from c st (a :: r)) = fst (loop_from c (fst (loop_item c st a)) r).
Proof.
  cbn [loop_from]. destruct (loop_item c st a) as [st' o]. cbn [fst].
  destruct (loop_from c st' r) as [st'' os]. reflexivity.
Qed.

Lemma loop_from_inv c h : wf_cfg c -> forall st, LInv c st -> LInv c (fst (loop_from c st h)).
Proof.
  intros Hwf. induction h as [|a r IH]; intros st HL; [exact HL|].
  rewrite loop_from_cons. apply IH, loop_item_inv; assumption.
Qed.

Lemma linv_fresh c : LInv c fresh.
Proof. split; [apply inv_fresh|]. split; [apply synced_fresh|reflexivity]. Qed.

Theorem loop_reach c h : wf_cfg c -> LInv c (lrun c h).
Proof. intros Hwf. unfold lrun. apply loop_from_inv; [exact Hwf|apply linv_fresh]. Qed.

Lemma lrun_app c h1 h2 : lrun c (h1 ++ h2) = fst (loop_from c (lrun c h1) h2).
Proof.
  unfold lrun. generalize fresh. induction h1 as [|a r IH]; intros st; [reflexivity|].
  cbn [app]. rewrite !loop_from_cons. apply IH.
Qed.

(* ---- safety: the chain committed by the node under its loop -------------------------------------- *)
Theorem loop_chain_valid c h : wf_cfg c -> ChainValid c (lrun c h).
Proof.
  intros Hwf. destruct (loop_reach c h Hwf) as (HI & Hsy & _).
  apply (inv_chain_valid c Hwf); assumption.
Qed.

Theorem loop_blocks_valid c h :
  wf_cfg c ->
  let st := lrun c h in let m := img_of st in
  forall k, c_initial c <= k -> k <= g_height m ->
  exists r0 s, In r0 (g_inits st) /\ g_state m = Some s /\ s_height s = g_height m /\
               block_facts c (g_block m) (g_built st) (g_execs st) r0 (g_height m) s k.
Proof. intros Hwf. apply blocks_of_chain_valid; [exact Hwf|]. apply loop_chain_valid, Hwf. Qed.

(* what the node serves, at every instant of a run under the loop (also after the loop has halted the node) *)
Theorem loop_served c h :
  wf_cfg c ->
  let st := lrun c h in let H := g_height (img_of st) in
  (forall n, c_initial c <= n -> n <= H ->
     exists b, served st n = Some b /\ h_height (hdr_of b) = n /\ served_signed c b) /\
  (forall v b, vol_of st = Some v -> served st (H + 1) = Some b ->
     validate (v_state v) (b_sh (final_block c b)) (b_data (final_block c b)) = true) /\
  (forall n, H + 1 < n -> c_initial c < n -> served st n = None).
Proof.
  intros Hwf st H. subst st H. destruct (loop_reach c h Hwf) as ((HD & HR) & Hsy & _). split; [|split].
  - intros n Hn1 Hn2.
    destruct (loop_blocks_valid c h Hwf n Hn1 Hn2) as (r0 & s & _ & _ & _ & (b & Hb & Hh & _ & _ & _ & _ & _ & Hsg & _ & Hvb & _)).
    exists b. split; [exact Hb|]. split; [exact Hh|]. apply signed_by_served; assumption.
  - intros v b Hv Hb. specialize (HR v Hv).
    destruct HR as (_ & Hp & _). specialize (Hp b Hb). destruct Hp as (_ & _ & _ & Hl). exact Hl.
  - intros n Hn1 Hn2. unfold served. unfold DInv in HD.
    destruct (g_state (img_of (lrun c h))) as [s|] eqn:Es.
    + destruct HD as (_ & _ & _ & _ & _ & Hnone). apply Hnone. rewrite <- (Hsy s Es). exact Hn1.
    + destruct HD as (_ & Hnone). apply Hnone, Hn2.
Qed.

(* ---- which rounds halt the node ------------------------------------------------------------------- *)
(* a round in which the sequencing layer is asked and has nothing to build a block from — a transient error of
   ANY class, no response, no batch — returns nil, writes nothing and changes nothing: for every durable image and
   every process state (no invariant needed: this is what the code does, manager.go:653-685) *)
Lemma fault_round_quiet c m v sq e :
  seq_fault sq = true -> a_req (step c m v sq e) <> None ->
  step c m v sq e = quiet v [] OSkipped (Some (v_cursor v)).
Proof.
  intros Hf Hq. unfold step in *.
  destruct (last_info c m (g_height m)) as [[[lsig lhdr] ltime]|]; [|exfalso; apply Hq; reflexivity].
  destruct (g_block m (g_height m + 1)) as [pb|].
  - exfalso. apply Hq. unfold finish. destruct e as [r|]; [destruct (validate _ _ _)|]; reflexivity.
  - destruct sq as [| |txs ts cur]; [reflexivity|reflexivity|discriminate Hf].
Qed.

Section Rounds.
Variable c : cfg.
Hypothesis Hwf : wf_cfg c.

(* while a process runs: a round hands an error back ONLY IF the execution layer was called and failed, or the
   sequencing layer handed out a non-empty batch older than the last block *)
Lemma failed_round_cases m inits built execs v sq e :
  RF c m inits built execs (v_state v) ->
  round_failed (a_out (step c m v sq e)) = true ->
  (e = EErr /\ a_out (step c m v sq e) = OErrExec /\ a_call (step c m v sq e) <> None) \/
  (exists txs ts cur, sq = SBatch txs ts cur /\ txs <> [] /\ a_out (step c m v sq e) = OErrTime /\
     a_req (step c m v sq e) <> None /\ a_call (step c m v sq e) = None /\
     exists lsig lhdr lt, last_info c m (g_height m) = Some (lsig, lhdr, Some lt) /\ (ts < lt)%Z).
Proof.
  intros Hrf.
  pose proof (rf_height c _ _ _ _ _ Hrf) as (Hsh & Hge).
  destruct (last_info_rf c Hwf _ _ _ _ _ Hrf) as (lsig & ltime & Hli & Hlt).
  destruct Hrf as (Hch & Hp & Ha & Hs).
  unfold step. rewrite Hli.
  destruct (g_block m (g_height m + 1)) as [pb|] eqn:Hpb.
  - destruct (Hp pb eq_refl) as (_ & _ & _ & D). unfold live in D.
    unfold finish. destruct e as [ret|].
    + rewrite D. cbn [a_out round_failed]. discriminate.
    + cbn [a_out a_call]. intros _. left. split; [reflexivity|]. split; [reflexivity|discriminate].
  - destruct Hs as [[_ Hle]|(_ & HH & b0 & Hb0)].
    2:{ replace (c_initial c) with (g_height m + 1) in Hb0 by (pose proof (wf_initial c Hwf); lia). congruence. }
    destruct Hlt as [[Hle' _]|[_ ->]]; [lia|].
    destruct sq as [| |txs ts cur]; try (cbn [quiet a_out round_failed]; discriminate).
    cbv zeta.
    destruct (ts <? s_time (v_state v))%Z eqn:Hbf.
    + destruct txs as [|t0 txs']; cbn [andb quiet a_out a_req a_call round_failed]; [discriminate|].
      intros _. right. exists (t0 :: txs'), ts, cur. split; [reflexivity|]. split; [discriminate|].
      split; [reflexivity|]. split; [discriminate|]. split; [reflexivity|].
      exists lsig, (link c (g_block m) (g_height m + 1)), (s_time (v_state v)). split; [reflexivity|lia].
    + rewrite andb_false_r.
      rewrite (wf_gaddr c Hwf), addr_eqb_refl. cbn [negb].
      unfold finish.
      pose proof (live_early c Hwf v (g_height m + 1) lsig (link c (g_block m) (g_height m + 1)) txs ts) as L.
      unfold live in L.
      destruct e as [ret|].
      * cbn [v_state] in *. rewrite L by lia. cbn [a_out round_failed]. discriminate.
      * cbn [a_out a_call]. intros _. left. split; [reflexivity|]. split; [reflexivity|discriminate].
Qed.

End Rounds.

Lemma last_time_info c st lsig lhdr lt :
  last_info c (img_of st) (g_height (img_of st)) = Some (lsig, lhdr, Some lt) -> last_time c st = Some lt.
Proof. intros E. unfold last_time. rewrite E. reflexivity. Qed.

(* the same for every state a node under its loop can reach *)
Theorem loop_halts_only_on c h :
  wf_cfg c ->
  let st := lrun c h in
  forall v, vol_of st = Some v -> forall sq e,
  let r := step c (img_of st) v sq e in
  round_failed (a_out r) = true ->
  (e = EErr /\ a_out r = OErrExec /\ a_call r <> None) \/
  (exists txs ts cur lt, sq = SBatch txs ts cur /\ txs <> [] /\ a_out r = OErrTime /\ a_call r = None /\
     last_time c st = Some lt /\ (ts < lt)%Z).
Proof.
  intros Hwf st v Hv sq e r Hf. destruct (loop_reach c h Hwf) as ((_ & HR) & _ & _).
  destruct (failed_round_cases c Hwf _ _ _ _ v sq e (HR v Hv) Hf) as [L|(txs & ts & cur & A & B & C & _ & D & lsig & lhdr & lt & E & F)].
  - left; exact L.
  - right. exists txs, ts, cur, lt. repeat (split; [assumption|]). split; [eapply last_time_info; exact E|exact F].
Qed.

(* A transient fault of the sequencing layer never halts the node: in a round of a running loop that is answered
   by an error of any class / no response / no batch, (a) if the sequencing layer was asked at all, the round is
   skipped — nil is returned, nothing is written, the process state is unchanged — and the loop goes on;
   (b) if it was not asked (a stored pending block is being retried), the round can only fail in the execution
   layer.  Hence with a working execution layer the loop is running after the round, whatever the history. *)
Theorem loop_survives_sequencer_faults c h :
  wf_cfg c ->
  let st := lrun c h in
  forall v, vol_of st = Some v -> forall sq e, seq_fault sq = true ->
  let r := step c (img_of st) v sq e in
  let st' := fst (loop_item c st (AStep sq e)) in
  (a_req r <> None -> a_out r = OSkipped /\ a_ws r = [] /\ img_of st' = img_of st /\ vol_of st' = Some v) /\
  (e <> EErr -> alive st' = true).
Proof.
  intros Hwf st v Hv sq e Hq r st'.
  assert (Est : exec_item c st (IRun (AStep sq e)) =
                ({| img_of := apply_writes (img_of st) (a_ws r); vol_of := a_vol r; bad_files := bad_files st;
                    g_inits := log_opt (g_inits st) (a_init r); g_built := log_opt (g_built st) (a_built r);
                    g_execs := log_execs (g_execs st) r (AStep sq e) |},
                 {| o_res := a_out r; o_call := a_call r; o_req := a_req r; o_ws := a_ws r; o_fops := [] |})).
  { cbn [exec_item do_act]. rewrite Hv. reflexivity. }
  split.
  - intros Hreq. pose proof (fault_round_quiet c (img_of st) v sq e Hq Hreq) as Eq. fold r in Eq.
    unfold st'. rewrite loop_item_fst, Est. cbn [fst snd o_res].
    rewrite Eq. cbn [quiet a_out round_failed a_ws a_pre a_commit app img_of vol_of a_vol].
    rewrite apply_writes_nil. repeat split; reflexivity.
  - intros He. unfold st'. rewrite loop_item_fst, Est. cbn [fst snd o_res].
    destruct (round_failed (a_out r)) eqn:Hf.
    + exfalso. destruct (loop_halts_only_on c h Hwf v Hv sq e Hf) as [(A & _)|(txs & ts & cur & lt & A & _)].
      * apply He, A.
      * fold st in A. rewrite A in Hq. discriminate Hq.
    + unfold alive. cbn [vol_of].
      destruct (loop_reach c h Hwf) as ((_ & HR) & _ & _). fold st in HR.
      destruct (step_apply c Hwf (img_of st) (g_inits st) (g_built st) (g_execs st) v sq e (HR v Hv)) as (_ & (v' & Hv' & _) & _).
      fold r in Hv'. rewrite Hv'. reflexivity.
Qed.

(* ---- liveness under the loop ----------------------------------------------------------------------- *)
(* (a) while the loop runs — after ANY history of rounds and restarts, in particular after any number of rounds
       answered by sequencer faults — a well-formed pair of responses commits the next block in that very round;
   (b) the loop halts the node only as [loop_halts_only_on] says; from every state of a history under the loop
       (halted or not) a restart with a working execution layer succeeds, everything agrees, a start on a recorded
       state writes nothing, and a well-formed pair of responses commits the next block in the first round. *)
Theorem loop_no_wedge c h :
  wf_cfg c ->
  let st := lrun c h in
  (forall v, vol_of st = Some v -> forall sq e, wf_resp c st sq e = true ->
     a_out (step c (img_of st) v sq e) = OCommitted (g_height (img_of st) + 1)) /\
  (forall r0, let st' := fst (loop_item c st (ABoot (Some r0))) in
     exists v, vol_of st' = Some v /\ ChainValid c st' /\
       (g_state (img_of st) <> None -> img_of st' = img_of st) /\
       forall sq e, wf_resp c st' sq e = true ->
         a_out (step c (img_of st') v sq e) = OCommitted (g_height (img_of st') + 1)).
Proof.
  intros Hwf st. pose proof (loop_reach c h Hwf) as HL. fold st in HL. split.
  - intros v Hv sq e Hw. destruct HL as ((_ & HR) & _ & _).
    apply (no_wedge_step c Hwf _ _ _ _ v sq e true (HR v Hv)). apply wf_resp_shape, Hw.
  - intros r0 st'.
    pose proof (loop_item_inv c st (ABoot (Some r0)) Hwf HL) as HL'. fold st' in HL'.
    destruct HL as ((HD & _) & Hsy & Hbf). destruct HL' as (HI' & Hsy' & _).
    assert (Hfo : files_ok st = true) by (unfold files_ok; rewrite Hbf; reflexivity).
    destruct (boot_ok c _ _ _ _ r0 HD) as (v & Hv).
    assert (Est : st' = fst (exec_item c st (IRun (ABoot (Some r0))))) by (unfold st'; rewrite loop_item_fst; reflexivity).
    assert (Hv' : vol_of st' = Some v).
    { rewrite Est. cbn [exec_item fst vol_of do_act]. rewrite Hfo. exact Hv. }
    exists v. split; [exact Hv'|]. split; [apply (inv_chain_valid c Hwf); assumption|]. split.
    + intros Hs. destruct (g_state (img_of st)) as [s|] eqn:Es; [|exfalso; apply Hs; reflexivity].
      rewrite Est. cbn [exec_item fst img_of do_act]. rewrite Hfo.
      unfold DInv in HD. rewrite Es in HD. destruct HD as (_ & Hle & _).
      unfold boot. rewrite Es. destruct (N.ltb_spec (s_height s) (c_initial c)) as [Hlt|_]; [lia|].
      unfold set_height. rewrite <- (Hsy s Es).
      destruct (N.leb_spec (g_height (img_of st)) (g_height (img_of st))) as [_|Hlt]; [|lia].
      cbn [a_ws a_pre a_commit app]. apply apply_writes_nil.
    + intros sq e Hw. destruct HI' as (_ & HR').
      apply (no_wedge_step c Hwf _ _ _ _ v sq e true (HR' v Hv')). apply wf_resp_shape, Hw.
Qed.

(* the node halts exactly when the model says so: after a round of a running loop, the loop is running iff the
   round did not fail (by definition of [loop_item]; stated for the comparison with the code) *)
Lemma loop_alive_after_round c st v sq e :
  vol_of st = Some v ->
  alive (fst (loop_item c st (AStep sq e))) = negb (round_failed (a_out (step c (img_of st) v sq e))) &&
                                             alive (fst (exec_item c st (IRun (AStep sq e)))).
Proof.
  intros Hv. rewrite loop_item_fst. cbn [exec_item do_act snd o_res fst]. rewrite Hv.
  destruct (round_failed _); reflexivity.
Qed.

(* ---- the unguarded liveness statement is false of the node under its loop -------------------------- *)
(* witnesses (checked by computation): initial height 1; the genesis block, a block at 1000 ms, then
   (a) the execution layer fails ONCE, for block 3 / (b) a one-transaction batch stamped 500 ms;
   the loop has ended; the next round offers well-formed responses and finds no process: nothing is written,
   nothing is committed — although the very same responses commit height 3 as soon as a process runs again
   (after a restart), and would have committed it had the steps been driven without the loop *)
Definition rf_cfg : cfg := {| c_chain := 1; c_initial := 1; c_gtime := 0%Z; c_key := 7; c_gaddr := Addr 7 |}.
Definition rf_exec_history : list act :=
  [ ABoot (Some 1); AStep SNil (EOk 2); AStep (SBatch [5; 6] 1000%Z 1) (EOk 3); AStep (SBatch [7] 2000%Z 2) EErr ].
Definition rf_time_history : list act :=
  [ ABoot (Some 1); AStep SNil (EOk 2); AStep (SBatch [5; 6] 1000%Z 1) (EOk 3); AStep (SBatch [7] 500%Z 2) (EOk 4) ].

Definition halted_for_good (c : cfg) (h : list act) (sq : seqresp) (e : execresp) : Prop :=
  wf_cfg c /\
  alive (lrun c h) = false /\                                            (* the loop has ended on its own *)
  wf_resp c (lrun c h) sq e = true /\                                    (* the responses are well-formed again *)
  o_res (snd (loop_item c (lrun c h) (AStep sq e))) = ONotRunning /\     (* ... and find no process *)
  o_ws (snd (loop_item c (lrun c h) (AStep sq e))) = [] /\
  img_of (fst (loop_item c (lrun c h) (AStep sq e))) = img_of (lrun c h) /\
  g_height (img_of (lrun c (h ++ [AStep sq e; AStep sq e; AStep sq e]))) = g_height (img_of (lrun c h)) /\
  (* only a restart resumes production *)
  o_res (snd (loop_item c (lrun c (h ++ [ABoot None])) (AStep sq e))) = OCommitted (g_height (img_of (lrun c h)) + 1).

Lemma loop_no_wedge_refuted_exec :
  halted_for_good rf_cfg rf_exec_history (SBatch [8] 3000%Z 3) (EOk 5) /\
  o_res (snd (loop_item rf_cfg (lrun rf_cfg (firstn 3 rf_exec_history)) (AStep (SBatch [7] 2000%Z 2) EErr))) = OErrExec.
Proof.
  split; [split; [split; [vm_compute; discriminate|reflexivity]|vm_compute; repeat split]|vm_compute; reflexivity].
Qed.

Lemma loop_no_wedge_refuted_time :
  halted_for_good rf_cfg rf_time_history (SBatch [8] 3000%Z 3) (EOk 5) /\
  o_res (snd (loop_item rf_cfg (lrun rf_cfg (firstn 3 rf_time_history)) (AStep (SBatch [7] 500%Z 2) (EOk 4)))) = OErrTime.
Proof.
  split; [split; [split; [vm_compute; discriminate|reflexivity]|vm_compute; repeat split]|vm_compute; reflexivity].
Qed.

Theorem loop_no_wedge_refuted :
  exists c h sq e, halted_for_good c h sq e /\
    (exists txs ts cur, last h (ABoot None) = AStep (SBatch txs ts cur) EErr) /\ Forall (fun a => a <> ABoot None) h.
Proof.
  exists rf_cfg, rf_exec_history, (SBatch [8] 3000%Z 3), (EOk 5).
  split; [exact (proj1 loop_no_wedge_refuted_exec)|]. split; [do 3 eexists; reflexivity|].
  repeat constructor; discriminate.
Qed.

Theorem loop_no_wedge_regressed_batch_refuted :
  exists c h sq e, halted_for_good c h sq e /\
    (exists txs ts cur r, last h (ABoot None) = AStep (SBatch txs ts cur) (EOk r) /\ txs <> []).
Proof.
  exists rf_cfg, rf_time_history, (SBatch [8] 3000%Z 3), (EOk 5).
  split; [exact (proj1 loop_no_wedge_refuted_time)|]. do 4 eexists. split; [reflexivity|discriminate].
Qed.
