(* Proofs/ReaperLimitProofs.v — Model/ReaperLimit.v: a history under the pending-submission limit is a history of
   Model/Reaper.v (refused steps and watermark moves vanish), so the theorems over histories carry over; a refused
   produce step takes nothing from the sequencer; confirming everything lifts the refusal. *)
From Coq Require Import NArith ZArith List Bool Arith Lia.
From Verif Require Import Model.Reaper Model.ReaperLimit Proofs.ReaperProofs.
Import ListNotations.

Lemma cut0 l : cut 0 false l = [].
Proof. destruct l as [|[w|x] r]; reflexivity. Qed.

Lemma base_set_base b l : base (set_base b l) = b.
Proof. reflexivity. Qed.

(* ---- refinement: the base state after a history under the limit is the state after its erasure ----------------------- *)
Lemma lstep_erase1 lim max gt l li : base (lstep lim max gt l li) = run max gt (base l) (erase1 lim l li).
Proof.
  destruct li as [it|n|n]; cbn [lstep erase1].
  - destruct (blocked lim l it).
    + destruct (refused_as it) as [it'|]; reflexivity.
    + reflexivity.
  - destruct (up (base l)); reflexivity.
  - destruct (up (base l)); reflexivity.
Qed.

Lemma lrun_erase lim max gt h : forall l, base (lrun lim max gt l h) = run max gt (base l) (erase lim max gt l h).
Proof.
  induction h as [|li h IH]; intros l; [reflexivity|].
  cbn [lrun erase]. rewrite IH, run_app, lstep_erase1. reflexivity.
Qed.

Lemma safe_hist_app max gt h1 : forall s h2,
  safe_hist max gt s (h1 ++ h2) = safe_hist max gt s h1 && safe_hist max gt (run max gt s h1) h2.
Proof.
  induction h1 as [|it h1 IH]; intros s h2; [reflexivity|].
  cbn [app safe_hist run]. rewrite IH, andb_assoc. reflexivity.
Qed.

Lemma refused_not_lossy max gt s it it' : refused_as it = Some it' -> lossy (item_acts max gt s it') = false.
Proof.
  destruct it as [t|a|a k e|a k|ts|ts p]; try discriminate.
  - destruct a as [| |ts]; try discriminate. intros [= <-]. cbn [item_acts]. rewrite cut0. reflexivity.
  - intros [= <-]. cbn [item_acts acts_of]. destruct (up s); [|reflexivity]. cbn [fst].
    destruct (reap_no_del_block max s) as [Hd _]. unfold lossy. rewrite Hd. reflexivity.
Qed.

Lemma lsafe_erase lim max gt h : forall l,
  lsafe_hist lim max gt l h = true -> safe_hist max gt (base l) (erase lim max gt l h) = true.
Proof.
  induction h as [|li h IH]; intros l Hs; [reflexivity|].
  cbn [lsafe_hist] in Hs. apply andb_true_iff in Hs. destruct Hs as [H1 H2].
  cbn [erase]. rewrite safe_hist_app, <- lstep_erase1, (IH _ H2), andb_true_r.
  destruct li as [it|n|n]; cbn [erase1]; try reflexivity.
  destruct (blocked lim l it) eqn:Eb.
  - destruct (refused_as it) as [it'|] eqn:Er; [|reflexivity].
    cbn [safe_hist]. rewrite (refused_not_lossy max gt (base l) it it' Er). reflexivity.
  - cbn [orb] in H1. cbn [safe_hist]. rewrite H1. reflexivity.
Qed.

Lemma erase_crash_free lim max gt h : forall l,
  crash_free (base_items h) = true -> crash_free (erase lim max gt l h) = true.
Proof.
  induction h as [|li h IH]; intros l Hc; [reflexivity|].
  cbn [erase]. unfold crash_free in *. rewrite forallb_app.
  destruct li as [it|n|n]; cbn [base_items flat_map app] in Hc.
  - cbn [forallb] in Hc. apply andb_true_iff in Hc. destruct Hc as [Hi Hr].
    fold (base_items h) in Hr. rewrite (IH _ Hr), andb_true_r. cbn [erase1].
    destruct (blocked lim l it); [|cbn [forallb]; rewrite Hi; reflexivity].
    destruct it as [t|a|a k e|a k|ts|ts p]; try reflexivity.
    destruct a; try reflexivity. discriminate Hi.
  - fold (base_items h) in Hc. rewrite (IH _ Hc). reflexivity.
  - fold (base_items h) in Hc. rewrite (IH _ Hc). reflexivity.
Qed.

Lemma erase_fault_free lim max gt h : forall l,
  fault_free (base_items h) = true -> fault_free (erase lim max gt l h) = true.
Proof.
  induction h as [|li h IH]; intros l Hc; [reflexivity|].
  cbn [erase]. unfold fault_free in *. rewrite forallb_app.
  destruct li as [it|n|n]; cbn [base_items flat_map app] in Hc.
  - cbn [forallb] in Hc. apply andb_true_iff in Hc. destruct Hc as [Hi Hr].
    fold (base_items h) in Hr. rewrite (IH _ Hr), andb_true_r. cbn [erase1].
    destruct (blocked lim l it); [|cbn [forallb]; rewrite Hi; reflexivity].
    destruct it as [t|a|a k e|a k|ts|ts p]; try reflexivity.
    destruct a; reflexivity.
  - fold (base_items h) in Hc. rewrite (IH _ Hc). reflexivity.
  - fold (base_items h) in Hc. rewrite (IH _ Hc). reflexivity.
Qed.

(* ---- the theorems over histories, under the limit ---------------------------------------------------------------------- *)
Lemma no_loss_limit_partial lim max gt h :
  lsafe_hist lim max gt lst0 h = true ->
  let s := base (lfinal lim max gt h) in
  (forall t, In t (taken s) ->
     In t (concat (block_txs s)) \/ In t (concat (queue s)) \/ (In t (mem s) /\ memb t (seen s) = false)) /\
  (quiescedb s = true -> forall t, In t (taken s) -> In t (concat (committed s))).
Proof.
  intros Hs. unfold lfinal. rewrite lrun_erase.
  exact (no_loss_partial max gt (erase lim max gt lst0 h) (lsafe_erase lim max gt h lst0 Hs)).
Qed.

Lemma order_limit_full lim max gt h :
  let s := base (lfinal lim max gt h) in
  Subseq (filter nonempty (committed s)) (released s) /\
  (lsafe_hist lim max gt lst0 h = true -> filter nonempty (block_txs s) = released s).
Proof.
  unfold lfinal. rewrite lrun_erase.
  destruct (order_full max gt (erase lim max gt lst0 h)) as [A B].
  split; [exact A|]. intros Hs. exact (B (lsafe_erase lim max gt h lst0 Hs)).
Qed.

Lemma no_dup_limit_full lim max gt h :
  crash_free (base_items h) = true -> fault_free (base_items h) = true ->
  NoDup (concat (block_txs (base (lfinal lim max gt h)))).
Proof.
  intros Hc Hf. unfold lfinal. rewrite lrun_erase.
  exact (no_dup_chain_full max gt _ (erase_crash_free lim max gt h lst0 Hc) (erase_fault_free lim max gt h lst0 Hf)).
Qed.

(* ---- a refused produce step takes nothing ---------------------------------------------------------------------------------- *)
Lemma RP_fields max s :
  released (RP max s) = released s /\ stale (RP max s) = stale s /\ blocks (RP max s) = blocks s /\
  sh (RP max s) = sh s /\ th (RP max s) = th s /\ up (RP max s) = up s /\ mem (RP max s) = mem s /\
  exists q', queue (RP max s) = queue s ++ q'.
Proof.
  rewrite RP_eq. unfold take_all.
  destruct (new_txs s) as [|t n].
  - repeat split; try reflexivity. exists []. cbn. rewrite app_nil_r. reflexivity.
  - destruct (full max (queue s)).
    + repeat split; try reflexivity. exists []. cbn. rewrite app_nil_r. reflexivity.
    + repeat split; try reflexivity. exists [t :: n]. reflexivity.
Qed.

Lemma no_del_writes l : has_del l = false -> forall w, In w (writes_of l) -> is_del (AW w) = false.
Proof.
  induction l as [|a l IH]; intros Hd w Hin; [destruct Hin|].
  unfold has_del in Hd. cbn [existsb] in Hd. apply orb_false_iff in Hd. destruct Hd as [Ha Hl].
  destruct a as [w'|x]; cbn [writes_of] in Hin.
  - destruct Hin as [<-|Hin]; [exact Ha | exact (IH Hl w Hin)].
  - exact (IH Hl w Hin).
Qed.

Lemma backpressure_takes_nothing lim max gt l it :
  up (base l) = true -> is_produce it = true -> refuses lim l = true ->
  let l' := lstep lim max gt l (LBase it) in
  released (base l') = released (base l) /\ stale (base l') = stale (base l) /\ blocks (base l') = blocks (base l) /\
  sh (base l') = sh (base l) /\ th (base l') = th (base l) /\ mem (base l') = mem (base l) /\
  hsub l' = hsub l /\ dsub l' = dsub l /\
  (exists q', queue (base l') = queue (base l) ++ q') /\
  (forall w, In w (snd (lobserve lim max gt l (LBase it))) -> is_del (AW w) = false) /\
  (match it with IMid _ _ => True | _ => snd (lobserve lim max gt l (LBase it)) = [] /\ queue (base l') = queue (base l) end).
Proof.
  intros Hup Hp Hr. cbn [lstep lobserve]. unfold blocked. rewrite Hup, Hp, Hr. cbn [andb].
  assert (Hnil : forall q : list batch, exists q', q = q ++ q') by (intros q; exists []; rewrite app_nil_r; reflexivity).
  destruct it as [t|a|a k e|a k|ts|ts p]; try discriminate Hp.
  - destruct a; try discriminate Hp. cbn [refused_as snd].
    repeat split; try reflexivity; [apply Hnil | intros w []].
  - destruct a as [| |ts]; try discriminate Hp. cbn [refused_as snd base_set_base].
    cbn [step item_acts observe snd]. rewrite cut0. cbn [apply_acts fold_left writes_of pre].
    repeat split; try reflexivity; [apply Hnil | intros w []].
  - destruct a; try discriminate Hp. cbn [refused_as snd].
    repeat split; try reflexivity; [apply Hnil | intros w []].
  - cbn [refused_as snd]. repeat split; try reflexivity; [apply Hnil | intros w []].
  - cbn [refused_as snd]. rewrite base_set_base, (step_reap_RP max gt (base l) Hup).
    destruct (RP_fields max (base l)) as (A & B & C & D & E & _ & G & H).
    repeat split; try assumption; try reflexivity.
    cbn [observe item_acts acts_of snd]. rewrite Hup. cbn [fst].
    apply no_del_writes. exact (proj1 (reap_no_del_block max (base l))).
Qed.

(* ---- the limit off: the model is Model/Reaper.v ------------------------------------------------------------------------------- *)
Lemma no_limit_never_refuses l : refuses 0 l = false.
Proof. reflexivity. Qed.

Lemma not_refused_is_base lim max gt l it : blocked lim l it = false ->
  lstep lim max gt l (LBase it) = set_base (step max gt (base l) it) l /\
  lobserve lim max gt l (LBase it) = observe max gt (base l) it.
Proof. intros Hb. cbn [lstep lobserve]. rewrite Hb. split; reflexivity. Qed.

(* ---- confirming everything lifts the refusal; the state of the node is untouched -------------------------------------------------- *)
Lemma backpressure_lifts lim max gt l :
  up (base l) = true ->
  let l' := lstep lim max gt (lstep lim max gt l (LHdrSub (th (base l)))) (LDataSub (th (base l))) in
  base l' = base l /\ refuses lim l' = false.
Proof.
  intros Hup. cbn [lstep]. rewrite Hup. cbn [base]. rewrite Hup. cbn [base hsub dsub]. split; [reflexivity|].
  unfold refuses, pending_headers, pending_data, waiting_data, raise. cbn [base hsub dsub].
  rewrite Nat.min_id.
  replace (th (base l) - Nat.max (hsub l) (th (base l))) with 0 by lia.
  replace (th (base l) - Nat.max (dsub l) (th (base l))) with 0 by lia.
  cbn [firstn filter length N.of_nat].
  destruct lim as [|p]; [reflexivity|]. reflexivity.
Qed.
