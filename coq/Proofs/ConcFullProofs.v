(* Proofs/ConcFullProofs.v — the joint invariant of Model/ConcFull.v (full node: delivery, sync loop, includer) is
   kept by every atomic action, hence holds after every action of every schedule, for every proposer's chain. *)
From Coq Require Import NArith List Bool Lia.
From Verif Require Import Model.Conc Proofs.ConcProofs Model.ConcFull.
Import ListNotations.
Open Scope N_scope.

Lemma updo_eq {A} (f : N -> option A) h v : updo f h v h = v.
Proof. unfold updo. rewrite N.eqb_refl. reflexivity. Qed.
Lemma updo_neq {A} (f : N -> option A) h v x : x <> h -> updo f h v x = f x.
Proof. unfold updo. intros H. destruct (N.eqb_spec x h); [contradiction | reflexivity]. Qed.

Section Chain.
Variable chain_h chain_d : N -> N.
Notation FG := (FG chain_h chain_d).
Notation Ycl := (Ycl chain_h chain_d).
Notation Ifcl := (Ifcl chain_h chain_d).
Notation FJ := (FJ chain_h chain_d).
Notation step_d := (step_d chain_h chain_d).
Notation step_y := (step_y chain_h chain_d).
Notation fstep := (fstep chain_h chain_d).
Notation frun := (frun chain_h chain_d).

Lemma Ycl_pres s s' p : fblk s' = fblk s -> fht s' = fht s -> fsth s' = fsth s -> Ycl s p -> Ycl s' p.
Proof. intros Hb Hh Hs. unfold ConcFull.Ycl. rewrite Hb, Hh, Hs. exact (fun x => x). Qed.

Lemma fmarked_pres s s' c b :
  (forall x, In x (fmkh s) -> In x (fmkh s')) -> (forall x, In x (fmkd s) -> In x (fmkd s')) -> fmarked s c b -> fmarked s' c b.
Proof. intros H1 H2 [A B]. split; [apply H1, A | intros Ht; apply H2, B, Ht]. Qed.

Lemma Ifcl_pres s s' q :
  fht s <= fht s' -> fdi s' = fdi s -> fpdi s' = fpdi s -> ffin s' = ffin s ->
  (forall x, In x (fmkh s) -> In x (fmkh s')) -> (forall x, In x (fmkd s) -> In x (fmkd s')) -> Ifcl s q -> Ifcl s' q.
Proof.
  intros Hh Hd Hp Hf M1 M2. destruct q; cbn; rewrite ?Hd, ?Hp, ?Hf; intros H.
  - exact H.
  - exact H.
  - intuition lia.
  - destruct H as (H1 & H2 & H3 & H4). split; [exact H1|]. split; [exact H2|]. split; [lia | exact H4].
  - destruct H as (H1 & H2 & H3 & H4 & H5). split; [exact H1|]. split; [exact H2|]. split; [lia|]. split; [exact H4 | eapply fmarked_pres; eauto].
  - destruct H as (H1 & H2 & H3 & H4 & H5). split; [exact H1|]. split; [exact H2|]. split; [lia|]. split; [exact H4 | eapply fmarked_pres; eauto].
  - destruct H as (H1 & H2 & H3 & H4 & H5). split; [exact H1|]. split; [exact H2|]. split; [lia|]. split; [exact H4 | eapply fmarked_pres; eauto].
  - destruct H as (H1 & H2 & H3 & H4 & H5 & H6 & H7). split; [exact H1|]. split; [exact H2|]. split; [exact H3|]. split; [exact H4|]. split; [lia|]. split; [exact H6 | eapply fmarked_pres; eauto].
  - destruct H as (H1 & H2 & H3 & H4 & H5 & H6 & H7). split; [exact H1|]. split; [exact H2|]. split; [exact H3|]. split; [exact H4|]. split; [lia|]. split; [exact H6 | eapply fmarked_pres; eauto].
Qed.

(* ---- delivery ------------------------------------------------------------------------------------------ *)
Definition frame_d (s s' : fshared) : Prop :=
  fblk s' = fblk s /\ fht s' = fht s /\ fsth s' = fsth s /\ fdi s' = fdi s /\ fpdi s' = fpdi s /\ ffin s' = ffin s /\
  (forall x, In x (fmkh s) -> In x (fmkh s')) /\ (forall x, In x (fmkd s) -> In x (fmkd s')).
Lemma frame_d_refl s : frame_d s s.
Proof. unfold frame_d. repeat split; auto. Qed.

Lemma FG_mkh_grow s x : FG s -> FG (set_fmkh s (x :: fmkh s)).
Proof.
  intros g. destruct g as [P HC DL DM DD]. constructor; cbn; try assumption.
  intros h Hh. destruct (DM h Hh) as [A B]. split; [right; exact A | exact B].
Qed.
Lemma FG_mkd_grow s x : FG s -> FG (set_fmkd s (x :: fmkd s)).
Proof.
  intros g. destruct g as [P HC DL DM DD]. constructor; cbn; try assumption.
  intros h Hh. destruct (DM h Hh) as [A B]. split; [exact A | intros Hn; right; exact (B Hn)].
Qed.

Lemma FG_same s s' :
  FG s -> fblk s' = fblk s -> fht s' = fht s -> hc s' = hc s -> fdi s' = fdi s -> fpdi s' = fpdi s -> ffin s' = ffin s ->
  fmkh s' = fmkh s -> fmkd s' = fmkd s -> FG s'.
Proof.
  intros g E1 E2 E3 E4 E5 E6 E7 E8. destruct g as [P HC DL DM DD]. constructor; rewrite ?E1, ?E2, ?E3, ?E4, ?E5, ?E6, ?E7, ?E8; assumption.
Qed.

Lemma step_d_ok s p e : FG s -> FG (fst (step_d s p e)) /\ frame_d s (fst (step_d s p e)).
Proof.
  intros g. destruct p as [|ev0|ev0]; cbn [ConcFull.step_d].
  - destruct (f_hdr e); [cbn; split; [exact g | apply frame_d_refl]|].
    destruct (f_mark e); [destruct (chain_d (f_h e) =? 0)|]; cbn; (split; [exact g | apply frame_d_refl]).
  - destruct ev0 as [h [|]|h id [|]]; cbn.
    + split; [apply FG_mkh_grow; exact g|]. unfold frame_d; cbn. repeat split; auto; intros x Hx; right; exact Hx.
    + split; [exact g | apply frame_d_refl].
    + split; [apply FG_mkd_grow; exact g|]. unfold frame_d; cbn. repeat split; auto; intros x Hx; right; exact Hx.
    + split; [exact g | apply frame_d_refl].
  - destruct ev0 as [h m|h id m]; cbn.
    + split; [apply (FG_same s); try reflexivity; exact g|]. unfold frame_d; cbn. repeat split; auto.
    + split; [apply (FG_same s); try reflexivity; exact g|]. unfold frame_d; cbn. repeat split; auto.
Qed.

(* ---- sync loop ----------------------------------------------------------------------------------------- *)
Definition frame_y (s s' : fshared) : Prop :=
  fht s <= fht s' /\ (forall h, 1 <= h <= fht s -> fblk s' h = fblk s h) /\
  fdi s' = fdi s /\ fpdi s' = fpdi s /\ ffin s' = ffin s /\ fmkh s' = fmkh s /\ fmkd s' = fmkd s.
Lemma frame_y_refl s : frame_y s s.
Proof. unfold frame_y. repeat split; auto; lia. Qed.

Lemma FG_set_hc s h : FG s -> FG (set_hc s (updo (hc s) h (Some (chain_h h)))).
Proof.
  intros g. destruct g as [P HC DL DM DD]. constructor; cbn; try assumption.
  intros x id Hx. destruct (N.eq_dec x h) as [->|Hne]; [rewrite updo_eq in Hx; inversion Hx; reflexivity | rewrite updo_neq in Hx by exact Hne; exact (HC x id Hx)].
Qed.
Lemma FG_del_hc s h : FG s -> FG (set_hc s (updo (hc s) h None)).
Proof.
  intros g. destruct g as [P HC DL DM DD]. constructor; cbn; try assumption.
  intros x id Hx. destruct (N.eq_dec x h) as [->|Hne]; [rewrite updo_eq in Hx; discriminate | rewrite updo_neq in Hx by exact Hne; exact (HC x id Hx)].
Qed.
Lemma FG_set_dc s v : FG s -> FG (set_dc s v).
Proof. intros g. destruct g as [P HC DL DM DD]. constructor; cbn; assumption. Qed.
Lemma FG_set_hq s v : FG s -> FG (set_hq s v).
Proof. intros g. destruct g as [P HC DL DM DD]. constructor; cbn; assumption. Qed.
Lemma FG_set_dq s v : FG s -> FG (set_dq s v).
Proof. intros g. destruct g as [P HC DL DM DD]. constructor; cbn; assumption. Qed.
Lemma FG_set_fsth s v : FG s -> FG (set_fsth s v).
Proof. intros g. destruct g as [P HC DL DM DD]. constructor; cbn; assumption. Qed.
Lemma FG_upd_top s v : FG s -> FG (set_fblk s (updo (fblk s) (fht s + 1) v)).
Proof.
  intros g. destruct g as [P HC DL DM DD]. constructor; cbn; try assumption.
  intros h Hh. rewrite updo_neq by lia. apply P. exact Hh.
Qed.
Lemma FG_incr_fht s :
  FG s -> fblk s (fht s + 1) = Some (chain_h (fht s + 1), chain_d (fht s + 1)) -> FG (set_fht s (fht s + 1)).
Proof.
  intros g Hb. destruct g as [P HC DL DM DD]. constructor; cbn; try assumption; [|lia].
  intros h Hh. destruct (N.eq_dec h (fht s + 1)) as [->|Hne]; [exact Hb | apply P; lia].
Qed.

Lemma step_y_ok s p e : FG s -> Ycl s p ->
  FG (fst (step_y s p e)) /\ Ycl (fst (step_y s p e)) (snd (step_y s p e)) /\ frame_y s (fst (step_y s p e)).
Proof.
  intros g H. destruct p as [|h|h|h id|h id| |c|c hid did|c hid did|c|c|c|]; cbn [ConcFull.step_y].
  - (* Y0 *) destruct (f_hdr e).
    + destruct (hq s) as [|h r]; cbn; [split; [exact g|]; split; [exact H | apply frame_y_refl]|].
      split; [apply FG_set_hq; exact g|]. split; [exact H|]. unfold frame_y; cbn. repeat split; auto; lia.
    + destruct (dq s) as [|[h id] r]; cbn; [split; [exact g|]; split; [exact H | apply frame_y_refl]|].
      split; [apply FG_set_dq; exact g|]. split; [destruct (id =? 0); exact H|]. unfold frame_y; cbn. repeat split; auto; lia.
  - destruct ((h <=? fht s) || negb (f_ok e)); cbn; (split; [exact g|]); (split; [exact H | apply frame_y_refl]).
  - (* Y2h *) destruct (chain_d h =? 0); cbn.
    + split; [apply FG_set_dc, FG_set_hc; exact g|]. split; [exact H|]. unfold frame_y; cbn. repeat split; auto; lia.
    + split; [apply FG_set_hc; exact g|]. split; [exact H|]. unfold frame_y; cbn. repeat split; auto; lia.
  - destruct ((h <=? fht s) || negb (f_ok e)); cbn; (split; [exact g|]); (split; [exact H | apply frame_y_refl]).
  - cbn. split; [apply FG_set_dc; exact g|]. split; [exact H|]. unfold frame_y; cbn. repeat split; auto; lia.
  - (* T0 *) cbn. split; [exact g|]. split; [split; [exact H | reflexivity] | apply frame_y_refl].
  - (* T1 *) destruct H as [H1 H2]. destruct (hc s (c + 1)) as [hid|] eqn:Eh; [destruct (dc s (c + 1)) as [did|] eqn:Ed|]; cbn;
      (split; [exact g|]); (split; [|apply frame_y_refl]); try exact H1.
    split; [exact H1|]. split; [exact H2|]. apply (fg_hc _ _ s g). exact Eh.
  - (* T2 *) destruct H as (H1 & H2 & H3). destruct (f_ok e && (did =? chain_d (c + 1))) eqn:E; cbn;
      (split; [exact g|]); (split; [|apply frame_y_refl]); [|exact H1].
    apply andb_prop in E. destruct E as [_ E]. apply N.eqb_eq in E. repeat split; assumption.
  - (* T3 *) destruct H as (H1 & H2 & H3 & H4). subst c hid did. cbn.
    split; [apply FG_upd_top; exact g|]. split; [split; [exact H1|]; split; [reflexivity | apply updo_eq]|].
    unfold frame_y; cbn. repeat split; auto; try lia. intros h Hh. apply updo_neq. lia.
  - (* T4 *) destruct H as (H1 & H2 & H3). subst c. cbn.
    split; [apply FG_set_fsth; exact g|]. split; [split; [reflexivity|]; split; [reflexivity | exact H3]|].
    unfold frame_y; cbn. repeat split; auto; lia.
  - (* T5 *) destruct H as (H1 & H2 & H3). subst c. cbn.
    split; [apply FG_incr_fht; [exact g | exact H3]|]. split; [split; [exact H1 | reflexivity]|].
    unfold frame_y; cbn. repeat split; auto; lia.
  - (* T6 *) destruct H as (H1 & H2). cbn.
    split; [apply FG_set_dc, FG_del_hc; exact g|]. split; [exact H1|]. unfold frame_y; cbn. repeat split; auto; lia.
  - cbn. split; [exact g|]. split; [exact H | apply frame_y_refl].
Qed.

(* ---- includer ------------------------------------------------------------------------------------------ *)
Notation step_if := ConcFull.step_if.

Definition frame_i (s s' : fshared) : Prop :=
  fblk s' = fblk s /\ fht s' = fht s /\ fsth s' = fsth s /\ fmkh s' = fmkh s /\ fmkd s' = fmkd s /\ fdi s <= fdi s'.
Lemma frame_if_refl s : frame_i s s.
Proof. unfold frame_i. repeat split; auto; lia. Qed.

Lemma FG_set_ffin s v : FG s -> fpdi s <= v -> v <= fdi s + 1 -> FG (set_ffin s v).
Proof. intros g H1 H2. destruct g as [P HC DL DM DD]. constructor; cbn; try assumption. lia. Qed.
Lemma FG_set_fpdi s v : FG s -> fdi s <= v -> v <= ffin s -> FG (set_fpdi s v).
Proof. intros g H1 H2. destruct g as [P HC DL DM DD]. constructor; cbn; try assumption. lia. Qed.
Lemma FG_incr_fdi s b :
  FG s -> fdi s + 1 <= fht s -> proposers chain_h chain_d (fdi s) b -> fmarked s (fdi s) b ->
  fpdi s = fdi s + 1 -> ffin s = fdi s + 1 -> FG (set_fdi s (fdi s + 1)).
Proof.
  intros g Hh (Q1 & Q2 & Q3) [M1 M2] Hp Hf. destruct g as [P HC DL DM DD]. constructor; cbn; try assumption; [| lia].
  intros h Hr. destruct (N.eq_dec h (fdi s + 1)) as [->|Hne]; [|apply DM; lia].
  rewrite <- Q1. split; [exact M1|]. intros Hn. rewrite <- Q2. apply M2. rewrite Q3.
  destruct (N.eqb_spec (chain_d (fdi s + 1)) 0); [contradiction | reflexivity].
Qed.

Lemma step_if_ok s p e : FG s -> Ifcl s p ->
  FG (fst (step_if s p e)) /\ Ifcl (fst (step_if s p e)) (snd (step_if s p e)) /\ frame_i s (fst (step_if s p e)).
Proof.
  intros g H. destruct p as [|c|c|c b|c b|c b|c b|c b cur|c b cur]; cbn [ConcFull.step_if].
  - cbn. split; [exact g|]. split; [split; [exact H | reflexivity] | apply frame_if_refl].
  - destruct H as (H1 & H2). destruct (N.leb_spec (c + 1) (fht s)); cbn; (split; [exact g|]); (split; [|apply frame_if_refl]).
    + repeat split; assumption.
    + exact H1.
  - destruct H as (H1 & H2 & H3). rewrite (fg_prefix _ _ s g (c + 1)) by lia. cbn.
    split; [exact g|]. split; [|apply frame_if_refl].
    split; [exact H1|]. split; [exact H2|]. split; [exact H3|]. unfold proposers; cbn. repeat split; reflexivity.
  - destruct H as (H1 & H2 & H3 & H4).
    destruct (mem (c + 1, b_id b) (fmkh s) && (negb (b_txs b) || mem (c + 1, b_prev b) (fmkd s))) eqn:E; cbn;
      (split; [exact g|]); (split; [|apply frame_if_refl]); [|exact H1].
    apply andb_prop in E. destruct E as [E1 E2].
    split; [exact H1|]. split; [exact H2|]. split; [exact H3|]. split; [exact H4|].
    split; [apply mem_In; exact E1|]. intros Ht. rewrite Ht in E2. cbn in E2. apply mem_In. exact E2.
  - cbn. split; [exact g|]. split; [exact H | apply frame_if_refl].
  - cbn. split; [exact g|]. split; [exact H | apply frame_if_refl].
  - destruct H as (H1 & H2 & H3 & H4 & H5). pose proof (fg_di_dur _ _ s g) as (D1 & D2 & D3). destruct (f_ok e); cbn.
    + split; [apply FG_set_ffin; [exact g | lia | lia]|].
      split; [split; [exact H1|]; split; [reflexivity|]; split; [reflexivity|]; split; [exact H2|]; split; [exact H3|]; split; [exact H4 | exact H5]|].
      unfold frame_i; cbn. repeat split; auto; lia.
    + split; [exact g|]. split; [exact H1 | apply frame_if_refl].
  - destruct H as (H1 & H2 & H3 & H4 & H5 & H6 & H7). cbn.
    split; [apply FG_set_fpdi; [exact g | lia | lia]|].
    split; [split; [lia|]; split; [exact H2|]; split; [exact H3|]; split; [exact H4|]; split; [exact H5|]; split; [exact H6 | exact H7]|].
    unfold frame_i; cbn. repeat split; auto; lia.
  - destruct H as (H1 & H2 & H3 & H4 & H5 & H6 & H7). destruct (N.eqb_spec (fdi s) cur) as [He|Hne]; [|congruence]. cbn.
    subst cur c.
    split; [eapply FG_incr_fdi; eauto|].
    split; [split; [exact H1 | reflexivity]|].
    unfold frame_i; cbn. repeat split; auto; lia.
Qed.

(* ---- every action keeps the joint invariant ------------------------------------------------------------- *)
Lemma FJ_init : FJ finit.
Proof.
  unfold ConcFull.FJ, finit; cbn. split; [|split; reflexivity].
  constructor; cbn.
  - intros h Hh. lia.
  - intros h id Hx. discriminate.
  - lia.
  - intros h Hh. lia.
  - lia.
Qed.

Lemma fstep_keeps st ae : FJ st -> FJ (fstep st ae) /\ fmono (fsh st) (fsh (fstep st ae)).
Proof.
  intros (g & HY & HI). destruct ae as [a e]. destruct a; unfold ConcFull.fstep.
  - pose proof (step_d_ok (fsh st) (pd st) e g) as (g' & F).
    destruct (step_d (fsh st) (pd st) e) as [s' p']; cbn [fst snd fsh py pif] in *.
    destruct F as (F1 & F2 & F3 & F4 & F5 & F6 & F7 & F8).
    split.
    + unfold ConcFull.FJ; cbn. split; [exact g'|]. split; [apply (Ycl_pres (fsh st) s'); assumption|].
      apply (Ifcl_pres (fsh st) s'); try assumption. lia.
    + unfold fmono. split; [lia|]. split; [lia|]. intros h Hh. rewrite F1. reflexivity.
  - pose proof (step_y_ok (fsh st) (py st) e g HY) as (g' & HY' & F).
    destruct (step_y (fsh st) (py st) e) as [s' p']; cbn [fst snd fsh py pif] in *.
    destruct F as (F1 & F2 & F3 & F4 & F5 & F6 & F7).
    split.
    + unfold ConcFull.FJ; cbn. split; [exact g'|]. split; [exact HY'|].
      apply (Ifcl_pres (fsh st) s'); try assumption; intros x Hx; [rewrite F6 | rewrite F7]; exact Hx.
    + unfold fmono. split; [exact F1|]. split; [lia | exact F2].
  - pose proof (step_if_ok (fsh st) (pif st) e g HI) as (g' & HI' & F).
    destruct (step_if (fsh st) (pif st) e) as [s' p']; cbn [fst snd fsh py pif] in *.
    destruct F as (F1 & F2 & F3 & F4 & F5 & F6).
    split.
    + unfold ConcFull.FJ; cbn. split; [exact g'|]. split; [apply (Ycl_pres (fsh st) s'); assumption | exact HI'].
    + unfold fmono. split; [lia|]. split; [exact F6|]. intros h Hh. rewrite F1. reflexivity.
Qed.

Theorem finterleaving_from st sched : FJ st -> FJ (frun st sched).
Proof.
  revert st. induction sched as [|ae sched IH]; intros st H; [exact H|].
  cbn. apply IH. apply fstep_keeps. exact H.
Qed.
Theorem finterleaving sched : FJ (frun finit sched).
Proof. apply finterleaving_from. exact FJ_init. Qed.
Theorem finterleaving_every_prefix sched n : FJ (frun finit (firstn n sched)).
Proof. apply finterleaving. Qed.
Theorem fmonotone sched ae : fmono (fsh (frun finit sched)) (fsh (frun finit (sched ++ [ae]))).
Proof. unfold ConcFull.frun. rewrite fold_left_app. cbn. apply fstep_keeps. apply finterleaving. Qed.

(* ---- the boolean check follows from the invariant (at a point where the sync loop is not between /s and /t) --- *)
Lemma fcheck_sound s : FG s -> fsth s = fht s -> fcheck chain_h chain_d s = [].
Proof.
  intros g Hs. unfold fcheck. pose proof (fg_di_le _ _ s g) as C. pose proof (fg_di_dur _ _ s g) as (D1 & D2 & D3).
  rewrite Hs, N.eqb_refl.
  rewrite (proj2 (N.leb_le _ _) C), (proj2 (N.leb_le _ _) D1), (proj2 (N.leb_le _ _) D2), (proj2 (N.leb_le _ _) D3).
  cbn [andb app].
  assert (F : forallb (fun h => pair_opt_eqb (fblk s h) (chain_h h) (chain_d h)) (rangeN 0 (fht s)) = true).
  { apply forallb_forall. intros h Hh. apply rangeN_In in Hh. rewrite (fg_prefix _ _ s g h) by lia. cbn. rewrite !N.eqb_refl. reflexivity. }
  rewrite F. reflexivity.
Qed.

Theorem fcheck_reachable sched :
  (match py (frun finit sched) with T5 _ => False | _ => True end) -> fcheck chain_h chain_d (fsh (frun finit sched)) = [].
Proof.
  intros HP. destruct (finterleaving sched) as (g & HY & _). apply fcheck_sound; [exact g|].
  destruct (py (frun finit sched)); cbn in HY; try contradiction; intuition.
Qed.
End Chain.
