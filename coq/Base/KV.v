(* Base/KV.v — durable key/value images, atomic writes, crash prefixes.
   Shared by every model that has durable state (DESIGN.md 2.5).
   Definitions only plus the characterising lemmas of get/put/del. *)
From Coq Require Import String List Bool Arith.
Import ListNotations.
Open Scope string_scope.

Section KV.
  Context {V : Type}.

  (* A durable image: association list, most recent binding first.
     [None] bindings are tombstones (a delete). *)
  Definition kv := list (string * option V).

  Fixpoint kv_get (m : kv) (k : string) : option V :=
    match m with
    | [] => None
    | (k', v) :: r => if String.eqb k k' then v else kv_get r k
    end.

  Definition kv_put (m : kv) (k : string) (v : V) : kv := (k, Some v) :: m.
  Definition kv_del (m : kv) (k : string) : kv := (k, None) :: m.

  (* primitive writes, and the atomic units in which they reach the disk *)
  Inductive prim := Put (k : string) (v : V) | Del (k : string).
  Inductive write := W1 (p : prim) | WBatch (ps : list prim).

  Definition apply_prim (m : kv) (p : prim) : kv :=
    match p with Put k v => kv_put m k v | Del k => kv_del m k end.

  Definition apply_write (m : kv) (w : write) : kv :=
    match w with
    | W1 p => apply_prim m p
    | WBatch ps => fold_left apply_prim ps m
    end.

  Definition apply_writes (m : kv) (ws : list write) : kv := fold_left apply_write ws m.

  (* a crash after [k] atomic writes of a step *)
  Definition crash_after (k : nat) (m : kv) (ws : list write) : kv := apply_writes m (firstn k ws).

  (* the distinct keys currently bound (for image comparison) *)
  Fixpoint kv_keys_aux (m : kv) (seen : list string) : list string :=
    match m with
    | [] => []
    | (k, v) :: r =>
        if existsb (String.eqb k) seen then kv_keys_aux r seen
        else match v with
             | Some _ => k :: kv_keys_aux r (k :: seen)
             | None => kv_keys_aux r (k :: seen)
             end
    end.
  Definition kv_keys (m : kv) : list string := kv_keys_aux m [].

  Lemma kv_get_put (m : kv) k v k' :
    kv_get (kv_put m k v) k' = if String.eqb k' k then Some v else kv_get m k'.
  Proof. reflexivity. Qed.

  Lemma kv_get_del (m : kv) k k' :
    kv_get (kv_del m k) k' = if String.eqb k' k then None else kv_get m k'.
  Proof. reflexivity. Qed.

  Lemma kv_get_put_same (m : kv) k v : kv_get (kv_put m k v) k = Some v.
  Proof. rewrite kv_get_put, String.eqb_refl; reflexivity. Qed.

  Lemma kv_get_put_other (m : kv) k v k' : k' <> k -> kv_get (kv_put m k v) k' = kv_get m k'.
  Proof. intros H; rewrite kv_get_put. apply String.eqb_neq in H; rewrite H; reflexivity. Qed.

  Lemma kv_get_del_same (m : kv) k : kv_get (kv_del m k) k = None.
  Proof. rewrite kv_get_del, String.eqb_refl; reflexivity. Qed.

  Lemma kv_get_del_other (m : kv) k k' : k' <> k -> kv_get (kv_del m k) k' = kv_get m k'.
  Proof. intros H; rewrite kv_get_del. apply String.eqb_neq in H; rewrite H; reflexivity. Qed.

  Lemma apply_writes_app (m : kv) a b : apply_writes m (a ++ b) = apply_writes (apply_writes m a) b.
  Proof. unfold apply_writes; apply fold_left_app. Qed.

  (* a step with at most one atomic write is all-or-nothing under any crash *)
  Lemma crash_single (m : kv) (ws : list write) (k : nat) :
    length ws <= 1 -> crash_after k m ws = m \/ crash_after k m ws = apply_writes m ws.
  Proof.
    unfold crash_after; intros Hl.
    destruct ws as [|w [|w' ws]]; simpl in Hl.
    - left; destruct k; reflexivity.
    - destruct k as [|k]; [left; reflexivity | right].
      simpl. destruct k; reflexivity.
    - exfalso. inversion Hl as [|? H']; inversion H'.
  Qed.
End KV.

Arguments kv : clear implicits.
Arguments prim : clear implicits.
Arguments write : clear implicits.
