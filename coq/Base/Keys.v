(* Base/Keys.v — decimal and uppercase-hex printing as Go does it
   (strconv.FormatUint(n,10), hex.EncodeToString), with injectivity. *)
From Coq Require Import String Ascii NArith List Bool DecimalString DecimalN.
Import ListNotations.
Open Scope string_scope.

(* strconv.FormatUint(n, 10) *)
Definition dec (n : N) : string := NilEmpty.string_of_uint (N.to_uint n).

Lemma dec_inj n m : dec n = dec m -> n = m.
Proof.
  unfold dec; intros H.
  assert (E : Some (N.to_uint n) = Some (N.to_uint m)).
  { rewrite <- (NilEmpty.usu (N.to_uint n)), <- (NilEmpty.usu (N.to_uint m)), H; reflexivity. }
  inversion E as [E'].
  rewrite <- (Unsigned.of_to n), <- (Unsigned.of_to m), E'; reflexivity.
Qed.

(* go-header Hash.String(): two uppercase hex digits per byte, high nibble first *)
Definition hexdigit (b3 b2 b1 b0 : bool) : ascii :=
  match b3, b2, b1, b0 with
  | false, false, false, false => "0" | false, false, false, true => "1"
  | false, false, true, false => "2"  | false, false, true, true => "3"
  | false, true, false, false => "4"  | false, true, false, true => "5"
  | false, true, true, false => "6"   | false, true, true, true => "7"
  | true, false, false, false => "8"  | true, false, false, true => "9"
  | true, false, true, false => "A"   | true, false, true, true => "B"
  | true, true, false, false => "C"   | true, true, false, true => "D"
  | true, true, true, false => "E"    | true, true, true, true => "F"
  end%char.

Definition hex_hi (a : ascii) : ascii := let '(Ascii b0 b1 b2 b3 b4 b5 b6 b7) := a in hexdigit b7 b6 b5 b4.
Definition hex_lo (a : ascii) : ascii := let '(Ascii b0 b1 b2 b3 b4 b5 b6 b7) := a in hexdigit b3 b2 b1 b0.

Fixpoint hex (s : string) : string :=
  match s with
  | EmptyString => EmptyString
  | String a r => String (hex_hi a) (String (hex_lo a) (hex r))
  end.

Lemma hexdigit_inj a3 a2 a1 a0 b3 b2 b1 b0 :
  hexdigit a3 a2 a1 a0 = hexdigit b3 b2 b1 b0 -> (a3, a2, a1, a0) = (b3, b2, b1, b0).
Proof.
  destruct a3, a2, a1, a0, b3, b2, b1, b0; simpl; intros H;
    first [reflexivity | discriminate H].
Qed.

Lemma hex_inj s t : hex s = hex t -> s = t.
Proof.
  revert t; induction s as [|a s IH]; intros [|b t]; simpl; intros H;
    try reflexivity; try discriminate H.
  destruct a as [a0 a1 a2 a3 a4 a5 a6 a7], b as [b0 b1 b2 b3 b4 b5 b6 b7].
  simpl in H. inversion H as [[Hh Hl Hr]].
  apply hexdigit_inj in Hh; apply hexdigit_inj in Hl.
  inversion Hh; inversion Hl; subst.
  f_equal. apply IH; assumption.
Qed.

(* prefix ++ payload is injective in the payload *)
Lemma append_inj_r p a b : (p ++ a = p ++ b)%string -> a = b.
Proof. induction p as [|c p IH]; simpl; intros H; [exact H | inversion H; auto]. Qed.
