(* Check/KeyFileCheck.v — correspondence check for Model/KeyFile.v.  The harness (harness/c19) runs the
   real LoadFileSystemSigner / ExportPrivateKey / ImportPrivateKey / CreateFileSystemSigner /
   fallbackDeriveKey and writes, per call, the abstract description of the file it was run on (symbolic
   crypto [sym]; ciphertext labels verified by the harness's own AES-GCM), the passphrase, and what the
   code did; [mismatches] lists the cases on which the model disagrees.
   Compared: outcome class (ok / which stage refused / panic), the key bytes of the loaded signer, the
   exported bytes, the decoded content of a written file, and two facts about a loaded signer (its
   signature verifies under the key it reports; its address is the one derived by types.KeyAddress).
   Histories (OpHistory): the operations applied one after the other to ONE path; per step the result and the
   decoded, labelled content of the file AFTER the step are compared with [hstep] run on the model's own
   state.  Sessions (OpSession): Sign called again and again on one signer (buffer re-used, rewritten in
   place); per call: does the signature verify for the bytes at call time, and of which call's bytes is it
   the signature. *)
From Coq Require Import NArith List Bool Arith.
From Verif Require Import Model.KeyFile.
Import ListNotations.
Open Scope list_scope.

(* passphrases as run-length pairs (byte, count) *)
Definition pp (runs : list (N * N)) : bytes :=
  flat_map (fun r => repeat (fst r) (N.to_nat (snd r))) runs.

Definition mk_kd (ct : sct) (nonce pub salt : bytes) : keydata sym := mkKeydata sym ct nonce pub salt.

Inductive kop :=
| OpLoad (f : file sym) (pass : bytes)
| OpExport (f : file sym) (pass : bytes)
| OpImport (priv pass salt nonce : bytes)
| OpSave (s : signer) (pass salt nonce : bytes)
| OpFallback (pass : bytes)
| OpHistory (f : file sym) (ops : list (hop sym))      (* the operations applied one after the other to ONE path *)
| OpSession (s : signer) (ops : list sop).       (* Sign called again and again on one loaded signer *)

(* one observed step of a history: what the call returned, two facts about a signer it yielded, and the
   (decoded, labelled) content of the file AFTER the call *)
Record hobs := mk_hobs { ho_res : hres; ho_sig : bool; ho_addr : bool; ho_file : file sym }.

Inductive kobs :=
| ObLoad (o : outcome signer) (sig_ok addr_ok : bool)
| ObBytes (o : outcome bytes)
| ObFile (o : outcome (file sym))
| ObHistory (l : list hobs)
(* per Sign call: the signature verifies under GetPublic for the bytes the message held at the time of the
   call; index of the first call of the session of whose message (bytes at the time of THAT call) the
   returned signature is the Ed25519 signature under the signer's key, 9999 = of none *)
| ObSession (l : list (bool * N)).

Record kcase := mk_case { kc_op : kop; kc_obs : kobs }.

Definition err_eqb (a b : err) : bool :=
  match a, b with
  | EIo, EIo | EJson, EJson | ELegacyEmpty, ELegacyEmpty | ENonce, ENonce | EDecrypt, EDecrypt
  | EPriv, EPriv | EPub, EPub | EMismatch, EMismatch | EExists, EExists | EOther, EOther => true
  | _, _ => false
  end.

(* model outcome vs observed outcome; an observed error the harness could not classify (EOther) agrees
   with any model error *)
Definition outcome_eqb {A} (e : A -> A -> bool) (m o : outcome A) : bool :=
  match m, o with
  | Ok x, Ok y => e x y
  | Err _, Err EOther => true
  | Err a, Err b => err_eqb a b
  | Panic, Panic => true
  | _, _ => false
  end.

Definition signer_eqb (a b : signer) : bool :=
  bytes_eqb (s_priv a) (s_priv b) && bytes_eqb (s_pub a) (s_pub b).

Definition sct_eqb (a b : sct) : bool :=
  match a, b with
  | CSeal k n p, CSeal k' n' p' => skey_eqb k k' && bytes_eqb n n' && bytes_eqb p p'
  | CJunk, CJunk => true
  | _, _ => false
  end.

Definition file_eqb (a b : file sym) : bool :=
  match a, b with
  | FAbsent, FAbsent | FBadJson, FBadJson => true
  | FData x, FData y =>
      sct_eqb (kd_ct sym x) (kd_ct sym y) && bytes_eqb (kd_nonce sym x) (kd_nonce sym y)
      && bytes_eqb (kd_pub sym x) (kd_pub sym y) && bytes_eqb (kd_salt sym x) (kd_salt sym y)
  | _, _ => false
  end.

Definition probe_msg : bytes := [118; 101; 114; 105; 102]%N.

Definition hres_eqb (m o : hres) : bool :=
  match m, o with
  | RSigner a, RSigner b => outcome_eqb signer_eqb a b
  | RBytes a, RBytes b => outcome_eqb bytes_eqb a b
  | RDone a, RDone b => outcome_eqb (fun _ _ => true) a b
  | _, _ => false
  end.

(* a history: the model is run from the initial file on its OWN state; at step i (from 1) the codes are
   100*i + (1 = result differs, 2 = signature fact, 3 = address fact, 4 = the file after the step differs) *)
Fixpoint check_hist (i : N) (f : file sym) (ops : list (hop sym)) (obs : list hobs) : list N :=
  match ops, obs with
  | [], [] => []
  | op :: r, o :: ro =>
      let fr := hstep sym f op in
      (if hres_eqb (snd fr) (ho_res o) then [] else [100 * i + 1]%N) ++
      match snd fr with
      | RSigner (Ok s) =>
          (if Bool.eqb (signer_verifies sym s probe_msg) (ho_sig o) then [] else [100 * i + 2]%N) ++
          (if Bool.eqb (bytes_eqb (signer_address sym s) (key_address sym (signer_public s))
                        && bytes_eqb (noop_address sym (s_priv s)) (signer_address sym s)) (ho_addr o)
           then [] else [100 * i + 3]%N)
      | _ => []
      end ++
      (if file_eqb (fst fr) (ho_file o) then [] else [100 * i + 4]%N) ++
      check_hist (i + 1) (fst fr) r ro
  | _, _ => [9%N]
  end.

Fixpoint first_index (x : bytes) (l : list bytes) (i : N) : N :=
  match l with
  | [] => 9999%N
  | y :: r => if bytes_eqb y x then i else first_index x r (i + 1)
  end.

(* a signing session: call i (from 1): 100*i + (5 = "verifies" differs, 6 = the signature is that of another call's bytes) *)
Fixpoint check_sess (i : N) (s : signer) (all : list bytes) (msgs sigs : list bytes) (obs : list (bool * N)) : list N :=
  match msgs, sigs, obs with
  | [], [], [] => []
  | m :: rm, sg :: rs, (ok, origin) :: ro =>
      (if Bool.eqb (verify_under sym (signer_public s) m sg) ok then [] else [100 * i + 5]%N) ++
      (if N.eqb (first_index sg all 0) origin then [] else [100 * i + 6]%N) ++
      check_sess (i + 1) s all rm rs ro
  | _, _, _ => [9%N]
  end.

(* 1 = outcome differs, 2 = signature fact differs, 3 = address fact differs, 9 = ill-formed case *)
Definition check_case (c : kcase) : list N :=
  match kc_op c, kc_obs c with
  | OpLoad f p, ObLoad o sig_ok addr_ok =>
      let m := load sym f p in
      (if outcome_eqb signer_eqb m o then [] else [1%N]) ++
      match m with
      | Ok s =>
          (if Bool.eqb (signer_verifies sym s probe_msg) sig_ok then [] else [2%N]) ++
          (if Bool.eqb (bytes_eqb (signer_address sym s) (key_address sym (signer_public s))
                        && bytes_eqb (noop_address sym (s_priv s)) (signer_address sym s)) addr_ok
           then [] else [3%N])
      | _ => []
      end
  | OpExport f p, ObBytes o => if outcome_eqb bytes_eqb (export sym f p) o then [] else [1%N]
  | OpImport k p s n, ObFile o => if outcome_eqb file_eqb (import sym k p s n) o then [] else [1%N]
  | OpSave s p sa n, ObFile o => if outcome_eqb file_eqb (Ok (save sym s p sa n)) o then [] else [1%N]
  | OpFallback p, ObBytes o => if outcome_eqb bytes_eqb (fallback_derive p) o then [] else [1%N]
  | OpHistory f ops, ObHistory obs => check_hist 1 f ops obs
  | OpSession s ops, ObSession obs =>
      let sigs := session_sigs sym s ops in
      check_sess 1 s sigs (session_msgs [] ops) sigs obs
  | _, _ => [9%N]
  end.

Fixpoint mismatches_from (i : N) (cs : list kcase) : list (N * list N) :=
  match cs with
  | [] => []
  | c :: r => match check_case c with
              | [] => mismatches_from (i + 1) r
              | l => (i, l) :: mismatches_from (i + 1) r
              end
  end.
Definition mismatches := mismatches_from 0.
