(* Check/KeyFileCheck.v — correspondence check for Model/KeyFile.v.  The harness (harness/c19) runs the
   real LoadFileSystemSigner / ExportPrivateKey / ImportPrivateKey / CreateFileSystemSigner /
   fallbackDeriveKey and writes, per call, the abstract description of the file it was run on (symbolic
   crypto [sym]; ciphertext labels verified by the harness's own AES-GCM), the passphrase, and what the
   code did; [mismatches] lists the cases on which the model disagrees.
   Compared: outcome class (ok / which stage refused / panic), the key bytes of the loaded signer, the
   exported bytes, the decoded content of a written file, and two facts about a loaded signer (its
   signature verifies under the key it reports; its address is the one derived by types.KeyAddress). *)
From Coq Require Import NArith List Bool Arith.
From Verif Require Import Model.KeyFile.
Import ListNotations.
Open Scope list_scope.

(* passphrases as run-length pairs (byte, count) *)
Definition pp (runs : list (N * N)) : bytes :=
  flat_map (fun r => repeat (fst r) (N.to_nat (snd r))) runs.

Definition mk_kd (ct : sct) (nonce pub salt : bytes) : keydata sym := mkKeydata sym ct nonce pub salt.

Inductive kop :=
| OpLoad (f : file sym) (pass : bytes)
| OpExport (f : file sym) (pass : bytes)
| OpImport (priv pass salt nonce : bytes)
| OpSave (s : signer) (pass salt nonce : bytes)
| OpFallback (pass : bytes).

Inductive kobs :=
| ObLoad (o : outcome signer) (sig_ok addr_ok : bool)
| ObBytes (o : outcome bytes)
| ObFile (o : outcome (file sym)).

Record kcase := mk_case { kc_op : kop; kc_obs : kobs }.

Definition err_eqb (a b : err) : bool :=
  match a, b with
  | EIo, EIo | EJson, EJson | ELegacyEmpty, ELegacyEmpty | ENonce, ENonce | EDecrypt, EDecrypt
  | EPriv, EPriv | EPub, EPub | EMismatch, EMismatch | EOther, EOther => true
  | _, _ => false
  end.

(* model outcome vs observed outcome; an observed error the harness could not classify (EOther) agrees
   with any model error *)
Definition outcome_eqb {A} (e : A -> A -> bool) (m o : outcome A) : bool :=
  match m, o with
  | Ok x, Ok y => e x y
  | Err _, Err EOther => true
  | Err a, Err b => err_eqb a b
  | Panic, Panic => true
  | _, _ => false
  end.

Definition signer_eqb (a b : signer) : bool :=
  bytes_eqb (s_priv a) (s_priv b) && bytes_eqb (s_pub a) (s_pub b).

Definition sct_eqb (a b : sct) : bool :=
  match a, b with
  | CSeal k n p, CSeal k' n' p' => skey_eqb k k' && bytes_eqb n n' && bytes_eqb p p'
  | CJunk, CJunk => true
  | _, _ => false
  end.

Definition file_eqb (a b : file sym) : bool :=
  match a, b with
  | FAbsent, FAbsent | FBadJson, FBadJson => true
  | FData x, FData y =>
      sct_eqb (kd_ct sym x) (kd_ct sym y) && bytes_eqb (kd_nonce sym x) (kd_nonce sym y)
      && bytes_eqb (kd_pub sym x) (kd_pub sym y) && bytes_eqb (kd_salt sym x) (kd_salt sym y)
  | _, _ => false
  end.

Definition probe_msg : bytes := [118; 101; 114; 105; 102]%N.

(* 1 = outcome differs, 2 = signature fact differs, 3 = address fact differs, 9 = ill-formed case *)
Definition check_case (c : kcase) : list N :=
  match kc_op c, kc_obs c with
  | OpLoad f p, ObLoad o sig_ok addr_ok =>
      let m := load sym f p in
      (if outcome_eqb signer_eqb m o then [] else [1%N]) ++
      match m with
      | Ok s =>
          (if Bool.eqb (signer_verifies sym s probe_msg) sig_ok then [] else [2%N]) ++
          (if Bool.eqb (bytes_eqb (signer_address sym s) (key_address sym (signer_public s))
                        && bytes_eqb (noop_address sym (s_priv s)) (signer_address sym s)) addr_ok
           then [] else [3%N])
      | _ => []
      end
  | OpExport f p, ObBytes o => if outcome_eqb bytes_eqb (export sym f p) o then [] else [1%N]
  | OpImport k p s n, ObFile o => if outcome_eqb file_eqb (import sym k p s n) o then [] else [1%N]
  | OpSave s p sa n, ObFile o => if outcome_eqb file_eqb (Ok (save sym s p sa n)) o then [] else [1%N]
  | OpFallback p, ObBytes o => if outcome_eqb bytes_eqb (fallback_derive p) o then [] else [1%N]
  | _, _ => [9%N]
  end.

Fixpoint mismatches_from (i : N) (cs : list kcase) : list (N * list N) :=
  match cs with
  | [] => []
  | c :: r => match check_case c with
              | [] => mismatches_from (i + 1) r
              | l => (i, l) :: mismatches_from (i + 1) r
              end
  end.
Definition mismatches := mismatches_from 0.
