(* Check/GoLiteSubmitTick.v — the bodies of the two submission loops, Manager.HeaderSubmissionLoop and
   Manager.DataSubmissionLoop (block/submitter.go), translated from the Go source on every run: ONE ITERATION of each
   endless loop (`continue` = go round again), evaluated with the pending lists, the ticker and
   submitHeadersToDA / submitDataToDA / createSignedDataToSubmit as scripted collaborators whose calls are logged.

   [go_HeaderSubmissionLoop], [go_DataSubmissionLoop]: for ALL worlds (cancelled or not, nothing pending, a failing
   fetch, an empty or non-empty list, a failing submission) an iteration waits for ONE tick and then
     * does nothing when nothing is pending, when the pending items cannot be fetched, or when the list is empty;
     * otherwise hands EXACTLY the fetched list — whatever its length and contents, in every mode — to
       submitHeadersToDA / submitDataToDA, once; a failing submission is only logged;
     * and goes round again in every case; a cancelled context ends the loop before anything is called.
   With Check/GoLiteSubmitLoop.v (the retry loop inside submitToDA) this is the code side of Submitter.tick_side.
   Used by C06 and C08. *)
From Coq Require Import String List NArith ZArith Bool Lia.
From Verif Require Import Model.Types Model.Admission Model.GoLite Check.GoLiteTactics gen.GoLiteFuns.
Import ListNotations.
Open Scope string_scope.
Open Scope list_scope.

Record tworld := { t_cancel : bool; t_empty : bool; t_get_ok : bool; t_lo : N; t_hi : N; t_submit_ok : bool;
                   t_bt : Z; t_lazy : bool }.
Definition er (ok : bool) : gval := VErr (negb ok).
Definition ctx : gval := VUnit.
Definition pending_v (w : tworld) : gval := VSeg "pending" (t_lo w) (t_hi w).
Definition tick_mgr (w : tworld) : gval :=
  VObj "Manager" [
    ("logger", VUnit);
    ("config", VRec [("DA", VRec [("BlockTime", VRec [("Duration", VZ (t_bt w))])]); ("Node", VRec [("LazyMode", VBool (t_lazy w))])]);
    ("pendingHeaders", VOrc "pendingHeaders" [("isEmpty", [VBool (t_empty w)]); ("getPendingHeaders", [VTuple [pending_v w; er (t_get_ok w)]])]);
    ("pendingData", VOrc "pendingData" [("isEmpty", [VBool (t_empty w)])]);
    ("$orc", VOrc "m" [("submitHeadersToDA", [er (t_submit_ok w)]); ("submitDataToDA", [er (t_submit_ok w)]);
                       ("createSignedDataToSubmit", [VTuple [pending_v w; er (t_get_ok w)]])])].
Definition tick_globals (w : tworld) : env :=
  [("$cancelled", VBool (t_cancel w)); ("$continue", VTok "continue" []); ("$pkg", VOrc "pkg" [("$tick", [VUnit])])].

Definition is_receiver (e : gval) : bool := match e with VEff x _ => x =? "receiver" | _ => false end.
(* the translated functions that run inside this lemma file; every other call is a scripted collaborator *)
Definition tick_funs : list (string * gfun) :=
  filter (fun p => (fst p =? "Manager.HeaderSubmissionLoop") || (fst p =? "Manager.DataSubmissionLoop")) gen_funs.
Definition run_tick (name : string) (w : tworld) : option (list gval * list gval) :=
  match lookup tick_funs name with
  | Some fn => interp (bind (exec 400 tick_funs (tick_globals w) (start_env fn (Some (tick_mgr w)) [ctx]) [] (f_body fn))
                            (fun r => RRet (fst r, filter (fun e => negb (is_receiver e)) (rev (snd r)))))
  | None => None
  end.

Definition go_on : list gval := [VTok "continue" []].
Definition tick_call (w : tworld) : gval := VEff "pkg.$tick" [VTok "time.NewTicker" [VZ (t_bt w)]].

Definition tick_expect (fetch submit : string) (w : tworld) : list gval * list gval :=
  if t_cancel w then ([], []) else
  let c1 := [tick_call w] in
  if t_empty w then (go_on, c1) else
  let c2 := c1 ++ [VEff fetch [ctx]] in
  if negb (t_get_ok w) then (go_on, c2) else
  if (seg_len (t_lo w) (t_hi w) =? 0)%N then (go_on, c2) else
  (go_on, c2 ++ [VEff submit [ctx; pending_v w]]).

Ltac plazy := lazy -[N.eqb N.leb N.ltb N.add N.sub seg_len].
Ltac decide_or_case c :=
  let v := eval vm_compute in c in
  match v with
  | true => change c with true
  | false => change c with false
  | _ => destruct c eqn:?
  end.
Ltac split_on c :=
  match c with
  | context [(?a =? ?b)%N] => decide_or_case (a =? b)%N
  | context [?b] => is_var b; match type of b with bool => destruct b end
  end.
Ltac hstep := match goal with
              | |- (if ?c then _ else _) = _ => split_on c
              | |- _ = Some (if ?c then _ else _) => split_on c
              end; cbv beta iota.

Lemma go_HeaderSubmissionLoop : forall w,
  run_tick "Manager.HeaderSubmissionLoop" w = Some (tick_expect "pendingHeaders.getPendingHeaders" "m.submitHeadersToDA" w).
Proof. intros [c e g lo hi s bt lz]. plazy. repeat hstep; reflexivity. Qed.

Lemma go_DataSubmissionLoop : forall w,
  run_tick "Manager.DataSubmissionLoop" w = Some (tick_expect "m.createSignedDataToSubmit" "m.submitDataToDA" w).
Proof. intros [c e g lo hi s bt lz]. plazy. repeat hstep; reflexivity. Qed.

(* whatever is pending and fetched is submitted, in every mode and for every list: no iteration holds it back *)
Lemma pending_is_submitted : forall fetch submit w,
  t_cancel w = false -> t_empty w = false -> t_get_ok w = true -> (t_lo w < t_hi w)%N ->
  snd (tick_expect fetch submit w) = [tick_call w; VEff fetch [ctx]; VEff submit [ctx; pending_v w]].
Proof.
  intros fetch submit w Hc He Hg Hlt. unfold tick_expect. rewrite Hc, He, Hg. cbn [negb].
  replace (seg_len (t_lo w) (t_hi w) =? 0)%N with false; [reflexivity|].
  symmetry. apply N.eqb_neq. unfold seg_len. lia.
Qed.

Print Assumptions go_HeaderSubmissionLoop.
Print Assumptions go_DataSubmissionLoop.
Print Assumptions pending_is_submitted.
