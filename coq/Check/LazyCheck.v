(* Check/LazyCheck.v — correspondence check for Model/Lazy.v.  The harness runs the real
   AggregationLoop under a virtual clock and reports, per case, the configuration, the notification
   instants, the production durations, the horizon H and the virtual start instants (< H) of the calls
   of publishBlock.  Because `select` chooses at random among ready cases the comparison is trace
   inclusion: [admits] explores every schedule of the model (breadth first, states de-duplicated,
   branches pruned as soon as they disagree with the observed starts) and accepts iff some schedule
   yields exactly the observed starts before H.
   The notifications of a case come from two sources: bare calls of NotifyNewTransactions
   ([lc_notifs]) and the real Reaper ([lc_revs] = the calls of Reaper.SubmitTxs the harness made or
   the reaper's ticker made, with the scripted answers of the executor and sequencer doubles): the
   model's loop is run on [lc_notifs ++ rnotifs lc_revs], and the batches the sequencer double
   received ([lc_calls]: instant, ids, accepted) must be exactly [rcalls lc_revs]. *)
From Coq Require Import ZArith NArith List Bool.
From Verif Require Import Model.Lazy.
Import ListNotations.
Open Scope Z_scope.

Record lcase := {
  lc_cfg : cfg;
  lc_notifs : list Z;
  lc_revs : list (Z * rin);               (* calls of Reaper.SubmitTxs, in order *)
  lc_calls : list (Z * (list N * bool));  (* observed calls of SubmitBatchTxs *)
  lc_H : Z;
  lc_obs : list Z;        (* observed production starts < H, in order *)
  lc_fuel : N
}.

(* exploration state: model state + the observed starts not yet matched + how many were matched *)
Definition xst := (st * (list Z * N))%type.

Definition succ1 (c : cfg) (H : Z) (x : xst) (ch : choice) : list xst :=
  let '(s, (rem, k)) := x in
  match step c s ch with
  | None => []
  | Some s' =>
      if produces c s ch then
        (* a production at tau c s (< H here) must be the next observed start *)
        match rem with
        | o :: rem' => if o =? tau c s then [(s', (rem', (k + 1)%N))] else []
        | [] => []
        end
      else [(s', (rem, k))]
  end.

Definition succs (c : cfg) (H : Z) (x : xst) : list xst :=
  succ1 c H x CEnv ++ succ1 c H x CRecv ++ succ1 c H x CLazy ++ succ1 c H x CBlock.

(* two exploration states with the same future: pend, the durations still to come and the unmatched
   observations are suffixes of fixed lists; pend is identified by its length, the other two by the
   number of productions so far (every production explored here is matched with one observation) *)
Definition xeqb (a b : xst) : bool :=
  let '(s, (_, k)) := a in let '(s', (_, k')) := b in
  (now s =? now s') && (lz s =? lz s') && (bk s =? bk s') && Bool.eqb (chan s) (chan s')
  && Bool.eqb (avail s) (avail s') && Nat.eqb (length (pend s)) (length (pend s')) && (k =? k')%N.

Fixpoint dedup (l : list xst) : list xst :=
  match l with
  | [] => []
  | x :: r => if existsb (xeqb x) r then dedup r else x :: dedup r
  end.

Definition is_nil {A} (l : list A) : bool := match l with [] => true | _ => false end.

(* the earliest instant at which some state of the frontier can move *)
Definition min_tau (c : cfg) (front : list xst) : option Z :=
  fold_left (fun acc x => let t := tau c (fst x) in
                          match acc with None => Some t | Some m => Some (Z.min m t) end) front None.

(* Only the states that can move at the earliest instant are expanded in a round, the others wait: two
   schedules that reach the same state by a different number of steps at the same instant then meet in
   the frontier and are merged by [dedup] (otherwise the frontier grows with every coincidence). *)
Fixpoint explore (c : cfg) (H : Z) (fuel : nat) (front : list xst) : bool :=
  match fuel with
  | O => false
  | S f =>
      if existsb (fun x => (H <=? tau c (fst x)) && is_nil (fst (snd x))) front then true
      else
        let live := filter (fun x => tau c (fst x) <? H) front in
        match min_tau c live with
        | None => false
        | Some m =>
            let '(cur, later) := partition (fun x => tau c (fst x) =? m) live in
            explore c H f (dedup (flat_map (succs c H) cur ++ later))
        end
  end.

Definition admits (k : lcase) : bool :=
  explore (lc_cfg k) (lc_H k) (N.to_nat (lc_fuel k))
          [(init (lc_cfg k) (lc_notifs k ++ rnotifs (lc_revs k)), (lc_obs k, 0%N))].

Fixpoint leqb {A} (e : A -> A -> bool) (a b : list A) : bool :=
  match a, b with
  | [], [] => true
  | x :: a', y :: b' => e x y && leqb e a' b'
  | _, _ => false
  end.

Definition calleqb (a b : Z * (list N * bool)) : bool :=
  (fst a =? fst b) && leqb N.eqb (fst (snd a)) (fst (snd b)) && Bool.eqb (snd (snd a)) (snd (snd b)).

(* the reaper handed the sequencer exactly the batches of the model, at the same instants *)
Definition reaper_agrees (k : lcase) : bool := leqb calleqb (rcalls (lc_revs k)) (lc_calls k).

(* 1 = no schedule of the model yields the observed starts; 2 = the batches handed to the sequencer
   differ from the model's *)
Definition check_case (k : lcase) : list N :=
  (if admits k then [] else [1%N]) ++ (if reaper_agrees k then [] else [2%N]).

Fixpoint mismatches_from (i : N) (cs : list lcase) : list (N * list N) :=
  match cs with
  | [] => []
  | c :: r => match check_case c with
              | [] => mismatches_from (i + 1) r
              | l => (i, l) :: mismatches_from (i + 1) r
              end
  end.
Definition mismatches := mismatches_from 0.

(* the starts of one particular schedule, oldest first (for examples) *)
Definition starts_of (s : st) : list Z := rev (map fst (prods s)).
