(* Check/StopBefore.v — FROZEN copy of the blockpoints table as generated from /repo/block/*.go BEFORE the repairs
   ca974a2 (start-up sleep), 0d6bd4f (sendError) and 4176904 (event sends); kept so that the old defects stay
   recorded as kernel-checked Examples (the before_the_repair Examples of Props/C13.v).  Never regenerated. *)
From Coq Require Import String List Bool.
Import ListNotations.
Open Scope string_scope.
From Verif Require Import Model.StopProto.

Definition block_points_before : list bpoint := [
  {| bp_func := "AggregationLoop"; bp_kind := "sleep"; bp_what := "delay"; bp_cancellable := false |};
  {| bp_func := "AggregationLoop"; bp_kind := "send"; bp_what := "errCh"; bp_cancellable := false |};
  {| bp_func := "AggregationLoop"; bp_kind := "send"; bp_what := "errCh"; bp_cancellable := false |};
  {| bp_func := "lazyAggregationLoop"; bp_kind := "select"; bp_what := "<-ctx.Done() | <-lazyTimer.C | <-blockTimer.C | <-m.txNotifyCh"; bp_cancellable := true |};
  {| bp_func := "normalAggregationLoop"; bp_kind := "select"; bp_what := "<-ctx.Done() | <-blockTimer.C | <-m.txNotifyCh"; bp_cancellable := true |};
  {| bp_func := "publishBlockInternal"; bp_kind := "wait"; bp_what := "g.Wait"; bp_cancellable := false |};
  {| bp_func := "SyncLoop"; bp_kind := "send"; bp_what := "errCh"; bp_cancellable := false |};
  {| bp_func := "SyncLoop"; bp_kind := "select"; bp_what := "<-daTicker.C | <-blockTicker.C | headerEvent := <-m.headerInCh | dataEvent := <-m.dataInCh | <-metricsTicker.C | <-ctx.Done()"; bp_cancellable := true |};
  {| bp_func := "SyncLoop"; bp_kind := "send"; bp_what := "errCh"; bp_cancellable := false |};
  {| bp_func := "SyncLoop"; bp_kind := "send"; bp_what := "errCh"; bp_cancellable := false |};
  {| bp_func := "RetrieveLoop"; bp_kind := "select"; bp_what := "<-ctx.Done() | <-m.retrieveCh | <-blobsFoundCh"; bp_cancellable := true |};
  {| bp_func := "handlePotentialData"; bp_kind := "send"; bp_what := "m.dataInCh"; bp_cancellable := false |};
  {| bp_func := "handlePotentialHeader"; bp_kind := "send"; bp_what := "m.headerInCh"; bp_cancellable := false |};
  {| bp_func := "processNextDAHeaderAndData"; bp_kind := "select"; bp_what := "<-ctx.Done() | <-time.After(100 * time.Millisecond)"; bp_cancellable := true |};
  {| bp_func := "HeaderStoreRetrieveLoop"; bp_kind := "select"; bp_what := "<-ctx.Done() | <-m.headerStoreCh"; bp_cancellable := true |};
  {| bp_func := "HeaderStoreRetrieveLoop"; bp_kind := "send"; bp_what := "m.headerInCh"; bp_cancellable := false |};
  {| bp_func := "DataStoreRetrieveLoop"; bp_kind := "select"; bp_what := "<-ctx.Done() | <-m.dataStoreCh"; bp_cancellable := true |};
  {| bp_func := "DataStoreRetrieveLoop"; bp_kind := "send"; bp_what := "m.dataInCh"; bp_cancellable := false |};
  {| bp_func := "HeaderSubmissionLoop"; bp_kind := "select"; bp_what := "<-ctx.Done() | <-timer.C"; bp_cancellable := true |};
  {| bp_func := "submitToDA"; bp_kind := "select"; bp_what := "<-ctx.Done() | <-time.After(backoff)"; bp_cancellable := true |};
  {| bp_func := "DataSubmissionLoop"; bp_kind := "select"; bp_what := "<-ctx.Done() | <-timer.C"; bp_cancellable := true |};
  {| bp_func := "DAIncluderLoop"; bp_kind := "select"; bp_what := "<-ctx.Done() | <-m.daIncluderCh"; bp_cancellable := true |};
  {| bp_func := "DAIncluderLoop"; bp_kind := "send"; bp_what := "errCh"; bp_cancellable := false |};
  {| bp_func := "DAIncluderLoop"; bp_kind := "send"; bp_what := "errCh"; bp_cancellable := false |};
  {| bp_func := "Reaper.Start"; bp_kind := "select"; bp_what := "<-ctx.Done() | <-ticker.C"; bp_cancellable := true |}
].

Definition loop_reach_before : list (string * list string) := [
  ("AggregationLoop", ["AggregationLoop"; "ManagerOptions.Validate"; "MetricsTimer.Stop"; "NewMetricsTimer"; "PendingData.getPendingData"; "PendingData.numPendingData"; "PendingData.numWaitingData"; "PendingData.setLastSubmittedDataHeight"; "PendingHeaders.numPendingHeaders"; "Validate"; "applyBlock"; "convertBatchDataToBytes"; "createBlock"; "execApplyBlock"; "execCreateBlock"; "execValidate"; "getHeaderSignature"; "getLastBlockTime"; "getRemainingSleep"; "lazyAggregationLoop"; "normalAggregationLoop"; "pendingBase.getPending"; "pendingBase.numPending"; "pendingBase.setLastSubmittedHeight"; "produceBlock"; "publishBlockInternal"; "recordBlockProductionMetrics"; "recordMetrics"; "retrieveBatch"; "updateState"]);
  ("SyncLoop", ["ManagerOptions.Validate"; "MetricsTimer.Stop"; "PendingData.numPendingData"; "PendingHeaders.numPendingHeaders"; "SyncLoop"; "Validate"; "applyBlock"; "execApplyBlock"; "execValidate"; "handleEmptyDataHash"; "pendingBase.numPending"; "recordSyncMetrics"; "sendNonBlockingSignalToDataStoreCh"; "sendNonBlockingSignalToHeaderStoreCh"; "sendNonBlockingSignalToRetrieveCh"; "sendNonBlockingSignalWithMetrics"; "trySyncNextBlock"; "updateChannelMetrics"; "updatePendingMetrics"; "updateState"]);
  ("RetrieveLoop", ["RetrieveLoop"; "areAllErrorsHeightFromFuture"; "fetchBlobs"; "handlePotentialData"; "handlePotentialHeader"; "isUsingExpectedSingleSequencer"; "isValidSignedData"; "processNextDAHeaderAndData"; "recordDAMetrics"; "sendNonBlockingSignalToDAIncluderCh"; "sendNonBlockingSignalWithMetrics"]);
  ("HeaderStoreRetrieveLoop", ["HeaderStoreRetrieveLoop"; "getHeadersFromHeaderStore"; "isUsingExpectedSingleSequencer"]);
  ("DataStoreRetrieveLoop", ["DataStoreRetrieveLoop"; "getDataFromDataStore"]);
  ("HeaderSubmissionLoop", ["HeaderSubmissionLoop"; "MetricsTimer.Stop"; "PendingData.isEmpty"; "PendingHeaders.getPendingHeaders"; "PendingHeaders.isEmpty"; "PendingHeaders.numPendingHeaders"; "PendingHeaders.setLastSubmittedHeaderHeight"; "exponentialBackoff"; "pendingBase.getPending"; "pendingBase.isEmpty"; "pendingBase.numPending"; "pendingBase.setLastSubmittedHeight"; "recordDAMetrics"; "sendNonBlockingSignalToDAIncluderCh"; "sendNonBlockingSignalWithMetrics"; "submitHeadersToDA"; "submitToDA"]);
  ("DataSubmissionLoop", ["DataSubmissionLoop"; "MetricsTimer.Stop"; "PendingData.getPendingData"; "PendingData.isEmpty"; "PendingData.numPendingData"; "PendingData.setLastSubmittedDataHeight"; "PendingHeaders.isEmpty"; "createSignedDataToSubmit"; "exponentialBackoff"; "getDataSignature"; "pendingBase.getPending"; "pendingBase.isEmpty"; "pendingBase.numPending"; "pendingBase.setLastSubmittedHeight"; "recordDAMetrics"; "sendNonBlockingSignalToDAIncluderCh"; "sendNonBlockingSignalWithMetrics"; "submitDataToDA"; "submitToDA"]);
  ("DAIncluderLoop", ["DAIncluderLoop"; "GetDAIncludedHeight"; "IsDAIncluded"; "PendingHeaders.numPendingHeaders"; "SetRollkitHeightToDAHeight"; "incrementDAIncludedHeight"; "pendingBase.numPending"]);
  ("Reaper.Start", ["MetricsTimer.Stop"; "NotifyNewTransactions"; "Reaper.Start"; "Reaper.SubmitTxs"; "hashTx"])
].
