(* Check/GoLiteLoopChunks.v (one of Check/GoLiteLoop*.v) — loops of the Go code, translated SHALLOWLY into Gallina Fixpoints by
   harness/translators/golite (loops.go) on every run (coq/gen/GoLoops.v), and proved — by induction, for ALL lists —
   to compute what the hand-written models compute.  (The deep embedding Model/GoLite.v evaluates straight-line
   decision code symbolically; a loop over an unbounded list needs an induction, which is done here.)
     loop_client_filter   da/jsonrpc/client.go SubmitWithOptions, the size filter     = Proxy.filter_loop          (C16)
     loop_num_waiting     block/pending_data.go numWaitingData                          = Throttle.waiting_loop      (C08)
     loop_retrieve_chunks types/da.go RetrieveWithHelpers, the chunked Get loop         = consecutive index ranges of
                                                                                          Admission.batch_size ids   (C03, C09, C16)
   Integers are N (sizes and indices far below 2^63). *)
From Coq Require Import List NArith Bool Lia.
From Verif Require Import gen.GoLoops.
From Verif Require Model.Proxy Model.Throttle Model.Admission.
From Coq Require String.
Import ListNotations.
Open Scope N_scope.
Open Scope list_scope.

(* ---- the chunked Get loop of RetrieveWithHelpers ---------------------------------------------------------------- *)
Section Chunks.
  Variable A R : Type.
  Variable ids : list A.
  Variable get : list A -> option (list R).          (* da.Get on a list of ids: the blobs, or an error *)

  (* the call the loop makes for the index range [i, e): da.Get(ctx, idsResult.IDs[i:e], namespace) *)
  Definition range_call (i e : N) : option (list R) := get (firstn (N.to_nat (e - i)) (skipn (N.to_nat i) ids)).
  Definition chunk_loop := loop_retrieve_chunks R range_call (N.of_nat (length ids)).   (* the batch size 100 is a literal of the source *)

  (* the model: Get the chunks of Admission.chunks one after the other, stop at the first error *)
  Fixpoint get_all (cs : list (list A)) (acc : list R) : list R + list R :=
    match cs with
    | [] => inl acc
    | c :: r => match get c with Some bb => get_all r (acc ++ bb) | None => inr acc end
    end.

  Lemma skipn_add : forall (a b : nat) (l : list A), skipn (a + b) l = skipn b (skipn a l).
  Proof. induction a as [|a IH]; intros b l; [reflexivity|]. destruct l as [|x l]; cbn; [destruct b; reflexivity|apply IH]. Qed.

  Lemma chunks_from_any : forall f1 f2 (l : list A), (length l <= f1)%nat -> (length l <= f2)%nat ->
    Admission.chunks_from f1 l = Admission.chunks_from f2 l.
  Proof.
    induction f1 as [|f1 IH]; intros f2 l H1 H2.
    - destruct l; [destruct f2; reflexivity|cbn in H1; lia].
    - destruct l as [|x r]; [destruct f2; reflexivity|].
      destruct f2 as [|f2]; [cbn in H2; lia|].
      cbn [Admission.chunks_from]. f_equal.
      assert (Hs : (length (skipn Admission.batch_size (x :: r)) <= length r)%nat).
      { rewrite skipn_length. unfold Admission.batch_size. cbn [length]. lia. }
      apply IH; cbn [length] in *; lia.
  Qed.
  Lemma chunks_from_enough : forall f (l : list A), (length l <= f)%nat ->
    Admission.chunks_from f l = Admission.chunks_from (length l) l.
  Proof. intros. apply chunks_from_any; lia. Qed.

  Lemma chunks_cons : forall (l : list A), l <> [] ->
    Admission.chunks l = firstn Admission.batch_size l :: Admission.chunks (skipn Admission.batch_size l).
  Proof.
    intros l Hl. destruct l as [|x r]; [congruence|]. unfold Admission.chunks at 1. cbn [length Admission.chunks_from].
    f_equal. unfold Admission.chunks. apply chunks_from_enough.
    rewrite skipn_length. unfold Admission.batch_size. cbn [length]. lia.
  Qed.

  Lemma go_retrieve_chunks_gen : forall fuel i acc,
    (length (skipn (N.to_nat i) ids) < fuel)%nat ->
    chunk_loop fuel i acc = Some (get_all (Admission.chunks (skipn (N.to_nat i) ids)) acc).
  Proof.
    induction fuel as [|f IH]; intros i acc Hf; [lia|].
    unfold chunk_loop in *. cbn [L_retrieve_chunks.loop]. change 100 with (N.of_nat Admission.batch_size).
    destruct (i <? N.of_nat (length ids)) eqn:E.
    - apply N.ltb_lt in E.
      assert (Hne : skipn (N.to_nat i) ids <> []).
      { intro H0. apply (f_equal (@length A)) in H0. rewrite skipn_length in H0. cbn in H0. lia. }
      rewrite (chunks_cons _ Hne). cbn [get_all].
      assert (Hcall : range_call i (N.min (i + N.of_nat Admission.batch_size) (N.of_nat (length ids))) =
                      get (firstn Admission.batch_size (skipn (N.to_nat i) ids))).
      { unfold range_call. f_equal.
        destruct (N.le_gt_cases (i + N.of_nat Admission.batch_size) (N.of_nat (length ids))) as [Hle|Hgt].
        - rewrite N.min_l by exact Hle. f_equal. lia.
        - rewrite N.min_r by lia.
          rewrite (firstn_all2 (n := Admission.batch_size)) by (rewrite skipn_length; lia).
          apply firstn_all2. rewrite skipn_length. lia. }
      rewrite Hcall.
      destruct (get (firstn Admission.batch_size (skipn (N.to_nat i) ids))) as [bb|]; [|reflexivity].
      assert (Hsk : skipn (N.to_nat (i + N.of_nat Admission.batch_size)) ids =
                    skipn Admission.batch_size (skipn (N.to_nat i) ids)).
      { rewrite <- skipn_add. f_equal. lia. }
      rewrite <- Hsk. apply IH. rewrite Hsk, skipn_length. rewrite skipn_length in Hf.
      rewrite skipn_length. unfold Admission.batch_size. lia.
    - apply N.ltb_ge in E.
      rewrite skipn_all2 by lia. reflexivity.
  Qed.

  (* from the loop's initial state, with the fuel the translation needs: the loop fetches exactly the chunks of
     Admission.chunks (100 ids each, the last one shorter, none empty), in order, appends the answers, and stops at
     the first failing Get with what it had (the caller then reports an error) *)
  Lemma go_retrieve_chunks :
    chunk_loop (S (length ids)) loop_retrieve_chunks_start [] = Some (get_all (Admission.chunks ids) []).
  Proof. rewrite go_retrieve_chunks_gen; [reflexivity|]. cbn. lia. Qed.
End Chunks.


(* the loop reads exactly these inputs, by name (the lemmas instantiate them by position) *)
Lemma go_retrieve_chunks_inputs : LoopInputs.loop_retrieve_chunks_inputs = [].
Proof. reflexivity. Qed.

Print Assumptions go_retrieve_chunks.
