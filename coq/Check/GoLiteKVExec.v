(* Check/GoLiteKVExec.v — the reference execution layer's KVExecutor.ExecuteTxs (apps/testapp/kv/kvexecutor.go),
   translated from the Go source on every run:
     * "KVExecutor.ExecuteTxs":         the function; its walk over the block's transactions is the logged call
                                        $range1(txs, err), which answers (left the function?, err, the values returned);
     * "KVExecutor.ExecuteTxs$range1":  the BODY of `for _, tx := range txs`, a function of one transaction in the
                                        general form: every exit returns (left?, err, results).
   The datastore, its batch, computeStateRoot and the string helpers are scripted collaborators whose calls are logged.

   [go_KV_ExecuteTxs]: for ALL worlds the calls are: ONE batch opened; the walk over exactly the block's transactions;
   if the walk left the function (a transaction was refused or could not be staged) the error is returned and the batch
   is NEVER committed — nothing of the block reaches the state; otherwise ONE Commit and then ONE computeStateRoot,
   whose value is the root returned (with the fixed max-bytes 1024); every failure returns (nil, 0, error).
   [go_KV_one_tx]: a transaction is split ONCE at the first "="; without a "=" it is refused; key and value are
   trimmed; an empty key is refused; a key equal to one of the executor's three reserved keys is refused; otherwise
   exactly ONE Put of (key, value) into the block's batch — not into the datastore — and a failing Put leaves the
   function with that error.  Nothing but the transaction's own bytes decides: height, timestamp and previous root are
   parameters the body never reads.  ds.NewKey (key normalisation: leading slash, cleaned path) is a collaborator here;
   what it computes is Model/KVExec.clean_key, tied to the real go-datastore by C15's harness.
   Used by C15. *)
From Coq Require Import String List NArith ZArith Bool Lia.
From Verif Require Import Model.Types Model.Admission Model.GoLite Check.GoLiteTactics gen.GoLiteFuns.
Import ListNotations.
Open Scope string_scope.
Open Scope list_scope.

Definition only (names : list string) : list (string * gfun) :=
  filter (fun p => existsb (fun n => fst p =? n) names) gen_funs.
Definition is_receiver (e : gval) : bool := match e with VEff x _ => x =? "receiver" | _ => false end.
Definition er (ok : bool) : gval := VErr (negb ok).
Definition observe (r : list gval * list gval) : list gval * list gval :=
  (fst r, filter (fun e => negb (is_receiver e)) (rev (snd r))).
Definition ctx : gval := VUnit.
Definition kfail (cs : list gval) : list gval * list gval := ([VNil; VZ 0; VErr true], cs).

(* ---- the function --------------------------------------------------------------------------------------------- *)
Record xworld := { x_cancel : bool; x_batch_ok : bool; x_left : bool; x_commit_ok : bool; x_root_ok : bool }.
Definition txs_v : gval := VTok "the block's transactions" [].
Definition batch_v (w : xworld) : gval := VOrc "batch" [("Commit", [er (x_commit_ok w)])].
Definition root_v : gval := VTok "computed-root" [].
Definition kv_v (w : xworld) : gval :=
  VObj "KVExecutor" [("db", VOrc "db" [("Batch", [VTuple [batch_v w; er (x_batch_ok w)]])]);
                     ("$orc", VOrc "k" [("computeStateRoot", [VTuple [root_v; er (x_root_ok w)]])])].
Definition x_globals (w : xworld) : env :=
  [("$cancelled", VBool (x_cancel w));
   ("$pkg", VOrc "pkg" [("$range1", [VTuple [VBool (x_left w); VNil; VNil; VZ 0; VErr true]])])].
Definition run_exec (w : xworld) (h t r : gval) : option (list gval * list gval) :=
  match lookup (only ["KVExecutor.ExecuteTxs"]) "KVExecutor.ExecuteTxs" with
  | Some fn => interp (bind (exec 400 (only ["KVExecutor.ExecuteTxs"]) (x_globals w)
                                  (start_env fn (Some (kv_v w)) [ctx; txs_v; h; t; r]) [] (f_body fn))
                            (fun r => RRet (observe r)))
  | None => None
  end.
Definition exec_expect (w : xworld) : list gval * list gval :=
  if x_cancel w then kfail [] else
  let c1 := [VEff "db.Batch" [ctx]] in
  if negb (x_batch_ok w) then kfail c1 else
  let c2 := c1 ++ [VEff "pkg.$range1" [txs_v; VErr false]] in
  if x_left w then kfail c2 else
  let c3 := c2 ++ [VEff "batch.Commit" [ctx]] in
  if negb (x_commit_ok w) then kfail c3 else
  let c4 := c3 ++ [VEff "k.computeStateRoot" [ctx]] in
  if negb (x_root_ok w) then kfail c4 else ([root_v; VZ 1024; VNil], c4).

Ltac plazy := lazy -[N.eqb N.leb N.ltb N.add N.sub str_eqb].
Ltac split_on c :=
  match c with
  | context [str_eqb ?a ?b] => destruct (str_eqb a b) eqn:?
  | context [?b] => is_var b; match type of b with bool => destruct b end
  end.
Ltac hstep := match goal with
              | |- (if ?c then _ else _) = _ => split_on c
              | |- _ = Some (if ?c then _ else _) => split_on c
              end; cbv beta iota.

(* height, timestamp and previous root are arbitrary: the outcome does not mention them *)
Lemma go_KV_ExecuteTxs : forall w h t r, run_exec w h t r = Some (exec_expect w).
Proof.
  intros [cancel bok left cok rok] h t r. destruct cancel; destruct bok; destruct left; destruct cok; destruct rok.
  all: plazy; reflexivity.
Qed.

(* a block with a refused transaction commits nothing *)
Lemma refused_block_commits_nothing : forall w, x_left w = true ->
  filter (fun e => match e with VEff n _ => n =? "batch.Commit" | _ => false end) (snd (exec_expect w)) = [].
Proof.
  intros w H. unfold exec_expect. rewrite H. destruct (x_cancel w); [reflexivity|]. destruct (x_batch_ok w); reflexivity.
Qed.

(* ---- one transaction -------------------------------------------------------------------------------------------- *)
Record tworld := { t_two : bool; t_key : string; t_ck : string; t_val : string; t_put_ok : bool }.   (* t_key: the trimmed key text; t_ck: the datastore key ds.NewKey makes of it *)
Definition tx_v : gval := VTok "tx" [].
Definition raw_key : gval := VStr "text before the first =".
Definition raw_val : gval := VStr "text after it".
Definition k_init : string := "/genesis/initialized".
Definition k_root : string := "/genesis/stateroot".
Definition k_final : string := "/finalizedHeight".
Definition t_batch (w : tworld) : gval := VOrc "batch" [("Put", [er (t_put_ok w)])].
Definition t_globals (w : tworld) : env :=
  [("genesisInitializedKey", VStr k_init); ("genesisStateRootKey", VStr k_root); ("finalizedHeightKey", VStr k_final);
   ("$pkg", VOrc "pkg" [("strings.SplitN", [if t_two w then VList [raw_key; raw_val] else VList [VStr "the whole text"]]);
                        ("strings.TrimSpace", [VStr (t_key w); VStr (t_val w)]); ("ds.NewKey", [VStr (t_ck w)])])].
Definition run_tx (w : tworld) (h t r : gval) : option (list gval * list gval) :=
  match lookup (only ["KVExecutor.ExecuteTxs$range1"]) "KVExecutor.ExecuteTxs$range1" with
  | Some fn => interp (bind (exec 400 (only ["KVExecutor.ExecuteTxs$range1"]) (t_globals w)
                                  (start_env fn (Some (VObj "KVExecutor" [])) [ctx; txs_v; h; t; r; tx_v; t_batch w; VNil]) [] (f_body fn))
                            (fun r => RRet (observe r)))
  | None => None
  end.
Definition reserved (k : string) : bool := str_eqb k k_init || str_eqb k k_root || str_eqb k k_final.
Definition refuse (err : gval) (cs : list gval) : list gval * list gval := ([VBool true; err; VNil; VZ 0; VErr true], cs).
Definition tx_expect (w : tworld) : list gval * list gval :=
  let c1 := [VEff "pkg.strings.SplitN" [tx_v; VStr "="; VZ 2]] in
  if negb (t_two w) then refuse VNil c1 else
  let c2 := c1 ++ [VEff "pkg.strings.TrimSpace" [raw_key]; VEff "pkg.strings.TrimSpace" [raw_val]] in
  if str_eqb (t_key w) "" then refuse VNil c2 else
  let c2' := c2 ++ [VEff "pkg.ds.NewKey" [VStr (t_key w)]] in
  if reserved (t_ck w) then refuse VNil c2' else
  let c3 := c2' ++ [VEff "batch.Put" [ctx; VStr (t_ck w); VStr (t_val w)]] in
  if negb (t_put_ok w) then refuse (VErr true) c3
  else ([VBool false; VErr false; VNil; VNil; VNil], c3).

Lemma go_KV_one_tx : forall w h t r, run_tx w h t r = Some (tx_expect w).
Proof.
  intros [two k ck v pok] h t r. unfold tx_expect, reserved; cbn [t_two t_key t_ck t_val t_put_ok].
  destruct two; destruct pok.
  all: plazy.
  all: repeat hstep; reflexivity.
Qed.

(* what reaches the batch for one transaction: at most one (key, value) pair, and only for an accepted one *)
Definition staged (w : tworld) : list (string * string) :=
  flat_map (fun e => match e with VEff "batch.Put" [_; VStr k; VStr v] => [(k, v)] | _ => [] end) (snd (tx_expect w)).
Definition accepted (w : tworld) : bool :=
  t_two w && negb (str_eqb (t_key w) "") && negb (reserved (t_ck w)).
Lemma staged_iff_accepted : forall w, staged w = if accepted w then [(t_ck w, t_val w)] else [].
Proof.
  intros [two k ck v pok]. unfold staged, accepted, tx_expect; cbn [t_two t_key t_ck t_val t_put_ok].
  destruct two; [|reflexivity]. cbn [negb andb].
  destruct (str_eqb k ""); [reflexivity|]. destruct (reserved ck); [reflexivity|]. destruct pok; reflexivity.
Qed.
(* ... and the body leaves the function exactly for a transaction that is not accepted or cannot be staged *)
Definition left_fn (w : tworld) : bool := match fst (tx_expect w) with VBool b :: _ => b | _ => true end.
Lemma left_iff_refused : forall w, left_fn w = negb (accepted w && t_put_ok w).
Proof.
  intros [two k ck v pok]. unfold left_fn, accepted, tx_expect; cbn [t_two t_key t_ck t_val t_put_ok].
  destruct two; [|reflexivity]. cbn [negb andb].
  destruct (str_eqb k ""); [reflexivity|]. destruct (reserved ck); [reflexivity|]. destruct pok; reflexivity.
Qed.

Print Assumptions go_KV_ExecuteTxs.
Print Assumptions refused_block_commits_nothing.
Print Assumptions go_KV_one_tx.
Print Assumptions staged_iff_accepted.
Print Assumptions left_iff_refused.
