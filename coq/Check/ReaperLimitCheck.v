(* Check/ReaperLimitCheck.v — correspondence check for Model/ReaperLimit.v.  The harness (harness/c11) runs histories with
   MaxPendingHeadersAndData = lim on the real Manager: the items of Check/ReaperCheck.v plus "the DA layer has accepted
   headers / data up to height n" (the manager's own setLastSubmittedHeaderHeight / setLastSubmittedDataHeight, which is
   all the two submission loops do to the producer); observed per item as in ReaperCheck (a refused produce step:
   result 13 = nil returned, store height unchanged, GetNextBatch NOT called; no writes), at the end additionally the
   header watermark, numPendingHeaders and numWaitingData of the real manager.  A cases file holds both kinds of case. *)
From Coq Require Import NArith ZArith List Bool Arith.
From Verif Require Import Model.Reaper Model.ReaperLimit Check.ReaperCheck.
Import ListNotations.

Record lcase := mk_lcase {
  lc_lim : N; lc_max : N; lc_gt : Z;
  lc_hist : list litem;
  lc_obs : list (N * list wr);
  lc_fin : fin;
  lc_hsub : nat;          (* last submitted header height *)
  lc_hpend : nat;         (* numPendingHeaders *)
  lc_wait : nat           (* numWaitingData *)
}.

Fixpoint lrun_obs (lim max : N) (gt : Z) (l : lst) (h : list litem) : lst * list (N * list wr) :=
  match h with
  | [] => (l, [])
  | li :: r => let o := lobserve lim max gt l li in
               let '(lf, os) := lrun_obs lim max gt (lstep lim max gt l li) r in (lf, o :: os)
  end.

Lemma lrun_obs_spec lim max gt h : forall l, lrun_obs lim max gt l h = (lrun lim max gt l h, lobservations lim max gt l h).
Proof.
  induction h as [|li h IH]; intros l; [reflexivity|].
  cbn [lrun_obs lrun lobservations]. rewrite IH. reflexivity.
Qed.

(* 1..8 as Check/ReaperCheck.v; 9 = header watermark / pending headers; 10 = waiting data *)
Definition lcheck_case (c : lcase) : list N :=
  let '(l, os) := lrun_obs (lc_lim c) (lc_max c) (lc_gt c) lst0 (lc_hist c) in
  let s := base l in
  let f := lc_fin c in
  (if list_eqb obs_eqb os (lc_obs c) then [] else [1%N]) ++
  (if list_eqb2 blk_eqb (blocks s) (f_blocks f) && Nat.eqb (sh s) (f_sh f) && Nat.eqb (th s) (f_th f) then [] else [2%N]) ++
  (if batches_eqb (stale s ++ queue s) (f_queue f) then [] else [3%N]) ++
  (if set_eqb (seen s) (f_seen f) then [] else [4%N]) ++
  (if txs_eqb (mem s) (f_mem f) then [] else [5%N]) ++
  (if txs_eqb (taken s) (f_taken f) then [] else [6%N]) ++
  (if batches_eqb (released s) (f_released f) then [] else [7%N]) ++
  (if Bool.eqb (up s) (f_up f) then [] else [8%N]) ++
  (if Nat.eqb (hsub l) (lc_hsub c) && Nat.eqb (pending_headers l) (lc_hpend c) then [] else [9%N]) ++
  (if Nat.eqb (waiting_data l) (lc_wait c) then [] else [10%N]).

Inductive anycase := CB (c : rcase) | CL (c : lcase).

Fixpoint mismatches_any_from (i : N) (cs : list anycase) : list (N * list N) :=
  match cs with
  | [] => []
  | c :: r => match (match c with CB c => check_case c | CL c => lcheck_case c end) with
              | [] => mismatches_any_from (i + 1) r
              | l => (i, l) :: mismatches_any_from (i + 1) r
              end
  end.
Definition mismatches_any := mismatches_any_from 0.

Definition lin_guard (c : lcase) : bool := lsafe_hist (lc_lim c) (lc_max c) (lc_gt c) lst0 (lc_hist c).
