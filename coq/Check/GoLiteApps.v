(* Check/GoLiteApps.v — three entry points outside the block package, translated from the Go source on every run and
   evaluated against scripted collaborators whose calls are logged:

     go_KV_InitChain / go_KV_SetFinal   apps/testapp/kv/kvexecutor.go (C15): InitChain on an initialised store returns the
                        stored genesis root and writes NOTHING (initialising twice is harmless); on a fresh store it
                        computes the root once and persists root and marker through ONE batch committed once, last;
                        any failing step is an error.  SetFinal(0) is refused; SetFinal(h) makes exactly one Put, under
                        the finalized-height key — the only key it ever writes;
     go_config_Load     pkg/config/config.go Load (C18): for ALL commands the config FILE is pinned
                        (SetConfigFile(<home>/config/evnode.yaml)) before it is read, flags are bound before the file is
                        read (flag > file), a missing / unreadable file is ignored (defaults), and the result is what
                        loadFromViper makes of that viper and that home;
     go_based_GetNextBatch_start   sequencers/based/sequencer.go GetNextBatch up to its scan loop (C20): a request for
                        another chain is refused; the scan position is the larger of the configured start height and the
                        persisted one, and the height after the caller's last batch when that is larger; a request whose
                        LastBatchData cannot be used is refused BEFORE the carry-over queue is touched (fix 155339c);
                        the queue is popped once, with the effective size limit. *)
From Coq Require Import String List NArith ZArith Bool Lia.
From Verif Require Import Model.Types Model.Admission Model.GoLite Check.GoLiteTactics gen.GoLiteFuns.
Import ListNotations.
Open Scope string_scope.
Open Scope list_scope.

Definition er (ok : bool) : gval := VErr (negb ok).
Definition ctx : gval := VUnit.
Definition is_receiver (e : gval) : bool := match e with VEff x _ => x =? "receiver" | _ => false end.
Definition only (names : list string) : list (string * gfun) :=
  filter (fun p => existsb (fun n => fst p =? n) names) gen_funs.
Definition run_calls (fs : list (string * gfun)) (globals : env) (name : string) (recv : option gval) (args : list gval)
  : option (list gval * list gval) :=
  match lookup fs name with
  | Some fn => interp (bind (exec 400 fs globals (start_env fn recv args) [] (f_body fn))
                            (fun r => RRet (fst r, filter (fun e => negb (is_receiver e)) (rev (snd r)))))
  | None => None
  end.

Ltac plazy := lazy -[N.eqb N.leb N.ltb N.add N.sub str_eqb].
Ltac decide_or_case c :=
  let v := eval vm_compute in c in
  match v with
  | true => change c with true
  | false => change c with false
  | _ => destruct c eqn:?
  end.
Ltac split_on c :=
  match c with
  | context [str_eqb ?a ?b] => destruct (str_eqb a b) eqn:?
  | context [(?a =? ?b)%N] => decide_or_case (a =? b)%N
  | context [(?a <? ?b)%N] => decide_or_case (a <? b)%N
  | context [(?a <=? ?b)%N] => decide_or_case (a <=? b)%N
  | context [?b] => is_var b; match type of b with bool => destruct b end
  end.
Ltac hstep := match goal with
              | |- (if ?c then _ else _) = _ => split_on c
              | |- _ = Some (if ?c then _ else _) => split_on c
              end; cbv beta iota.

(* ---- C15: the reference executor ---- *)
Record kworld := { kv_cancel : bool; kv_has_ok : bool; kv_init : bool; kv_get_ok : bool; kv_root_ok : bool;
                   kv_batch_ok : bool; kv_p1 : bool; kv_p2 : bool; kv_commit : bool }.
Definition kv_batch (w : kworld) : gval :=
  VOrc "batch" [("Put", [er (kv_p1 w); er (kv_p2 w)]); ("Commit", [er (kv_commit w)])].
Definition kv_v (w : kworld) : gval :=
  VObj "KVExecutor" [("db", VOrc "db" [("Has", [VTuple [VBool (kv_init w); er (kv_has_ok w)]]);
                                       ("Get", [VTuple [VTok "stored-genesis-root" []; er (kv_get_ok w)]]);
                                       ("Batch", [VTuple [kv_batch w; er (kv_batch_ok w)]]);
                                       ("Put", [VNil])]);
                     ("$orc", VOrc "k" [("computeStateRoot", [VTuple [VTok "computed-root" []; er (kv_root_ok w)]])])].
Definition kv_globals (w : kworld) : env :=
  [("$cancelled", VBool (kv_cancel w)); ("genesisInitializedKey", VTok "key:genesis-initialized" []);
   ("genesisStateRootKey", VTok "key:genesis-root" []); ("finalizedHeightKey", VTok "key:finalized-height" [])].
Definition kfail (cs : list gval) : list gval * list gval := ([VNil; VZ 0; VErr true], cs).

Definition initchain_expect (w : kworld) : list gval * list gval :=
  if kv_cancel w then kfail [] else
  let c1 := [VEff "db.Has" [ctx; VTok "key:genesis-initialized" []]] in
  if negb (kv_has_ok w) then kfail c1 else
  if kv_init w then
    let c2 := c1 ++ [VEff "db.Get" [ctx; VTok "key:genesis-root" []]] in
    if negb (kv_get_ok w) then kfail c2 else ([VTok "stored-genesis-root" []; VZ 1024; VNil], c2)
  else
    let c2 := c1 ++ [VEff "k.computeStateRoot" [ctx]] in
    if negb (kv_root_ok w) then kfail c2 else
    let c3 := c2 ++ [VEff "db.Batch" [ctx]] in
    if negb (kv_batch_ok w) then kfail c3 else
    let c4 := c3 ++ [VEff "batch.Put" [ctx; VTok "key:genesis-root" []; VTok "computed-root" []]] in
    if negb (kv_p1 w) then kfail c4 else
    let c5 := c4 ++ [VEff "batch.Put" [ctx; VTok "key:genesis-initialized" []; VStr "true"]] in
    if negb (kv_p2 w) then kfail c5 else
    let c6 := c5 ++ [VEff "batch.Commit" [ctx]] in
    if negb (kv_commit w) then kfail c6 else ([VTok "computed-root" []; VZ 1024; VNil], c6).

Lemma go_KV_InitChain : forall w t h c,
  run_calls (only ["KVExecutor.InitChain"]) (kv_globals w) "KVExecutor.InitChain" (Some (kv_v w)) [ctx; t; h; c] = Some (initchain_expect w).
Proof. intros [cn hk ini gk rk bk p1 p2 cm] t h c. unfold initchain_expect. plazy. repeat hstep; reflexivity. Qed.

Lemma go_KV_SetFinal : forall w (h : N),
  kv_cancel w = false ->
  run_calls (only ["KVExecutor.SetFinal"]) (kv_globals w) "KVExecutor.SetFinal" (Some (kv_v w)) [ctx; VN h] =
  Some (if (h =? 0)%N then ([VErr true], [])
        else ([VNil], [VEff "db.Put" [ctx; VTok "key:finalized-height" []; VTok "decimal" [VN h]]])).
Proof. intros [cn hk ini gk rk bk p1 p2 cm] h Hc. cbn in Hc; subst. plazy. repeat hstep; reflexivity. Qed.

(* ---- C18: config.Load ---- *)
Record lworld := { lw_home : string; lw_exe_ok : bool; lw_bind_ok : bool; lw_read_ok : bool }.
Definition flags_v : gval := VOrc "flags" [("GetString", [VTuple [VStr "placeholder"; VNil]])].
Definition cmd_v (w : lworld) : gval :=
  VOrc "cmd" [("Flags", [VOrc "flags" [("GetString", [VTuple [VStr (lw_home w); VNil]])]]);
              ("PersistentFlags", [VTok "persistent-flags" []])].
Definition viper_v (w : lworld) : gval :=
  VOrc "v" [("SetConfigName", [VUnit]); ("SetConfigType", [VUnit]); ("AddConfigPath", [VUnit; VUnit]); ("SetConfigFile", [VUnit]);
            ("BindPFlags", [VNil; VNil]); ("AutomaticEnv", [VUnit]); ("ReadInConfig", [er (lw_read_ok w)])].
Definition load_globals (w : lworld) : env :=
  [("FlagRootDir", VStr "home"); ("DefaultRootDir", VStr "~/.evnode"); ("ConfigFileName", VStr "evnode"); ("ConfigExtension", VStr "yaml");
   ("AppConfigDir", VStr "config"); ("ConfigName", VStr "evnode.yaml");
   ("$pkg", VOrc "pkg" [("viper.New", [viper_v w]); ("os.Executable", [VTuple [VTok "exe" []; er (lw_exe_ok w)]]);
                        ("bindFlags", [er (lw_bind_ok w)]); ("loadFromViper", [VTuple [VTok "the-config" []; VNil]])])].
Definition join (l : list gval) : gval := VTok "filepath.Join" l.
Definition flags_of (w : lworld) : gval := VOrc "flags" [("GetString", [VTuple [VStr (lw_home w); VNil]])].

Definition load_expect (w : lworld) : list gval * list gval :=
  let home := if str_eqb (lw_home w) "" then "~/.evnode" else lw_home w in
  let c1 := [VEff "flags.GetString" [VStr "home"]; VEff "pkg.viper.New" [];
             VEff "v.SetConfigName" [VStr "evnode"]; VEff "v.SetConfigType" [VStr "yaml"];
             VEff "v.AddConfigPath" [join [VStr home; VStr "config"]];
             VEff "v.AddConfigPath" [join [VStr home; VStr "config"; VStr "evnode.yaml"]];
             VEff "v.SetConfigFile" [join [VStr home; VStr "config"; VStr "evnode.yaml"]];
             VEff "v.BindPFlags" [flags_of w]; VEff "v.BindPFlags" [VTok "persistent-flags" []];
             VEff "v.AutomaticEnv" []; VEff "pkg.os.Executable" []] in
  if negb (lw_exe_ok w) then ([VRec []; VErr true], c1) else
  let c2 := c1 ++ [VEff "pkg.bindFlags" [VTok "path.Base" [VTok "exe" []]; cmd_v w; viper_v w]] in
  if negb (lw_bind_ok w) then ([VRec []; VErr true], c2) else
  ([VTuple [VTok "the-config" []; VNil]],
   c2 ++ [VEff "v.ReadInConfig" []; VEff "pkg.loadFromViper" [viper_v w; VStr home]]).

Lemma go_config_Load : forall w,
  run_calls (only ["Load"]) (load_globals w) "Load" None [cmd_v w] = Some (load_expect w).
Proof.
  intros [home eok bok rok]. unfold load_expect; cbn [lw_home lw_exe_ok lw_bind_ok lw_read_ok].
  destruct (str_eqb home "") eqn:Hh; plazy; rewrite ?Hh; cbv beta iota; repeat hstep; reflexivity.
Qed.

(* the file is pinned before it is read, and the flags are bound before it is read *)
Definition index_of (name : string) (cs : list gval) : option nat :=
  (fix go (l : list gval) (i : nat) : option nat :=
     match l with
     | [] => None
     | VEff n _ :: r => if n =? name then Some i else go r (S i)
     | _ :: r => go r (S i)
     end) cs 0%nat.
Lemma config_file_pinned_before_read : forall w,
  lw_exe_ok w = true -> lw_bind_ok w = true ->
  match index_of "v.SetConfigFile" (snd (load_expect w)), index_of "v.BindPFlags" (snd (load_expect w)),
        index_of "v.ReadInConfig" (snd (load_expect w)) with
  | Some a, Some b, Some c => (a < c)%nat /\ (b < c)%nat
  | _, _, _ => False
  end.
Proof. intros w H1 H2. unfold load_expect. rewrite H1, H2. cbn. lia. Qed.

(* ---- C20: the based sequencer's GetNextBatch up to its scan loop ---- *)
Record bworld := { bw_valid : bool; bw_max : N; bw_start : N; bw_get_ok : bool; bw_scanned : N;
                   bw_last : bool; bw_last_ok : bool; bw_last_h : N }.
Definition based_v (w : bworld) : gval :=
  VObj "Sequencer" [("Id", VChainQ 1); ("daStartHeight", VN (bw_start w)); ("logger", VUnit);
                    ("store", VOrc "store" [("Get", [VTuple [VTok "decimal" [VN (bw_scanned w)]; er (bw_get_ok w)]])]);
                    ("pendingTxs", VOrc "pendingTxs" [("PopUpToMaxBytes", [VTuple [VTok "popped-txs" []; VTok "popped-ids" []; VTok "popped-size" []; VTok "popped-time" []]])]);
                    ("$orc", VOrc "s" [("lastDAHeight", [VTuple [VN (bw_last_h w); er (bw_last_ok w)]])])].
Definition req_v (w : bworld) : gval :=
  VRec [("Id", VChainQ (if bw_valid w then 1 else 2)); ("MaxBytes", VN (bw_max w));
        ("LastBatchData", if bw_last w then VList [VTok "id" []] else VList [])].
Definition based_globals : env :=
  [("ErrInvalidId", VErrTag "ErrInvalidId"); ("DefaultMaxBlobSize", VN 1500000); ("dsLastScannedHeightKey", VStr "last-scanned-height")].
Definition resp_v : gval :=
  VRec [("Batch", VRec [("Transactions", VTok "popped-txs" [])]); ("BatchData", VTok "popped-ids" []); ("Timestamp", VTok "popped-time" [])].

Definition based_expect (w : bworld) : list gval * list gval :=
  if negb (bw_valid w) then ([VNil; VErrTag "ErrInvalidId"], []) else
  let maxb := if (bw_max w =? 0)%N then 1500000%N else bw_max w in
  let c1 := [VEff "store.Get" [ctx; VStr "last-scanned-height"]] in
  let last0 := if bw_get_ok w then (if (bw_start w <? bw_scanned w)%N then bw_scanned w else bw_start w) else bw_start w in
  let raw := VTok "decimal" [VN (bw_scanned w)] in
  let k (cs : list gval) (last next : N) (err : gval) :=
    ([VTok "loop" []; VN maxb; VN last; raw; err; VN next; VTok "popped-txs" []; VTok "popped-ids" []; VTok "popped-size" [];
      VTok "popped-time" []; resp_v],
     cs ++ [VEff "pendingTxs.PopUpToMaxBytes" [VN maxb]]) in
  if bw_last w then
    let c2 := c1 ++ [VEff "s.lastDAHeight" [VList [VTok "id" []]]] in
    if negb (bw_last_ok w) then ([VNil; VErr true], c2)
    else if (last0 <? bw_last_h w)%N then k c2 (bw_last_h w) (bw_last_h w + 1)%N (er (bw_last_ok w))
         else k c2 last0 last0 (er (bw_last_ok w))
  else k c1 last0 last0 (er (bw_get_ok w)).

Lemma go_based_GetNextBatch_start : forall w,
  run_calls (only ["Sequencer.GetNextBatch$pre"; "Sequencer.isValid"]) (("$loop", VTok "loop" []) :: based_globals)
            "Sequencer.GetNextBatch$pre" (Some (based_v w)) [ctx; req_v w] = Some (based_expect w).
Proof.
  intros [valid mx st gok sc last lok lh]. unfold based_expect;
    cbn [bw_valid bw_max bw_start bw_get_ok bw_scanned bw_last bw_last_ok bw_last_h].
  destruct valid, last; plazy; repeat hstep; reflexivity.
Qed.

(* a request that cannot be used does not touch the carry-over queue *)
Lemma unusable_request_leaves_queue : forall w,
  bw_valid w = true -> bw_last w = true -> bw_last_ok w = false ->
  existsb (fun e => match e with VEff n _ => n =? "pendingTxs.PopUpToMaxBytes" | _ => false end) (snd (based_expect w)) = false.
Proof. intros w H1 H2 H3. unfold based_expect. rewrite H1, H2, H3. reflexivity. Qed.

Print Assumptions go_KV_InitChain.
Print Assumptions go_KV_SetFinal.
Print Assumptions go_config_Load.
Print Assumptions config_file_pinned_before_read.
Print Assumptions go_based_GetNextBatch_start.
Print Assumptions unusable_request_leaves_queue.
