(* Check/ProxyCheck.v — correspondence check for Model/Proxy.v.  The harness (harness/c16) writes one case
   per call pair: the scripted call, what types.SubmitWithHelpers / types.RetrieveWithHelpers reported for the
   double called directly and for the same double behind the real jsonrpc server + client, and what reached
   the double.  [mismatches T cases] lists the cases on which the model disagrees, T being the sentinel
   texts read from the linked core/da package in the same run. *)
From Coq Require Import String Ascii NArith List Bool.
From Verif Require Import Model.Proxy.
Import ListNotations.
Open Scope string_scope.
Open Scope list_scope.

Definition bs (l : list N) : string :=
  fold_right (fun n s => String (ascii_of_N n) s) EmptyString l.

(* scripted backend answers to a submit *)
Inductive sresp := SOk | SDummy (L : N) | SErr (e : err) | SNoIDs | SPartial (k : nat).

Definition script_height : N := 7.

Definition interp_s (T : table) (r : sresp) : backend :=
  match r with
  | SOk => fun l => SRes (iota (length l)) script_height
  | SPartial k => fun l => SRes (iota (Nat.min k (length l))) script_height
  | SNoIDs => fun _ => SRes [] script_height
  | SErr e => fun _ => SFail e
  | SDummy L => dummy_backend T L
  end.

(* Get fails on the batch whose first id is 100*b *)
Definition interp_get (ge : option (N * err)) : getfn :=
  fun ids => match ge, ids with
             | Some (b, e), x :: _ => if (x / 100 =? b)%N then BErr e else BOk ids
             | _, _ => BOk ids
             end.

Inductive call :=
  | CSubmit (sizes : list N) (max : N) (r : sresp) (cancelled : bool)
  | CRetrieve (height : N) (g : gresult) (ge : option (N * err)) (cancelled : bool).

Inductive obs :=
  | OSub (code : status) (ids : list N) (count : N) (height : N)
  | ORet (code : status) (ids : list N) (blobs : list N) (ts : N) (height : N).

Record ccase := {
  c_call : call;
  c_direct : obs; c_proxied : obs;
  c_dlog : list (list N); c_plog : list (list N);      (* submit calls that reached the double (blob sizes) *)
  c_dcalls : N * N; c_pcalls : N * N;                  (* GetIDs, Get calls that reached the double *)
  c_indomain : bool                                    (* the Go oracle's domain flag for a scripted submit error *)
}.

Definition status_eqb (a b : status) : bool :=
  match a, b with
  | StUnknown, StUnknown | StSuccess, StSuccess | StNotFound, StNotFound | StNotIncluded, StNotIncluded
  | StMempool, StMempool | StTooBig, StTooBig | StDeadline, StDeadline | StError, StError | StSeq, StSeq
  | StCanceled, StCanceled | StFuture, StFuture => true
  | _, _ => false
  end.

Fixpoint listN_eqb (a b : list N) : bool :=
  match a, b with
  | [], [] => true
  | x :: a', y :: b' => (x =? y)%N && listN_eqb a' b'
  | _, _ => false
  end.

Fixpoint log_eqb (a b : list (list N)) : bool :=
  match a, b with
  | [], [] => true
  | x :: a', y :: b' => listN_eqb x y && log_eqb a' b'
  | _, _ => false
  end.

Definition sobs_agrees (m : sobs) (o : obs) : bool :=
  match o with
  | OSub c ids n h => status_eqb (so_code m) c && listN_eqb (so_ids m) ids && (so_count m =? n)%N && (so_height m =? h)%N
  | _ => false
  end.

(* the retrieve helper copies the requested height into every result *)
Definition robs_agrees (height : N) (gets : N) (m : robs) (o : obs) : bool :=
  match o with
  | ORet c ids blobs ts h => status_eqb (ro_code m) c && listN_eqb (ro_ids m) ids && listN_eqb (ro_blobs m) blobs
                             && (ro_ts m =? ts)%N && (h =? height)%N && (ro_gets m =? gets)%N
  | _ => false
  end.

(* 1 = direct result, 2 = proxied result, 3 = direct backend log, 4 = proxied backend log, 5 = domain flag,
   6 = GetIDs call counts *)
Definition check_case (T : table) (c : ccase) : list N :=
  match c_call c with
  | CSubmit sizes max r cancelled =>
      let d := direct_submit T (interp_s T r) cancelled sizes in
      let p := proxied_submit T max (interp_s T r) cancelled sizes in
      (if sobs_agrees (fst d) (c_direct c) then [] else [1%N]) ++
      (if sobs_agrees (fst p) (c_proxied c) then [] else [2%N]) ++
      (if log_eqb (snd d) (c_dlog c) then [] else [3%N]) ++
      (if log_eqb (snd p) (c_plog c) then [] else [4%N]) ++
      (match r with SErr e => if Bool.eqb (wfb T e) (c_indomain c) then [] else [5%N] | _ => [] end)
  | CRetrieve height g ge cancelled =>
      let one := if cancelled then 0%N else 1%N in
      (if robs_agrees height (snd (c_dcalls c)) (direct_retrieve T g (interp_get ge) cancelled) (c_direct c) then [] else [1%N]) ++
      (if robs_agrees height (snd (c_pcalls c)) (proxied_retrieve T g (interp_get ge) cancelled) (c_proxied c) then [] else [2%N]) ++
      (if (fst (c_dcalls c) =? one)%N && (fst (c_pcalls c) =? one)%N then [] else [6%N])
  end.

Fixpoint mismatches_from (T : table) (i : N) (cs : list ccase) : list (N * list N) :=
  match cs with
  | [] => []
  | c :: r => match check_case T c with
              | [] => mismatches_from T (i + 1) r
              | l => (i, l) :: mismatches_from T (i + 1) r
              end
  end.

(* a table outside the theorems' hypothesis is itself a mismatch (index 999999) *)
Definition mismatches (T : table) (cs : list ccase) : list (N * list N) :=
  (if table_ok T then [] else [(999999%N, [9%N])]) ++ mismatches_from T 0 cs.
