(* Check/ProxyCheck.v — correspondence check for Model/Proxy.v.  The harness (harness/c16) writes one case
   per call pair: the scripted call, what types.SubmitWithHelpers / types.RetrieveWithHelpers reported for the
   double called directly and for the same double behind the real jsonrpc server + client, and what reached
   the double.  [mismatches T cases] lists the cases on which the model disagrees, T being the sentinel
   texts read from the linked core/da package in the same run. *)
From Coq Require Import String Ascii NArith List Bool.
From Verif Require Import Model.Proxy Model.ProxyMem.
Import ListNotations.
Open Scope string_scope.
Open Scope list_scope.

Definition bs (l : list N) : string :=
  fold_right (fun n s => String (ascii_of_N n) s) EmptyString l.

(* ---- compact notation for long texts (a cases file costs ~40 us per character of string literal) ----------
   [rope [Lit "abc"; Fil 3 4000; Lit ": tx already in mempool"]] = "abc" ++ 4000 characters of the cycle
   0123456789abcdef starting at digit 3 ++ ": tx already in mempool".  The harness encodes every text (sent and
   observed alike) with one encoder, from the bytes of the Go string, and checks decode (encode s) = s in Go. *)
Inductive seg := Lit (s : string) | Fil (off n : N).

Definition hexd (i : N) : ascii :=
  match (i mod 16)%N with
  | 0 => "0" | 1 => "1" | 2 => "2" | 3 => "3" | 4 => "4" | 5 => "5" | 6 => "6" | 7 => "7"
  | 8 => "8" | 9 => "9" | 10 => "a" | 11 => "b" | 12 => "c" | 13 => "d" | 14 => "e" | _ => "f"
  end%N%char.

Fixpoint fill (k : nat) (i : N) : string :=
  match k with O => EmptyString | S k' => String (hexd i) (fill k' (i + 1)%N) end.

Fixpoint rope (l : list seg) : string :=
  match l with
  | [] => EmptyString
  | Lit s :: r => (s ++ rope r)%string
  | Fil o n :: r => (fill (N.to_nat n) o ++ rope r)%string
  end.

(* scripted backend answers to a submit *)
Inductive sresp := SOk | SDummy (L : N) | SErr (e : err) | SNoIDs | SPartial (k : nat).

Definition script_height : N := 7.

Definition interp_s (T : table) (r : sresp) : backend :=
  match r with
  | SOk => fun l => SRes (iota (length l)) script_height
  | SPartial k => fun l => SRes (iota (Nat.min k (length l))) script_height
  | SNoIDs => fun _ => SRes [] script_height
  | SErr e => fun _ => SFail e
  | SDummy L => dummy_backend T L
  end.

(* Get fails on the batch whose first id is 100*b *)
Definition interp_get (ge : option (N * err)) : getfn :=
  fun ids => match ge, ids with
             | Some (b, e), x :: _ => if (x / 100 =? b)%N then BErr e else BOk ids
             | _, _ => BOk ids
             end.

(* CSeq: a sequence of submissions that re-use the caller's slice (block/submitter.go submitToDA): before each
   attempt the caller drops [skip] leading blobs of the slice it used last (0 = the very same slice), the
   backing DA answers as [r] says *)
Inductive call :=
  | CSubmit (sizes : list N) (max : N) (r : sresp) (cancelled : bool)
  | CRetrieve (height : N) (g : gresult) (ge : option (N * err)) (cancelled : bool)
  | CSeq (sizes : list N) (max : N) (attempts : list (nat * sresp * bool)).

(* one attempt of a sequence as observed: the helper's result; the blobs that reached the double, each by the
   position (in the caller's original batch) of the blob it is byte-for-byte equal to; the caller's whole
   array after the call, slot by slot, likewise *)
Record sstep := mk_sstep { ss_code : status; ss_ids : list N; ss_count : N; ss_height : N;
                           ss_log : list (list N); ss_mem : list N }.

Inductive obs :=
  | OSub (code : status) (ids : list N) (count : N) (height : N)
  | ORet (code : status) (ids : list N) (blobs : list N) (ts : N) (height : N)
  | OSeq (steps : list sstep).

Record ccase := {
  c_call : call;
  c_direct : obs; c_proxied : obs;
  c_dlog : list (list N); c_plog : list (list N);      (* submit calls that reached the double (blob sizes) *)
  c_dcalls : N * N; c_pcalls : N * N;                  (* GetIDs, Get calls that reached the double *)
  c_indomain : bool;                                   (* the Go oracle's domain flag for a scripted submit error *)
  c_dtext : option string; c_ptext : option string;    (* err.Error() of the error the node's helper was handed by the
                                                          DA it called (directly / through the client), None = no error *)
  c_dmem : list N; c_pmem : list N                     (* CSubmit: the caller's array after the call: slot j holds (byte for
                                                          byte) the blob that was created at position ... *)
}.

Definition status_eqb (a b : status) : bool :=
  match a, b with
  | StUnknown, StUnknown | StSuccess, StSuccess | StNotFound, StNotFound | StNotIncluded, StNotIncluded
  | StMempool, StMempool | StTooBig, StTooBig | StDeadline, StDeadline | StError, StError | StSeq, StSeq
  | StCanceled, StCanceled | StFuture, StFuture => true
  | _, _ => false
  end.

Fixpoint listN_eqb (a b : list N) : bool :=
  match a, b with
  | [], [] => true
  | x :: a', y :: b' => (x =? y)%N && listN_eqb a' b'
  | _, _ => false
  end.

Fixpoint log_eqb (a b : list (list N)) : bool :=
  match a, b with
  | [], [] => true
  | x :: a', y :: b' => listN_eqb x y && log_eqb a' b'
  | _, _ => false
  end.

Definition sobs_agrees (m : sobs) (o : obs) : bool :=
  match o with
  | OSub c ids n h => status_eqb (so_code m) c && listN_eqb (so_ids m) ids && (so_count m =? n)%N && (so_height m =? h)%N
  | _ => false
  end.

(* the retrieve helper copies the requested height into every result *)
Definition robs_agrees (height : N) (gets : N) (m : robs) (o : obs) : bool :=
  match o with
  | ORet c ids blobs ts h => status_eqb (ro_code m) c && listN_eqb (ro_ids m) ids && listN_eqb (ro_blobs m) blobs
                             && (ro_ts m =? ts)%N && (h =? height)%N && (ro_gets m =? gets)%N
  | _ => false
  end.

Definition otext_eqb (a b : option string) : bool :=
  match a, b with
  | None, None => true
  | Some x, Some y => String.eqb x y
  | _, _ => false
  end.

(* ---- sequences ---------------------------------------------------------------------------------------------------- *)
Definition interp_attempts (T : table) (l : list (nat * sresp * bool)) : list attempt :=
  map (fun x => mk_attempt (fst (fst x)) (interp_s T (snd (fst x))) (snd x)) l.

Definition step_agrees (m : step_out) (o : sstep) : bool :=
  let so := fst (fst m) in
  status_eqb (so_code so) (ss_code o) && listN_eqb (so_ids so) (ss_ids o) && (so_count so =? ss_count o)%N
  && (so_height so =? ss_height o)%N
  && log_eqb (map (map bid) (snd (fst m))) (ss_log o)
  && listN_eqb (map bid (snd m)) (ss_mem o).

Fixpoint steps_agree (ms : list step_out) (os : list sstep) : bool :=
  match ms, os with
  | [], [] => true
  | m :: ms', o :: os' => step_agrees m o && steps_agree ms' os'
  | _, _ => false
  end.

Definition seq_agrees (ms : list step_out) (o : obs) : bool :=
  match o with OSeq steps => steps_agree ms steps | _ => false end.

(* 1 = direct result, 2 = proxied result, 3 = direct backend log, 4 = proxied backend log, 5 = domain flag,
   6 = GetIDs call counts, 7 = text of the error handed to the helper in-process, 8 = ... behind the proxy,
   10 = the caller's array after the in-process call, 11 = ... after the call through the client (both from the
   memory model, Model/ProxyMem.v), 12 = a sequence on one slice, in-process, 13 = ... through the client (results,
   blobs that reached the double, the caller's array after every attempt) *)
Definition check_case (T : table) (c : ccase) : list N :=
  match c_call c with
  | CSubmit sizes max r cancelled =>
      let d := direct_submit T (interp_s T r) cancelled sizes in
      let p := proxied_submit T max (interp_s T r) cancelled sizes in
      (if sobs_agrees (fst d) (c_direct c) then [] else [1%N]) ++
      (if sobs_agrees (fst p) (c_proxied c) then [] else [2%N]) ++
      (if log_eqb (snd d) (c_dlog c) then [] else [3%N]) ++
      (if log_eqb (snd p) (c_plog c) then [] else [4%N]) ++
      (match r with SErr e => if Bool.eqb (wfb T e) (c_indomain c) then [] else [5%N] | _ => [] end) ++
      (if otext_eqb (answer_text (direct_answer T (interp_s T r) cancelled sizes)) (c_dtext c) then [] else [7%N]) ++
      (if otext_eqb (answer_text (proxied_answer T max (interp_s T r) cancelled sizes)) (c_ptext c) then [] else [8%N]) ++
      (if listN_eqb (map bid (arr (snd (direct_submit_mem T (interp_s T r) cancelled (caller_heap sizes) (caller_slice sizes))) 0)) (c_dmem c)
       then [] else [10%N]) ++
      (if listN_eqb (map bid (arr (snd (proxied_submit_mem T max (interp_s T r) cancelled (caller_heap sizes) (caller_slice sizes))) 0)) (c_pmem c)
       then [] else [11%N])
  | CSeq sizes max attempts =>
      let l := interp_attempts T attempts in
      (if seq_agrees (direct_attempts T (caller_heap sizes) (caller_slice sizes) l) (c_direct c) then [] else [12%N]) ++
      (if seq_agrees (proxied_attempts T max (caller_heap sizes) (caller_slice sizes) l) (c_proxied c) then [] else [13%N])
  | CRetrieve height g ge cancelled =>
      let one := if cancelled then 0%N else 1%N in
      (if robs_agrees height (snd (c_dcalls c)) (direct_retrieve T g (interp_get ge) cancelled) (c_direct c) then [] else [1%N]) ++
      (if robs_agrees height (snd (c_pcalls c)) (proxied_retrieve T g (interp_get ge) cancelled) (c_proxied c) then [] else [2%N]) ++
      (if (fst (c_dcalls c) =? one)%N && (fst (c_pcalls c) =? one)%N then [] else [6%N]) ++
      (if otext_eqb (direct_retrieve_text T g (interp_get ge) cancelled) (c_dtext c) then [] else [7%N]) ++
      (if otext_eqb (proxied_retrieve_text T g (interp_get ge) cancelled) (c_ptext c) then [] else [8%N])
  end.

Fixpoint mismatches_from (T : table) (i : N) (cs : list ccase) : list (N * list N) :=
  match cs with
  | [] => []
  | c :: r => match check_case T c with
              | [] => mismatches_from T (i + 1) r
              | l => (i, l) :: mismatches_from T (i + 1) r
              end
  end.

(* a table outside the theorems' hypothesis is itself a mismatch (index 999999) *)
Definition mismatches (T : table) (cs : list ccase) : list (N * list N) :=
  (if table_ok T then [] else [(999999%N, [9%N])]) ++ mismatches_from T 0 cs.
