(* Check/ReaperCheck.v — correspondence check for Model/Reaper.v: the harness (harness/c11) writes the histories it
   ran against the real Reaper + single Sequencer + Manager on one recording datastore, with what it observed per
   item (result class, the atomic writes that reached the datastore, projected) and at the end (block records,
   state height, store height, queue records in key order, seen-set, mempool, everything GetTxs returned,
   every batch the sequencer handed out); [mismatches] lists the cases on which the model disagrees.
   A write-fault item is observed as: result class, the writes that reached the datastore and — at its place among
   them — the attempt that was made to fail (WFail). *)
From Coq Require Import NArith ZArith List Bool Arith.
From Verif Require Import Model.Reaper.
Import ListNotations.

Fixpoint list_eqb {A} (e : A -> A -> bool) (a b : list A) : bool :=
  match a, b with
  | [], [] => true
  | x :: a', y :: b' => e x y && list_eqb e a' b'
  | _, _ => false
  end.

Definition txs_eqb := list_eqb N.eqb.
Definition batches_eqb := list_eqb txs_eqb.

Fixpoint wr_eqb (a b : wr) : bool :=
  match a, b with
  | WQPut x, WQPut y | WQDel x, WQDel y => txs_eqb x y
  | WMeta, WMeta => true
  | WBlock n x t s, WBlock n' x' t' s' => Nat.eqb n n' && txs_eqb x x' && Z.eqb t t' && Bool.eqb s s'
  | WState n, WState n' | WHeight n, WHeight n' => Nat.eqb n n'
  | WSeen x, WSeen y => N.eqb x y
  | WFail x, WFail y => wr_eqb x y       (* the write attempt that was made to fail, at its place among the writes *)
  | _, _ => false
  end.

Definition obs_eqb (a b : N * list wr) : bool := N.eqb (fst a) (fst b) && list_eqb wr_eqb (snd a) (snd b).

Record fin := mk_fin {
  f_blocks : list (list tx * Z * bool);
  f_sh : nat; f_th : nat;
  f_queue : list batch;      (* the records under /batches, in key order *)
  f_seen : list tx;          (* sorted, without repeats *)
  f_mem : list tx;
  f_taken : list tx;
  f_released : list batch;
  f_up : bool
}.

Record rcase := mk_case {
  c_max : N; c_gt : Z;
  c_hist : list item;
  c_obs : list (N * list wr);
  c_fin : fin
}.

Definition blk_eqb (b : blk) (p : list tx * Z * bool) : bool :=
  let '(x, t, s) := p in txs_eqb (b_txs b) x && Z.eqb (b_time b) t && Bool.eqb (b_signed b) s.

Fixpoint list_eqb2 {A B} (e : A -> B -> bool) (a : list A) (b : list B) : bool :=
  match a, b with
  | [], [] => true
  | x :: a', y :: b' => e x y && list_eqb2 e a' b'
  | _, _ => false
  end.

Definition set_eqb (a b : list tx) : bool := forallb (fun t => memb t b) a && forallb (fun t => memb t a) b.

(* 1 = per-item observations differ; 2 = block records / heights; 3 = queue; 4 = seen-set; 5 = mempool;
   6 = taken; 7 = released; 8 = running flag *)
Definition check_case (c : rcase) : list N :=
  let s := final (c_max c) (c_gt c) (c_hist c) in
  let f := c_fin c in
  (if list_eqb obs_eqb (observations (c_max c) (c_gt c) st0 (c_hist c)) (c_obs c) then [] else [1%N]) ++
  (if list_eqb2 blk_eqb (blocks s) (f_blocks f) && Nat.eqb (sh s) (f_sh f) && Nat.eqb (th s) (f_th f) then [] else [2%N]) ++
  (if batches_eqb (stale s ++ queue s) (f_queue f) then [] else [3%N]) ++
  (if set_eqb (seen s) (f_seen f) then [] else [4%N]) ++
  (if txs_eqb (mem s) (f_mem f) then [] else [5%N]) ++
  (if txs_eqb (taken s) (f_taken f) then [] else [6%N]) ++
  (if batches_eqb (released s) (f_released f) then [] else [7%N]) ++
  (if Bool.eqb (up s) (f_up f) then [] else [8%N]).

Fixpoint mismatches_from (i : N) (cs : list rcase) : list (N * list N) :=
  match cs with
  | [] => []
  | c :: r => match check_case c with
              | [] => mismatches_from (i + 1) r
              | l => (i, l) :: mismatches_from (i + 1) r
              end
  end.
Definition mismatches := mismatches_from 0.

(* which cases lie inside the guard of C11_no_loss_partial *)
Definition in_guard (c : rcase) : bool := safe_hist (c_max c) (c_gt c) st0 (c_hist c).
Definition count_in_guard (cs : list rcase) : N := N.of_nat (List.length (filter in_guard cs)).
