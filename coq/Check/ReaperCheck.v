(* Check/ReaperCheck.v — correspondence check for Model/Reaper.v: the harness (harness/c11) writes the histories it
   ran against the real Reaper + single Sequencer + Manager on one recording datastore, with what it observed per
   item (result class, the atomic writes that reached the datastore, projected) and at the end (block records,
   state height, store height, queue records in key order, seen-set, mempool, everything GetTxs returned,
   every batch the sequencer handed out); [mismatches] lists the cases on which the model disagrees.
   A write-fault item is observed as: result class, the writes that reached the datastore and — at its place among
   them — the attempt that was made to fail (WFail).  A produce step whose ExecuteTxs call fails (IExecFail) is observed
   as result 12 and the writes up to the call; a produce step with a reap in its middle (IMid) as the result of the
   step and the writes of both in the order in which they reached the datastore. *)
From Coq Require Import NArith ZArith List Bool Arith.
From Verif Require Import Model.Reaper.
Import ListNotations.

(* compact notation for the cases file: runs of consecutive transaction ids (the count-boundary stream hands off
   thousands of transactions at once) *)
Definition rng (a n : N) : list N := map (fun i => (a + N.of_nat i)%N) (seq 0 (N.to_nat n)).
Definition arrivals (a n : N) : list item := map IArrive (rng a n).
Definition arr_obs (n : N) : list (N * list wr) := repeat (0%N, []) (N.to_nat n).
Definition seens (a n : N) : list wr := map WSeen (rng a n).

Fixpoint list_eqb {A} (e : A -> A -> bool) (a b : list A) : bool :=
  match a, b with
  | [], [] => true
  | x :: a', y :: b' => e x y && list_eqb e a' b'
  | _, _ => false
  end.

Definition txs_eqb := list_eqb N.eqb.
Definition batches_eqb := list_eqb txs_eqb.

Fixpoint wr_eqb (a b : wr) : bool :=
  match a, b with
  | WQPut x, WQPut y | WQDel x, WQDel y => txs_eqb x y
  | WMeta, WMeta => true
  | WBlock n x t s, WBlock n' x' t' s' => Nat.eqb n n' && txs_eqb x x' && Z.eqb t t' && Bool.eqb s s'
  | WState n, WState n' | WHeight n, WHeight n' => Nat.eqb n n'
  | WSeen x, WSeen y => N.eqb x y
  | WFail x, WFail y => wr_eqb x y       (* the write attempt that was made to fail, at its place among the writes *)
  | _, _ => false
  end.

Definition obs_eqb (a b : N * list wr) : bool := N.eqb (fst a) (fst b) && list_eqb wr_eqb (snd a) (snd b).

Record fin := mk_fin {
  f_blocks : list (list tx * Z * bool);
  f_sh : nat; f_th : nat;
  f_queue : list batch;      (* the records under /batches, in key order *)
  f_seen : list tx;          (* sorted, without repeats *)
  f_mem : list tx;
  f_taken : list tx;
  f_released : list batch;
  f_up : bool
}.

Record rcase := mk_case {
  c_max : N; c_gt : Z;
  c_hist : list item;
  c_obs : list (N * list wr);
  c_fin : fin
}.

Definition blk_eqb (b : blk) (p : list tx * Z * bool) : bool :=
  let '(x, t, s) := p in txs_eqb (b_txs b) x && Z.eqb (b_time b) t && Bool.eqb (b_signed b) s.

Fixpoint list_eqb2 {A B} (e : A -> B -> bool) (a : list A) (b : list B) : bool :=
  match a, b with
  | [], [] => true
  | x :: a', y :: b' => e x y && list_eqb2 e a' b'
  | _, _ => false
  end.

Definition set_eqb (a b : list tx) : bool := forallb (fun t => memb t b) a && forallb (fun t => memb t a) b.

(* 1 = per-item observations differ; 2 = block records / heights; 3 = queue; 4 = seen-set; 5 = mempool;
   6 = taken; 7 = released; 8 = running flag *)
(* one pass over the history: the state after an item and what is observed of it, the acts of the item computed once
   ([run_obs_spec]: this IS (run, observations); hand-offs of thousands of transactions make the difference) *)
Definition step_obs (max : N) (gt : Z) (s : st) (it : item) : st * (N * list wr) :=
  match it with
  | IRun a =>
      let '(l, c) := acts_of max gt s a in
      let s' := apply_acts (pre s a) l in
      (match a with ABoot => set_up true s' | _ => s' end, (c, writes_of l))
  | ICrash a k e =>
      let '(l, c) := acts_of max gt s a in
      let l' := cut k e l in
      (set_up false (apply_acts (pre s a) l'), ((if (c =? 6)%N then 6%N else 7%N), writes_of l'))
  | IExecFail ts =>
      let '(l, c) := execfail_acts_of s ts in (apply_acts s l, (c, writes_of l))
  | _ => (step max gt s it, observe max gt s it)
  end.

Lemma step_obs_spec max gt s it : step_obs max gt s it = (step max gt s it, observe max gt s it).
Proof.
  destruct it as [t | a | a k e | a k | ts | ts p]; try reflexivity.
  - cbn [step_obs step observe item_acts]. destruct (acts_of max gt s a) as [l c]. reflexivity.
  - cbn [step_obs step observe item_acts]. destruct (acts_of max gt s a) as [l c]. reflexivity.
  - cbn [step_obs step observe item_acts]. destruct (execfail_acts_of s ts) as [l c]. reflexivity.
Qed.

Fixpoint run_obs (max : N) (gt : Z) (s : st) (h : list item) : st * list (N * list wr) :=
  match h with
  | [] => (s, [])
  | it :: r => let '(s', o) := step_obs max gt s it in
               let '(sf, os) := run_obs max gt s' r in (sf, o :: os)
  end.

Lemma run_obs_spec max gt h : forall s, run_obs max gt s h = (run max gt s h, observations max gt s h).
Proof.
  induction h as [|it h IH]; intros s; [reflexivity|].
  cbn [run_obs run observations]. rewrite step_obs_spec, IH. reflexivity.
Qed.

Definition check_case (c : rcase) : list N :=
  let '(s, os) := run_obs (c_max c) (c_gt c) st0 (c_hist c) in
  let f := c_fin c in
  (if list_eqb obs_eqb os (c_obs c) then [] else [1%N]) ++
  (if list_eqb2 blk_eqb (blocks s) (f_blocks f) && Nat.eqb (sh s) (f_sh f) && Nat.eqb (th s) (f_th f) then [] else [2%N]) ++
  (if batches_eqb (stale s ++ queue s) (f_queue f) then [] else [3%N]) ++
  (if set_eqb (seen s) (f_seen f) then [] else [4%N]) ++
  (if txs_eqb (mem s) (f_mem f) then [] else [5%N]) ++
  (if txs_eqb (taken s) (f_taken f) then [] else [6%N]) ++
  (if batches_eqb (released s) (f_released f) then [] else [7%N]) ++
  (if Bool.eqb (up s) (f_up f) then [] else [8%N]).

Fixpoint mismatches_from (i : N) (cs : list rcase) : list (N * list N) :=
  match cs with
  | [] => []
  | c :: r => match check_case c with
              | [] => mismatches_from (i + 1) r
              | l => (i, l) :: mismatches_from (i + 1) r
              end
  end.
Definition mismatches := mismatches_from 0.

(* which cases lie inside the guard of C11_no_loss_partial *)
Definition in_guard (c : rcase) : bool := safe_hist (c_max c) (c_gt c) st0 (c_hist c).
Definition count_in_guard (cs : list rcase) : N := N.of_nat (List.length (filter in_guard cs)).
