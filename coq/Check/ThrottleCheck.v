(* Check/ThrottleCheck.v — correspondence check for Model/Throttle.v.  harness/c08 writes, per history it ran
   against the real block.Manager: the configuration (initial height, limit), the model history, and per item
   what the code did (produced/refused or the iteration's result class, blob heights of every DA call, store
   height, both in-memory and both recorded watermarks after the item); at the end the emptiness of every
   committed block and the heights the DA double accepted, in order.  [mismatches] lists the cases on which
   the model disagrees.
   Histories are lists of ThrottleConc.xitem: the atomic items of Model/Throttle.v (XI i) and production attempts
   with submission iterations inside (XProduceI q ne); for the latter the harness also reports, per interleaved
   iteration in execution order, its result class and the blob heights of its DA calls.
   The model that is run is the NODE of Model/ThrottleLoop.v (ThrottleLoop.nrun: the history served by the two
   long-lived loop goroutines of the process; = ThrottleConc.xrun by ThrottleLoopProofs.c08l_refines).  Cases in
   which the harness let the SAME two goroutines (HeaderSubmissionLoop / DataSubmissionLoop started once per
   process, as node/full.go does) serve every tick also report, per item, whether each of the two loop functions
   is still running after it (tc_live); a tick nobody served has result class 5. *)
From Coq Require Import NArith List Bool.
From Verif Require Import Model.Throttle Model.ThrottleConc Model.ThrottleLoop.
Import ListNotations.
Open Scope N_scope.

Fixpoint list_eqb {A} (e : A -> A -> bool) (a b : list A) : bool :=
  match a, b with
  | [], [] => true
  | x :: a', y :: b' => e x y && list_eqb e a' b'
  | _, _ => false
  end.

Definition obs_eqb (a b : obs) : bool :=
  (o_res a =? o_res b) && list_eqb (list_eqb N.eqb) (o_calls a) (o_calls b) &&
  (o_height a =? o_height b) && (o_wh a =? o_wh b) && (o_wd a =? o_wd b) &&
  (o_ph a =? o_ph b) && (o_pd a =? o_pd b).

Definition subobs_eqb (a b : subobs) : bool :=
  (fst a =? fst b) && list_eqb (list_eqb N.eqb) (snd a) (snd b).
Definition xobs_eqb (a b : xobs) : bool := obs_eqb (fst a) (fst b) && list_eqb subobs_eqb (snd a) (snd b).
(* observation of an atomic item *)
Definition xo (o : obs) : xobs := (o, []).

Record tcase := {
  tc_init : N; tc_limit : N;
  tc_hist : list xitem;
  tc_outs : list xobs;         (* observed on the real code, per item *)
  tc_chain : list bool;        (* observed: has transactions, from the initial height on *)
  tc_hacc : list N;            (* header heights the DA double accepted, in order *)
  tc_dacc : list N;            (* data heights the DA double accepted, in order *)
  tc_live : list (bool * bool) (* long-lived loops only ([] = not observed): per item, (HeaderSubmissionLoop,
                                  DataSubmissionLoop) of the running process has not returned, after the item *)
}.

Definition live_eqb (a b : bool * bool) : bool := Bool.eqb (fst a) (fst b) && Bool.eqb (snd a) (snd b).

(* index (from 1) of the first differing item, 0 = none *)
Fixpoint first_diff (i : N) (a b : list xobs) : N :=
  match a, b with
  | [], [] => 0
  | x :: a', y :: b' => if xobs_eqb x y then first_diff (i + 1) a' b' else i
  | _, _ => i
  end.

(* 1000+i = item i (from 1) differs; 2 = block emptiness; 3 = accepted headers; 4 = accepted data;
   5 = a loop goroutine's being there differs *)
Definition check_case (c : tcase) : list N :=
  let cf := mk_cfg (tc_init c) (tc_limit c) in
  let '(n, nouts) := nrun cf (tc_hist c) in
  let s := n_s n in
  let outs := map fst nouts in
  (match first_diff 1 outs (tc_outs c) with 0 => [] | i => [1000 + i] end) ++
  (if list_eqb Bool.eqb (map (nonempty s) (committed cf s)) (tc_chain c) then [] else [2]) ++
  (if list_eqb N.eqb (t_dah s) (tc_hacc c) then [] else [3]) ++
  (if list_eqb N.eqb (t_dad s) (tc_dacc c) then [] else [4]) ++
  (match tc_live c with [] => [] | l => if list_eqb live_eqb (map snd nouts) l then [] else [5] end).

Fixpoint mismatches_from (i : N) (cs : list tcase) : list (N * list N) :=
  match cs with
  | [] => []
  | c :: r => match check_case c with
              | [] => mismatches_from (i + 1) r
              | l => (i, l) :: mismatches_from (i + 1) r
              end
  end.
Definition mismatches := mismatches_from 0.
