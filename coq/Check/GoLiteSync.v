(* Check/GoLiteSync.v — the ORCHESTRATION of block application on a full node, Manager.trySyncNextBlock (block/sync.go),
   translated from the Go source on every run (coq/gen/GoLiteFuns.v).  The function is an endless loop; the translator
   emits ONE ITERATION (the loop body, `return $continue` at its end), evaluated against scripted collaborators whose
   calls are logged in order with their arguments (store, the two caches, Validate, applyBlock; Manager.updateState is
   translated and runs inside it).

   [go_trySyncNextBlock] states for ALL worlds (store height, which of header / data of the next height are cached,
   which calls fail, empty or non-empty data hash, DA heights, cancelled context): the value returned (an error, nil =
   nothing to do, or "continue" = next iteration), the complete sequence of calls with their arguments and
   Manager.lastState afterwards are exactly [sync_expect].  In particular
     * only the block of height store-height + 1 is looked for, in the header cache first;
     * Validate comes before applyBlock (the executor is not called for a block that does not validate);
     * the durable writes are SaveBlockData, then UpdateState, then SetHeight (fix f41125c: the block before the
       state), each only after the previous one succeeded, and nothing is written on a failed validation/execution;
     * the cached items are deleted and the seen marks set only after the three writes succeeded.
   Proofs/GoLiteSyncRefine.v ties [sync_expect] to Syncer.try_sync.   Used by C02 and C05. *)
From Coq Require Import String List NArith ZArith Bool Lia.
From Verif Require Import Model.Types Model.Admission Model.GoLite Check.GoLiteTactics gen.GoLiteFuns.
Import ListNotations.
Open Scope string_scope.
Open Scope list_scope.

Record sworld := {
  s_cancel : bool;
  s_H : N; s_hok : bool;                       (* store.Height *)
  s_hdr : bool; s_hh : N; s_dh : N;             (* headerCache.GetItem(H+1) finds a header; its Height(); its DataHash (0 = the hash of the empty tx list) *)
  s_dat : bool;                                 (* dataCache.GetItem(H+1) finds data *)
  s_validok : bool; s_applyok : bool; s_saveok : bool; s_stateok : bool; s_heightok : bool;
  s_da : N; s_sda : N }.                        (* the daHeight argument; the DAHeight of the state applyBlock returns *)

Definition er (ok : bool) : gval := VErr (negb ok).
Definition hdr_v (w : sworld) : gval :=
  VRec [("Height()", VN (s_hh w)); ("Hash()", VTok "header-hash" []); ("Header", VTok "header" []);
        ("Signature", VTok "its-signature" []); ("DataHash", VIdD (s_dh w))].
Definition dat_v : gval := VRec [("Hash()", VTok "data-hash" [])].
Definition st_v (w : sworld) : gval := VRec [("tag", VStr "state returned by applyBlock"); ("DAHeight", VN (s_sda w))].

Definition sobj (w : sworld) : gval :=
  VObj "Manager" [
    ("logger", VUnit); ("metrics", VUnit); ("signaturePayloadProvider", VNil);
    ("store", VOrc "store" [("Height", [VTuple [VN (s_H w); er (s_hok w)]]); ("SaveBlockData", [er (s_saveok w)]);
                            ("UpdateState", [er (s_stateok w)]); ("SetHeight", [er (s_heightok w)])]);
    ("headerCache", VOrc "headerCache" [("GetItem", [if s_hdr w then hdr_v w else VNil]); ("DeleteItem", [VUnit]); ("SetSeen", [VUnit])]);
    ("dataCache", VOrc "dataCache" [("GetItem", [if s_dat w then dat_v else VNil]); ("DeleteItem", [VUnit]); ("SetSeen", [VUnit])]);
    ("lastState", VTok "state0" []);
    ("$orc", VOrc "m" [("Validate", [er (s_validok w)]); ("applyBlock", [VTuple [st_v w; er (s_applyok w)]]);
                       ("recordSyncMetrics", [VUnit])])].
Definition sglobals (w : sworld) : env :=
  [("dataHashForEmptyTxs", VIdD 0); ("$continue", VTok "continue" []); ("$cancelled", VBool (s_cancel w))].

Definition is_receiver (e : gval) : bool := match e with VEff x _ => x =? "receiver" | _ => false end.
Record sobserved := { so_result : list gval; so_calls : list gval; so_state : option gval }.
Definition sobserve (r : list gval * list gval) : sobserved :=
  let effs := rev (snd r) in
  {| so_result := fst r; so_calls := filter (fun e => negb (is_receiver e)) effs;
     so_state := match rev effs with
                 | VEff x [VObj _ fs] :: _ => if x =? "receiver" then lookup fs "lastState" else None
                 | _ => None
                 end |}.
(* the translated functions that run inside this lemma file; every other call is a scripted collaborator *)
Definition sync_funs : list (string * gfun) :=
  filter (fun p => (fst p =? "Manager.trySyncNextBlock") || (fst p =? "Manager.updateState")) gen_funs.
Definition run_sync (w : sworld) : option sobserved :=
  match lookup sync_funs "Manager.trySyncNextBlock" with
  | Some fn => interp (bind (exec 400 sync_funs (sglobals w) (start_env fn (Some (sobj w)) [VUnit; VN (s_da w)]) [] (f_body fn))
                            (fun r => RRet (sobserve r)))
  | None => None
  end.

(* ---- expected ----------------------------------------------------------------------------------------------- *)
Definition ctx : gval := VUnit.
Definition sout (res : gval) (cs : list gval) (st : gval) : sobserved :=
  {| so_result := [res]; so_calls := cs; so_state := Some st |}.
Definition state0 : gval := VTok "state0" [].
Definition continue_v : gval := VTok "continue" [].

Definition sync_expect (w : sworld) : sobserved :=
  let n := (s_H w + 1)%N in
  if s_cancel w then sout (VErr true) [] state0 else
  let c1 := [VEff "store.Height" [ctx]] in
  if negb (s_hok w) then sout (VErr true) c1 state0 else
  let c2 := c1 ++ [VEff "headerCache.GetItem" [VN n]] in
  if negb (s_hdr w) then sout VNil c2 state0 else
  let c3 := c2 ++ [VEff "dataCache.GetItem" [VN n]] in
  if negb (s_dat w) then sout VNil c3 state0 else
  let c4 := c3 ++ [VEff "m.Validate" [ctx; hdr_v w; dat_v]] in
  if negb (s_validok w) then sout (VErr true) c4 state0 else
  let c5 := c4 ++ [VEff "m.applyBlock" [ctx; VTok "header" []; dat_v]] in
  if negb (s_applyok w) then sout (VErr true) c5 state0 else
  let c6 := c5 ++ [VEff "store.SaveBlockData" [ctx; hdr_v w; dat_v; VTok "its-signature" []]] in
  if negb (s_saveok w) then sout (VErr true) c6 state0 else
  let c7 := c6 ++ [VEff "store.UpdateState" [ctx; st_v w]] in
  if negb (s_stateok w) then sout (VErr true) c7 state0 else
  let c8 := c7 ++ [VEff "store.SetHeight" [ctx; VN (s_hh w)]] in
  if negb (s_heightok w) then sout (VErr true) c8 (st_v w) else
  let c9 := c8 ++ [VEff "m.recordSyncMetrics" [VStr "block_applied"];
                   VEff "headerCache.DeleteItem" [VN n]; VEff "dataCache.DeleteItem" [VN n]]
               ++ (if (s_dh w =? 0)%N then [] else [VEff "dataCache.SetSeen" [VIdD (s_dh w)]])
               ++ [VEff "headerCache.SetSeen" [VTok "String" [VTok "header-hash" []]]] in
  sout continue_v c9 (st_v w).

Ltac plazy := lazy -[N.eqb N.leb N.ltb N.add Z.ltb Z.sub].
Ltac decide_or_case c :=
  let v := eval vm_compute in c in
  match v with
  | true => change c with true
  | false => change c with false
  | _ => destruct c eqn:?
  end.
Ltac split_on c :=
  match c with
  | context [(?a =? ?b)%N] => decide_or_case (a =? b)%N
  | context [(?a <=? ?b)%N] => decide_or_case (a <=? b)%N
  | context [(?a <? ?b)%N] => decide_or_case (a <? b)%N
  | context [?b] => is_var b; match type of b with bool => destruct b end
  end.
Ltac hstep := match goal with
              | |- (if ?c then _ else _) = _ => split_on c
              | |- _ = Some (if ?c then _ else _) => split_on c
              | |- context [(?a =? 0)%N] => decide_or_case (a =? 0)%N
              end; cbv beta iota.

Lemma go_trySyncNextBlock : forall w, run_sync w = Some (sync_expect w).
Proof.
  intros [cancel H hok hdr hh dh dat validok applyok saveok stateok heightok da sda].
  destruct hdr; destruct dat.
  all: plazy.
  all: repeat hstep; reflexivity.
Qed.
Print Assumptions go_trySyncNextBlock.
