(* Check/GoLiteStartup.v — the start of NewManager (block/manager.go), translated from the Go source on every run: the
   statements up to the configuration defaults ("NewManager$pre": the translation stops before the first statement
   that mentions config.DA.BlockTime.Duration == 0), with getInitialState (its own lemma: GoLiteBoot.go_getInitialState)
   and the store as scripted collaborators whose calls are logged.

   [go_NewManager_start]: for ALL worlds (getInitialState failing or not, any stored state, SetHeight failing or not,
   any DA start height) the calls are: getInitialState ONCE; if it failed, its error and nothing else; otherwise
   store.SetHeight with EXACTLY the state's LastBlockHeight — in EVERY world, whatever the store's own height is (the
   store raises its height only when the argument is above it: GoLiteStore.go_SetHeight) — so a process that died
   between the state write and the height write of a block is repaired by the next start-up; a failing SetHeight ends
   the start-up with its error; then the state's DA height is raised to the configured start height when it lies
   below it, and nothing else of the state is touched.
   Used by C01, C04, C05. *)
From Coq Require Import String List NArith ZArith Bool Lia.
From Verif Require Import Model.Types Model.Admission Model.GoLite Check.GoLiteTactics gen.GoLiteFuns.
Import ListNotations.
Open Scope string_scope.
Open Scope list_scope.

Definition only (names : list string) : list (string * gfun) :=
  filter (fun p => existsb (fun n => fst p =? n) names) gen_funs.
Definition is_receiver (e : gval) : bool := match e with VEff x _ => x =? "receiver" | _ => false end.
Definition er (ok : bool) : gval := VErr (negb ok).

Record nworld := { n_init_ok : bool; n_h : N; n_set_ok : bool; n_da : N; n_start : N }.
Definition state_v (w : nworld) (da : N) : gval :=
  VRec [("LastBlockHeight", VN (n_h w)); ("DAHeight", VN da); ("rest", VTok "the rest of the state" [])].
Definition store_v (w : nworld) : gval := VOrc "store" [("SetHeight", [er (n_set_ok w)])].
Definition config_v (w : nworld) : gval := VRec [("DA", VRec [("StartHeight", VN (n_start w))])].
Definition tok (s : string) : gval := VTok s [].
Definition n_args (w : nworld) : list gval :=
  [VUnit; tok "signer"; config_v w; tok "genesis"; store_v w; tok "exec"; tok "sequencer"; tok "da"; VUnit;
   tok "headerStore"; tok "dataStore"; tok "headerBroadcaster"; tok "dataBroadcaster"; tok "metrics"; VZ 0; VZ 0; tok "options"].
Definition n_globals (w : nworld) : env :=
  [("$loop", VTok "the rest of NewManager" []);
   ("$pkg", VOrc "pkg" [("getInitialState", [VTuple [state_v w (n_da w); er (n_init_ok w)]])])].
(* a record is read through its fields (an assignment to a field shadows the old value): the state as its three parts *)
Definition canon (v : gval) : gval :=
  match v with
  | VRec fs => match lookup fs "LastBlockHeight", lookup fs "DAHeight", lookup fs "rest" with
               | Some a, Some b, Some c => VRec [("LastBlockHeight", a); ("DAHeight", b); ("rest", c)]
               | _, _, _ => v
               end
  | _ => v
  end.
Definition run_start (w : nworld) : option (list gval * list gval) :=
  match lookup (only ["NewManager$pre"]) "NewManager$pre" with
  | Some fn => interp (bind (exec 400 (only ["NewManager$pre"]) (n_globals w) (start_env fn None (n_args w)) [] (f_body fn))
                            (fun r => RRet (map canon (fst r), filter (fun e => negb (is_receiver e)) (rev (snd r)))))
  | None => None
  end.
Definition start_expect (w : nworld) : list gval * list gval :=
  let c1 := [VEff "pkg.getInitialState" [VUnit; tok "genesis"; tok "signer"; store_v w; tok "exec"; VUnit; tok "options"]] in
  if negb (n_init_ok w) then ([VNil; VErr true], c1) else
  let c2 := c1 ++ [VEff "store.SetHeight" [VUnit; VN (n_h w)]] in
  if negb (n_set_ok w) then ([VNil; VErr true], c2) else
  ([VTok "the rest of NewManager" []; state_v w (if (n_da w <? n_start w)%N then n_start w else n_da w); VErr false], c2).

Ltac plazy := lazy -[N.eqb N.leb N.ltb N.add N.sub].
Lemma go_NewManager_start : forall w, run_start w = Some (start_expect w).
Proof.
  intros [iok h sok da st]. destruct iok; destruct sok.
  all: plazy.
  all: try reflexivity.
  destruct (da <? st)%N; reflexivity.
Qed.

(* the height repair of every start-up: whenever the state was obtained, SetHeight is asked for its height *)
Definition height_call (w : nworld) : gval := VEff "store.SetHeight" [VUnit; VN (n_h w)].
Lemma startup_always_sets_the_height : forall w, n_init_ok w = true -> In (height_call w) (snd (start_expect w)).
Proof.
  intros w H. unfold start_expect. rewrite H. cbn [negb].
  destruct (n_set_ok w); cbn [negb snd]; apply in_or_app; right; left; reflexivity.
Qed.

Print Assumptions go_NewManager_start.
Print Assumptions startup_always_sets_the_height.
