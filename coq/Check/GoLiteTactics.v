(* Check/GoLiteTactics.v — tactics that decide "the regenerated Go function computes the model function":
   evaluate the translated function on symbolic arguments to its decision tree ([glazy]), then walk the tree
   guard by guard ([step]: short-circuit order, so the number of cases is linear in the number of guards),
   finish any residue by exhaustive case analysis on the remaining atoms, and discharge cases whose
   hypotheses are arithmetically contradictory with [lia] (so a rewrite such as t.After(u) -> u.Before(t) or
   !(a < b) -> b <= a does not break the proof, while a rewrite that changes the decision does). *)
From Coq Require Import String List NArith ZArith Bool Lia.
From Verif Require Import Model.Types Model.Admission Model.GoLite.
From Verif Require Model.Proxy.
Import ListNotations.

Lemma addr_len_zero a : (addr_len a =? 0)%N = addr_eqb a AddrEmpty.
Proof. destruct a; reflexivity. Qed.
Lemma sig_len_zero s : (sig_len s =? 0)%N = match s with SigEmpty => true | _ => false end.
Proof. destruct s; reflexivity. Qed.

Ltac glazy :=
  lazy -[N.eqb N.ltb N.leb Z.eqb Z.ltb Z.leb N.add N.sub N.mul Z.add Z.sub Z.mul Z.max Z.min N.max N.min Z.of_N Z.to_N
         addr_eqb commitment_eqb verify_header verify_data key_address header_eqb addr_len sig_len Throttle.two64
         Proxy.is_sent Proxy.e_ctx Proxy.contains Proxy.txt Proxy.e_msg].

Ltac atom_in c :=
  match c with
  | context [match ?s with SigEmpty => _ | _ => _ end] => destruct s
  | context [match ?s with DSigEmpty => _ | _ => _ end] => destruct s
  | context [Proxy.e_ctx ?e] => destruct (Proxy.e_ctx e) eqn:?
  | context [Proxy.is_sent ?e ?s] => destruct (Proxy.is_sent e s) eqn:?
  | context [Proxy.contains ?a ?b] => destruct (Proxy.contains a b) eqn:?
  | context [addr_eqb ?a ?b] => destruct (addr_eqb a b) eqn:?
  | context [commitment_eqb ?a ?b] => destruct (commitment_eqb a b) eqn:?
  | context [verify_header ?a ?b ?c] => destruct (verify_header a b c) eqn:?
  | context [verify_data ?a ?b ?c] => destruct (verify_data a b c) eqn:?
  | context [N.eqb ?a ?b] => destruct (N.eqb a b) eqn:?
  | context [N.ltb ?a ?b] => destruct (N.ltb a b) eqn:?
  | context [N.leb ?a ?b] => destruct (N.leb a b) eqn:?
  | context [Z.eqb ?a ?b] => destruct (Z.eqb a b) eqn:?
  | context [Z.ltb ?a ?b] => destruct (Z.ltb a b) eqn:?
  | context [Z.leb ?a ?b] => destruct (Z.leb a b) eqn:?
  end.
Ltac step := match goal with |- (if ?c then _ else _) = _ => atom_in c end; cbv beta iota.
Ltac anyatom := match goal with |- ?g => atom_in g end; cbv beta iota.
Ltac arith_hyps :=
  repeat match goal with
  | H : N.eqb _ _ = true |- _ => apply N.eqb_eq in H
  | H : N.eqb _ _ = false |- _ => apply N.eqb_neq in H
  | H : N.ltb _ _ = true |- _ => apply N.ltb_lt in H
  | H : N.ltb _ _ = false |- _ => apply N.ltb_ge in H
  | H : N.leb _ _ = true |- _ => apply N.leb_le in H
  | H : N.leb _ _ = false |- _ => apply N.leb_gt in H
  | H : Z.eqb _ _ = true |- _ => apply Z.eqb_eq in H
  | H : Z.eqb _ _ = false |- _ => apply Z.eqb_neq in H
  | H : Z.ltb _ _ = true |- _ => apply Z.ltb_lt in H
  | H : Z.ltb _ _ = false |- _ => apply Z.ltb_ge in H
  | H : Z.leb _ _ = true |- _ => apply Z.leb_le in H
  | H : Z.leb _ _ = false |- _ => apply Z.leb_gt in H
  end.
Ltac finish := first [ reflexivity | exfalso; arith_hyps; unfold Throttle.two64 in *; lia
                     | arith_hyps; unfold Throttle.two64 in *; repeat f_equal; lia ].
Ltac gsolve := glazy; rewrite ?addr_len_zero, ?sig_len_zero; glazy; repeat step; repeat anyatom; finish.
