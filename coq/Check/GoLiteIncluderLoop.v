(* Check/GoLiteIncluderLoop.v — the inner loop of Manager.DAIncluderLoop (block/da_includer.go), the loop that advances the
   DA-included height, translated from the Go source on every run: ONE ITERATION as a function of the loop's local
   (the height reached so far), with IsDAIncluded, SetRollkitHeightToDAHeight, incrementDAIncludedHeight (each proved
   equal to the model in Check/GoLiteIncluder.v) and the error channel as scripted collaborators whose calls are logged.

   [go_DAIncluderLoop_iter]: for ALL worlds an iteration looks at exactly the NEXT height (reached + 1), once;
     * it stops without touching anything when the node is stopping, when that block cannot be judged yet, or when it
       is not DA-included — no height is ever passed over;
     * only for a block that IS included does it record the block's DA heights and THEN advance the height, by exactly
       one, and goes on with the height after; a failing record or advance is reported once and ends the loop with the
       height not counted.
   Used by C07. *)
From Coq Require Import String List NArith ZArith Bool Lia.
From Verif Require Import Model.Types Model.Admission Model.GoLite Check.GoLiteTactics gen.GoLiteFuns.
Import ListNotations.
Open Scope string_scope.
Open Scope list_scope.

Record iworld2 := { i_cancel : bool; i_cur : N; i_judge_ok : bool; i_included : bool; i_set_ok : bool; i_incr_ok : bool }.
Definition er (ok : bool) : gval := VErr (negb ok).
Definition ctx_v (w : iworld2) : gval := VTok "ctx" [VBool (i_cancel w)].
Definition incl_mgr (w : iworld2) : gval :=
  VObj "Manager" [("logger", VUnit);
                  ("$orc", VOrc "m" [("IsDAIncluded", [VTuple [VBool (i_included w); er (i_judge_ok w)]]);
                                     ("SetRollkitHeightToDAHeight", [er (i_set_ok w)]);
                                     ("incrementDAIncludedHeight", [er (i_incr_ok w)])])].
Definition incl_loop_globals : env :=
  [("$break", VTok "break" []); ("$continue", VTok "continue" []); ("$pkg", VOrc "pkg" [("sendError", [VUnit])])].
Definition incl_funs : list (string * gfun) := filter (fun p => fst p =? "Manager.DAIncluderLoop$iter") gen_funs.
Definition is_receiver (e : gval) : bool := match e with VEff x _ => x =? "receiver" | _ => false end.
Definition run_incl (w : iworld2) : option (list gval * list gval) :=
  match lookup incl_funs "Manager.DAIncluderLoop$iter" with
  | Some fn => interp (bind (exec 400 incl_funs incl_loop_globals (start_env fn (Some (incl_mgr w)) [ctx_v w; VTok "errCh" []; VN (i_cur w)]) [] (f_body fn))
                            (fun r => RRet (fst r, filter (fun e => negb (is_receiver e)) (rev (snd r)))))
  | None => None
  end.

Definition incl_expect (w : iworld2) : list gval * list gval :=
  let next := (i_cur w + 1)%N in
  if i_cancel w then ([], []) else
  let c1 := [VEff "m.IsDAIncluded" [ctx_v w; VN next]] in
  if negb (i_judge_ok w) then ([VTok "break" []; VN (i_cur w)], c1) else
  if negb (i_included w) then ([VTok "break" []; VN (i_cur w)], c1) else
  let c2 := c1 ++ [VEff "m.SetRollkitHeightToDAHeight" [ctx_v w; VN next]] in
  if negb (i_set_ok w) then ([], c2 ++ [VEff "pkg.sendError" [ctx_v w; VTok "errCh" []; VErr true]]) else
  let c3 := c2 ++ [VEff "m.incrementDAIncludedHeight" [ctx_v w]] in
  if negb (i_incr_ok w) then ([], c3 ++ [VEff "pkg.sendError" [ctx_v w; VTok "errCh" []; VErr true]]) else
  ([VTok "continue" []; VN next], c3).

Ltac plazy := lazy -[N.eqb N.leb N.ltb N.add N.sub].
Ltac split_on c := match c with context [?b] => is_var b; match type of b with bool => destruct b end end.
Ltac hstep := match goal with
              | |- (if ?c then _ else _) = _ => split_on c
              | |- _ = Some (if ?c then _ else _) => split_on c
              end; cbv beta iota.

Lemma go_DAIncluderLoop_iter : forall w, run_incl w = Some (incl_expect w).
Proof. intros [c cur jok inc sok iok]. unfold incl_expect. plazy. repeat hstep; reflexivity. Qed.

(* the height goes on only by one, only for an included block, only after both the record and the advance succeeded *)
Lemma goes_on_only_after_record_and_advance : forall w n,
  fst (incl_expect w) = [VTok "continue" []; VN n] ->
  n = (i_cur w + 1)%N /\ i_included w = true /\ i_set_ok w = true /\ i_incr_ok w = true /\
  snd (incl_expect w) = [VEff "m.IsDAIncluded" [ctx_v w; VN n]; VEff "m.SetRollkitHeightToDAHeight" [ctx_v w; VN n];
                         VEff "m.incrementDAIncludedHeight" [ctx_v w]].
Proof.
  intros [c cur jok inc sok iok] n. unfold incl_expect; cbn [i_cancel i_cur i_judge_ok i_included i_set_ok i_incr_ok].
  destruct c, jok, inc, sok, iok; cbn [negb fst snd app]; intros H; try discriminate H.
  inversion H. repeat split; reflexivity.
Qed.

Print Assumptions go_DAIncluderLoop_iter.
Print Assumptions goes_on_only_after_record_and_advance.
