(* Check/GoLiteThrottle.v — C08: pendingBase.numPending = Throttle.sub64 height last (uint64 wrap-around included),
   pendingBase.isEmpty = (height =? last).
   Lemmas over coq/gen/GoLiteFuns.v, which harness/translators/golite regenerates from /repo's source on every
   run; for all arguments. *)
From Coq Require Import String List NArith ZArith Bool Lia.
From Verif Require Import Model.Types Model.Admission Model.GoLite Check.GoLiteTactics gen.GoLiteFuns.
From Verif Require Model.Submitter Model.Throttle Model.Lazy.
Import ListNotations.
Open Scope string_scope.

(* block/pending_base.go numPending: uint64 subtraction of the in-memory watermark from the store height *)
Lemma go_numPending : forall h last,
  run_fun gen_funs [] "pendingBase.numPending" (Some (VPBase {| pb_height := Some h; pb_last := last |})) [] =
  Some [VN (Throttle.sub64 h last)].
Proof. intros; glazy; reflexivity. Qed.
Lemma go_numPending_store_error : forall last,
  run_fun gen_funs [] "pendingBase.numPending" (Some (VPBase {| pb_height := None; pb_last := last |})) [] =
  Some [VZ 0].
Proof. intros; glazy; reflexivity. Qed.

(* block/pending_base.go isEmpty *)
Lemma go_isEmpty' : forall h last,
  run_fun gen_funs [] "pendingBase.isEmpty" (Some (VPBase {| pb_height := Some h; pb_last := last |})) [] =
  Some [VBool (h =? last)%N].
Proof. intros; glazy; reflexivity. Qed.
Lemma go_isEmpty'_store_error : forall last,
  run_fun gen_funs [] "pendingBase.isEmpty" (Some (VPBase {| pb_height := None; pb_last := last |})) [] =
  Some [VBool false].
Proof. intros; glazy; reflexivity. Qed.

(* every lemma is closed under the global context (bin/tr-golite fails on any "Axioms:" line) *)
Print Assumptions go_numPending.
Print Assumptions go_numPending_store_error.
Print Assumptions go_isEmpty'.
Print Assumptions go_isEmpty'_store_error.
