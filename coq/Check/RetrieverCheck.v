(* Check/RetrieverCheck.v — correspondence check for Model/Retriever.v: the harness writes the DA it scripted
   (per height the POSTS: for SignedHeader blobs who signed and over which SignaturePayloadProvider's payload — whether
   the node, built with provider rc_scheme, admits them is computed by the model —, junk kinds, and for SignedData blobs the tx list on the wire, Metadata present?,
   signer, the tx list the signature covers — their class is computed by the model —, and the outcome scripts), the node configuration, the history it drove the real Manager
   through, and what it observed per item (cursor, DA calls, events taken from headerInCh / dataInCh with the tx list
   every data event carried, result class) plus the final DA-included marks; [mismatches] lists the cases on which the model disagrees. *)
From Coq Require Import NArith List Bool.
From Verif Require Import Model.Retriever.
Import ListNotations.
Open Scope N_scope.

Record obs := { o_cursor : N;                 (* m.daHeight after the item *)
                o_calls : list call;          (* GetIDs / Get calls seen by the DA double during the item *)
                o_hev : list (N * N);         (* (header id, daHeight) taken from headerInCh after the item *)
                o_dev : list (N * N);         (* (data id, daHeight) taken from dataInCh after the item *)
                o_dtx : list (list tx);       (* per data event, in the same order: the transaction list it carried
                                                 (the harness numbers the byte strings of the case, 0 = the zero-length one) *)
                o_res : N }.                  (* IProc: 0 nil, 1 from-the-future error, 2 other error, 3 panic;
                                                 ISignal: 3 if the loop goroutine is dead after the item, else 0 *)

Record rcase := { rc_cfg : cfg;
                  rc_scheme : scheme;         (* the SignaturePayloadProvider the node was built with (ManagerOptions), 0 = default *)
                  rc_da : list xhpost;        (* the DA as POSTED: Model/Retriever.v xhpost — header blobs with signer and the
                                                 provider whose payload the signature covers; whether the node admits them is
                                                 COMPUTED by the model (view_hd, the node's provider installed: VConfigured) *)
                   rc_hist : list item; rc_obs : list obs;
                  rc_marks : list (bool * N * option N) }.   (* (is data, id, GetDAIncludedHeight) at the end *)

Definition res_code (r : presult) : N := match r with PNil => 0 | PFuture => 1 | PErr => 2 end.   (* 3 = panic: never predicted *)

Definition hev_of (evs : list event) : list (N * N) :=
  flat_map (fun e => match e with EHeader i d => [(i, d)] | _ => [] end) evs.
Definition dev_of (evs : list event) : list (N * N) :=
  flat_map (fun e => match e with EData i d => [(i, d)] | _ => [] end) evs.

Definition dtx_of (evs : list pevent) : list (list tx) :=
  flat_map (fun e => match e with PEData _ _ txs => [txs] | _ => [] end) evs.

(* the transaction lists handed over by the iterations [recs]: Model/Retriever.v handed (decoder as it is) *)
Definition dtx_recs (c : cfg) (pda : list hpost) (recs : list iter_rec) : list (list tx) :=
  dtx_of (flat_map (handed DCopyAll c pda) recs).

Definition mk_obs (c : cfg) (pda : list hpost) (it : item) (st : state) (recs : list iter_rec) : obs :=
  let evs := flat_map i_events recs in
  {| o_cursor := s_cursor st; o_calls := flat_map i_calls recs; o_hev := hev_of evs; o_dev := dev_of evs;
     o_dtx := dtx_recs c pda recs;
     o_res := match it with
              | IProc => match recs with [r] => res_code (i_result r) | _ => 99 end
              | ISignal => 0
              end |}.

Fixpoint run_obs (c : cfg) (pda : list hpost) (st : state) (h : list item) : list obs * list mark :=
  match h with
  | [] => ([], [])
  | it :: r => let '(st1, recs) := step c st it in
               let '(os, ms) := run_obs c pda st1 r in
               (mk_obs c pda it st1 recs :: os, flat_map i_marks recs ++ ms)
  end.

Definition call_eqb (a b : call) : bool :=
  match a, b with
  | CGetIDs x, CGetIDs y => x =? y
  | CGet x o l, CGet y o' l' => (x =? y) && Nat.eqb o o' && Nat.eqb l l'
  | _, _ => false
  end.

Fixpoint list_eqb {A} (e : A -> A -> bool) (a b : list A) : bool :=
  match a, b with
  | [], [] => true
  | x :: a', y :: b' => e x y && list_eqb e a' b'
  | _, _ => false
  end.

Definition pair_eqb (a b : N * N) : bool := (fst a =? fst b) && (snd a =? snd b).

(* the last DA height a cache entry was marked with *)
Fixpoint last_mark (isd : bool) (id : N) (ms : list mark) (acc : option N) : option N :=
  match ms with
  | [] => acc
  | MHeader i d :: r => last_mark isd id r (if negb isd && (i =? id) then Some d else acc)
  | MData i d :: r => last_mark isd id r (if isd && (i =? id) then Some d else acc)
  end.

Definition optN_eqb (a b : option N) : bool :=
  match a, b with Some x, Some y => x =? y | None, None => true | _, _ => false end.

(* per item: 1 cursor, 2 calls, 3 header events, 4 data events, 5 result class, 8 the transaction lists carried
   by the data events differ from the posted ones; 6 = number of items; 7 = marks *)
Fixpoint obs_diff (i : N) (m o : list obs) : list N :=
  match m, o with
  | [], [] => []
  | x :: m', y :: o' =>
      (if o_cursor x =? o_cursor y then [] else [100 * i + 1]) ++
      (if list_eqb call_eqb (o_calls x) (o_calls y) then [] else [100 * i + 2]) ++
      (if list_eqb pair_eqb (o_hev x) (o_hev y) then [] else [100 * i + 3]) ++
      (if list_eqb pair_eqb (o_dev x) (o_dev y) then [] else [100 * i + 4]) ++
      (if o_res x =? o_res y then [] else [100 * i + 5]) ++
      (if list_eqb txs_eqb (o_dtx x) (o_dtx y) then [] else [100 * i + 8]) ++
      obs_diff (i + 1) m' o'
  | _, _ => [6]
  end.

Definition check_case (c : rcase) : list N :=
  let pda := pda_of VConfigured (rc_scheme c) (rc_da c) in
  let '(os, ms) := run_obs (rc_cfg c) pda (init (rc_cfg c) (da_of DCopyAll pda)) (rc_hist c) in
  obs_diff 0 os (rc_obs c) ++
  (if forallb (fun e => let '(isd, id, v) := e in optN_eqb (last_mark isd id ms None) v) (rc_marks c) then [] else [7]).

Fixpoint mismatches_from (i : N) (cs : list rcase) : list (N * list N) :=
  match cs with
  | [] => []
  | c :: r => match check_case c with
              | [] => mismatches_from (i + 1) r
              | l => (i, l) :: mismatches_from (i + 1) r
              end
  end.
Definition mismatches := mismatches_from 0.

(* compact constructors for the generated cases *)
Definition E (nf fut : bool) : daerr := {| e_nf := nf; e_fut := fut |}.
Definition HI (posts : list xpost) (outs : list outcome) : xhpost := {| xp_posts := posts; xp_outs := outs |}.
Definition OB (cur : N) (calls : list call) (hev dev : list (N * N)) (dtx : list (list tx)) (res : N) : obs :=
  {| o_cursor := cur; o_calls := calls; o_hev := hev; o_dev := dev; o_dtx := dtx; o_res := res |}.
(* n junk blobs of kind k (bulk filler for heights with more than batch_size ids) *)
Definition JN (k : N) (n : nat) : list xpost := repeat (XPost (PJunk k)) n.
(* a SignedHeader blob built by the harness with real keys: signed with the proposer's key over the payload that
   provider [s] defines for it (the chain's provider: genuine; another one: not valid on this chain) *)
Definition PH (id : N) (s : scheme) : list xpost := [XHeader {| hd_id := id; hd_signer := true; hd_sigfor := Some s |}].
(* the same signed with a foreign key under the proposer's address (forgery) *)
Definition PHF (id : N) (s : scheme) : list xpost := [XHeader {| hd_id := id; hd_signer := false; hd_sigfor := Some s |}].
(* a SignedData blob built by the harness with real keys: the signature is made over exactly the posted
   transactions [txs]; meta = Metadata present; signer = signed with the proposer's key (false: a foreign key
   under the proposer's address) *)
Definition PD (id : N) (meta signer : bool) (txs : list tx) : list xpost :=
  [XPost (PSigned {| sp_id := id; sp_wire := txs; sp_meta := meta; sp_signer := signer; sp_sigfor := Some txs |})].
(* the proposer's signature over [sigtxs] (Metadata present), but [txs] on the wire *)
Definition PX (id : N) (txs sigtxs : list tx) : list xpost :=
  [XPost (PSigned {| sp_id := id; sp_wire := txs; sp_meta := true; sp_signer := true; sp_sigfor := Some sigtxs |})].

(* ==== ticks during catch-up: correspondence check for the two-channel loop (Model/Retriever.v, lturn) ====
   The harness wakes the real RetrieveLoop with one signal while it is quiescent, and its DA double sends
   DA-block ticks (non-blocking sends on m.retrieveCh, what SyncLoop's ticker does) from inside scripted
   GetIDs calls, i.e. while iterations run; it then waits until the loop is quiescent again (= one segment).
   Per GetIDs call it records whether m.retrieveCh held a value on entry and whether it sent a tick during
   the call.  From the first GetIDs call of an iteration the check reads off which channel `select` took
   (the only run-time choice), feeds it to [lturn] and demands that the model — every pending wake-up
   served, token re-armed after every passed height — explains exactly the calls that were seen. *)
Record tseg := { ts_seen : list (bool * bool);  (* per GetIDs call: (len(retrieveCh) = 1 on entry, tick sent during the call) *)
                 ts_obs : obs }.                (* at quiescence: cursor, all DA calls, events; o_res 3 = loop dead, else 0 *)
Record tcase := { tc_cfg : cfg; tc_scheme : scheme; tc_da : list xhpost; tc_segs : list tseg }.

Definition n_getids (r : iter_rec) : nat :=
  length (filter (fun cl => match cl with CGetIDs _ => true | _ => false end) (i_calls r)).

(* within one iteration nobody reads retrieveCh: what a later GetIDs call sees is what the earlier one saw or sent *)
Fixpoint seen_chain (l : list (bool * bool)) : bool :=
  match l with
  | (s0, r0) :: (((s1, _) :: _) as tl) => Bool.eqb s1 (s0 || r0) && seen_chain tl
  | _ => true
  end.

(* errors: 20 out of fuel; 21 DA calls while the model's loop waits with both channels empty; 22 the model has a
   wake-up pending (it WILL iterate) but the implementation made no further DA call: the loop stalled;
   23 what was left in retrieveCh is explained by neither choice of select; 24 the GetIDs calls of one
   iteration are fewer than the model's or see retrieveCh change by itself *)
Fixpoint drive (fuel : nat) (c : cfg) (ls : lstate) (seen : list (bool * bool)) (racc : list iter_rec)
  : lstate * list iter_rec * list N :=
  match fuel with
  | O => (ls, racc, [20])
  | S f =>
      if negb (l_tick ls || l_tok ls) then (ls, racc, match seen with [] => [] | _ => [21] end)
      else match seen with
           | [] => (ls, racc, [22])
           | (s0, _) :: _ =>
               let '(pick, feas) := if l_tick ls then (if s0 then (false, l_tok ls) else (true, true))
                                    else (false, negb s0 && l_tok ls) in
               let '(_, r, _) := iterate c (l_scan ls) in
               let n := n_getids r in
               let mine := firstn n seen in
               let '(ls1, recs) := lturn RNonBlocking c ls {| t_pick_tick := pick; t_tick := existsb snd mine |} in
               if negb feas then (ls, racc, [23])
               else if negb (Nat.eqb (length mine) n && Nat.ltb 0 n && seen_chain mine) then (ls, racc, [24])
               else drive f c ls1 (skipn n seen) (rev_append recs racc)
           end
  end.

Fixpoint run_segs (i : N) (c : cfg) (pda : list hpost) (ls : lstate) (segs : list tseg) : list N :=
  match segs with
  | [] => []
  | sg :: r =>
      (* the harness's signal: a non-blocking send on retrieveCh while the loop waits *)
      let ls0 := {| l_scan := l_scan ls; l_tick := true; l_tok := l_tok ls; l_stuck := l_stuck ls |} in
      let '(ls1, racc, errs) := drive (S (length (ts_seen sg))) c ls0 (ts_seen sg) [] in
      let recs := rev racc in
      let evs := flat_map i_events recs in
      let m := {| o_cursor := s_cursor (l_scan ls1); o_calls := flat_map i_calls recs;
                  o_hev := hev_of evs; o_dev := dev_of evs; o_dtx := dtx_recs c pda recs; o_res := 0 |} in
      match errs with
      | [] => obs_diff i [m] [ts_obs sg] ++ run_segs (i + 1) c pda ls1 r
      | _ => map (fun e => 100 * i + e) errs      (* the model cannot follow any further *)
      end
  end.

Definition check_tcase (t : tcase) : list N :=
  let pda := pda_of VConfigured (tc_scheme t) (tc_da t) in
  run_segs 0 (tc_cfg t) pda (linit (tc_cfg t) (da_of DCopyAll pda) false) (tc_segs t).

Fixpoint tmismatches_from (i : N) (cs : list tcase) : list (N * list N) :=
  match cs with
  | [] => []
  | c :: r => match check_tcase c with
              | [] => tmismatches_from (i + 1) r
              | l => (i, l) :: tmismatches_from (i + 1) r
              end
  end.

(* compact constructors for the generated tick cases *)
Definition HE : xhpost := HI [] [OOk].                              (* an empty height, served at once *)
Definition SN (n : nat) : list (bool * bool) := repeat (false, false) n.   (* n calls: nothing in retrieveCh, no tick *)
Definition GI (h : N) (n : nat) : list call := map (fun i => CGetIDs (h + N.of_nat i)) (seq 0 n).   (* GetIDs h .. h+n-1 *)
