(* Check/RetrieverCheck.v — correspondence check for Model/Retriever.v: the harness writes the DA it scripted
   (blob classes per height, outcome scripts), the node configuration, the history it drove the real Manager
   through, and what it observed per item (cursor, DA calls, events taken from headerInCh / dataInCh, result
   class) plus the final DA-included marks; [mismatches] lists the cases on which the model disagrees. *)
From Coq Require Import NArith List Bool.
From Verif Require Import Model.Retriever.
Import ListNotations.
Open Scope N_scope.

Record obs := { o_cursor : N;                 (* m.daHeight after the item *)
                o_calls : list call;          (* GetIDs / Get calls seen by the DA double during the item *)
                o_hev : list (N * N);         (* (header id, daHeight) taken from headerInCh after the item *)
                o_dev : list (N * N);         (* (data id, daHeight) taken from dataInCh after the item *)
                o_res : N }.                  (* IProc: 0 nil, 1 from-the-future error, 2 other error, 3 panic;
                                                 ISignal: 3 if the loop goroutine is dead after the item, else 0 *)

Record rcase := { rc_cfg : cfg; rc_da : list hinfo; rc_hist : list item; rc_obs : list obs;
                  rc_marks : list (bool * N * option N) }.   (* (is data, id, GetDAIncludedHeight) at the end *)

Definition res_code (r : presult) : N := match r with PNil => 0 | PFuture => 1 | PErr => 2 end.   (* 3 = panic: never predicted *)

Definition hev_of (evs : list event) : list (N * N) :=
  flat_map (fun e => match e with EHeader i d => [(i, d)] | _ => [] end) evs.
Definition dev_of (evs : list event) : list (N * N) :=
  flat_map (fun e => match e with EData i d => [(i, d)] | _ => [] end) evs.

Definition mk_obs (it : item) (st : state) (recs : list iter_rec) : obs :=
  let evs := flat_map i_events recs in
  {| o_cursor := s_cursor st; o_calls := flat_map i_calls recs; o_hev := hev_of evs; o_dev := dev_of evs;
     o_res := match it with
              | IProc => match recs with [r] => res_code (i_result r) | _ => 99 end
              | ISignal => 0
              end |}.

Fixpoint run_obs (c : cfg) (st : state) (h : list item) : list obs * list mark :=
  match h with
  | [] => ([], [])
  | it :: r => let '(st1, recs) := step c st it in
               let '(os, ms) := run_obs c st1 r in
               (mk_obs it st1 recs :: os, flat_map i_marks recs ++ ms)
  end.

Definition call_eqb (a b : call) : bool :=
  match a, b with
  | CGetIDs x, CGetIDs y => x =? y
  | CGet x o l, CGet y o' l' => (x =? y) && Nat.eqb o o' && Nat.eqb l l'
  | _, _ => false
  end.

Fixpoint list_eqb {A} (e : A -> A -> bool) (a b : list A) : bool :=
  match a, b with
  | [], [] => true
  | x :: a', y :: b' => e x y && list_eqb e a' b'
  | _, _ => false
  end.

Definition pair_eqb (a b : N * N) : bool := (fst a =? fst b) && (snd a =? snd b).

(* the last DA height a cache entry was marked with *)
Fixpoint last_mark (isd : bool) (id : N) (ms : list mark) (acc : option N) : option N :=
  match ms with
  | [] => acc
  | MHeader i d :: r => last_mark isd id r (if negb isd && (i =? id) then Some d else acc)
  | MData i d :: r => last_mark isd id r (if isd && (i =? id) then Some d else acc)
  end.

Definition optN_eqb (a b : option N) : bool :=
  match a, b with Some x, Some y => x =? y | None, None => true | _, _ => false end.

(* per item: 1 cursor, 2 calls, 3 header events, 4 data events, 5 result class; 6 = number of items; 7 = marks *)
Fixpoint obs_diff (i : N) (m o : list obs) : list N :=
  match m, o with
  | [], [] => []
  | x :: m', y :: o' =>
      (if o_cursor x =? o_cursor y then [] else [100 * i + 1]) ++
      (if list_eqb call_eqb (o_calls x) (o_calls y) then [] else [100 * i + 2]) ++
      (if list_eqb pair_eqb (o_hev x) (o_hev y) then [] else [100 * i + 3]) ++
      (if list_eqb pair_eqb (o_dev x) (o_dev y) then [] else [100 * i + 4]) ++
      (if o_res x =? o_res y then [] else [100 * i + 5]) ++
      obs_diff (i + 1) m' o'
  | _, _ => [6]
  end.

Definition check_case (c : rcase) : list N :=
  let '(os, ms) := run_obs (rc_cfg c) (init (rc_cfg c) (rc_da c)) (rc_hist c) in
  obs_diff 0 os (rc_obs c) ++
  (if forallb (fun e => let '(isd, id, v) := e in optN_eqb (last_mark isd id ms None) v) (rc_marks c) then [] else [7]).

Fixpoint mismatches_from (i : N) (cs : list rcase) : list (N * list N) :=
  match cs with
  | [] => []
  | c :: r => match check_case c with
              | [] => mismatches_from (i + 1) r
              | l => (i, l) :: mismatches_from (i + 1) r
              end
  end.
Definition mismatches := mismatches_from 0.

(* compact constructors for the generated cases *)
Definition E (nf fut : bool) : daerr := {| e_nf := nf; e_fut := fut |}.
Definition HI (bl : list blob) (outs : list outcome) : hinfo := {| h_blobs := bl; h_outs := outs |}.
Definition OB (cur : N) (calls : list call) (hev dev : list (N * N)) (res : N) : obs :=
  {| o_cursor := cur; o_calls := calls; o_hev := hev; o_dev := dev; o_res := res |}.
(* n junk blobs of kind k (bulk filler for heights with more than batch_size ids) *)
Definition JN (k : N) (n : nat) : list blob := repeat (BJunk k) n.
