(* Check/QueueCheck.v — correspondence check for Model/Queue.v.  The harness (harness/c10) writes the
   histories it ran against the real single.Sequencer / BatchQueue (badger in-memory under the recording
   datastore) with: what every call returned (error class / contents id), the final "batches" records in
   key order and the recorded datastore writes (keys projected to their sequence number).
   [mismatches] lists the cases on which the model disagrees.
   Hand-out requests carry the byte budget (GetNextBatchRequest.MaxBytes) the harness passed to the real GetNextBatch
   (Model/QueueBudget.v: the model, like the code, does not look at it).  [key_mismatches] (Model/QueueKeys.v) compares
   the first 18 bytes of real record keys with the model's key strings for the sequence numbers they were projected to.
   [qc_starts] (Model/QueueStarts.v): the records the REAL store held at every process start of the run (read back from the
   live store just before the new Sequencer was constructed: key as sequence number, DECODED contents as contents id), compared
   with the records the model's starting processes find - a record that no longer holds the batch it was written for
   (a store that keeps the slice it was given, a buffer reused by the writer) shows here even if it is never handed out. *)
From Coq Require Import NArith List Bool.
From Verif Require Import Model.Queue Model.QueueBudget Model.QueueStarts.
From Verif Require Export Model.QueueKeys.
Import ListNotations.
Open Scope N_scope.

Definition out_eqb (a b : out) : bool :=
  match a, b with
  | ROk, ROk | RInvalidId, RInvalidId | RFull, RFull | REmpty, REmpty => true
  | RBatch x, RBatch y => x =? y
  | _, _ => false
  end.

Definition oout_eqb (a b : option out) : bool :=
  match a, b with Some x, Some y => out_eqb x y | None, None => true | _, _ => false end.

Definition entry_eqb (a b : entry) : bool := (fst a =? fst b) && (snd a =? snd b).

Definition wr_eqb (a b : wr) : bool :=
  match a, b with
  | WPut k v, WPut k' v' => (k =? k') && (v =? v')
  | WDel k, WDel k' => k =? k'
  | _, _ => false
  end.

Fixpoint list_eqb {A} (e : A -> A -> bool) (a b : list A) : bool :=
  match a, b with
  | [], [] => true
  | x :: a', y :: b' => e x y && list_eqb e a' b'
  | _, _ => false
  end.

Record qcase := {
  qc_max : N;                          (* maxQueueSize of the FIRST process, 0 = unlimited *)
  qc_hist : list bitem;                (* every restart / crash recovery names the bound of the process it starts, every hand-out request its byte budget *)
  qc_outs : list (option out);         (* what the code returned, per item (None for restart / crash) *)
  qc_image : list entry;               (* final records under /batches, in key order: (sequence number of the key, contents id) *)
  qc_log : list wr;                    (* recorded datastore writes, in order (keys as sequence numbers) *)
  qc_starts : list (list entry)        (* per restart / crash recovery, in order: the records the live store held when the new process was started, in key order *)
}.

(* 1 = results differ, 2 = final durable image differs, 3 = write log differs, 4 = the records found by some process start differ *)
Definition check_case (c : qcase) : list N :=
  let '(st, outs) := b_run (v_st0 (qc_max c)) (qc_hist c) in
  (if list_eqb oout_eqb outs (qc_outs c) then [] else [1]) ++
  (if list_eqb entry_eqb (db (core (vr st))) (qc_image c) then [] else [2]) ++
  (if list_eqb wr_eqb (b_wlog (qc_max c) (qc_hist c)) (qc_log c) then [] else [3]) ++
  (if list_eqb (list_eqb entry_eqb) (b_start_images (qc_max c) (qc_hist c)) (qc_starts c) then [] else [4]).

Fixpoint mismatches_from (i : N) (cs : list qcase) : list (N * list N) :=
  match cs with
  | [] => []
  | c :: r => match check_case c with
              | [] => mismatches_from (i + 1) r
              | l => (i, l) :: mismatches_from (i + 1) r
              end
  end.
Definition mismatches := mismatches_from 0.
