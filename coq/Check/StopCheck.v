(* Check/StopCheck.v — C13 part B/C: (1) further lemmas over the table REGENERATED from /repo/block/*.go
   (coq/gen/BlockPoints.v) used by Props/C13.v; (2) the comparison of what the real loops did after a stop
   request (harness/c13: where each loop was blocked at the stop instant, whether it had returned by the
   virtual deadline, and if not where it sits) with what the stop-protocol model admits. *)
From Coq Require Import String List Bool NArith Arith Lia.
From Verif Require Import Model.StopProto Proofs.StopProtoProofs gen.BlockPoints Check.BlockPointsLemmas.
Import ListNotations.
Open Scope string_scope.

(* ---- lemmas over the regenerated table ------------------------------------------------------------ *)

(* the loops all of whose blocking operations are cancellable in today's source: all but AggregationLoop, which
   reaches publishBlockInternal's g.Wait (errgroup over the two broadcasters) *)
Definition cancellable_loops_today : list string :=
  ["SyncLoop"; "RetrieveLoop"; "HeaderStoreRetrieveLoop"; "DataStoreRetrieveLoop";
   "HeaderSubmissionLoop"; "DataSubmissionLoop"; "DAIncluderLoop"; "Reaper.Start"].

Lemma cancellable_loops_guard :
  forallb (fun r => implb (in_list (fst r) cancellable_loops_today) (all_cancellable block_points (snd r))) loop_reach = true.
Proof. vm_compute. reflexivity. Qed.

Lemma in_list_In s l : In s l -> in_list s l = true.
Proof. intros H. unfold in_list. apply existsb_exists. exists s. split; [exact H | apply String.eqb_refl]. Qed.

Lemma prompt_stop_today (root : string) (reach : list string) :
  In (root, reach) loop_reach -> In root cancellable_loops_today ->
  forall ms p, In p (activity_points block_points reach) -> others ms < length ms ->
               run_cancelled (activity_points block_points reach) (Running p) ms = Returned.
Proof.
  intros Hin Hroot.
  pose proof cancellable_loops_guard as G. rewrite forallb_forall in G. specialize (G _ Hin).
  cbn [fst snd] in G. rewrite (in_list_In _ _ Hroot) in G.
  destruct (all_cancellable block_points reach) eqn:E; [|discriminate G].
  exact (prompt_stop_for root reach Hin E).
Qed.

(* g.Wait returns when both broadcaster calls have returned; they are handed the errgroup's context, a child of
   the loop's.  UNDER THE ASSUMPTION that the broadcasters return once their context is done - an assumption on
   a collaborator, tested by the harness's in-flight scenarios, not proved - the wait is cancellable by delegation:
   [delegated] marks exactly that entry, and then all nine loops stop promptly. *)
Definition is_broadcast_wait (p : bpoint) : bool :=
  String.eqb (bp_func p) "publishBlockInternal" && String.eqb (bp_kind p) "wait" && String.eqb (bp_what p) "g.Wait".
Definition delegated (t : list bpoint) : list bpoint :=
  map (fun p => if is_broadcast_wait p
                then {| bp_func := bp_func p; bp_kind := bp_kind p; bp_what := bp_what p; bp_cancellable := true |}
                else p) t.

Lemma delegated_guard :
  forallb (fun r => all_cancellable (delegated block_points) (snd r)) loop_reach = true
  /\ length (filter is_broadcast_wait block_points) = 1.
Proof. vm_compute. split; reflexivity. Qed.

Lemma prompt_stop_all_delegated (root : string) (reach : list string) :
  In (root, reach) loop_reach ->
  forall ms p, In p (activity_points (delegated block_points) reach) -> others ms < length ms ->
               run_cancelled (activity_points (delegated block_points) reach) (Running p) ms = Returned.
Proof.
  intros Hin.
  pose proof (proj1 delegated_guard) as G. rewrite forallb_forall in G. specialize (G _ Hin). cbn [snd] in G.
  exact (prompt_stop_activity (delegated block_points) reach G).
Qed.

(* every operation listed as not cancellable admits an environment under which its loop never returns *)
Lemma listed_can_hang (root : string) (reach : list string) (p : bpoint) :
  In (root, reach) loop_reach -> In p (activity_points block_points reach) -> bp_cancellable p = false ->
  forall n, run_cancelled (activity_points block_points reach) (Running p) (repeat block_forever n) = Running p.
Proof.
  intros _ _ Hc.
  exact (non_cancellable_can_hang (activity_points block_points reach) p Hc).
Qed.

(* without the assumption on the broadcasters the worded property ("every activity returns promptly, whatever the
   environment") is false of the model of today's source: AggregationLoop parked in g.Wait *)
Definition full_prompt_stop : Prop :=
  forall root reach, In (root, reach) loop_reach ->
  forall ms p, In p (activity_points block_points reach) -> others ms < length ms ->
               run_cancelled (activity_points block_points reach) (Running p) ms = Returned.

Definition find_point_in (t : list bpoint) (lr : list (string * list string)) (root fn kind what : string) : option (list bpoint * bpoint) :=
  match find (fun r => String.eqb (fst r) root) lr with
  | None => None
  | Some r =>
      let pts := activity_points t (snd r) in
      match find (fun p => String.eqb (bp_func p) fn && String.eqb (bp_kind p) kind && String.eqb (bp_what p) what) pts with
      | Some p => Some (pts, p)
      | None => None
      end
  end.

Definition hangs_once_in (t : list bpoint) (lr : list (string * list string)) (root fn kind what : string) : bool :=
  match find_point_in t lr root fn kind what with
  | Some (pts, p) => match run_cancelled pts (Running p) [block_forever] with Running _ => true | Returned => false end
  | None => false
  end.
Definition hangs_once := hangs_once_in block_points loop_reach.

Lemma wait_hangs : hangs_once "AggregationLoop" "publishBlockInternal" "wait" "g.Wait" = true.
Proof. vm_compute. reflexivity. Qed.

Definition w_reach : list string := nth 0 (map snd loop_reach) [].
Definition w_p : bpoint := {| bp_func := "publishBlockInternal"; bp_kind := "wait"; bp_what := "g.Wait"; bp_cancellable := false |}.
Fixpoint index_of (f : bpoint -> bool) (l : list bpoint) : nat :=
  match l with [] => 0 | x :: r => if f x then 0 else S (index_of f r) end.
Definition w_idx : nat := index_of is_broadcast_wait (activity_points block_points w_reach).

Lemma w_root : nth_error loop_reach 0 = Some ("AggregationLoop", w_reach).
Proof. vm_compute. reflexivity. Qed.
Lemma w_point : nth_error (activity_points block_points w_reach) w_idx = Some w_p.
Proof. vm_compute. reflexivity. Qed.
Lemma w_hangs : run_cancelled (activity_points block_points w_reach) (Running w_p) [block_forever] = Running w_p.
Proof. vm_compute. reflexivity. Qed.
Lemma w_env : others [block_forever] < length [block_forever].
Proof. vm_compute. apply le_n. Qed.

Lemma full_prompt_stop_false : ~ full_prompt_stop.
Proof.
  intros F.
  pose proof (F _ _ (nth_error_In _ _ w_root) [block_forever] w_p (nth_error_In _ _ w_point) w_env) as H.
  pose proof (eq_trans (eq_sym H) w_hangs) as X. discriminate X.
Qed.

(* ---- correspondence with the real loops ---------------------------------------------------------- *)

Definition pdesc := (string * string * string)%type.    (* function, kind, channel / call text *)

Record lobs := {
  lo_root  : string;            (* loop root as started by FullNode.Run *)
  lo_at    : option pdesc;      (* blocking operation the loop was parked in at the stop instant; None = inside a call to a double / not started / already returned *)
  lo_stuck : option pdesc       (* None = the loop had returned by the virtual deadline; Some = still parked there *)
}.
Record scase := { sc_id : N; sc_loops : list lobs }.

Definition desc_eqb (d : pdesc) (p : bpoint) : bool :=
  let '(f, k, w) := d in String.eqb f (bp_func p) && String.eqb k (bp_kind p) && String.eqb w (bp_what p).

Definition reach_of (root : string) : option (list string) :=
  match find (fun r => String.eqb (fst r) root) loop_reach with Some r => Some (snd r) | None => None end.

(* codes: 1 unknown loop root; 2 the loop was parked at an operation the table does not list for it;
   3 the loop is stuck at an operation the table does not list for it; 4 the loop is stuck at an operation
   the table calls cancellable (the model says it returns: prompt_stop); 5 model evaluation disagrees *)
Definition check_loop (o : lobs) : list N :=
  match reach_of (lo_root o) with
  | None => [1%N]
  | Some reach =>
      let pts := activity_points block_points reach in
      (match lo_at o with
       | Some d => if existsb (desc_eqb d) pts then [] else [2%N]
       | None => []
       end) ++
      (match lo_stuck o with
       | None => []
       | Some d =>
           match find (desc_eqb d) pts with
           | None => [3%N]
           | Some _ =>
               (* every table entry with this description must be non-cancellable, and the model must keep it there *)
               if forallb (fun p => negb (desc_eqb d p) || negb (bp_cancellable p)) pts
               then (if forallb (fun p => negb (desc_eqb d p) ||
                                          match run_cancelled pts (Running p) (repeat block_forever 3) with Running _ => true | Returned => false end) pts
                     then [] else [5%N])
               else [4%N]
           end
       end)
  end.

Definition check_case (c : scase) : list N := flat_map check_loop (sc_loops c).

Definition mismatches (cs : list scase) : list (N * list N) :=
  flat_map (fun c => match check_case c with [] => [] | l => [(sc_id c, l)] end) cs.
