(* Check/GoLiteBoot.v — start-up, getInitialState (block/manager.go, called by NewManager), translated from the Go source
   on every run (coq/gen/GoLiteFuns.v) and evaluated against scripted collaborators (store, executor, signer, the
   signature payload provider) whose calls are logged in order with their arguments.  For ALL worlds (a state in the
   store or not or an unreadable one, every height, a signer or none, which calls fail):

     go_getInitialState
       * a stored state is returned AS IT IS — nothing is executed, nothing is written, no block is looked for — unless
         the genesis initial height exceeds its last block height (an error);
       * an unreadable state is an error, nothing called;
       * with no state: InitChain(genesis time, initial height, chain id) is called once; then (aggregator: public key,
         payload, signature, in this order) the genesis block — header with the returned root, the empty data hash, the
         genesis proposer; empty data; the signature — is saved by ONE SaveBlockData, and the state returned is
         (chain id, initial height, last block = initial - 1, genesis time, the returned root, DA height 0); any
         failing call ends start-up with an error and nothing after it is called.
   Proofs/GoLiteBootRefine.v ties this to Producer.boot.   Used by C01 and C04. *)
From Coq Require Import String List NArith ZArith Bool Lia.
From Verif Require Import Model.Types Model.Admission Model.GoLite Check.GoLiteTactics gen.GoLiteFuns.
From Verif Require Model.Throttle.
Import ListNotations.
Open Scope string_scope.
Open Scope list_scope.

Inductive stateres := StNotFound | StErr | StFound (last : N).
Record bworld := {
  b_state : stateres;
  b_initial : N; b_gtime : Z;
  b_signer : bool;                                  (* a signer is given (aggregator) *)
  b_init_ok : bool; b_pub_ok : bool; b_payload_ok : bool; b_sign_ok : bool; b_save_ok : bool }.

Definition er (ok : bool) : gval := VErr (negb ok).
Definition ctx : gval := VUnit.
Definition boot_globals : env := [("ds.ErrNotFound", VErrTag "ds.ErrNotFound")].

Definition stored_state (last : N) : gval := VRec [("tag", VStr "the stored state"); ("LastBlockHeight", VN last)].
Definition state_answer (s : stateres) : gval :=
  match s with
  | StNotFound => VTuple [VRec []; VErrTag "ds.ErrNotFound"]
  | StErr => VTuple [VRec []; VErr true]
  | StFound last => VTuple [stored_state last; VNil]
  end.
Definition genesis_v (w : bworld) : gval :=
  VRec [("GenesisDAStartTime", VZ (b_gtime w)); ("InitialHeight", VN (b_initial w)); ("ChainID", VChainQ 0);
        ("ProposerAddress", VTok "genesis-proposer" [])].
Definition signer_v (w : bworld) : gval :=
  if b_signer w then VOrc "signer" [("GetPublic", [VTuple [VTok "public-key" []; er (b_pub_ok w)]]);
                                    ("Sign", [VTuple [VTok "genesis-signature" []; er (b_sign_ok w)]])]
  else VNil.
Definition store_v (w : bworld) : gval :=
  VOrc "store" [("GetState", [state_answer (b_state w)]); ("SaveBlockData", [er (b_save_ok w)])].
Definition exec_v (w : bworld) : gval := VOrc "exec" [("InitChain", [VTuple [VTok "initial-root" []; VUnit; er (b_init_ok w)]])].
Definition opts_v (w : bworld) : gval :=
  VOrc "managerOpts" [("SignaturePayloadProvider", [VTuple [VTok "payload" []; er (b_payload_ok w)]])].

(* the translated functions that run inside this lemma file; every other call is a scripted collaborator *)
Definition boot_funs : list (string * gfun) :=
  filter (fun p => (fst p =? "getInitialState")) gen_funs.
Definition run_boot (w : bworld) : option (list gval * list gval) :=
  match lookup boot_funs "getInitialState" with
  | Some fn => interp (bind (exec 400 boot_funs boot_globals
                                  (start_env fn None [ctx; genesis_v w; signer_v w; store_v w; exec_v w; VUnit; opts_v w]) [] (f_body fn))
                            (fun r => RRet (fst r, rev (snd r))))
  | None => None
  end.

(* ---- expected ------------------------------------------------------------------------------------------------ *)
Definition sub64 := Throttle.sub64.
Definition header_v (w : bworld) : gval :=
  VRec [("AppHash", VTok "initial-root" []); ("DataHash", VIdD 0); ("ProposerAddress", VTok "genesis-proposer" []);
        ("BaseHeader", VRec [("ChainID", VChainQ 0); ("Height", VN (b_initial w)); ("Time", VZ (b_gtime w))])].
Definition genesis_header_v (w : bworld) (pub sig : gval) : gval :=
  VRec [("Header", header_v w); ("Signer", VRec [("PubKey", pub); ("Address", VTok "genesis-proposer" [])]); ("Signature", sig)].
Definition empty_data_v : gval := VData {| d_meta := None; d_txs := [] |}.
Definition genesis_state_v (w : bworld) : gval :=
  VRec [("Version", VRec []); ("ChainID", VChainQ 0); ("InitialHeight", VN (b_initial w));
        ("LastBlockHeight", VN (sub64 (b_initial w) 1)); ("LastBlockTime", VZ (b_gtime w));
        ("AppHash", VTok "initial-root" []); ("DAHeight", VZ 0)].
Definition fail (cs : list gval) : list gval * list gval := ([VRec []; VErr true], cs).

Definition boot_expect (w : bworld) : list gval * list gval :=
  let c0 := [VEff "store.GetState" [ctx]] in
  match b_state w with
  | StErr => fail c0
  | StFound last => if (last <? b_initial w)%N then fail c0 else ([stored_state last; VNil], c0)
  | StNotFound =>
      let c1 := c0 ++ [VEff "exec.InitChain" [ctx; VZ (b_gtime w); VN (b_initial w); VChainQ 0]] in
      if negb (b_init_ok w) then fail c1 else
      let k (cs : list gval) (pub sig : gval) :=
        let c5 := cs ++ [VEff "store.SaveBlockData" [ctx; genesis_header_v w pub sig; empty_data_v; sig]] in
        if negb (b_save_ok w) then fail c5 else ([genesis_state_v w; VNil], c5) in
      if b_signer w then
        let c2 := c1 ++ [VEff "signer.GetPublic" []] in
        if negb (b_pub_ok w) then fail c2 else
        let c3 := c2 ++ [VEff "managerOpts.SignaturePayloadProvider" [header_v w]] in
        if negb (b_payload_ok w) then fail c3 else
        let c4 := c3 ++ [VEff "signer.Sign" [VTok "payload" []]] in
        if negb (b_sign_ok w) then fail c4 else
        k c4 (VTok "public-key" []) (VTok "genesis-signature" [])
      else k c1 (VZero "crypto.PubKey") (VZero "types.Signature")
  end.

Ltac plazy := lazy -[N.eqb N.leb N.ltb N.add Z.ltb Z.sub sub64 Throttle.sub64].
Ltac decide_or_case c :=
  let v := eval vm_compute in c in
  match v with
  | true => change c with true
  | false => change c with false
  | _ => destruct c eqn:?
  end.
Ltac split_on c :=
  match c with
  | context [(?a =? ?b)%N] => decide_or_case (a =? b)%N
  | context [(?a <=? ?b)%N] => decide_or_case (a <=? b)%N
  | context [(?a <? ?b)%N] => decide_or_case (a <? b)%N
  | context [?b] => is_var b; match type of b with bool => destruct b end
  end.
Ltac hstep := match goal with
              | |- (if ?c then _ else _) = _ => split_on c
              | |- _ = Some (if ?c then _ else _) => split_on c
              end; cbv beta iota.

Lemma go_getInitialState : forall w, run_boot w = Some (boot_expect w).
Proof.
  intros [st initial gtime sg iok pok plok sok svok].
  destruct st as [| |last]; destruct sg.
  all: plazy.
  all: repeat hstep; reflexivity.
Qed.
Print Assumptions go_getInitialState.
