(* Check/StoreCheck.v — correspondence check for Model/Store.v: the harness writes the histories it ran
   against the real DefaultStore together with what the code returned, the final database image and the
   write log; [mismatches] lists the cases on which the model disagrees (index, what differs). *)
From Coq Require Import String Ascii NArith List Bool.
From Verif Require Import Base.KV Base.Keys Model.Store Model.StoreCaller.
Import ListNotations.
Open Scope string_scope.

Definition bs (l : list N) : string :=
  fold_right (fun n s => String (ascii_of_N n) s) EmptyString l.

Definition hdr_eqb (a b : hdr) : bool :=
  (hid a =? hid b)%N && (hheight a =? hheight b)%N && String.eqb (hhash a) (hhash b).

Definition sval_eqb (a b : sval) : bool :=
  match a, b with
  | VHeader x, VHeader y => hdr_eqb x y
  | VData x, VData y | VSig x, VSig y | VHeight x, VHeight y | VState x, VState y | VBytes x, VBytes y => (x =? y)%N
  | _, _ => false
  end.

Definition out_eqb (a b : out) : bool :=
  match a, b with
  | RUnit, RUnit | RErr, RErr => true
  | RHeight x, RHeight y | RSig x, RSig y | RState x, RState y | RBytes x, RBytes y => (x =? y)%N
  | RBlock h d, RBlock h' d' => hdr_eqb h h' && (d =? d')%N
  | RHeader h, RHeader h' => hdr_eqb h h'
  | _, _ => false
  end.

Definition oout_eqb (a b : option out) : bool :=
  match a, b with Some x, Some y => out_eqb x y | None, None => true | _, _ => false end.

Definition wshape_eqb (a b : wshape) : bool :=
  match a, b with SPut x, SPut y | SDel x, SDel y => String.eqb x y | _, _ => false end.

Fixpoint list_eqb {A} (e : A -> A -> bool) (a b : list A) : bool :=
  match a, b with
  | [], [] => true
  | x :: a', y :: b' => e x y && list_eqb e a' b'
  | _, _ => false
  end.

Record scase := {
  sc_hist : list citem;                 (* store calls / reopen / crash / fault (CI) and in-place modifications by the
                                           caller of the objects it passed to a save or got from a read *)
  sc_outs : list (option out);          (* what the code returned, per item that is not a modification *)
  sc_image : list (string * sval);      (* final database dump, decoded by key kind *)
  sc_shapes : list (list wshape);       (* the recorded atomic writes, in order *)
  sc_faults : list (list wshape);       (* the write attempts the fault-injecting datastore refused, in order *)
  sc_traw : list N                      (* the raw bytes of the /t record in the final database ([] = no record) *)
}.

Definition image_agrees (m : img) (dump : list (string * sval)) : bool :=
  forallb (fun e => match kv_get m (fst e) with Some v => sval_eqb v (snd e) | None => false end) dump
  && Nat.eqb (List.length (kv_keys m)) (List.length dump).

(* the height record the real store left behind is, byte for byte, the encoding of the model's height *)
Definition traw_agrees (m : img) (raw : list N) : bool :=
  match kv_get m height_key with
  | None => match raw with [] => true | _ => false end
  | Some (VHeight n) => list_eqb N.eqb (enc_height n) raw && match dec_height raw with Some n' => (n' =? n)%N | None => false end
  | Some _ => false
  end.

(* 1 = results differ, 2 = final image differs, 3 = write log differs, 4 = the refused write attempts differ,
   5 = the bytes of the height record differ *)
Definition check_case (c : scase) : list N :=
  let '(st, outs) := crun c_init (sc_hist c) in
  let m := c_img st in
  (if list_eqb oout_eqb outs (sc_outs c) then [] else [1%N]) ++
  (if image_agrees m (sc_image c) then [] else [2%N]) ++
  (if list_eqb (list_eqb wshape_eqb) (shapes [] (erase (sc_hist c))) (sc_shapes c) then [] else [3%N]) ++
  (if list_eqb (list_eqb wshape_eqb) (fault_shapes [] (erase (sc_hist c))) (sc_faults c) then [] else [4%N]) ++
  (if traw_agrees m (sc_traw c) then [] else [5%N]).

Fixpoint mismatches_from (i : N) (cs : list scase) : list (N * list N) :=
  match cs with
  | [] => []
  | c :: r => match check_case c with
              | [] => mismatches_from (i + 1) r
              | l => (i, l) :: mismatches_from (i + 1) r
              end
  end.
Definition mismatches := mismatches_from 0.

(* which cases are inside the domain of the theorems *)
Definition in_domain (c : scase) : bool := wf_history (erase (sc_hist c)).
Definition count_in_domain (cs : list scase) : N := N.of_nat (List.length (filter in_domain cs)).
