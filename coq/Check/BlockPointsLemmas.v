(* Check/BlockPointsLemmas.v — lemmas over the table REGENERATED from /repo/block/*.go on every run
   (coq/gen/BlockPoints.v).  Exact-list form (DESIGN 2.8): the operations that are not cancellable on the
   current tree (after the repairs ca974a2, 0d6bd4f, 4176904) are listed by function, kind and channel text; a new one, a removed one or a changed one
   breaks the equality.  Domain of these lemmas: the finite regenerated table. *)
From Coq Require Import String List Bool.
From Verif Require Import Model.StopProto Proofs.StopProtoProofs gen.BlockPoints.
Import ListNotations.
Open Scope string_scope.

Definition describe (p : bpoint) : string * string * string := (bp_func p, bp_kind p, bp_what p).

Lemma non_cancellable_today :
  map describe (non_cancellable block_points) =
  [ ("publishBlockInternal", "wait", "g.Wait") ].
Proof. vm_compute. reflexivity. Qed.

(* which loops have only cancellable blocking operations *)
Lemma loops_cancellable_today :
  map (fun r => (fst r, all_cancellable block_points (snd r))) loop_reach =
  [ ("AggregationLoop", false); ("SyncLoop", true); ("RetrieveLoop", true);
    ("HeaderStoreRetrieveLoop", true); ("DataStoreRetrieveLoop", true);
    ("HeaderSubmissionLoop", true); ("DataSubmissionLoop", true);
    ("DAIncluderLoop", true); ("Reaper.Start", true) ].
Proof. vm_compute. reflexivity. Qed.

(* every loop root exists in the source and every loop has at least one cancellable select *)
Lemma loops_present :
  forallb (fun r => existsb (fun p => bp_cancellable p) (activity_points block_points (snd r))) loop_reach = true
  /\ existsb (fun p => String.eqb (bp_kind p) "missing") block_points = false.
Proof. vm_compute. split; reflexivity. Qed.

(* prompt stop for the loops whose table entries are all cancellable: instantiate the theorem *)
Lemma prompt_stop_for (root : string) (reach : list string) :
  In (root, reach) loop_reach -> all_cancellable block_points reach = true ->
  forall ms p, In p (activity_points block_points reach) -> others ms < length ms ->
               run_cancelled (activity_points block_points reach) (Running p) ms = Returned.
Proof. intros _. exact (prompt_stop_activity block_points reach). Qed.
