(* Check/GoLiteProducer.v — Manager.retrieveBatch (block/manager.go) does what the production step of Model/Producer.v
   assumes of it (Producer.v, the [SErr | SNil | SBatch] cases of [produce]): lemmas over the regenerated
   coq/gen/GoLiteFuns.v, for ALL answers of the sequencing layer.
     an error                      -> (nil, that error), nothing written, the cursor unchanged
     no response / no batch        -> (nil, ErrNoBatch), nothing written, the cursor unchanged
     a batch (with or without txs) -> the WHOLE batch, its timestamp and its cursor; ErrNoBatch iff it has no
                                      transactions; ONE metadata write (LastBatchDataKey := the cursor); the in-memory
                                      cursor moves to it — also when that write fails (the failure is only logged)
   Used by C01, C04 and C11. *)
From Coq Require Import String List NArith ZArith Bool Lia.
From Verif Require Import Model.Types Model.Admission Model.GoLite Check.GoLiteTactics gen.GoLiteFuns.
From Verif Require Model.Producer.
Import ListNotations.
Open Scope string_scope.
Open Scope list_scope.

(* what the sequencing layer answers, as Go values: the transactions of a batch by id (0 = none) *)
Definition txs_val (txid : N) : gval := if (txid =? 0)%N then VList [] else VTxsQ txid.
Definition resp_val (txid : N) (ts : Z) (cur : N) : gval :=
  VRec [("Batch", VRec [("Transactions", txs_val txid)]); ("Timestamp", VZ ts); ("BatchData", VCursorQ cur)].
Definition mobj (cur0 : N) (res err : gval) (put_ok : bool) : gval :=
  VObj "Manager" [("genesis", VRec [("ChainID", VChainQ 0)]); ("lastBatchData", VCursorQ cur0);
                  ("sequencer", VSeqO res err); ("store", VStoreM put_ok); ("logger", VUnit)].
Definition prod_globals : env := [("ErrNoBatch", VErrTag "ErrNoBatch"); ("LastBatchDataKey", VStr "l")].
Definition cursor_after (effs : list gval) : option gval :=
  match rev effs with
  | VEff w [VObj _ fs] :: _ => if w =? "receiver" then lookup fs "lastBatchData" else None
  | _ => None
  end.
Definition writes (effs : list gval) : list gval :=
  filter (fun e => match e with VEff w _ => negb (w =? "receiver") | _ => true end) effs.

Ltac plazy := lazy -[N.eqb].

Lemma go_retrieveBatch_error : forall cur0 ok,
  exists effs, run_eff gen_funs prod_globals "Manager.retrieveBatch" (Some (mobj cur0 VNil (VErr true) ok)) [VUnit] =
               Some ([VNil; VErr true], effs) /\ writes effs = [] /\ cursor_after effs = Some (VCursorQ cur0).
Proof. intros. eexists. split; [plazy; reflexivity|]. split; reflexivity. Qed.

Lemma go_retrieveBatch_no_response : forall cur0 ok,
  exists effs, run_eff gen_funs prod_globals "Manager.retrieveBatch" (Some (mobj cur0 VNil VNil ok)) [VUnit] =
               Some ([VNil; VErrTag "ErrNoBatch"], effs) /\ writes effs = [] /\ cursor_after effs = Some (VCursorQ cur0).
Proof. intros. eexists. split; [plazy; reflexivity|]. split; reflexivity. Qed.

Lemma go_retrieveBatch_no_batch : forall cur0 ts cur ok,
  exists effs, run_eff gen_funs prod_globals "Manager.retrieveBatch"
                 (Some (mobj cur0 (VRec [("Batch", VNil); ("Timestamp", VZ ts); ("BatchData", VCursorQ cur)]) VNil ok)) [VUnit] =
               Some ([VNil; VErrTag "ErrNoBatch"], effs) /\ writes effs = [] /\ cursor_after effs = Some (VCursorQ cur0).
Proof. intros. eexists. split; [plazy; reflexivity|]. split; reflexivity. Qed.

(* a batch: everything the sequencing layer handed out is passed on, one metadata write, the cursor moves *)
Lemma go_retrieveBatch_batch : forall cur0 txid ts cur ok,
  exists effs,
    run_eff gen_funs prod_globals "Manager.retrieveBatch" (Some (mobj cur0 (resp_val txid ts cur) VNil ok)) [VUnit] =
    Some ([VRec [("Batch", VRec [("Transactions", txs_val txid)]); ("Time", VZ ts); ("Data", VCursorQ cur)];
           if (txid =? 0)%N then VErrTag "ErrNoBatch" else VNil], effs) /\
    writes effs = (if ok then [VEff "put-meta" [VStr "l"; VCursorQ cur]] else []) /\
    cursor_after effs = Some (VCursorQ cur).
Proof.
  intros. unfold resp_val, txs_val, mobj.
  destruct (txid =? 0)%N; destruct ok; (eexists; split; [plazy; reflexivity|]; split; reflexivity).
Qed.

(* every lemma is closed under the global context (bin/tr-golite fails on any "Axioms:" line) *)
Print Assumptions go_retrieveBatch_error.
Print Assumptions go_retrieveBatch_no_response.
Print Assumptions go_retrieveBatch_no_batch.
Print Assumptions go_retrieveBatch_batch.
