(* Check/GoLiteKeyFile.v — the sealing and opening of the proposer key file, FileSystemSigner.saveKeys / loadKeys
   (pkg/signer/file/local.go), translated from the Go source on every run and evaluated with the random source, the key
   derivation, AES-GCM, JSON, the file system and the key objects as scripted collaborators whose calls are logged in
   order WITH THEIR ARGUMENTS.  The lemmas are statements about where each secret goes.

   [go_saveKeys]: for ALL worlds (keys present or not, each collaborator failing or not) the calls are exactly
   [save_expect]: a fresh salt is drawn; the raw keys are taken; the passphrase goes to deriveKeyArgon2 together with
   THAT salt and is then wiped; the derived key goes to aes.NewCipher only; a fresh nonce is drawn; the raw private key
   is sealed under that cipher with THAT nonce; the JSON written is the record {sealed key, that nonce, the PUBLIC key,
   that salt}; it is written ONCE, to the signer's key file, with mode 0600; the derived key and the raw private key
   are wiped; every failure returns an error and writes nothing.
     secret_goes_nowhere_else   in every world the raw private key appears in no call but gcm.Seal and zeroBytes,
                                the passphrase in no call but deriveKeyArgon2 and zeroBytes, the derived key in no
                                call but aes.NewCipher and zeroBytes (looked for in the arguments and in the fields
                                of record arguments).
   [go_loadKeys]: for ALL worlds: the file is READ, never written; a file that does not parse, a salt-less file with
   an empty passphrase, a nonce of the wrong length, a ciphertext that does not open under the key derived from the
   passphrase and the FILE's salt (wrong passphrase, altered file), raw keys that do not parse, or a public key that
   does not belong to the private key: an error, and the signer's keys are NOT set; only when all of these pass are
   the two keys set — to the opened private key and the file's public key. *)
From Coq Require Import String List NArith ZArith Bool Lia.
From Verif Require Import Model.Types Model.Admission Model.GoLite Check.GoLiteTactics gen.GoLiteFuns.
Import ListNotations.
Open Scope string_scope.
Open Scope list_scope.

Definition only (names : list string) : list (string * gfun) :=
  filter (fun p => existsb (fun n => fst p =? n) names) gen_funs.
Definition is_receiver (e : gval) : bool := match e with VEff x _ => x =? "receiver" | _ => false end.
Definition er (ok : bool) : gval := VErr (negb ok).
Definition calls_of (r : list gval * list gval) : list gval := filter (fun e => negb (is_receiver e)) (rev (snd r)).

Definition pass_v : gval := VTok "the passphrase" [].
Definition raw_priv : gval := VTok "the raw private key" [].
Definition raw_pub : gval := VTok "the raw public key" [].
Definition salt_v : gval := VTok "the salt just drawn" [].
Definition nonce_v : gval := VTok "the nonce just drawn" [].
Definition derived_v : gval := VTok "the key derived from the passphrase" [].
Definition block_v : gval := VTok "the AES cipher" [].
Definition sealed_v : gval := VTok "the sealed private key" [].
Definition json_v : gval := VTok "the JSON text" [].
Definition path_v : gval := VStr "the key file".
Definition reader_v : gval := VTok "rand.Reader" [].

(* ---- saveKeys --------------------------------------------------------------------------------------------------- *)
Record sworld := { s_keys : bool; s_rand : bool; s_priv : bool; s_pub : bool; s_cipher : bool; s_gcm : bool;
                   s_nonce : bool; s_json : bool; s_write : bool }.
Definition gcm_v : gval := VOrc "gcm" [("Seal", [sealed_v])].
Definition signer_v (w : sworld) : gval :=
  VObj "FileSystemSigner"
    [("keyFile", path_v);
     ("privateKey", if s_keys w then VOrc "privateKey" [("Raw", [VTuple [raw_priv; er (s_priv w)]])] else VNil);
     ("publicKey", if s_keys w then VOrc "publicKey" [("Raw", [VTuple [raw_pub; er (s_pub w)]])] else VNil)].
Definition save_globals (w : sworld) : env :=
  [("rand.Reader", reader_v);
   ("$pkg", VOrc "pkg" [("rand.Read", [VTuple [salt_v; er (s_rand w)]]); ("deriveKeyArgon2", [derived_v]);
                        ("zeroBytes", [VUnit; VUnit; VUnit]); ("aes.NewCipher", [VTuple [block_v; er (s_cipher w)]]);
                        ("cipher.NewGCM", [VTuple [gcm_v; er (s_gcm w)]]); ("io.ReadFull", [VTuple [nonce_v; er (s_nonce w)]]);
                        ("json.Marshal", [VTuple [json_v; er (s_json w)]]); ("os.WriteFile", [er (s_write w)])])].
Definition run_save (w : sworld) : option (list gval * list gval) :=
  match lookup (only ["FileSystemSigner.saveKeys"]) "FileSystemSigner.saveKeys" with
  | Some fn => interp (bind (exec 400 (only ["FileSystemSigner.saveKeys"]) (save_globals w)
                                  (start_env fn (Some (signer_v w)) [pass_v]) [] (f_body fn))
                            (fun r => RRet (fst r, calls_of r)))
  | None => None
  end.

Definition key_data : gval :=
  VRec [("PrivKeyEncrypted", sealed_v); ("Nonce", nonce_v); ("PubKeyBytes", raw_pub); ("Salt", salt_v)].
Definition fail (cs : list gval) : list gval * list gval := ([VErr true], cs).
Definition save_expect (w : sworld) : list gval * list gval :=
  if negb (s_keys w) then fail [] else
  let c1 := [VEff "pkg.rand.Read" [VZero "make []byte"]] in
  if negb (s_rand w) then fail c1 else
  let c2 := c1 ++ [VEff "privateKey.Raw" []] in
  if negb (s_priv w) then fail c2 else
  let c3 := c2 ++ [VEff "publicKey.Raw" []] in
  if negb (s_pub w) then fail c3 else
  let c4 := c3 ++ [VEff "pkg.deriveKeyArgon2" [pass_v; salt_v; VZ 32]; VEff "pkg.zeroBytes" [pass_v];
                   VEff "pkg.aes.NewCipher" [derived_v]] in
  if negb (s_cipher w) then fail c4 else
  let c5 := c4 ++ [VEff "pkg.cipher.NewGCM" [block_v]] in
  if negb (s_gcm w) then fail c5 else
  let c6 := c5 ++ [VEff "pkg.io.ReadFull" [reader_v; VZero "make []byte"]] in
  if negb (s_nonce w) then fail c6 else
  let c7 := c6 ++ [VEff "gcm.Seal" [VNil; nonce_v; raw_priv; VNil]; VEff "pkg.json.Marshal" [key_data]] in
  if negb (s_json w) then fail c7 else
  let c8 := c7 ++ [VEff "pkg.os.WriteFile" [path_v; json_v; VZ 384]] in        (* 384 = 0600 *)
  if negb (s_write w) then fail c8 else
  ([VNil], c8 ++ [VEff "pkg.zeroBytes" [derived_v]; VEff "pkg.zeroBytes" [raw_priv]]).

Ltac plazy := lazy -[N.eqb N.leb N.ltb N.add N.sub seg_len].
Ltac split_on c := match c with context [?b] => is_var b; match type of b with bool => destruct b end end.
Ltac hstep := match goal with
              | |- (if ?c then _ else _) = _ => split_on c
              | |- _ = Some (if ?c then _ else _) => split_on c
              end; cbv beta iota.
(* walk down a chain of `if negb b then .. else ..` in a hypothesis-free goal *)
Ltac chain := repeat match goal with |- context [if negb ?b then _ else _] => is_var b; destruct b; cbn [negb andb] end.

Lemma go_saveKeys : forall w, run_save w = Some (save_expect w).
Proof.
  intros [k r p q c g n j wr]. destruct k.
  all: plazy.
  all: repeat hstep; reflexivity.
Qed.

(* where a secret is looked for: the arguments of a call and the fields of its record arguments *)
Definition tok_is (name : string) (v : gval) : bool := match v with VTok n [] => n =? name | _ => false end.
Definition mentions (name : string) (e : gval) : bool :=
  match e with
  | VEff _ args => existsb (fun a => tok_is name a || match a with VRec fs => existsb (fun f => tok_is name (snd f)) fs | _ => false end) args
  | _ => false
  end.
Definition call_is (names : list string) (e : gval) : bool :=
  match e with VEff n _ => existsb (fun x => n =? x) names | _ => false end.
Definition confined (secret : string) (allowed : list string) (cs : list gval) : bool :=
  forallb (fun e => negb (mentions secret e) || call_is allowed e) cs.

Lemma secret_goes_nowhere_else : forall w,
  confined "the raw private key" ["gcm.Seal"; "pkg.zeroBytes"] (snd (save_expect w)) = true /\
  confined "the passphrase" ["pkg.deriveKeyArgon2"; "pkg.zeroBytes"] (snd (save_expect w)) = true /\
  confined "the key derived from the passphrase" ["pkg.aes.NewCipher"; "pkg.zeroBytes"] (snd (save_expect w)) = true.
Proof.
  intros [k r p q c g n j wr].
  destruct k; destruct r; destruct p; destruct q; destruct c; destruct g; destruct n; destruct j; destruct wr.
  all: vm_compute; repeat split; reflexivity.
Qed.

(* the same, named, for Props/C19.v *)
Definition secrets_confined (w : sworld) : bool :=
  confined "the raw private key" ["gcm.Seal"; "pkg.zeroBytes"] (snd (save_expect w)) &&
  confined "the passphrase" ["pkg.deriveKeyArgon2"; "pkg.zeroBytes"] (snd (save_expect w)) &&
  confined "the key derived from the passphrase" ["pkg.aes.NewCipher"; "pkg.zeroBytes"] (snd (save_expect w)).
Lemma secrets_are_confined : forall w, secrets_confined w = true.
Proof.
  intros w. destruct (secret_goes_nowhere_else w) as [H1 [H2 H3]]. unfold secrets_confined. rewrite H1, H2, H3. reflexivity.
Qed.
Definition writes_a_file (e : gval) : bool := call_is ["pkg.os.WriteFile"; "pkg.os.Create"; "pkg.os.Rename"; "pkg.os.Remove"] e.
(* ... and the test is not vacuous: the secrets do occur *)
Example secrets_occur :
  let w := {| s_keys := true; s_rand := true; s_priv := true; s_pub := true; s_cipher := true; s_gcm := true;
              s_nonce := true; s_json := true; s_write := true |} in
  existsb (mentions "the raw private key") (snd (save_expect w)) = true /\
  existsb (mentions "the passphrase") (snd (save_expect w)) = true /\
  confined "the raw private key" ["pkg.zeroBytes"] (snd (save_expect w)) = false.
Proof. vm_compute. repeat split; reflexivity. Qed.

(* ---- loadKeys --------------------------------------------------------------------------------------------------- *)
Record lworld := { l_read : bool; l_parse : bool; l_salt : bool; l_pass_empty : bool; l_cipher : bool; l_gcm : bool;
                   l_nonce_len : bool; l_open : bool; l_privparse : bool; l_pubparse : bool; l_match : bool }.
Definition file_salt (w : lworld) : gval := VSeg "the file's salt" 0 (if l_salt w then 16 else 0).
Definition file_nonce (w : lworld) : gval := VSeg "the file's nonce" 0 (if l_nonce_len w then 12 else 5).
Definition file_sealed : gval := VTok "the file's sealed key" [].
Definition file_pub : gval := VTok "the file's public key bytes" [].
Definition file_data (w : lworld) : gval :=
  VRec [("PrivKeyEncrypted", file_sealed); ("Nonce", file_nonce w); ("PubKeyBytes", file_pub); ("Salt", file_salt w)].
Definition lpass (w : lworld) : gval := VSeg "the passphrase" 0 (if l_pass_empty w then 0 else 9).
Definition opened_v : gval := VTok "what the ciphertext opens to" [].
Definition lgcm (w : lworld) : gval := VOrc "gcm" [("NonceSize", [VN 12]); ("Open", [VTuple [opened_v; er (l_open w)]])].
Definition priv_obj (w : lworld) : gval :=
  VOrc "the opened private key" [("GetPublic", [VOrc "its public key" [("Equals", [VBool (l_match w)])]])].
Definition pub_obj : gval := VTok "the file's public key" [].
Definition lsigner : gval := VObj "FileSystemSigner" [("keyFile", path_v); ("privateKey", VNil); ("publicKey", VNil)].
Definition load_globals (w : lworld) : env :=
  [("$pkg", VOrc "pkg" [("os.ReadFile", [VTuple [if l_parse w then VTok "json-of" [file_data w] else VTok "not JSON" []; er (l_read w)]]);
                        ("fallbackDeriveKey", [VTok "legacy-derived key" []]); ("deriveKeyArgon2", [derived_v]);
                        ("aes.NewCipher", [VTuple [block_v; er (l_cipher w)]]); ("cipher.NewGCM", [VTuple [lgcm w; er (l_gcm w)]]);
                        ("crypto.UnmarshalEd25519PrivateKey", [VTuple [priv_obj w; er (l_privparse w)]]);
                        ("crypto.UnmarshalEd25519PublicKey", [VTuple [pub_obj; er (l_pubparse w)]]);
                        ("zeroBytes", [VUnit])])].
Record lobserved := { lo_result : list gval; lo_calls : list gval; lo_priv : option gval; lo_pub : option gval }.
Definition lobserve (r : list gval * list gval) : lobserved :=
  let fields := match filter is_receiver (snd r) with VEff _ [VObj _ fs] :: _ => fs | _ => [] end in
  {| lo_result := fst r; lo_calls := calls_of r; lo_priv := lookup fields "privateKey"; lo_pub := lookup fields "publicKey" |}.
Definition run_load (w : lworld) : option lobserved :=
  match lookup (only ["FileSystemSigner.loadKeys"]) "FileSystemSigner.loadKeys" with
  | Some fn => interp (bind (exec 400 (only ["FileSystemSigner.loadKeys"]) (load_globals w)
                                  (start_env fn (Some lsigner) [lpass w]) [] (f_body fn))
                            (fun r => RRet (lobserve r)))
  | None => None
  end.
Definition refused (cs : list gval) : lobserved :=
  {| lo_result := [VErr true]; lo_calls := cs; lo_priv := Some VNil; lo_pub := Some VNil |}.
Definition load_expect (w : lworld) : lobserved :=
  let c1 := [VEff "pkg.os.ReadFile" [path_v]] in
  if negb (l_read w) then refused c1 else
  if negb (l_parse w) then refused c1 else
  if negb (l_salt w) && l_pass_empty w then refused c1 else
  let key := if l_salt w then derived_v else VTok "legacy-derived key" [] in
  let c2 := c1 ++ [if l_salt w then VEff "pkg.deriveKeyArgon2" [lpass w; file_salt w; VZ 32]
                   else VEff "pkg.fallbackDeriveKey" [lpass w; VZ 32]] ++ [VEff "pkg.aes.NewCipher" [key]] in
  if negb (l_cipher w) then refused c2 else
  let c3 := c2 ++ [VEff "pkg.cipher.NewGCM" [block_v]] in
  if negb (l_gcm w) then refused c3 else
  if negb (l_nonce_len w) then refused c3 else
  let c4 := c3 ++ [VEff "gcm.Open" [VNil; file_nonce w; file_sealed; VNil]] in
  if negb (l_open w) then refused c4 else
  let c5 := c4 ++ [VEff "pkg.crypto.UnmarshalEd25519PrivateKey" [opened_v]] in
  if negb (l_privparse w) then refused c5 else
  let c6 := c5 ++ [VEff "pkg.crypto.UnmarshalEd25519PublicKey" [file_pub]] in
  if negb (l_pubparse w) then refused c6 else
  if negb (l_match w) then refused c6 else
  {| lo_result := [VNil]; lo_calls := c6 ++ [VEff "pkg.zeroBytes" [key]];
     lo_priv := Some (priv_obj w); lo_pub := Some pub_obj |}.

Lemma go_loadKeys : forall w, run_load w = Some (load_expect w).
Proof.
  intros [rd ps sl pe ci gc nl op pp pq ma]. destruct ps; destruct sl; destruct pe; destruct nl.
  all: plazy.
  all: repeat hstep; reflexivity.
Qed.

(* a usable signer comes out only if the ciphertext opened and the public key belongs to the private key; the file is
   never written *)
Lemma keys_set_only_after_every_check : forall w,
  lo_priv (load_expect w) <> Some VNil ->
  l_read w = true /\ l_parse w = true /\ l_nonce_len w = true /\ l_open w = true /\ l_privparse w = true /\
  l_pubparse w = true /\ l_match w = true /\ lo_result (load_expect w) = [VNil].
Proof.
  intros [rd ps sl pe ci gc nl op pp pq ma]. unfold load_expect; cbn [l_read l_parse l_salt l_pass_empty l_cipher l_gcm l_nonce_len l_open l_privparse l_pubparse l_match].
  destruct rd; cbn [negb]; [|intros H; exfalso; apply H; reflexivity].
  destruct ps; cbn [negb]; [|intros H; exfalso; apply H; reflexivity].
  destruct (negb sl && pe); [intros H; exfalso; apply H; reflexivity|].
  destruct ci; cbn [negb]; [|intros H; exfalso; apply H; reflexivity].
  destruct gc; cbn [negb]; [|intros H; exfalso; apply H; reflexivity].
  destruct nl; cbn [negb]; [|intros H; exfalso; apply H; reflexivity].
  destruct op; cbn [negb]; [|intros H; exfalso; apply H; reflexivity].
  destruct pp; cbn [negb]; [|intros H; exfalso; apply H; reflexivity].
  destruct pq; cbn [negb]; [|intros H; exfalso; apply H; reflexivity].
  destruct ma; cbn [negb]; [|intros H; exfalso; apply H; reflexivity].
  intros _. repeat split; reflexivity.
Qed.
Lemma load_never_writes : forall w e, In e (lo_calls (load_expect w)) -> writes_a_file e = false.
Proof.
  intros w e H. assert (Hall : forallb (fun e => negb (call_is ["pkg.os.WriteFile"; "pkg.os.Create"; "pkg.os.Rename"; "pkg.os.Remove"] e))
                                       (lo_calls (load_expect w)) = true).
  { clear. destruct w as [rd ps sl pe ci gc nl op pp pq ma]. unfold load_expect; cbn [l_read l_parse l_salt l_pass_empty l_cipher l_gcm l_nonce_len l_open l_privparse l_pubparse l_match].
    destruct rd; cbn [negb]; [|reflexivity]. destruct ps; cbn [negb]; [|reflexivity].
    destruct sl; destruct pe; cbn [negb andb]; try reflexivity.
    all: destruct ci; cbn [negb]; [|reflexivity]; destruct gc; cbn [negb]; [|reflexivity]; destruct nl; cbn [negb]; [|reflexivity].
    all: destruct op; cbn [negb]; [|reflexivity]; destruct pp; cbn [negb]; [|reflexivity]; destruct pq; cbn [negb]; [|reflexivity].
    all: destruct ma; reflexivity. }
  rewrite forallb_forall in Hall. apply Hall in H. unfold writes_a_file. destruct (call_is _ e); [discriminate|reflexivity].
Qed.

Print Assumptions go_saveKeys.
Print Assumptions secret_goes_nowhere_else.
Print Assumptions go_loadKeys.
Print Assumptions keys_set_only_after_every_check.
Print Assumptions load_never_writes.
Print Assumptions secrets_are_confined.
