(* Check/GoLiteSigner.v — the file signer's entry points and the restart of a submission watermark, translated from the Go
   source on every run and evaluated against scripted collaborators whose calls are logged:

     go_Sign            pkg/signer/file/local.go FileSystemSigner.Sign: for ALL signers and messages, with a key loaded the
                        call hands EXACTLY the caller's message to the private key's Sign, once, returns exactly what it
                        returns, and leaves the signer object as it was — nothing is remembered from one call to the next;
                        without a key it is an error and nothing is called (C19);
     go_LoadFileSystemSigner   for ALL paths, passphrases and failures: the key file is only LOOKED at (os.Stat) and read
                        by loadKeys with the caller's passphrase, once; no other call is made — in particular nothing is
                        written; a missing file, an unreadable one or a failing load is an error (C19);
     go_pendingBase_init   block/pending_base.go: at start-up the recorded last-submitted height is read once; an absent
                        record or a recorded 0 changes nothing, an unreadable or malformed record is an error, and a
                        recorded height n > 0 becomes the in-memory watermark exactly when that is still 0 — the
                        persisted watermark is never lowered and nothing is written (C06). *)
From Coq Require Import String List NArith ZArith Bool Lia.
From Verif Require Import Model.Types Model.Admission Model.GoLite Check.GoLiteTactics gen.GoLiteFuns.
Import ListNotations.
Open Scope string_scope.
Open Scope list_scope.

Definition er (ok : bool) : gval := VErr (negb ok).
Definition is_receiver (e : gval) : bool := match e with VEff x _ => x =? "receiver" | _ => false end.
(* the translated functions that run inside this lemma file; every other call is a scripted collaborator *)
Definition signer_funs : list (string * gfun) :=
  filter (fun p => (fst p =? "FileSystemSigner.Sign") || (fst p =? "FileSystemSigner.GetPublic") || (fst p =? "LoadFileSystemSigner") || (fst p =? "pendingBase.init")) gen_funs.
Definition run_all (globals : env) (name : string) (recv : option gval) (args : list gval) : option (list gval * list gval) :=
  match lookup signer_funs name with
  | Some fn => interp (bind (exec 400 signer_funs globals (start_env fn recv args) [] (f_body fn)) (fun r => RRet (fst r, rev (snd r))))
  | None => None
  end.

Ltac plazy := lazy -[N.eqb N.leb N.ltb N.add N.sub].
Ltac decide_or_case c :=
  let v := eval vm_compute in c in
  match v with
  | true => change c with true
  | false => change c with false
  | _ => destruct c eqn:?
  end.
Ltac split_on c :=
  match c with
  | context [(?a =? ?b)%N] => decide_or_case (a =? b)%N
  | context [?b] => is_var b; match type of b with bool => destruct b end
  end.
Ltac hstep := match goal with
              | |- (if ?c then _ else _) = _ => split_on c
              | |- _ = Some (if ?c then _ else _) => split_on c
              | |- _ = Some (_, if ?c then _ else _) => split_on c
              | |- _ = Some (if ?c then _ else _, _) => split_on c
              end; cbv beta iota.

(* ---- Sign ---- *)
Definition key_v (ok : bool) : gval := VOrc "privateKey" [("Sign", [VTuple [VTok "signature" []; er ok]])].
Definition signer_v (loaded ok : bool) (pub : gval) : gval :=
  VObj "FileSystemSigner" [("privateKey", if loaded then key_v ok else VNil); ("publicKey", pub); ("keyFile", VStr "path")].

Lemma go_Sign : forall loaded ok pub (msg : gval),
  run_all [] "FileSystemSigner.Sign" (Some (signer_v loaded ok pub)) [msg] =
  Some (if loaded
        then ([VTuple [VTok "signature" []; er ok]],
              [VEff "privateKey.Sign" [msg]; VEff "receiver" [signer_v loaded ok pub]])     (* the object as it was *)
        else ([VNil; VErr true], [VEff "receiver" [signer_v loaded ok pub]])).
Proof. intros [] ok pub msg; plazy; reflexivity. Qed.

(* ---- LoadFileSystemSigner ---- *)
Inductive statres := StatOk | StatMissing | StatErr.
Definition stat_answer (s : statres) : gval :=
  match s with
  | StatOk => VTuple [VUnit; VNil]
  | StatMissing => VTuple [VNil; VErrTag "os.ErrNotExist"]
  | StatErr => VTuple [VNil; VErr true]
  end.
Definition load_globals (s : statres) (load_ok : bool) : env :=
  [("$pkg", VOrc "pkg" [("os.Stat", [stat_answer s])]); ("$orc:FileSystemSigner", VOrc "signer" [("loadKeys", [er load_ok])])].
Definition path_v (dir : gval) : gval := VTok "filepath.Join" [dir; VStr "signer.json"].
Definition loaded_signer (dir : gval) (load_ok : bool) : gval :=
  VObj "FileSystemSigner" [("$orc", VOrc "signer" [("loadKeys", [er load_ok])]); ("keyFile", path_v dir)].

Definition load_expect (s : statres) (load_ok : bool) (dir pass : gval) : list gval * list gval :=
  let c1 := [VEff "pkg.os.Stat" [path_v dir]] in
  match s with
  | StatMissing => ([VNil; VErrTag "os.ErrNotExist"], c1)          (* wrapped with %w: still "not exist" to the caller *)
  | StatErr => ([VNil; VErr true], c1)
  | StatOk =>
      let c2 := c1 ++ [VEff "signer.loadKeys" [pass]] in
      if load_ok then ([loaded_signer dir load_ok; VNil], c2) else ([VNil; VErr true], c2)
  end.

Lemma go_LoadFileSystemSigner : forall s load_ok dir pass,
  run_all (load_globals s load_ok) "LoadFileSystemSigner" None [dir; pass] = Some (load_expect s load_ok dir pass).
Proof. intros [] [] dir pass; plazy; reflexivity. Qed.

(* ---- pendingBase.init ---- *)
Inductive metares := MNotFound | MErr | MHeight (n : N) | MBadLength.
Definition meta_answer (r : metares) : gval :=
  match r with
  | MNotFound => VTuple [VNil; VErrTag "ds.ErrNotFound"]
  | MErr => VTuple [VNil; VErr true]
  | MHeight n => VTuple [VLE64 n; VNil]
  | MBadLength => VTuple [VBlobs 3; VNil]
  end.
Definition pb_init_v (r : metares) (cur : N) : gval :=
  VObj "pendingBase" [("store", VOrc "store" [("GetMetadata", [meta_answer r])]); ("metaKey", VStr "key");
                      ("lastHeight", VAtom "lastHeight" cur); ("logger", VUnit)].
Definition init_globals : env := [("ds.ErrNotFound", VErrTag "ds.ErrNotFound"); ("binary.LittleEndian", VUnit)].
Definition read_call : gval := VEff "store.GetMetadata" [VUnit; VStr "key"].
Definition init_expect (r : metares) (cur : N) : list gval * list gval :=
  match r with
  | MNotFound => ([VNil], [read_call])
  | MErr | MBadLength => ([VErr true], [read_call])
  | MHeight n =>
      if (n =? 0)%N then ([VNil], [read_call])
      else ([VNil], if (0 =? cur)%N then [read_call; VEff "lastHeight.store" [VN n]] else [read_call])
  end.
Definition no_receiver (o : option (list gval * list gval)) : option (list gval * list gval) :=
  option_map (fun p => (fst p, filter (fun e => negb (is_receiver e)) (snd p))) o.

Lemma go_pendingBase_init : forall r cur,
  no_receiver (run_all init_globals "pendingBase.init" (Some (pb_init_v r cur)) []) = Some (init_expect r cur).
Proof.
  intros [| |n|] cur; unfold no_receiver, init_expect; plazy; repeat hstep; try reflexivity.
Qed.

Print Assumptions go_Sign.
Print Assumptions go_LoadFileSystemSigner.
Print Assumptions go_pendingBase_init.
