(* C09: comparator for the back-pressure cases with a scheduled consumer (harness/c09 runSched).
   Observed per round, with the real RetrieveLoop quiescent: m.daHeight, len(headerInCh), len(dataInCh). *)
From Coq Require Import NArith List Bool.
From Verif Require Import Model.RetrieverQueue.
Import ListNotations.
Open Scope N_scope.

Record qcase := { qc_cap_h : N; qc_cap_d : N;                (* cap(headerInCh), cap(dataInCh) as measured *)
                  qc_boot : N;                                (* max(stored, configured start) *)
                  qc_heights : list (list qrun_t);            (* heights boot, boot+1, ...: runs of genuine headers / data *)
                  qc_sched : list qround;                     (* (ms away, headers taken at most, data taken at most) *)
                  qc_obs : list qobs_t }.                     (* (cursor, len(headerInCh), len(dataInCh)) per round *)

Definition obs_eqb (a b : qobs_t) : bool :=
  let '(c1, h1, d1) := a in let '(c2, h2, d2) := b in (c1 =? c2) && (h1 =? h2) && (d1 =? d2).

(* mismatch codes: 30 different number of rounds; 1000*(round+1) + 31 the cursor differs, + 32 the fill of
   headerInCh differs, + 33 the fill of dataInCh differs; 34 at the end of the schedule the model has events that
   were not taken or not handed over (the schedule of the harness ends when everything is drained); 35 the model
   lost an event (impossible for HWait: C09_handoff_never_drops_full) *)
Fixpoint obs_diff_q (i : N) (m o : list qobs_t) : list N :=
  match m, o with
  | [], [] => []
  | (c1, h1, d1) :: mt, (c2, h2, d2) :: ot =>
      (if c1 =? c2 then [] else [1000 * (i + 1) + 31]) ++ (if h1 =? h2 then [] else [1000 * (i + 1) + 32]) ++
      (if d1 =? d2 then [] else [1000 * (i + 1) + 33]) ++ obs_diff_q (i + 1) mt ot
  | _, _ => [30]
  end.

Definition check_qcase (q : qcase) : list N :=
  let s0 := qstart (qc_cap_h q) (qc_cap_d q) (qc_boot q) (qc_heights q) in
  let '(os, s) := qrun HWait (qc_cap_h q) (qc_cap_d q) s0 (qc_sched q) in
  let all := concat (qc_heights q) in
  obs_diff_q 0 os (qc_obs q) ++
  (if (q_th s =? count true all) && (q_td s =? count false all) && (q_cursor s =? qc_boot q + N.of_nat (length (qc_heights q)))
   then [] else [34]) ++
  (if (q_lost_h s =? 0) && (q_lost_d s =? 0) then [] else [35]).

Fixpoint qmismatches_from (i : N) (cs : list qcase) : list (N * list N) :=
  match cs with
  | [] => []
  | c :: r => match check_qcase c with
              | [] => qmismatches_from (i + 1) r
              | l => (i, l) :: qmismatches_from (i + 1) r
              end
  end.
