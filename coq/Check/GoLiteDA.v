(* Check/GoLiteDA.v — the node's DA helpers (types/da.go) classify what a DA layer answers exactly as
   Model/Proxy.v says: lemmas over the regenerated coq/gen/GoLiteFuns.v, for ALL answers of the DA layer.
     SubmitWithHelpers   = Proxy.submit_helper   (status code, ids, submitted count, height — every path)
     RetrieveWithHelpers = Proxy.retrieve_helper on every path that does not enter the chunked Get loop
                           (GetIDs error -> not-found / from-the-future / error by message text; nil result or no
                           ids -> not-found).  The loop itself is outside the translated fragment (the translator
                           emits SUnknown "loop"; the evaluator never reaches it on these paths): it is covered by
                           Model/Retriever.v's chunk theorems and the C09 / C16 correspondence.
   Used by C16 (both helpers), C06 (submit status mapping drives the retry loop), C09 (retrieve status mapping). *)
From Coq Require Import String List NArith ZArith Bool Lia.
From Verif Require Import Model.Types Model.Admission Model.GoLite Check.GoLiteTactics gen.GoLiteFuns.
From Verif Require Model.Proxy.
Import ListNotations.
Open Scope string_scope.

Definition submit_obs (v : gval) : option Proxy.sobs :=
  match res_code v with
  | Some c => Some (Proxy.mk_sobs c (res_ids v) (res_count v) (res_height v))
  | None => None
  end.
Definition one_obs (o : option (list gval)) : option Proxy.sobs :=
  match o with Some [v] => submit_obs v | _ => None end.

Ltac dstep := match goal with |- context [if ?c then _ else _] => atom_in c end; cbv beta iota.

Lemma go_SubmitWithHelpers : forall T (ndata : nat) (r : Proxy.sresult),
  one_obs (run_fun gen_funs (da_globals T) "SubmitWithHelpers" None
             [VUnit; VDASubmit r; VUnit; VBlobs ndata; VUnit; VUnit]) =
  Some (Proxy.submit_helper ndata r).
Proof.
  intros T ndata r. destruct r as [ids h | e].
  - destruct ids as [|i ids]; destruct ndata; glazy; reflexivity.
  - unfold Proxy.submit_helper, Proxy.classify_submit. glazy. repeat dstep. all: reflexivity.
Qed.

Definition retrieve_code (o : option (list gval)) : option (Proxy.status * list N) :=
  match o with
  | Some [v] => match res_code v with Some c => Some (c, res_ids v) | None => None end
  | _ => None
  end.

(* the paths of RetrieveWithHelpers before the Get loop *)
Definition no_ids (g : Proxy.gresult) : bool :=
  match g with Proxy.GErr _ | Proxy.GNil | Proxy.GRes [] _ => true | _ => false end.

Lemma go_RetrieveWithHelpers_no_ids : forall T (g : Proxy.gresult) (get : Proxy.getfn) (h : N),
  no_ids g = true ->
  retrieve_code (run_fun gen_funs (da_globals T) "RetrieveWithHelpers" None
                   [VUnit; VDAGetIDs g; VUnit; VN h; VUnit]) =
  Some (Proxy.ro_code (Proxy.retrieve_helper T g get), Proxy.ro_ids (Proxy.retrieve_helper T g get)).
Proof.
  intros T g get h Hg. destruct g as [|ids ts|e]; [| destruct ids as [|i ids]; [|discriminate Hg] |].
  - glazy; reflexivity.
  - glazy; reflexivity.
  - unfold Proxy.retrieve_helper. glazy. repeat dstep. all: reflexivity.
Qed.

(* with ids the helper enters the loop: the translation stops there, and says so *)
Lemma go_RetrieveWithHelpers_loop_outside_fragment : forall T i ids ts h,
  run_fun gen_funs (da_globals T) "RetrieveWithHelpers" None [VUnit; VDAGetIDs (Proxy.GRes (i :: ids) ts); VUnit; VN h; VUnit] = None.
Proof. intros; glazy; reflexivity. Qed.

(* every lemma is closed under the global context (bin/tr-golite fails on any "Axioms:" line) *)
Print Assumptions go_SubmitWithHelpers.
Print Assumptions go_RetrieveWithHelpers_no_ids.
Print Assumptions go_RetrieveWithHelpers_loop_outside_fragment.
