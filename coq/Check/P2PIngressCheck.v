(* Check/P2PIngressCheck.v — correspondence check for Model/P2PIngress.v (C02, P2P ingress stream): the
   harness runs the REAL HeaderStoreRetrieveLoop / DataStoreRetrieveLoop of block/store.go against fake
   go-header stores whose head height it moves (bursts of 1..300 heights between signals, node started far
   behind, clean restarts, a stop in the middle of a burst, read failures), records per wake-up of each loop
   the store height it was given, the GetByHeight calls it made and — when the harness itself is the consumer
   of headerInCh / dataInCh — the events it sent; [mismatches] lists the cases on which the model disagrees,
   or on which the node's height is below what C02_p2p_complete_partial guarantees. *)
From Coq Require Import String NArith ZArith List Bool.
From Verif Require Import Base.KV Base.Keys Model.Types Model.Syncer Model.P2PIngress.
Import ListNotations.
Open Scope list_scope.
Open Scope N_scope.

(* one loop in one process *)
Record lrun := {
  lr_c0 : N;                                 (* the node's store height when the loop started (store.go:13, 68) *)
  lr_junk : list N;                          (* heights whose item the real isUsingExpectedSingleSequencer rejects *)
  lr_sigs : list psignal;                    (* per wake-up: store height returned, read gap in force, DA position *)
  lr_reads : list (list (N * N));            (* GetByHeight calls per wake-up, run-length encoded: (first height,
                                                count) for every maximal run h, h+1, h+2, ... in call order *)
  lr_emit : option (list (list (N * N * N))) (* events taken from headerInCh / dataInCh per wake-up, run-length
                                                encoded: (first height, count, DA tag); None when the real
                                                SyncLoop was the consumer *)
}.

(* decoding of the run-length encoding (lossless: the harness encodes whatever sequence it saw) *)
Fixpoint seq_at (a : N) (n : nat) : list N :=
  match n with O => [] | S k => a :: seq_at (a + 1) k end.
Definition expand_reads (segs : list (N * N)) : list N :=
  flat_map (fun s => seq_at (fst s) (N.to_nat (snd s))) segs.
Definition expand_emit (segs : list (N * N * N)) : list (N * N) :=
  flat_map (fun s => map (fun n => (n, snd s)) (seq_at (fst (fst s)) (N.to_nat (snd (fst s))))) segs.

(* one process of the node *)
Record prun := {
  pr_hdr : lrun;
  pr_data : lrun;
  pr_synced : bool;       (* the real SyncLoop consumed the events *)
  pr_quiescent : bool;    (* ... all of them (the process was not stopped in the middle of a burst) *)
  pr_height_end : N       (* the node's height at the end of the process *)
}.

Record pcase := {
  pc_initial : N;          (* genesis initial height *)
  pc_len : N;              (* blocks of the proposer's chain held by the harness *)
  pc_runs : list prun
}.

Definition accept_of (junk : list N) (n : N) : bool := negb (existsb (N.eqb n) junk).

Fixpoint list_eqb {A} (e : A -> A -> bool) (a b : list A) : bool :=
  match a, b with
  | [], [] => true
  | x :: a', y :: b' => e x y && list_eqb e a' b'
  | _, _ => false
  end.
Definition pair_eqb (a b : N * N) : bool := (fst a =? fst b) && (snd a =? snd b).

Definition reads_agree (l : lrun) : bool :=
  list_eqb (list_eqb N.eqb) (reads_run (accept_of (lr_junk l)) (lr_c0 l) (lr_sigs l)) (map expand_reads (lr_reads l)).
Definition emit_agree (l : lrun) : bool :=
  match lr_emit l with
  | None => true
  | Some e => list_eqb (list_eqb pair_eqb) (fst (loop_run (accept_of (lr_junk l)) (lr_c0 l) (lr_sigs l))) (map expand_emit e)
  end.

(* the conclusion of C02_p2p_complete_partial for one process: the node is at least at every height of the
   chain that both cursors have reached *)
Definition height_bound (c : pcase) (r : prun) : N :=
  let top := pc_initial c + pc_len c - 1 in
  N.min top (N.min (cursor_after (accept_of (lr_junk (pr_hdr r))) (lr_c0 (pr_hdr r)) (lr_sigs (pr_hdr r)))
                   (cursor_after (accept_of (lr_junk (pr_data r))) (lr_c0 (pr_data r)) (lr_sigs (pr_data r)))).
Definition bound_agrees (c : pcase) (r : prun) : bool :=
  if pr_synced r && pr_quiescent r &&
     match lr_junk (pr_hdr r) with [] => true | _ => false end    (* junk heights are not chain material *)
  then height_bound c r <=? pr_height_end r else true.

(* 1 = header loop reads differ, 2 = header events differ, 3 = data loop reads differ, 4 = data events differ,
   5 = node below the height guaranteed by the composition theorem, 6 = node above the chain *)
Definition check_run (c : pcase) (r : prun) : list N :=
  (if reads_agree (pr_hdr r) then [] else [1]) ++
  (if emit_agree (pr_hdr r) then [] else [2]) ++
  (if reads_agree (pr_data r) then [] else [3]) ++
  (if emit_agree (pr_data r) then [] else [4]) ++
  (if bound_agrees c r then [] else [5]) ++
  (if pr_height_end r <=? pc_initial c + pc_len c - 1 then [] else [6]).

Definition check_case (c : pcase) : list N := flat_map (check_run c) (pc_runs c).

Fixpoint mismatches_from (i : N) (cs : list pcase) : list (N * list N) :=
  match cs with
  | [] => []
  | c :: r => match check_case c with
              | [] => mismatches_from (i + 1) r
              | l => (i, l) :: mismatches_from (i + 1) r
              end
  end.
(* case indices of this stream start at 100000 (the event-history stream of C02 uses 0..) *)
Definition mismatches := mismatches_from 100000.
