(* Check/GoLiteSyncEvents.v — how a full node takes in a header or a data event: the cases `headerInCh` and `dataInCh` of
   the event loop Manager.SyncLoop, and Manager.handleEmptyDataHash (block/sync.go), translated from the Go source on
   every run (one function per case of the loop's select), evaluated with the store, the two caches, trySyncNextBlock
   (its own lemma: Check/GoLiteSync.v) and the error channel as scripted collaborators whose calls are logged.

   For ALL worlds (heights, seen or not, store failures, a failing sync, empty / non-empty data, metadata or none):
     go_SyncLoop_header   a header at or below the store height, or already seen, is dropped with nothing cached; otherwise
                          it is cached at ITS height, the empty-data shortcut is taken, the sync is tried with the event's
                          DA height, and ONLY after a sync without error is the header marked seen; a sync error is
                          reported once and ends the loop;
     go_SyncLoop_data     data without transactions or without metadata is dropped; seen data, and data at or below the
                          store height, are dropped; otherwise cached at its metadata height, sync tried, marked seen only
                          after a sync without error;
     go_handleEmptyDataHash   for a header with the empty data hash, and only then, an empty Data with metadata (chain id,
                          height, time, hash of the previous data if readable) is cached at the header's height.
   This is Syncer.on_header / on_data read off the code.   Used by C02 and C05. *)
From Coq Require Import String List NArith ZArith Bool Lia.
From Verif Require Import Model.Types Model.Admission Model.GoLite Check.GoLiteTactics gen.GoLiteFuns.
Import ListNotations.
Open Scope string_scope.
Open Scope list_scope.

Definition er (ok : bool) : gval := VErr (negb ok).
Definition ctx : gval := VUnit.
Definition ev_funs : list (string * gfun) :=
  filter (fun p => (fst p =? "Manager.SyncLoop$headerInCh") || (fst p =? "Manager.SyncLoop$dataInCh")) gen_funs.
Definition is_receiver (e : gval) : bool := match e with VEff x _ => x =? "receiver" | _ => false end.
Definition run_ev (fs : list (string * gfun)) (globals : env) (name : string) (recv : gval) (args : list gval) : option (list gval * list gval) :=
  match lookup fs name with
  | Some fn => interp (bind (exec 400 fs globals (start_env fn (Some recv) args) [] (f_body fn))
                            (fun r => RRet (fst r, filter (fun e => negb (is_receiver e)) (rev (snd r)))))
  | None => None
  end.

Record eworld := { e_H : N; e_hok : bool; e_h : N; e_da : N; e_seen : bool; e_sync_ok : bool;
                   e_nonempty : bool; e_meta : bool }.
Definition ev_mgr (w : eworld) : gval :=
  VObj "Manager" [("logger", VUnit);
                  ("config", VRec [("DA", VRec [("BlockTime", VRec [("Duration", VZ 1)])]); ("Node", VRec [("BlockTime", VRec [("Duration", VZ 1)])])]);
                  ("store", VOrc "store" [("Height", [VTuple [VN (e_H w); er (e_hok w)]])]);
                  ("headerCache", VOrc "headerCache" [("IsSeen", [VBool (e_seen w)]); ("SetItem", [VUnit]); ("SetSeen", [VUnit])]);
                  ("dataCache", VOrc "dataCache" [("IsSeen", [VBool (e_seen w)]); ("SetItem", [VUnit]); ("SetSeen", [VUnit])]);
                  ("$orc", VOrc "m" [("recordSyncMetrics", [VUnit]); ("handleEmptyDataHash", [VUnit]);
                                     ("trySyncNextBlock", [er (e_sync_ok w)])])].
Definition ev_globals : env :=
  [("$continue", VTok "continue" []); ("time.Second", VZ 1000); ("$pkg", VOrc "pkg" [("sendError", [VUnit])])].
Definition go_on : list gval := [VTok "continue" []].

(* ---- a header event ---- *)
Definition header_v (w : eworld) : gval :=
  VRec [("Hash()", VTok "header-hash" []); ("Height()", VN (e_h w)); ("Header", VTok "header" [])].
Definition header_event (w : eworld) : gval := VRec [("Header", header_v w); ("DAHeight", VN (e_da w))].
Definition hash_s : gval := VTok "String" [VTok "header-hash" []].

Definition header_expect (w : eworld) : list gval * list gval :=
  let c1 := [VEff "store.Height" [ctx]] in
  if negb (e_hok w) then (go_on, c1) else
  if (e_h w <=? e_H w)%N || e_seen w then (go_on, c1) else
  let c2 := c1 ++ [VEff "headerCache.SetItem" [VN (e_h w); header_v w]; VEff "m.recordSyncMetrics" [VStr "header_synced"];
                   VEff "m.handleEmptyDataHash" [ctx; VTok "header" []]; VEff "m.trySyncNextBlock" [ctx; VN (e_da w)]] in
  if negb (e_sync_ok w) then ([], c2 ++ [VEff "pkg.sendError" [ctx; VTok "errCh" []; VErr true]])
  else (go_on, c2 ++ [VEff "headerCache.SetSeen" [hash_s]]).

(* ---- a data event ---- *)
Definition data_v (w : eworld) : gval :=
  VRec [("Txs", if e_nonempty w then VTxsQ 1 else VList []);
        ("Metadata", if e_meta w then VRec [("Height", VN (e_h w))] else VNil);
        ("DACommitment()", VTok "data-commitment" [])].
Definition data_event (w : eworld) : gval := VRec [("Data", data_v w); ("DAHeight", VN (e_da w))].
Definition dhash_s : gval := VTok "String" [VTok "data-commitment" []].

Definition data_expect (w : eworld) : list gval * list gval :=
  if negb (e_nonempty w) || negb (e_meta w) then (go_on, []) else
  if e_seen w then (go_on, []) else
  let c1 := [VEff "store.Height" [ctx]] in
  if negb (e_hok w) then (go_on, c1) else
  if (e_h w <=? e_H w)%N then (go_on, c1) else
  let c2 := c1 ++ [VEff "dataCache.SetItem" [VN (e_h w); data_v w]; VEff "m.recordSyncMetrics" [VStr "data_synced"];
                   VEff "m.trySyncNextBlock" [ctx; VN (e_da w)]] in
  if negb (e_sync_ok w) then ([], c2 ++ [VEff "pkg.sendError" [ctx; VTok "errCh" []; VErr true]])
  else (go_on, c2 ++ [VEff "dataCache.SetSeen" [dhash_s]]).

Ltac plazy := lazy -[N.eqb N.leb N.ltb N.add N.sub].
Ltac decide_or_case c :=
  let v := eval vm_compute in c in
  match v with
  | true => change c with true
  | false => change c with false
  | _ => destruct c eqn:?
  end.
Ltac split_on c :=
  match c with
  | context [(?a <=? ?b)%N] => decide_or_case (a <=? b)%N
  | context [(?a <? ?b)%N] => decide_or_case (a <? b)%N
  | context [(?a =? ?b)%N] => decide_or_case (a =? b)%N
  | context [?b] => is_var b; match type of b with bool => destruct b end
  end.
Ltac hstep := match goal with
              | |- (if ?c then _ else _) = _ => split_on c
              | |- _ = Some (if ?c then _ else _) => split_on c
              end; cbv beta iota.

Lemma go_SyncLoop_header : forall w,
  run_ev ev_funs ev_globals "Manager.SyncLoop$headerInCh" (ev_mgr w) [ctx; VTok "errCh" []; header_event w] = Some (header_expect w).
Proof. intros [H hok h da seen sok ne mt]. unfold header_expect. plazy. repeat hstep; reflexivity. Qed.

Lemma go_SyncLoop_data : forall w,
  run_ev ev_funs ev_globals "Manager.SyncLoop$dataInCh" (ev_mgr w) [ctx; VTok "errCh" []; data_event w] = Some (data_expect w).
Proof. intros [H hok h da seen sok ne mt]. unfold data_expect. destruct ne, mt; plazy; repeat hstep; reflexivity. Qed.

(* ---- handleEmptyDataHash ---- *)
Record hworld := { x_h : N; x_dh : N; x_prev_ok : bool }.
Definition hx_header (w : hworld) : gval :=
  VRec [("Height()", VN (x_h w)); ("DataHash", VIdD (x_dh w)); ("ChainID()", VTok "chain" []); ("BaseHeader", VRec [("Time", VTok "time" [])])].
Definition hx_mgr (w : hworld) : gval :=
  VObj "Manager" [("logger", VUnit);
                  ("store", VOrc "store" [("GetBlockData", [if x_prev_ok w then VTuple [VUnit; VRec [("Hash()", VTok "previous-data-hash" [])]; VNil]
                                                            else VTuple [VNil; VNil; VErr true]])]);
                  ("dataCache", VOrc "dataCache" [("SetItem", [VUnit])])].
Definition empty_data_v (w : hworld) (ldh : gval) : gval :=
  VRec [("Metadata", VRec [("ChainID", VTok "chain" []); ("Height", VN (x_h w)); ("Time", VTok "time" []); ("LastDataHash", ldh)])].
Definition sub64 := Throttle.sub64.
Definition empty_hash_expect (w : hworld) : list gval * list gval :=
  if (x_dh w =? 0)%N then
    if (1 <? x_h w)%N then
      let c1 := [VEff "store.GetBlockData" [ctx; VN (sub64 (x_h w) 1)]] in
      ([], c1 ++ [VEff "dataCache.SetItem" [VN (x_h w); empty_data_v w (if x_prev_ok w then VTok "previous-data-hash" [] else VZero "types.Hash")]])
    else ([], [VEff "dataCache.SetItem" [VN (x_h w); empty_data_v w (VZero "types.Hash")]])
  else ([], []).

Lemma go_handleEmptyDataHash : forall w,
  run_ev (filter (fun p => (fst p =? "Manager.handleEmptyDataHash")) gen_funs) [("dataHashForEmptyTxs", VIdD 0)] "Manager.handleEmptyDataHash" (hx_mgr w) [ctx; hx_header w] = Some (empty_hash_expect w).
Proof.
  intros [h dh pok]. unfold empty_hash_expect. destruct pok.
  all: lazy -[N.eqb N.leb N.ltb N.add N.sub sub64 Throttle.sub64]; repeat hstep; reflexivity.
Qed.

Print Assumptions go_SyncLoop_header.
Print Assumptions go_SyncLoop_data.
Print Assumptions go_handleEmptyDataHash.
