(* Check/AdmissionCheck.v — correspondence check for Model/Admission.v.  The harness (harness/c03) writes
   what the real code did on real bytes, labelled with the symbolic description of each item:
   (A) admission cases: per DA blob the six observables of handlePotentialHeader/Data plus the direct
       answers of isUsingExpectedSingleSequencer / isValidSignedData / ValidateBasic; per gossip pair the
       answers of hdr.Validate() and header.Verify(trusted, untrusted);
   (E) end-to-end cases: a real syncing Manager (SyncLoop, store loops, DA includer under synctest) fed an
       interleaving of genuine and adversarial items: per item outcome, and the end state.
       A crowded DA height arrives as ONE item [IDAHeight]: the real node reads it with processNextDAHeaderAndData
       from a DA double (GetIDs + batched Get through types.RetrieveWithHelpers); observed: how many of its blobs
       got a DA-included mark, and the (first id, count) of every Get call.  The blob list is written run-length
       ([rl]) and expanded here.
       A range of the P2P header store arrives as ONE item [IStoreRange]: the headers are appended to the node's real
       go-header store in one store.Append and the real HeaderStoreRetrieveLoop reads them in one pass; observed: how many
       of them the sync loop took (headerCache.IsSeen before / after), and the end state.
       Headers altered in a field outside Model/Types.header (ValidatorHash, LastCommitHash, ConsensusHash,
       LastResultsHash, Version) differ from their original in [h_app]: the harness names h_app by the pair (AppHash,
       those fields), the AppHash alone for the values the proposer's headers carry.
   (A, continued) the tie of transaction DATA to the signed header, in the admission cases:
       [ac_val]: the real types.Validate(header, data) and Manager.execValidate(state, header, data) on a genuine
       signed header of the aggregator's chain and data whose transaction list is a near miss of the proposer's
       (the same bytes cut at other boundaries, a boundary moved by one byte, empty transactions added, all merged,
       reordered, rotated, truncated, duplicated, one bit flipped, protobuf framing inside a transaction, an exact
       copy), with and without Metadata;
       [ac_cmt]: the real DACommitment of two such byte-level transaction lists: are they equal; and the bytes
       leafPrefix ++ Data{Txs}.MarshalBinary() of the first, with whether their SHA-256 IS its DACommitment
       — compared with Model/AdmissionCommit.v (commit_preimage).
   [mismatches] lists the cases on which the model disagrees (index, what differs). *)
From Coq Require Import NArith ZArith List Bool.
From Verif Require Import Model.Types Model.Admission Model.AdmissionCommit.
Import ListNotations.

Definition bool_eqb (a b : bool) : bool := if a then b else negb b.
Definition is_some {A} (o : option A) : bool := match o with Some _ => true | None => false end.

Fixpoint list_eqb {A} (e : A -> A -> bool) (a b : list A) : bool :=
  match a, b with
  | [], [] => true
  | x :: a', y :: b' => e x y && list_eqb e a' b'
  | _, _ => false
  end.

(* run-length description of the blobs of a DA height: n copies of b for each (n, b), in id order *)
Fixpoint rl (segs : list (N * blob)) : list blob :=
  match segs with
  | [] => []
  | (n, b) :: r => repeat b (N.to_nat n) ++ rl r
  end.

Record da_obs := { ob_handled : bool; ob_hevent : bool; ob_hmark : bool; ob_devent : bool; ob_dmark : bool;
                   ob_panic : bool;
                   ob_direct : bool;     (* BHdr: isUsingExpectedSingleSequencer; BData: isValidSignedData; else false *)
                   ob_basic : bool }.    (* BHdr: ValidateBasic() == nil; else false *)

Definition check_blob (g : genesis) (b : blob) (o : da_obs) : bool :=
  let m := da_admit g [] [] b in
  bool_eqb (o_handled m) (ob_handled o) && bool_eqb (is_some (o_hevent m)) (ob_hevent o) &&
  bool_eqb (is_some (o_hmark m)) (ob_hmark o) && bool_eqb (is_some (o_devent m)) (ob_devent o) &&
  bool_eqb (is_some (o_dmark m)) (ob_dmark o) && bool_eqb (o_panic m) (ob_panic o) &&
  match b with
  | BHdr sh => bool_eqb (is_expected_sequencer g sh) (ob_direct o) && bool_eqb (validate_basic sh) (ob_basic o)
  | BData sd => bool_eqb (is_valid_signed_data g sd) (ob_direct o)
  | _ => true
  end.

Record p2p_obs := { po_trusted : sheader; po_untrusted : sheader; po_validate : bool; po_verdict : verdict;
                    po_stored : bool }.   (* appended to the real go-header store initialised with [trusted] *)
Definition check_p2p (now : Z) (o : p2p_obs) : bool :=
  bool_eqb (p2p_validate (po_untrusted o)) (po_validate o) &&
  (* go-header only verifies what validated *)
  (if po_validate o then verdict_eqb (p2p_verify now (po_trusted o) (po_untrusted o)) (po_verdict o) else true) &&
  bool_eqb (hstore_accepts now [po_trusted o] (po_untrusted o)) (po_stored o).

(* two byte-level transaction lists and what the real code says about their commitments *)
Record cmt_obs := { co_a : list btx; co_b : list btx;
                    co_eq : bool;            (* bytes.Equal(Data{a}.DACommitment(), Data{b}.DACommitment()) *)
                    co_pre : list byte;      (* leafPrefix ++ Data{Txs: a}.MarshalBinary(), from the real marshaller *)
                    co_pre_ok : bool }.      (* sha256(co_pre) == Data{a}.DACommitment() *)
Definition check_cmt (o : cmt_obs) : bool :=
  bool_eqb (same_commitment (co_a o) (co_b o)) (co_eq o) &&
  bytes_eqb (commit_preimage (co_a o)) (co_pre o) && co_pre_ok o.

(* a signed header, data, and the answers of types.Validate / execValidate *)
Record val_obs := { vo_state : cstate; vo_hdr : sheader; vo_data : data;
                    vo_validate : bool;      (* types.Validate(header, data) == nil *)
                    vo_exec : bool }.        (* Manager.execValidate(state, header, data) == nil *)
Definition check_val (o : val_obs) : bool :=
  bool_eqb (validate_pair (vo_hdr o) (vo_data o)) (vo_validate o) &&
  bool_eqb (validate (vo_state o) (vo_hdr o) (vo_data o)) (vo_exec o).

Record adm_case := { ac_gen : genesis; ac_now : Z; ac_blobs : list (blob * da_obs); ac_p2p : list p2p_obs;
                     ac_cmt : list cmt_obs; ac_val : list val_obs }.

Record e2e_case := {
  ec_gen : genesis; ec_now : Z; ec_tb : exec_tbl; ec_app0 : root; ec_t0 : Z;
  ec_items : list item;
  ec_outs : list N;                 (* per item: 0 nothing, 1 handled-skipped, 2 admitted/stored, 3 panic;
                                       a DA height: 10 + number of its blobs that got a DA-included mark;
                                       a header-store range: 20 + number of its headers the sync loop took (0: not appended) *)
  ec_fetch : list (list (N * N));   (* per IDAHeight item, in order: the da.Get calls (index of the first id, number of ids) *)
  ec_height : N; ec_halted : bool; ec_crashed : bool; ec_dainc : N;
  ec_applied : list header;         (* headers of the stored blocks, newest first *)
  ec_app : root;                    (* lastState.AppHash *)
  ec_hstore : N; ec_dstore : N      (* heights of the two go-header stores (0 = uninitialised) *)
}.

Inductive case := CAdm (c : adm_case) | CE2E (c : e2e_case).

Definition store_height_h (l : list sheader) : N := match l with [] => 0%N | t :: _ => h_height (sh_hdr t) end.
Definition store_height_d (l : list data) : N :=
  match l with [] => 0%N | t :: _ => match d_meta t with Some m => m_height m | None => 0%N end end.

Definition pair_eqb (a b : N * N) : bool := (fst a =? fst b)%N && (snd a =? snd b)%N.
(* the Get calls of the DA heights the node read (a crashed node reads nothing) *)
Fixpoint height_calls (g : genesis) (now : Z) (tb : exec_tbl) (s : nstate) (l : list item) : list (list (N * N)) :=
  match l with
  | [] => []
  | i :: r =>
      (match i with IDAHeight bl => if n_crashed s then [] else [get_calls bl] | _ => [] end) ++
      height_calls g now tb (fst (node_step g now tb s i)) r
  end.

(* 1 = a DA blob observable differs, 2 = a gossip observable differs, 3 = per-item outcomes differ,
   4 = end state differs, 5 = the Get calls of a DA height differ, 6 = a commitment observable differs (equality of two
   commitments / the hashed bytes), 7 = types.Validate / execValidate on a (header, data) pair differs *)
Definition check_case (c : case) : list N :=
  match c with
  | CAdm a =>
      (if forallb (fun e => check_blob (ac_gen a) (fst e) (snd e)) (ac_blobs a) then [] else [1%N]) ++
      (if forallb (check_p2p (ac_now a)) (ac_p2p a) then [] else [2%N]) ++
      (if forallb check_cmt (ac_cmt a) then [] else [6%N]) ++
      (if forallb check_val (ac_val a) then [] else [7%N])
  | CE2E e =>
      let '(s, outs) := node_run (ec_gen e) (ec_now e) (ec_tb e) (node_init (ec_gen e) (ec_app0 e) (ec_t0 e)) (ec_items e) in
      (if list_eqb N.eqb outs (ec_outs e) then [] else [3%N]) ++
      (if (n_height s =? ec_height e)%N && bool_eqb (n_halted s) (ec_halted e) &&
          bool_eqb (n_crashed s) (ec_crashed e) &&
          (da_included_height (ec_gen e) s =? ec_dainc e)%N &&
          list_eqb header_eqb (map (fun b => sh_hdr (fst b)) (n_applied s)) (ec_applied e) &&
          (s_app (n_state s) =? ec_app e)%N &&
          (store_height_h (n_hstore s) =? ec_hstore e)%N && (store_height_d (n_dstore s) =? ec_dstore e)%N
       then [] else [4%N]) ++
      (if list_eqb (list_eqb pair_eqb)
            (height_calls (ec_gen e) (ec_now e) (ec_tb e) (node_init (ec_gen e) (ec_app0 e) (ec_t0 e)) (ec_items e)) (ec_fetch e)
       then [] else [5%N])
  end.

Fixpoint mismatches_from (i : N) (cs : list case) : list (N * list N) :=
  match cs with
  | [] => []
  | c :: r => match check_case c with
              | [] => mismatches_from (i + 1) r
              | l => (i, l) :: mismatches_from (i + 1) r
              end
  end.
Definition mismatches := mismatches_from 0.
