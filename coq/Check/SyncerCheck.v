(* Check/SyncerCheck.v — correspondence check for Model/Syncer.v (C02, C05): the harness writes the
   proposer chain it obtained from a real aggregator Manager (as symbolic terms; the aggregator and the
   syncing node are configured with the case's signature payload provider), the history it drove
   through a real syncing Manager (events, some with a store.Height() call of their handling made to
   fail, clean restarts, crashes), and what it observed after every item; [mismatches] lists the cases
   on which the model disagrees. *)
From Coq Require Import String NArith ZArith List Bool.
From Verif Require Import Base.KV Base.Keys Model.Types Model.Syncer.
Import ListNotations.
Open Scope list_scope.
Open Scope N_scope.

(* the execution layer of a case: finite table (previous root, height) -> new root *)
Definition exec_of (tbl : list (root * N * root)) : root -> N -> Z -> list tx -> root :=
  fun prev n _ _ =>
    match find (fun e => (fst (fst e) =? prev) && (snd (fst e) =? n)) tbl with
    | Some e => snd e
    | None => 999999
    end.

Definition sig_eqb (a b : sigterm) : bool :=
  match a, b with
  | Sig k p, Sig k' p' => (k =? k') && header_eqb p p'
  | SigData k t m, SigData k' t' m' => (k =? k') && commitment_eqb t t' && (m =? m')
  | SigJunk x, SigJunk y => x =? y
  | SigEmpty, SigEmpty => true
  | _, _ => false
  end.
Definition signer_eqb (a b : signer) : bool :=
  match sg_pub a, sg_pub b with
  | Some p, Some q => pubkey_eqb p q
  | None, None => true
  | _, _ => false
  end && addr_eqb (sg_addr a) (sg_addr b).
Definition sheader_eqb (a b : sheader) : bool :=
  header_eqb (sh_hdr a) (sh_hdr b) && sig_eqb (sh_sig a) (sh_sig b) && signer_eqb (sh_signer a) (sh_signer b).

(* observation after one item *)
Record obs := {
  o_height : N;                      (* store.Height *)
  o_status : N;                      (* 0 running, 1 SyncLoop returned with an error, 2 NewManager failed *)
  o_state : option (N * Z * root);   (* store.GetState: LastBlockHeight, LastBlockTime, AppHash *)
  o_last : N * Z * root;             (* Manager.GetLastState *)
  o_calls : N;                       (* ExecuteTxs calls of completed steps so far *)
  o_da : option N * N * N            (* State.DAHeight: in the store, in Manager.lastState, and the DA scan
                                        position Manager.daHeight the process started with / is at *)
}.

(* short form for the generated case files *)
Definition ob (h st : N) (s : option (N * Z * root)) (l : N * Z * root) (c : N) (d1 : option N) (d2 d3 : N) : obs :=
  {| o_height := h; o_status := st; o_state := s; o_last := l; o_calls := c; o_da := (d1, d2, d3) |}.

Inductive wshape := WS | WB (n : N) | WT (n : N) | WOther.
Definition prim_shape (p : prim sval) : wshape :=
  match p with
  | Put _ (VState _) => WS
  | Put _ (VBlock sh _) => WB (h_height (sh_hdr sh))
  | Put _ (VHeight n) => WT n
  | Del _ => WOther
  end.
Definition write_shape (w : wr) : wshape :=
  match w with W1 p => prim_shape p | WBatch [p] => prim_shape p | WBatch _ => WOther end.
Definition wshape_eqb (a b : wshape) : bool :=
  match a, b with
  | WS, WS => true | WB x, WB y | WT x, WT y => x =? y | WOther, WOther => true | _, _ => false end.

(* short forms for the generated case files *)
Definition FE (e : event) : fitem := FEv e None.              (* an event whose handling met no read fault *)
Definition FF (e : event) (n : nat) : fitem := FEv e (Some n).  (* the (n+1)-th store.Height() call of its handling failed *)

Record scase := {
  sc_cfg : config;
  sc_prov : N;                                    (* signature payload provider of the chain and of the syncing node:
                                                     0 = types.DefaultSignaturePayloadProvider, p > 0 = the harness's p-th *)
  sc_exec : list (root * N * root);
  sc_chain : list block;                          (* the aggregator's chain *)
  sc_hist : list fitem;
  sc_obs : list obs;                              (* after the first boot and after every item *)
  sc_ws : list (list wshape);                     (* recorded atomic writes of the first boot and of every item *)
  sc_log : list (N * Z * root * list tx);         (* the syncing node's ExecuteTxs calls at the end *)
  sc_blocks : list (N * option (sheader * list tx))   (* final store: height -> header and txs *)
}.

Section W.
  Variable exec : root -> N -> Z -> list tx -> root.
  Variable prov : N.

  Definition item_ws (g : config) (nd : node) (i : fitem) : list wr :=
    match i with
    | FEv e flt => snd (process_f exec prov nd e flt)
    | FRestart => snd (boot_p exec prov g (n_disk nd) (restart_files nd) (n_log nd))
    | FCrash e k =>
        let ws := snd (process_f exec prov nd e None) in
        firstn k ws ++ snd (boot_p exec prov g (crash_after k (n_disk nd) ws) (n_files nd) (n_log nd))
    | FCrashBoot k =>
        let bw := snd (boot_p exec prov g (n_disk nd) (n_files nd) (n_log nd)) in
        firstn k bw ++ snd (boot_p exec prov g (crash_after k (n_disk nd) bw) (n_files nd) (n_log nd))
    end.

  (* the node after one item together with the writes it made: every step is evaluated once (item_step_spec) *)
  Definition item_step (g : config) (nd : node) (i : fitem) : node * list wr :=
    match i with
    | FEv e flt => process_f exec prov nd e flt
    | FRestart => boot_p exec prov g (n_disk nd) (restart_files nd) (n_log nd)
    | FCrash e k =>
        let ws := snd (process_f exec prov nd e None) in
        let b := boot_p exec prov g (crash_after k (n_disk nd) ws) (n_files nd) (n_log nd) in
        (fst b, firstn k ws ++ snd b)
    | FCrashBoot k =>
        let bw := snd (boot_p exec prov g (n_disk nd) (n_files nd) (n_log nd)) in
        let b := boot_p exec prov g (crash_after k (n_disk nd) bw) (n_files nd) (n_log nd) in
        (fst b, firstn k bw ++ snd b)
    end.

  Lemma item_step_spec g nd i : item_step g nd i = (fstep exec prov g nd i, item_ws g nd i).
  Proof. destruct i; cbn [item_step fstep item_ws]; try reflexivity; apply surjective_pairing. Qed.

  Fixpoint trace (g : config) (nd : node) (h : list fitem) : list (node * list wr) :=
    match h with
    | [] => []
    | i :: r => let p := item_step g nd i in p :: trace g (fst p) r
    end.
End W.

Definition st3 (s : cstate) : N * Z * root := (s_height s, s_time s, s_app s).
Definition t3_eqb (a b : N * Z * root) : bool :=
  (fst (fst a) =? fst (fst b)) && (snd (fst a) =? snd (fst b))%Z && (snd a =? snd b).
Definition status_code (s : status) : N :=
  match s with Running => 0 | Halted => 1 | BootFailed => 2 | FuelOut => 3 end.

Definition obs_agrees (nd : node) (o : obs) : bool :=
  (d_height (n_disk nd) =? o_height o) && (status_code (n_status nd) =? o_status o) &&
  match d_state (n_disk nd), o_state o with
  | Some s, Some t => t3_eqb (st3 s) t
  | None, None => true
  | _, _ => false
  end &&
  t3_eqb (st3 (n_last nd)) (o_last o) && (N.of_nat (length (n_log nd)) =? o_calls o) &&
  (* the persisted DA cursor: next_state copies s_da, nothing in SyncLoop/trySyncNextBlock writes it, and
     NewManager starts the scan from the stored value (config DA.StartHeight = 0 in the harness) *)
  match d_state (n_disk nd), fst (fst (o_da o)) with
  | Some s, Some x => s_da s =? x
  | None, None => true
  | _, _ => false
  end && (s_da (n_last nd) =? snd (fst (o_da o))) && (s_da (n_last nd) =? snd (o_da o)).

Fixpoint list_eqb {A B} (e : A -> B -> bool) (a : list A) (b : list B) : bool :=
  match a, b with
  | [], [] => true
  | x :: a', y :: b' => e x y && list_eqb e a' b'
  | _, _ => false
  end.

Definition call_agrees (c : call) (o : N * Z * root * list tx) : bool :=
  let '(n, t, p, txs) := o in
  (x_height c =? n) && (x_time c =? t)%Z && (x_prev c =? p) && commitment_eqb (x_txs c) txs.

Definition block_agrees (m : img) (e : N * option (sheader * list tx)) : bool :=
  match d_block m (fst e), snd e with
  | Some (sh, d), Some (sh', txs) => sheader_eqb sh sh' && commitment_eqb (d_txs d) txs
  | None, None => true
  | _, _ => false
  end.

(* 1 = observations differ, 2 = write log differs, 3 = execution calls differ, 4 = final blocks differ,
   5 = the aggregator's chain is not ChainValidP for the case's provider (the hypothesis of the theorems:
       every header signed by the proposer over the payload of that provider) *)
Definition check_case (c : scase) : list N :=
  let ex := exec_of (sc_exec c) in
  let g := sc_cfg c in
  let pv := sc_prov c in
  let nd0 := finit ex pv g in
  let tr := (nd0, snd (boot_p ex pv g [] empty_cache [])) :: trace ex pv g nd0 (sc_hist c) in
  let final := last (map fst tr) nd0 in
  (if list_eqb obs_agrees (map fst tr) (sc_obs c) then [] else [1]) ++
  (if list_eqb (list_eqb wshape_eqb) (map (fun x => map write_shape (snd x)) tr) (sc_ws c) then [] else [2]) ++
  (if list_eqb call_agrees (n_log final) (sc_log c) then [] else [3]) ++
  (if forallb (block_agrees (n_disk final)) (sc_blocks c) then [] else [4]) ++
  (if (1 <=? g_initial g) && addr_eqb (g_proposer g) (Addr 1) &&
      chain_fromb_p ex pv g 1 None (g_initial g) (g_time g) (g_initroot g) (sc_chain c) then [] else [5]).

Fixpoint mismatches_from (i : N) (cs : list scase) : list (N * list N) :=
  match cs with
  | [] => []
  | c :: r => match check_case c with
              | [] => mismatches_from (i + 1) r
              | l => (i, l) :: mismatches_from (i + 1) r
              end
  end.
Definition mismatches := mismatches_from 0.
