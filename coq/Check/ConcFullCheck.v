(* Check/ConcFullCheck.v — C13 part A, full node: the observable part of the joint invariant of Model/ConcFull.v
   (fcheck: state height = store height, the committed store is exactly a prefix of the proposer's chain,
   DA-included <= height, DA-included <= persisted <= finalized <= DA-included + 1) evaluated on the state of the REAL
   full node after it has halted (harness/c13), against the proposer's chain the harness produced with a real
   aggregator.  Ids are indices of header hashes / data commitments (0 = no transactions).
   Proofs/ConcFullProofs.fcheck_reachable: every reachable model state outside the window between `put /s` and
   `put /t` satisfies fcheck = []. *)
From Coq Require Import NArith List Bool.
From Verif Require Import Model.Conc Model.ConcFull.
Import ListNotations.
Open Scope N_scope.

Record fcase := {
  fc_id : N;
  fc_chain : list (N * (N * N));        (* height, (header id, data id) of the proposer's chain *)
  fc_blocks : list (N * (N * N));       (* what the full node's store holds *)
  fc_ht : N; fc_sth : N; fc_di : N; fc_pdi : N; fc_fin : N
}.

Definition lookup (l : list (N * (N * N))) (h : N) : option (N * N) :=
  match find (fun p => N.eqb (fst p) h) l with Some p => Some (snd p) | None => None end.

Definition fshared_of (c : fcase) : fshared :=
  {| fblk := lookup (fc_blocks c); fht := fc_ht c; fsth := fc_sth c; hc := fun _ => None; dc := fun _ => None;
     hq := []; dq := []; fmkh := []; fmkd := []; fdi := fc_di c; fpdi := fc_pdi c; ffin := fc_fin c |}.

Definition fmismatches (cs : list fcase) : list (N * list N) :=
  flat_map (fun c =>
    let ch := fun h => match lookup (fc_chain c) h with Some p => fst p | None => 0 end in
    let cd := fun h => match lookup (fc_chain c) h with Some p => snd p | None => 0 end in
    match fcheck ch cd (fshared_of c) with [] => [] | l => [(fc_id c, l)] end) cs.
