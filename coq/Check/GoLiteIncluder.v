(* Check/GoLiteIncluder.v — the DA-inclusion functions (block/manager.go IsDAIncluded, SetRollkitHeightToDAHeight;
   block/da_includer.go incrementDAIncludedHeight) do, effect by effect and in this order, what Model/Includer.v
   [incl_effs] says for one block: lemmas over the regenerated coq/gen/GoLiteFuns.v, for ALL store contents,
   marks and heights.
     IsDAIncluded(h)                = store height >= h, block h readable, header mark present, data mark present unless empty
     SetRollkitHeightToDAHeight(h)  : Put rhb/h/h := header DA height; Put rhb/h/d := data DA height (header's if empty)
     incrementDAIncludedHeight      : SetFinal(d+1); Put d := d+1; publish d+1 (compare-and-swap) — in this order, and
                                      nothing after a failed step
   Used by C07 (the execution layer is asked to finalize before the height is reported; the recorded DA heights). *)
From Coq Require Import String List NArith ZArith Bool Lia.
From Verif Require Import Model.Types Model.Admission Model.GoLite Check.GoLiteTactics gen.GoLiteFuns.
From Verif Require Model.Includer.
Import ListNotations.
Open Scope string_scope.

Ltac ilazy := lazy -[N.eqb N.ltb N.leb N.add Includer.mget mhas mget0].
Lemma mhas_some mk i h : Includer.mget mk i = Some h -> mhas mk i = true /\ mget0 mk i = h.
Proof. unfold mhas, mget0; intros ->; auto. Qed.
Lemma mhas_none mk i : Includer.mget mk i = None -> mhas mk i = false.
Proof. unfold mhas; intros ->; auto. Qed.
(* the effects of Model/Includer.v as effect values *)
Definition eff_val (e : Includer.eff) : gval :=
  match e with
  | Includer.EPut k v => VEff "put" [VKey k; VN v]
  | Includer.EFin n => VEff "SetFinal" [VN n]
  | Includer.EPub n => VEff "publish" [VN n]
  end.

Definition included (w : iworld) (h : N) : bool :=
  negb (iw_sheight w <? h)%N &&
  match iw_blk w with
  | Some b => mhas (iw_hm w) (Includer.bh b) && (Includer.bempty b || mhas (iw_dm w) (Includer.bd b))
  | None => false
  end.

Definition mkw sh ob hm dm di fo po : iworld :=
  {| iw_sheight := sh; iw_blk := ob; iw_hm := hm; iw_dm := dm; iw_di := di; iw_fin_ok := fo; iw_put_ok := po |}.
Lemma iworld_eta : forall w, w = mkw (iw_sheight w) (iw_blk w) (iw_hm w) (iw_dm w) (iw_di w) (iw_fin_ok w) (iw_put_ok w).
Proof. destruct w; reflexivity. Qed.

(* IsDAIncluded: (included, nil); an unreadable block at or below the store height is an error *)
Lemma go_IsDAIncluded_some : forall sh bh bd hm dm di fo po h,
  run_eff gen_funs incl_globals "Manager.IsDAIncluded"
          (Some (VMgrI (mkw sh (Some {| Includer.bh := bh; Includer.bd := bd |}) hm dm di fo po))) [VUnit; VN h] =
  Some ([VBool (included (mkw sh (Some {| Includer.bh := bh; Includer.bd := bd |}) hm dm di fo po) h); VNil], []).
Proof.
  intros. unfold included, Includer.bempty, mkw. ilazy.
  destruct (sh <? h)%N eqn:E1; cbv beta iota; [reflexivity|].
  destruct (mhas hm bh) eqn:E2; cbv beta iota; [|reflexivity].
  destruct (bd =? 0)%N; reflexivity.
Qed.
Lemma go_IsDAIncluded_none : forall sh hm dm di fo po h,
  run_eff gen_funs incl_globals "Manager.IsDAIncluded" (Some (VMgrI (mkw sh None hm dm di fo po))) [VUnit; VN h] =
  if (sh <? h)%N then Some ([VBool false; VNil], []) else Some ([VBool false; VErr true], []).
Proof. intros. unfold mkw. ilazy. reflexivity. Qed.

Lemma go_IsDAIncluded : forall w h,
  (iw_sheight w <? h)%N = true \/ iw_blk w <> None ->
  run_eff gen_funs incl_globals "Manager.IsDAIncluded" (Some (VMgrI w)) [VUnit; VN h] =
  Some ([VBool (included w h); VNil], []).
Proof.
  intros w h Hw. rewrite (iworld_eta w). destruct w as [sh ob hm dm di fo po]; simpl iw_sheight in *; simpl iw_blk in *.
  cbn [iw_sheight iw_blk iw_hm iw_dm iw_di iw_fin_ok iw_put_ok].
  destruct ob as [[bh bd]|].
  - apply go_IsDAIncluded_some.
  - destruct Hw as [Hw|Hw]; [|congruence]. rewrite go_IsDAIncluded_none, Hw. unfold included, mkw; cbn [iw_sheight iw_blk]. rewrite Hw. reflexivity.
Qed.

Lemma go_IsDAIncluded_unreadable : forall w h,
  (iw_sheight w <? h)%N = false -> iw_blk w = None ->
  run_eff gen_funs incl_globals "Manager.IsDAIncluded" (Some (VMgrI w)) [VUnit; VN h] = Some ([VBool false; VErr true], []).
Proof.
  intros w h H1 H2. rewrite (iworld_eta w). rewrite H2, go_IsDAIncluded_none, H1. reflexivity.
Qed.

(* SetRollkitHeightToDAHeight on a block whose marks are present (what IsDAIncluded established): the two Puts of
   Includer.incl_effs, in order *)
Lemma go_SetRollkit_raw : forall sh bh bd hm dm di fo h,
  run_eff gen_funs incl_globals "Manager.SetRollkitHeightToDAHeight"
          (Some (VMgrI (mkw sh (Some {| Includer.bh := bh; Includer.bd := bd |}) hm dm di fo true))) [VUnit; VN h] =
  if mhas hm bh then
    if (bd =? 0)%N
    then Some ([VNil], [VEff "put" [VKey (Includer.KH h); VN (mget0 hm bh)]; VEff "put" [VKey (Includer.KT h); VN (mget0 hm bh)]])
    else if mhas dm bd
         then Some ([VNil], [VEff "put" [VKey (Includer.KH h); VN (mget0 hm bh)]; VEff "put" [VKey (Includer.KT h); VN (mget0 dm bd)]])
         else Some ([VErr true], [VEff "put" [VKey (Includer.KH h); VN (mget0 hm bh)]])
  else Some ([VErr true], []).
Proof.
  intros. unfold mkw. ilazy.
  destruct (mhas hm bh) eqn:E1; cbv beta iota; [|reflexivity].
  destruct (bd =? 0)%N eqn:E2; cbv beta iota; [reflexivity|].
  destruct (mhas dm bd) eqn:E3; reflexivity.
Qed.

Lemma go_SetRollkitHeightToDAHeight : forall w h b hda dda,
  iw_blk w = Some b -> iw_put_ok w = true ->
  Includer.mget (iw_hm w) (Includer.bh b) = Some hda ->
  (if Includer.bempty b then Some hda else Includer.mget (iw_dm w) (Includer.bd b)) = Some dda ->
  run_eff gen_funs incl_globals "Manager.SetRollkitHeightToDAHeight" (Some (VMgrI w)) [VUnit; VN h] =
  Some ([VNil], map eff_val [Includer.EPut (Includer.KH h) hda; Includer.EPut (Includer.KT h) dda]).
Proof.
  intros w h b hda dda Hb Hp Hh Hd. rewrite (iworld_eta w). rewrite Hb, Hp. destruct b as [bh bd].
  rewrite go_SetRollkit_raw. cbn [Includer.bh Includer.bd] in *. destruct (mhas_some _ _ _ Hh) as [-> ->].
  unfold Includer.bempty in Hd. cbn [Includer.bd] in Hd.
  destruct (bd =? 0)%N; [inversion Hd; subst; reflexivity | destruct (mhas_some _ _ _ Hd) as [-> ->]; reflexivity].
Qed.

(* the data mark missing AFTER the header's DA height was stored: an error with one Put behind it (never reached
   from the includer loop, which asks IsDAIncluded first) *)
Lemma go_SetRollkitHeightToDAHeight_partial : forall sh bh bd hm dm di fo h hda,
  Includer.mget hm bh = Some hda -> (bd =? 0)%N = false -> Includer.mget dm bd = None ->
  run_eff gen_funs incl_globals "Manager.SetRollkitHeightToDAHeight"
          (Some (VMgrI (mkw sh (Some {| Includer.bh := bh; Includer.bd := bd |}) hm dm di fo true))) [VUnit; VN h] =
  Some ([VErr true], [eff_val (Includer.EPut (Includer.KH h) hda)]).
Proof. intros. rewrite go_SetRollkit_raw, H0. destruct (mhas_some _ _ _ H) as [-> ->]. rewrite (mhas_none _ _ H1). reflexivity. Qed.

(* incrementDAIncludedHeight: SetFinal(d+1), Put d := d+1, publish d+1 — exactly the tail of incl_effs for a block;
   a failing SetFinal: asked, nothing stored, nothing published; a failing store write: finalized, not published *)
Lemma go_increment_raw : forall sh ob hm dm di fo po,
  run_eff gen_funs incl_globals "Manager.incrementDAIncludedHeight" (Some (VMgrI (mkw sh ob hm dm di fo po))) [VUnit] =
  if fo then
    if po then Some ([VNil], [VEff "SetFinal" [VN (di + 1)]; VEff "put" [VKey Includer.KD; VN (di + 1)]; VEff "publish" [VN (di + 1)]])
    else Some ([VErr true], [VEff "SetFinal" [VN (di + 1)]])
  else Some ([VErr true], [VEff "SetFinal" [VN (di + 1)]]).
Proof.
  intros. unfold mkw. ilazy. destruct fo; cbv beta iota; [|reflexivity]. destruct po; cbv beta iota; [|reflexivity].
  rewrite N.eqb_refl. reflexivity.
Qed.

Lemma go_incrementDAIncludedHeight : forall w,
  iw_fin_ok w = true -> iw_put_ok w = true ->
  run_eff gen_funs incl_globals "Manager.incrementDAIncludedHeight" (Some (VMgrI w)) [VUnit] =
  Some ([VNil], map eff_val [Includer.EFin (iw_di w + 1); Includer.EPut Includer.KD (iw_di w + 1); Includer.EPub (iw_di w + 1)]).
Proof. intros w Hf Hp. rewrite (iworld_eta w), go_increment_raw, Hf, Hp. reflexivity. Qed.

Lemma go_incrementDAIncludedHeight_final_fails : forall w,
  iw_fin_ok w = false ->
  run_eff gen_funs incl_globals "Manager.incrementDAIncludedHeight" (Some (VMgrI w)) [VUnit] =
  Some ([VErr true], [eff_val (Includer.EFin (iw_di w + 1))]).
Proof. intros w Hf. rewrite (iworld_eta w), go_increment_raw, Hf. reflexivity. Qed.

Lemma go_incrementDAIncludedHeight_put_fails : forall w,
  iw_fin_ok w = true -> iw_put_ok w = false ->
  run_eff gen_funs incl_globals "Manager.incrementDAIncludedHeight" (Some (VMgrI w)) [VUnit] =
  Some ([VErr true], [eff_val (Includer.EFin (iw_di w + 1))]).
Proof. intros w Hf Hp. rewrite (iworld_eta w), go_increment_raw, Hf, Hp. reflexivity. Qed.

(* together: for a stored block whose marks are present, the code's effects for that block are the five effects
   Model/Includer.v [incl_effs] lists for it *)
Lemma go_includer_block_effects : forall w b r,
  iw_blk w = Some b -> iw_fin_ok w = true -> iw_put_ok w = true ->
  included w (iw_di w + 1) = true ->
  exists e1 e2 e3,
    run_eff gen_funs incl_globals "Manager.SetRollkitHeightToDAHeight" (Some (VMgrI w)) [VUnit; VN (iw_di w + 1)] = Some ([VNil], e1) /\
    run_eff gen_funs incl_globals "Manager.incrementDAIncludedHeight" (Some (VMgrI w)) [VUnit] = Some ([VNil], e2) /\
    map eff_val (Includer.incl_effs (iw_hm w) (iw_dm w) (b :: r) (iw_di w)) = (e1 ++ e2 ++ e3)%list.
Proof.
  intros w b r Hb Hf Hp Hi. unfold included in Hi. rewrite Hb in Hi.
  apply andb_true_iff in Hi. destruct Hi as [_ Hi]. apply andb_true_iff in Hi. destruct Hi as [Hh Hi].
  unfold mhas in Hh. destruct (Includer.mget (iw_hm w) (Includer.bh b)) as [hda|] eqn:Hhm; [|discriminate].
  assert (exists dda, (if Includer.bempty b then Some hda else Includer.mget (iw_dm w) (Includer.bd b)) = Some dda) as [dda Hd].
  { destruct (Includer.bempty b); [eauto|]. cbn [orb] in Hi. unfold mhas in Hi.
    destruct (Includer.mget (iw_dm w) (Includer.bd b)); [eauto|discriminate]. }
  eexists _, _, _. split; [|split].
  - eapply go_SetRollkitHeightToDAHeight; eauto.
  - apply go_incrementDAIncludedHeight; auto.
  - cbn [Includer.incl_effs]. rewrite Hhm, Hd. cbn [map app]. reflexivity.
Qed.

(* every lemma is closed under the global context (bin/tr-golite fails on any "Axioms:" line) *)
Print Assumptions go_IsDAIncluded_some.
Print Assumptions go_IsDAIncluded_none.
Print Assumptions go_IsDAIncluded.
Print Assumptions go_IsDAIncluded_unreadable.
Print Assumptions go_SetRollkit_raw.
Print Assumptions go_SetRollkitHeightToDAHeight.
Print Assumptions go_SetRollkitHeightToDAHeight_partial.
Print Assumptions go_increment_raw.
Print Assumptions go_incrementDAIncludedHeight.
Print Assumptions go_incrementDAIncludedHeight_final_fails.
Print Assumptions go_incrementDAIncludedHeight_put_fails.
Print Assumptions go_includer_block_effects.
