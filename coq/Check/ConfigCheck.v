(* Check/ConfigCheck.v — correspondence check for Model/Config.v.  The harness regenerates the two tables
   (fields of config.Config, registered flags) by reflection on every run and writes, per scenario it ran
   against the real pkg/config and pkg/genesis, the inputs and what the code returned; [mismatches] lists the
   cases on which the model disagrees (index, what differs).  Values are tokens (N): the harness interns the
   canonical typed rendering of every value it generates or reads back. *)
From Coq Require Import String Ascii NArith ZArith List Bool.
From Verif Require Import Model.Config.
Import ListNotations.
Open Scope string_scope.

Definition bs (l : list N) : string :=
  fold_right (fun n s => String (ascii_of_N n) s) EmptyString l.

Definition tfield := field N.
Definition tflag := flag N.

(* one call of Load in a home whose config directory holds: the configuration file config_name —
   [lo_main] = 0 absent, 1 a YAML document with the entries [lo_file] as (index into the field table, value),
   written by the harness under the field's YAML key, 2 content that is not a YAML document — and the OTHER files
   [lo_sibs] = (file name, Some entries = a document that parses as YAML into those entries | None = anything
   else: TOML / properties text, junk, unreadable, a sub-directory); the flags given as (index into the flag
   table, value), the home directory token, and the Config that came back projected to the field table's order
   (None = Load returned an error) *)
Definition sib := (string * option (list (N * N)))%type.
Record loadobs := { lo_main : N; lo_file : list (N * N); lo_sibs : list sib; lo_args : list (N * N); lo_home : N; lo_obs : option (list N) }.

Inductive ccase :=
| CTable                                                        (* the regenerated tables themselves *)
| CName (s : string)                                            (* config.ConfigName of the tree under test *)
| CLoads (l : list loadobs)                                     (* consecutive Loads in one process *)
| CRound (cfg : list N) (sibs : list sib) (home : N) (obs : option (list N))   (* other files put into <home>/config, SaveAsYaml, then Load *)
| CGenNew (c : string) (t : Z) (i : N) (p : option N) (obs : option genesis)   (* NewGenesis c i t p, Save, then LoadGenesis *)
| CGenCreate (c : string) (now : Z) (i : N) (p : option N) (ok1 ok2 : bool) (obs : option genesis)
                                                                (* CreateGenesis twice on a fresh home (did each write?), then LoadGenesis *)
| CGenLoad (f : gfile) (obs : option genesis)                   (* LoadGenesis on a given file *)
| CGenSeq (ws : list gfile) (obs : option genesis).             (* writes to ONE path in order (GJson (gnew ..) = Save of NewGenesis .., GMalformed = foreign content), then LoadGenesis *)

Fixpoint list_eqb {A} (e : A -> A -> bool) (a b : list A) : bool :=
  match a, b with
  | [], [] => true
  | x :: a', y :: b' => e x y && list_eqb e a' b'
  | _, _ => false
  end.

Definition opt_eqb {A} (e : A -> A -> bool) (a b : option A) : bool :=
  match a, b with Some x, Some y => e x y | None, None => true | _, _ => false end.

Definition genesis_eqb (a b : genesis) : bool :=
  String.eqb (gn_chain a) (gn_chain b) && (gn_time a =? gn_time b)%Z && (gn_initial a =? gn_initial b)%N
  && opt_eqb N.eqb (gn_proposer a) (gn_proposer b).

Definition dummy_field : tfield := {| f_go := "?"; f_path := "?"; f_yaml := "?"; f_kind := KOther; f_def := 0%N |}.
Definition dummy_flag : tflag := {| g_name := "?"; g_kind := KOther; g_def := 0%N |}.

Definition file_of (fields : list tfield) (l : list (N * N)) : cfile N :=
  map (fun e => (f_yaml (nth (N.to_nat (fst e)) fields dummy_field), snd e)) l.
Definition args_of (flags : list tflag) (l : list (N * N)) : cargs N :=
  map (fun e => (g_name (nth (N.to_nat (fst e)) flags dummy_flag), snd e)) l.

Definition sibs_of (fields : list tfield) (l : list sib) : cdir N :=
  map (fun e => (fst e, match snd e with Some ents => DYaml (file_of fields ents) | None => DOpaque end)) l.
Definition main_of (fields : list tfield) (main : N) (file : list (N * N)) : cdir N :=
  match main with
  | 0%N => []
  | 1%N => [(config_name, DYaml (file_of fields file))]
  | _ => [(config_name, DOpaque)]
  end.
(* the directory: the other files in the order the harness created them, half of them before the
   configuration file and half after (the order is immaterial — Proofs.siblings_ignored — and the
   evaluation shows it on the concrete case) *)
Definition dir_of (fields : list tfield) (main : N) (file : list (N * N)) (sibs : list sib) : cdir N :=
  let k := Nat.div2 (List.length sibs) in
  (sibs_of fields (firstn k sibs) ++ main_of fields main file ++ sibs_of fields (skipn k sibs))%list.

Definition load_agrees (fields : list tfield) (flags : list tflag) (o : loadobs) : bool :=
  opt_eqb (list_eqb N.eqb)
    (Some (load_dir config_name fields flags (dir_of fields (lo_main o) (lo_file o) (lo_sibs o)) (args_of flags (lo_args o)) (lo_home o)))
    (lo_obs o).

Definition is_nil {A} (l : list A) : bool := match l with [] => true | _ => false end.

(* 1 = a Load differs; 2 = save/load differs; 3 = genesis differs; 4 = CreateGenesis wrote / refused differently;
   10.. = the regenerated tables violate a condition the theorems need:
   10 a registered flag reaches no field of its type, 11 a field has no file key, 12 a flag's default differs
   from DefaultConfig, 13 yaml key <> mapstructure key, 14 a field key starts with "rollkit.", 15 duplicate
   field keys, 16 two flags bound to one key, 17 the configuration file is not called config_name *)
Definition check_case (fields : list tfield) (flags : list tflag) (c : ccase) : list N :=
  match c with
  | CTable =>
      (if is_nil (unreached_flags allow_flags fields flags) then [] else [10%N]) ++
      (if is_nil (unkeyed_fields allow_fields fields) then [] else [11%N]) ++
      (if coherentb N.eqb fields flags then [] else [12%N]) ++
      (if is_nil (yaml_disagree fields) then [] else [13%N]) ++
      (if is_nil (prefixed_fields fields) then [] else [14%N]) ++
      (if nodupb (map f_path (filter settable fields)) then [] else [15%N]) ++
      (if nodupb (map (fun g => strip (g_name g)) flags) then [] else [16%N])
  | CName s => if String.eqb s config_name then [] else [17%N]
  | CLoads l => if forallb (load_agrees fields flags) l then [] else [1%N]
  | CRound cfg sibs home obs =>
      if opt_eqb (list_eqb N.eqb) (Some (load_dir config_name fields flags (save_dir config_name fields cfg (sibs_of fields sibs)) [] home)) obs then [] else [2%N]
  | CGenNew c t i p obs => if opt_eqb genesis_eqb (gload (gsave (gnew c i t p))) obs then [] else [3%N]
  | CGenCreate c now i p ok1 ok2 obs =>
      let r1 := gcreate GAbsent c i now p in
      let r2 := gcreate (fst r1) c i now p in
      (if Bool.eqb (snd r1) ok1 && Bool.eqb (snd r2) ok2 then [] else [4%N]) ++
      (if opt_eqb genesis_eqb (gload (fst r2)) obs then [] else [3%N])
  | CGenLoad f obs => if opt_eqb genesis_eqb (gload f) obs then [] else [3%N]
  | CGenSeq ws obs => if opt_eqb genesis_eqb (gload (gputs GAbsent ws)) obs then [] else [3%N]
  end.

Fixpoint mismatches_from (fields : list tfield) (flags : list tflag) (i : N) (cs : list ccase) : list (N * list N) :=
  match cs with
  | [] => []
  | c :: r => match check_case fields flags c with
              | [] => mismatches_from fields flags (i + 1) r
              | l => (i, l) :: mismatches_from fields flags (i + 1) r
              end
  end.
Definition mismatches (fields : list tfield) (flags : list tflag) := mismatches_from fields flags 0.

Lemma N_eqb_eq : forall a b : N, N.eqb a b = true -> a = b.
Proof. intros a b H. apply N.eqb_eq. exact H. Qed.
