(* Check/ConfigCheck.v — correspondence check for Model/Config.v.  The harness regenerates the two tables
   (fields of config.Config, registered flags) by reflection on every run and writes, per scenario it ran
   against the real pkg/config and pkg/genesis, the inputs and what the code returned; [mismatches] lists the
   cases on which the model disagrees (index, what differs).  Values are tokens (N): the harness interns the
   canonical typed rendering of every value it generates or reads back. *)
From Coq Require Import String Ascii NArith ZArith List Bool.
From Verif Require Import Model.Config.
Import ListNotations.
Open Scope string_scope.

Definition bs (l : list N) : string :=
  fold_right (fun n s => String (ascii_of_N n) s) EmptyString l.

Definition tfield := field N.
Definition tflag := flag N.

(* one call of Load: the file as (index into the field table, value) — written by the harness under the
   field's YAML key —, the flags given as (index into the flag table, value), the home directory token,
   and the Config that came back projected to the field table's order (None = Load returned an error) *)
Record loadobs := { lo_file : list (N * N); lo_args : list (N * N); lo_home : N; lo_obs : option (list N) }.

Inductive ccase :=
| CTable                                                        (* the regenerated tables themselves *)
| CLoads (l : list loadobs)                                     (* consecutive Loads in one process *)
| CRound (cfg : list N) (home : N) (obs : option (list N))      (* SaveAsYaml then Load *)
| CGenSave (g : genesis) (obs : option genesis)                 (* Genesis.Save then LoadGenesis *)
| CGenLoad (f : gfile) (obs : option genesis)                   (* LoadGenesis on a given file *)
| CGenSeq (ws : list gfile) (obs : option genesis).             (* writes to ONE path in order (GJson g = Save g, GMalformed = foreign content), then LoadGenesis *)

Fixpoint list_eqb {A} (e : A -> A -> bool) (a b : list A) : bool :=
  match a, b with
  | [], [] => true
  | x :: a', y :: b' => e x y && list_eqb e a' b'
  | _, _ => false
  end.

Definition opt_eqb {A} (e : A -> A -> bool) (a b : option A) : bool :=
  match a, b with Some x, Some y => e x y | None, None => true | _, _ => false end.

Definition genesis_eqb (a b : genesis) : bool :=
  String.eqb (gn_chain a) (gn_chain b) && (gn_time a =? gn_time b)%Z && (gn_initial a =? gn_initial b)%N
  && opt_eqb N.eqb (gn_proposer a) (gn_proposer b).

Definition dummy_field : tfield := {| f_go := "?"; f_path := "?"; f_yaml := "?"; f_kind := KOther; f_def := 0%N |}.
Definition dummy_flag : tflag := {| g_name := "?"; g_kind := KOther; g_def := 0%N |}.

Definition file_of (fields : list tfield) (l : list (N * N)) : cfile N :=
  map (fun e => (f_yaml (nth (N.to_nat (fst e)) fields dummy_field), snd e)) l.
Definition args_of (flags : list tflag) (l : list (N * N)) : cargs N :=
  map (fun e => (g_name (nth (N.to_nat (fst e)) flags dummy_flag), snd e)) l.

Definition load_agrees (fields : list tfield) (flags : list tflag) (o : loadobs) : bool :=
  opt_eqb (list_eqb N.eqb)
    (Some (load fields flags (file_of fields (lo_file o)) (args_of flags (lo_args o)) (lo_home o)))
    (lo_obs o).

Definition is_nil {A} (l : list A) : bool := match l with [] => true | _ => false end.

(* 1 = a Load differs; 2 = save/load differs; 3 = genesis differs;
   10.. = the regenerated tables violate a condition the theorems need:
   10 a registered flag reaches no field of its type, 11 a field has no file key, 12 a flag's default differs
   from DefaultConfig, 13 yaml key <> mapstructure key, 14 a field key starts with "rollkit.", 15 duplicate
   field keys, 16 two flags bound to one key *)
Definition check_case (fields : list tfield) (flags : list tflag) (c : ccase) : list N :=
  match c with
  | CTable =>
      (if is_nil (unreached_flags allow_flags fields flags) then [] else [10%N]) ++
      (if is_nil (unkeyed_fields allow_fields fields) then [] else [11%N]) ++
      (if coherentb N.eqb fields flags then [] else [12%N]) ++
      (if is_nil (yaml_disagree fields) then [] else [13%N]) ++
      (if is_nil (prefixed_fields fields) then [] else [14%N]) ++
      (if nodupb (map f_path (filter settable fields)) then [] else [15%N]) ++
      (if nodupb (map (fun g => strip (g_name g)) flags) then [] else [16%N])
  | CLoads l => if forallb (load_agrees fields flags) l then [] else [1%N]
  | CRound cfg home obs =>
      if opt_eqb (list_eqb N.eqb) (Some (load fields flags (reread (fun x => x) true (save fields cfg)) [] home)) obs then [] else [2%N]
  | CGenSave g obs => if opt_eqb genesis_eqb (gload (gsave g)) obs then [] else [3%N]
  | CGenLoad f obs => if opt_eqb genesis_eqb (gload f) obs then [] else [3%N]
  | CGenSeq ws obs => if opt_eqb genesis_eqb (gload (gputs GAbsent ws)) obs then [] else [3%N]
  end.

Fixpoint mismatches_from (fields : list tfield) (flags : list tflag) (i : N) (cs : list ccase) : list (N * list N) :=
  match cs with
  | [] => []
  | c :: r => match check_case fields flags c with
              | [] => mismatches_from fields flags (i + 1) r
              | l => (i, l) :: mismatches_from fields flags (i + 1) r
              end
  end.
Definition mismatches (fields : list tfield) (flags : list tflag) := mismatches_from fields flags 0.

Lemma N_eqb_eq : forall a b : N, N.eqb a b = true -> a = b.
Proof. intros a b H. apply N.eqb_eq. exact H. Qed.
