(* Check/GoLiteValidate.v — the validation / admission predicates of Model/Types.v and Model/Admission.v ARE
   what the Go functions compute: lemmas over coq/gen/GoLiteFuns.v, which harness/translators/golite
   regenerates from /repo's source on every run.  For ALL arguments (no sampling): the regenerated function,
   evaluated by Model/GoLite.v, returns nil / true exactly when the model predicate holds.

   Used by C01, C02, C03, C04, C05 (everything that relies on [validate] / [validate_basic] /
   [is_expected_sequencer] / [is_valid_signed_data]). *)
From Coq Require Import String List NArith ZArith Bool Lia.
From Verif Require Import Model.Types Model.Admission Model.GoLite Check.GoLiteTactics gen.GoLiteFuns.
Import ListNotations.
Open Scope string_scope.

(* types/header.go Header.ValidateBasic *)
Lemma go_Header_ValidateBasic : forall h,
  run_fun gen_funs [] "Header.ValidateBasic" (Some (VHeader h)) [] =
  Some [errv (negb (addr_eqb (h_proposer h) AddrEmpty))].
Proof. intros h; destruct h; gsolve. Qed.

(* types/data.go Signature.ValidateBasic *)
Lemma go_Signature_ValidateBasic : forall s,
  run_fun gen_funs [] "Signature.ValidateBasic" (Some (VSig s)) [] =
  Some [errv (match s with SigEmpty => false | _ => true end)].
Proof. intros s; gsolve. Qed.

(* types/signed_header.go SignedHeader.ValidateBasic  =  Types.validate_basic *)
Lemma go_SignedHeader_ValidateBasic : forall sh,
  run_fun gen_funs [] "SignedHeader.ValidateBasic" (Some (VSHeader sh)) [] = Some [errv (validate_basic sh)].
Proof. intros sh; destruct sh as [h sg [[p|] a]]; destruct h; gsolve. Qed.

(* types/data.go Validate  =  Types.validate_pair *)
Lemma go_Validate : forall sh d,
  run_fun gen_funs [] "Validate" None [VSHeader sh; VData d] = Some [errv (validate_pair sh d)].
Proof. intros sh d; destruct sh as [h sg sn]; destruct d as [[m|] txs]; destruct h; try destruct m; gsolve. Qed.

(* block/manager.go Manager.execValidate  =  Types.validate *)
Lemma go_execValidate : forall mg s sh d,
  run_fun gen_funs [] "Manager.execValidate" (Some (VMgr mg)) [VState s; VSHeader sh; VData d] =
  Some [errv (validate s sh d)].
Proof.
  intros mg s sh d; destruct sh as [h sg [[p|] a]]; destruct d as [[m|] txs]; destruct h, s; try destruct m; gsolve.
Qed.

(* block/manager.go Manager.isUsingExpectedSingleSequencer  =  Admission.is_expected_sequencer *)
Lemma go_isUsingExpectedSingleSequencer : forall mg sh,
  run_fun gen_funs [] "Manager.isUsingExpectedSingleSequencer" (Some (VMgr mg)) [VSHeader sh] =
  Some [VBool (is_expected_sequencer (mg_genesis mg) sh)].
Proof. intros mg sh; destruct mg as [[gc gi gp] bt hs ds]; destruct sh as [h sg [[p|] a]]; destruct h; gsolve. Qed.

(* block/manager.go Manager.isValidSignedData  =  Admission.is_valid_signed_data (non-nil item, non-nil Txs) *)
Lemma go_isValidSignedData : forall mg sd,
  run_fun gen_funs [] "Manager.isValidSignedData" (Some (VMgr mg)) [VOSData (Some sd)] =
  Some [VBool (is_valid_signed_data (mg_genesis mg) sd)].
Proof. intros mg sd; destruct mg as [[gc gi gp] bt hs ds]; destruct sd as [d sg [[p|] a]]; gsolve. Qed.

Lemma go_isValidSignedData_nil : forall mg,
  run_fun gen_funs [] "Manager.isValidSignedData" (Some (VMgr mg)) [VOSData None] = Some [VBool false].
Proof. intros mg; gsolve. Qed.

(* types/state.go State.NextState  =  Types.next_state: the new state takes height and time from the header, the
   root from the execution result AS RETURNED (whatever it is), and everything else from the old state *)
Definition state_of_rec (v : gval) : option cstate :=
  match v with
  | VRec fs =>
      match lookup fs "ChainID", lookup fs "InitialHeight", lookup fs "LastBlockHeight", lookup fs "LastBlockTime",
            lookup fs "AppHash", lookup fs "DAHeight" with
      | Some (VN c), Some (VN i), Some (VN h), Some (VZ t), Some (VRoot r), Some (VN d) =>
          Some {| s_chain := c; s_initial := i; s_height := h; s_time := t; s_app := r; s_da := d |}
      | _, _, _, _, _, _ => None
      end
  | _ => None
  end.
Lemma go_NextState : forall s h r,
  match run_fun gen_funs [] "State.NextState" (Some (VState s)) [VHeader h; VRoot r] with
  | Some [v; e] => state_of_rec v = Some (next_state s h r) /\ e = VNil
  | _ => False
  end.
Proof. intros s h r; destruct s, h. lazy. split; reflexivity. Qed.

(* every lemma is closed under the global context (bin/tr-golite fails on any "Axioms:" line) *)
Print Assumptions go_Header_ValidateBasic.
Print Assumptions go_Signature_ValidateBasic.
Print Assumptions go_SignedHeader_ValidateBasic.
Print Assumptions go_Validate.
Print Assumptions go_execValidate.
Print Assumptions go_isUsingExpectedSingleSequencer.
Print Assumptions go_isValidSignedData.
Print Assumptions go_isValidSignedData_nil.
Print Assumptions go_NextState.
