(* Check/GoLiteSubmit.v — C06: Manager.exponentialBackoff = Submitter.exp_backoff, pendingBase.isEmpty = (height =? last).
   Lemmas over coq/gen/GoLiteFuns.v, which harness/translators/golite regenerates from /repo's source on every
   run; for all arguments. *)
From Coq Require Import String List NArith ZArith Bool Lia.
From Verif Require Import Model.Types Model.Admission Model.GoLite Check.GoLiteTactics gen.GoLiteFuns.
From Verif Require Model.Submitter Model.Throttle Model.Lazy.
Import ListNotations.
Open Scope string_scope.

(* block/manager.go exponentialBackoff; durations in ms as in Model/Submitter.v: initialBackoff = 100 ms *)
Lemma go_exponentialBackoff : forall (c : Submitter.cfg) (g : genesis) hs ds (b : N),
  run_fun gen_funs [("initialBackoff", VZ (Z.of_N Submitter.initial_backoff))] "Manager.exponentialBackoff"
          (Some (VMgr {| mg_genesis := g; mg_da_block_time := Z.of_N (Submitter.c_bt c); mg_hseen := hs; mg_dseen := ds |})) [VZ (Z.of_N b)] =
  Some [VZ (Z.of_N (Submitter.exp_backoff c b))].
Proof.
  intros c g hs ds b; destruct c as [bt ttl]. unfold Submitter.exp_backoff, Submitter.initial_backoff.
  glazy; repeat step; repeat anyatom; finish.
Qed.

(* block/pending_base.go isEmpty *)
Lemma go_isEmpty : forall h last,
  run_fun gen_funs [] "pendingBase.isEmpty" (Some (VPBase {| pb_height := Some h; pb_last := last |})) [] =
  Some [VBool (h =? last)%N].
Proof. intros; glazy; reflexivity. Qed.
Lemma go_isEmpty_store_error : forall last,
  run_fun gen_funs [] "pendingBase.isEmpty" (Some (VPBase {| pb_height := None; pb_last := last |})) [] =
  Some [VBool false].
Proof. intros; glazy; reflexivity. Qed.

(* every lemma is closed under the global context (bin/tr-golite fails on any "Axioms:" line) *)
Print Assumptions go_exponentialBackoff.
Print Assumptions go_isEmpty.
Print Assumptions go_isEmpty_store_error.
