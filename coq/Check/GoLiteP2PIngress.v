(* Check/GoLiteP2PIngress.v — the P2P ingress of the full node, Manager.HeaderStoreRetrieveLoop and
   Manager.DataStoreRetrieveLoop (block/store.go), translated from the Go source on every run:
     * "…$pre":    the statements before the loop (the cursor starts at the node's own store height);
     * "…$iter":   ONE ITERATION of the endless loop as a function of its locals (the cursor lastHeaderStoreHeight /
                   lastDataStoreHeight), `continue` = go round again with the locals; the P2P store, the range reader
                   (getHeadersFromHeaderStore / getDataFromDataStore), the DA-height register, the wake-up channel and
                   the walk over the items read are scripted collaborators whose calls are logged;
     * "…$range1": the BODY of the walk `for _, header := range headers` / `for _, d := range data`, a function of
                   one item that answers whether it left the function (a cancelled context).

   [go_HeaderStore_iter] / [go_DataStore_iter]: for ALL cursors, store heights, outcomes of the range read and of the
   walk, an iteration waits for a wake-up, reads the store height ONCE and
     - store height <= cursor: nothing is read or sent, the cursor stays;
     - otherwise asks for exactly the heights cursor+1 .. store height, once; if that read fails NOTHING is sent and
       the cursor STAYS (the same range is asked for again at the next wake-up — no height is skipped);
     - otherwise walks over exactly the items read, and only when the walk came to its end the cursor takes the store
       height (a walk cut short by a cancelled context ends the loop).
   [go_HeaderStore_item] / [go_DataStore_item]: an item is sent to the sync loop's channel with the DA height read
   before the walk, exactly once, unless the context is cancelled; a header is sent only if it names the expected
   proposer (isUsingExpectedSingleSequencer), after the node's signature-payload provider was installed on it; a
   header that does not is passed over and the walk goes on.
   Proofs/GoLiteP2PIngressRefine.v ties the iteration to P2PIngress.loop_step.   Used by C02, C03. *)
From Coq Require Import String List NArith ZArith Bool Lia.
From Verif Require Import Model.Types Model.Admission Model.GoLite Check.GoLiteTactics gen.GoLiteFuns.
Import ListNotations.
Open Scope string_scope.
Open Scope list_scope.

Definition only (names : list string) : list (string * gfun) :=
  filter (fun p => existsb (fun n => fst p =? n) names) gen_funs.
Definition is_receiver (e : gval) : bool := match e with VEff x _ => x =? "receiver" | _ => false end.
Definition er (ok : bool) : gval := VErr (negb ok).

(* ---- one iteration ------------------------------------------------------------------------------------------ *)
Record iworld := { i_cancel : bool; i_cur : N; i_sh : N; i_getok : bool; i_da : N; i_left : bool }.
(* which of the two loops: the names of the store, the reader and the channel differ, nothing else *)
Record side := { sd_key : string; sd_store : string; sd_get : string; sd_ch : string }.
Definition hside : side := {| sd_key := "Manager.HeaderStoreRetrieveLoop$iter"; sd_store := "headerStore";
                              sd_get := "getHeadersFromHeaderStore"; sd_ch := "headerStoreCh" |}.
Definition dside : side := {| sd_key := "Manager.DataStoreRetrieveLoop$iter"; sd_store := "dataStore";
                              sd_get := "getDataFromDataStore"; sd_ch := "dataStoreCh" |}.
Definition items_v : gval := VTok "the items read" [].
Definition ctx : gval := VUnit.
Definition iter_mgr (s : side) (w : iworld) : gval :=
  VObj "Manager" [("logger", VUnit); (sd_ch s, VTok (sd_ch s) []); ("daHeight", VAtom "daHeight" (i_da w));
                  (sd_store s, VOrc (sd_store s) [("Height", [VN (i_sh w)])]);
                  ("$orc", VOrc "m" [(sd_get s, [VTuple [items_v; er (i_getok w)]])])].
Definition iter_globals (w : iworld) : env :=
  [("$cancelled", VBool (i_cancel w)); ("$continue", VTok "continue" []);
   ("$pkg", VOrc "pkg" [("$wait_any", [VUnit]); ("$range1", [VBool (i_left w)])])].
(* observed: the continuation token and the CURSOR handed to the next iteration (the locals are initialHeight, err
   and the cursor; the first is never written, the second is a scratch variable never read across iterations), and
   the calls *)
Definition project (r : list gval * list gval) : list gval * list gval :=
  (match fst r with [t; _; _; cur] => [t; cur] | l => l end, filter (fun e => negb (is_receiver e)) (rev (snd r))).
Definition run_iter (s : side) (w : iworld) : option (list gval * list gval) :=
  match lookup (only [sd_key s]) (sd_key s) with
  | Some fn => interp (bind (exec 400 (only [sd_key s]) (iter_globals w)
                                  (start_env fn (Some (iter_mgr s w)) [ctx; VN 1; VNil; VN (i_cur w)]) [] (f_body fn))
                            (fun r => RRet (project r)))
  | None => None
  end.

Definition iter_expect (s : side) (w : iworld) : list gval * list gval :=
  if i_cancel w then ([], []) else
  let c1 := [VEff "pkg.$wait_any" [VTok (sd_ch s) []]; VEff (sd_store s ++ ".Height") []] in
  let again (cur : N) (cs : list gval) := ([VTok "continue" []; VN cur], cs) in
  if (i_cur w <? i_sh w)%N then
    let c2 := c1 ++ [VEff ("m." ++ sd_get s) [ctx; VN (i_cur w + 1); VN (i_sh w)]] in
    if negb (i_getok w) then again (i_cur w) c2 else
    let c3 := c2 ++ [VEff "pkg.$range1" [items_v]] in
    if i_left w then ([], c3) else again (i_sh w) c3
  else again (i_cur w) c1.

Ltac plazy := lazy -[N.eqb N.leb N.ltb N.add N.sub].
Ltac split_on c :=
  match c with
  | context [(?a <? ?b)%N] => destruct (a <? b)%N eqn:?
  | context [?b] => is_var b; match type of b with bool => destruct b end
  end.
Ltac hstep := match goal with
              | |- (if ?c then _ else _) = _ => split_on c
              | |- _ = Some (if ?c then _ else _) => split_on c
              end; cbv beta iota.

Lemma go_HeaderStore_iter : forall w, run_iter hside w = Some (iter_expect hside w).
Proof.
  intros [cancel cur sh getok da left]. destruct cancel; destruct getok; destruct left.
  all: plazy.
  all: repeat hstep; reflexivity.
Qed.
Lemma go_DataStore_iter : forall w, run_iter dside w = Some (iter_expect dside w).
Proof.
  intros [cancel cur sh getok da left]. destruct cancel; destruct getok; destruct left.
  all: plazy.
  all: repeat hstep; reflexivity.
Qed.

(* ---- before the loop ------------------------------------------------------------------------------------------ *)
Record pworld := { p_h : N; p_ok : bool }.
Definition pre_mgr (w : pworld) : gval :=
  VObj "Manager" [("logger", VUnit); ("store", VOrc "store" [("Height", [VTuple [VN (p_h w); er (p_ok w)]])])].
Definition run_pre (key : string) (w : pworld) : option (list gval * list gval) :=
  match lookup (only [key]) key with
  | Some fn => interp (bind (exec 400 (only [key]) [("$loop", VTok "loop" [])] (start_env fn (Some (pre_mgr w)) [ctx]) [] (f_body fn))
                            (fun r => RRet (match fst r with [t; _; _; cur] => [t; cur] | l => l end,
                                            filter (fun e => negb (is_receiver e)) (rev (snd r)))))
  | None => None
  end.
(* the cursor starts at the node's own store height; a node that cannot read it does not start the loop *)
Definition pre_expect (w : pworld) : list gval * list gval :=
  if p_ok w then ([VTok "loop" []; VN (p_h w)], [VEff "store.Height" [ctx]]) else ([], [VEff "store.Height" [ctx]]).
Lemma go_HeaderStore_pre : forall w, run_pre "Manager.HeaderStoreRetrieveLoop$pre" w = Some (pre_expect w).
Proof. intros [h ok]. destruct ok; plazy; reflexivity. Qed.
Lemma go_DataStore_pre : forall w, run_pre "Manager.DataStoreRetrieveLoop$pre" w = Some (pre_expect w).
Proof. intros [h ok]. destruct ok; plazy; reflexivity. Qed.

(* ---- one item of the walk ------------------------------------------------------------------------------------- *)
Record bworld := { b_cancel : bool; b_accept : bool; b_da : N }.
Definition header_v : gval := VOrc "header" [("SetCustomVerifier", [VUnit])].
Definition provider_v : gval := VTok "the node's signature payload provider" [].
Definition item_mgr (w : bworld) : gval :=
  VObj "Manager" [("logger", VUnit); ("signaturePayloadProvider", provider_v);
                  ("headerInCh", VTok "headerInCh" []); ("dataInCh", VTok "dataInCh" []);
                  ("$orc", VOrc "m" [("isUsingExpectedSingleSequencer", [VBool (b_accept w)])])].
Definition run_item (key : string) (item : gval) (w : bworld) : option (list gval * list gval) :=
  match lookup (only [key]) key with
  | Some fn => interp (bind (exec 400 (only [key]) [("$cancelled", VBool (b_cancel w))]
                                  (start_env fn (Some (item_mgr w)) [ctx; item; VN (b_da w)]) [] (f_body fn))
                            (fun r => RRet (fst r, filter (fun e => negb (is_receiver e)) (rev (snd r)))))
  | None => None
  end.
Definition sent (ch : string) (ty : string) (item : gval) (da : N) : gval :=
  VEff "send" [VTok ch []; VRec [("0", item); ("1", VN da)]].
Definition header_item_expect (w : bworld) : list gval * list gval :=
  if b_cancel w then ([VBool true], []) else
  let c1 := [VEff "header.SetCustomVerifier" [provider_v]] in
  if negb (b_accept w) then ([VBool false], c1)
  else ([VBool false], c1 ++ [sent "headerInCh" "NewHeaderEvent" header_v (b_da w)]).
Definition data_v : gval := VTok "data" [].
Definition data_item_expect (w : bworld) : list gval * list gval :=
  if b_cancel w then ([VBool true], []) else ([VBool false], [sent "dataInCh" "NewDataEvent" data_v (b_da w)]).

Lemma go_HeaderStore_item : forall w,
  run_item "Manager.HeaderStoreRetrieveLoop$range1" header_v w = Some (header_item_expect w).
Proof. intros [c a da]. destruct c; destruct a; plazy; reflexivity. Qed.
Lemma go_DataStore_item : forall w,
  run_item "Manager.DataStoreRetrieveLoop$range1" data_v w = Some (data_item_expect w).
Proof. intros [c a da]. destruct c; plazy; reflexivity. Qed.


(* ---- the range readers getHeadersFromHeaderStore / getDataFromDataStore ------------------------------------------
   "…$pre": an empty range (start > end) is an error before anything is read; "…$iter": ONE ITERATION of
   `for i := startHeight; i <= endHeight; i++`: reads exactly height i from the P2P store; an error there ends the
   whole read with (nil, that error) — nothing of what was read so far is returned; otherwise the item is put at
   position i - startHeight and i grows by one.  So a read returns items only when EVERY height start .. end was
   read, in increasing order (Proofs/GoLiteP2PIngressRefine.reads_are_loop_reads). *)
Record gworld := { g_start : N; g_end : N; g_i : N; g_ok : bool }.
Definition slice_v : gval := VTok "the items so far" [].
Definition slice_plus : gval := VTok "the items so far, with the one just read" [].
Definition item_at (i : N) : gval := VTok "item at" [VN i].
Definition get_mgr (store : string) (w : gworld) : gval :=
  VObj "Manager" [("logger", VUnit); (store, VOrc store [("GetByHeight", [VTuple [item_at (g_i w); er (g_ok w)]])])].
Definition get_globals : env :=
  [("$break", VTok "break" []); ("$continue", VTok "continue" []); ("$loop", VTok "loop" []);
   ("$pkg", VOrc "pkg" [("$index_set", [slice_plus])])].
Definition run_get (key store : string) (w : gworld) : option (list gval * list gval) :=
  match lookup (only [key]) key with
  | Some fn => interp (bind (exec 400 (only [key]) get_globals
                                  (start_env fn (Some (get_mgr store w)) [ctx; VN (g_start w); VN (g_end w); slice_v; VN (g_i w)]) [] (f_body fn))
                            (fun r => RRet (fst r, filter (fun e => negb (is_receiver e)) (rev (snd r)))))
  | None => None
  end.
Definition get_expect (store : string) (w : gworld) : list gval * list gval :=
  if negb (g_i w <=? g_end w)%N then ([VTok "break" []; slice_v; VN (g_i w)], []) else
  let c1 := [VEff (store ++ ".GetByHeight") [ctx; VN (g_i w)]] in
  if negb (g_ok w) then ([VNil; VErr true], c1)
  else ([VTok "continue" []; slice_plus; VN (g_i w + 1)],
        c1 ++ [VEff "pkg.$index_set" [slice_v; VN (sub64 (g_i w) (g_start w)); item_at (g_i w)]]).   (* uint64 arithmetic; i >= start in the loop *)

Ltac gstep := match goal with
              | |- (if ?c then _ else _) = _ => match c with context [(?a <=? ?b)%N] => destruct (a <=? b)%N eqn:? end
              | |- _ = Some (if ?c then _ else _) => match c with context [(?a <=? ?b)%N] => destruct (a <=? b)%N eqn:? end
              end; cbv beta iota.
Lemma go_getHeaders_iter : forall w,
  run_get "Manager.getHeadersFromHeaderStore$iter" "headerStore" w = Some (get_expect "headerStore" w).
Proof. intros [st en i ok]. destruct ok; lazy -[N.eqb N.leb N.ltb N.add N.sub sub64]; repeat gstep; reflexivity. Qed.
Lemma go_getData_iter : forall w,
  run_get "Manager.getDataFromDataStore$iter" "dataStore" w = Some (get_expect "dataStore" w).
Proof. intros [st en i ok]. destruct ok; lazy -[N.eqb N.leb N.ltb N.add N.sub sub64]; repeat gstep; reflexivity. Qed.

Definition run_get_pre (key : string) (st en : N) : option (list gval * list gval) :=
  match lookup (only [key]) key with
  | Some fn => interp (bind (exec 400 (only [key]) get_globals
                                  (start_env fn (Some (VObj "Manager" [("logger", VUnit)])) [ctx; VN st; VN en]) [] (f_body fn))
                            (fun r => RRet (fst r, filter (fun e => negb (is_receiver e)) (rev (snd r)))))
  | None => None
  end.
Definition get_pre_expect (ty : string) (st en : N) : list gval * list gval :=
  if (en <? st)%N then ([VNil; VErr true], []) else ([VTok "loop" []; VZero ty], []).
Lemma go_getHeaders_pre : forall st en,
  run_get_pre "Manager.getHeadersFromHeaderStore$pre" st en = Some (get_pre_expect "make []*types.SignedHeader" st en).
Proof. intros st en. plazy. destruct (en <? st)%N; reflexivity. Qed.
Lemma go_getData_pre : forall st en,
  run_get_pre "Manager.getDataFromDataStore$pre" st en = Some (get_pre_expect "make []*types.Data" st en).
Proof. intros st en. plazy. destruct (en <? st)%N; reflexivity. Qed.

Print Assumptions go_HeaderStore_iter.
Print Assumptions go_DataStore_iter.
Print Assumptions go_HeaderStore_pre.
Print Assumptions go_DataStore_pre.
Print Assumptions go_HeaderStore_item.
Print Assumptions go_DataStore_item.
Print Assumptions go_getHeaders_iter.
Print Assumptions go_getData_iter.
Print Assumptions go_getHeaders_pre.
Print Assumptions go_getData_pre.
