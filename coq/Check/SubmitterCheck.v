(* Check/SubmitterCheck.v — correspondence check for Model/Submitter.v.  harness/c06 writes, per history it ran
   against the real block.Manager: the model history (with the observed emptiness of every committed block),
   and per item what the code did: result class, virtual time spent in submitToDA, the DA calls made (blob
   heights as decoded from the blobs, in-memory and persisted watermark at call time), both watermarks after
   the item; at the end the heights the DA double accepted, in order, and the chain height.
   A stretch of n blocks of one kind committed in a row is one run-length item (Model.Submitter.HPublishN),
   expanded here into n IPublish items; long height lists are written as runs ([runs]).
   An iteration during which blocks were committed (inside its DA calls) is one item CTickP of
   Model.SubmitterConc: every DA answer with the blocks committed while that call was in flight; for a loop item the
   number of DA answers the loop left unasked is compared too.
   One call of publishBlockInternal under a pending limit is one item WPublish of Model.SubmitterWaiting: the limit,
   the kind of block it would commit and the data iterations the harness ran INSIDE numWaitingData (after it had
   read the pending range); compared: whether numWaitingData ran / the call was refused, the DA calls of those
   iterations, both watermarks.
   [mismatches] lists the cases on which the model disagrees. *)
From Coq Require Import NArith List Bool.
From Verif Require Import Model.Submitter Model.SubmitterConc Model.SubmitterWaiting.
Import ListNotations.
Open Scope N_scope.

Fixpoint list_eqb {A} (e : A -> A -> bool) (a b : list A) : bool :=
  match a, b with
  | [], [] => true
  | x :: a', y :: b' => e x y && list_eqb e a' b'
  | _, _ => false
  end.

Definition optN_eqb (a b : option N) : bool :=
  match a, b with Some x, Some y => x =? y | None, None => true | _, _ => false end.

Definition ocall := (list N * N * option N)%type.
Definition ocall_eqb (a b : ocall) : bool :=
  let '(h1, v1, m1) := a in let '(h2, v2, m2) := b in
  list_eqb N.eqb h1 h2 && (v1 =? v2) && optN_eqb m1 m2.

Definition mark := (N * option N)%type.
Definition mark_eqb (a b : mark) : bool := (fst a =? fst b) && optN_eqb (snd a) (snd b).

Record iout := { io_res : option N;      (* 0 idle 1 nothing-to-submit 2 getPending error 3 nil 4 error; None = not observed *)
                 io_el : option N;       (* ms of virtual time inside submitToDA *)
                 io_calls : list ocall;  (* DA calls of the item's kind made during the item, oldest first *)
                 io_h : option mark;     (* header watermark (in memory, persisted) after the item *)
                 io_d : option mark;
                 io_left : option N;     (* loop items: DA answers of the script the loop did not ask for *)
                 io_lim : option N }.    (* WPublish items: 2 * (numWaitingData ran) + (the call was refused); 4 + (refused)
                                            when the harness cannot tell whether numWaitingData ran *)

(* heights in run-length form: [(a, n); ...] = a, a+1, .., a+n-1, ...  (a call after a long DA outage or an idle
   stretch carries hundreds of consecutive heights; the case files write them as runs) *)
Definition runs (l : list (N * N)) : list N := flat_map (fun p => seqN (fst p) (N.to_nat (snd p))) l.

Record ocase := { oc_cfg : cfg; oc_init : N; oc_hist : list witem; oc_outs : list iout;
                  oc_hacc : list N; oc_dacc : list N;     (* accepted heights, oldest first *)
                  oc_height : N }.

Definition res_class (r : result) : N :=
  match r with RIdle => 0 | RNothing => 1 | RGetErr => 2 | RDone | RCancelled => 3 | RExhausted => 4 end.

Definition proj_call (c : call) : ocall := (c_hs c, c_vol c, c_meta c).
Definition side_mark (sd : side) : mark := (vol sd, meta sd).

Definition item_kind (i : item) : option kind :=
  match i with ITick k _ | ILoop k _ => Some k | _ => None end.

(* the calls of side [k] made by the step s -> s' *)
Definition new_calls (k : kind) (s s' : state) : list ocall :=
  let old := calls (get_side k s) in let new := calls (get_side k s') in
  rev (map proj_call (firstn (length new - length old) new)).

Definition opt_ok {A} (e : A -> A -> bool) (obs : option A) (m : A) : bool :=
  match obs with None => true | Some x => e x m end.

(* codes: 1 result, 2 elapsed time, 3 DA calls, 4 watermarks, 8 answers left by the loop *)
Definition check_single (c : cfg) (s : state) (i : item) (o : iout) : state * list N :=
  let '(s', (r, el)) := step c s i in
  let is_tick := match i with ITick _ _ => true | _ => false end in
  let cs := match item_kind i with Some k => new_calls k s s' | None => [] end in
  (s', (if negb is_tick || opt_ok N.eqb (io_res o) (res_class r) then [] else [1]) ++
       (if negb is_tick || opt_ok N.eqb (io_el o) el then [] else [2]) ++
       (if list_eqb ocall_eqb cs (io_calls o) then [] else [3]) ++
       (if opt_ok mark_eqb (io_h o) (side_mark (s_h s')) && opt_ok mark_eqb (io_d o) (side_mark (s_d s')) then [] else [4]) ++
       (match i with
        | ILoop k sc => if opt_ok N.eqb (io_left o) (N.of_nat (length (loop_left c s k sc))) then [] else [8]
        | _ => []
        end)).

(* a run-length item is expanded here (Model.Submitter.expand) and the model runs the n single items; the
   observation is taken after the last of them: no DA call, both watermarks *)
Definition check_item (c : cfg) (s : state) (hi : hitem) (o : iout) : state * list N :=
  match hi with
  | HI i => check_single c s i o
  | HPublishN _ _ =>
      let s' := run_from c s (expand hi) in
      (s', (match io_calls o with [] => [] | _ => [3] end) ++
           (if opt_ok mark_eqb (io_h o) (side_mark (s_h s')) && opt_ok mark_eqb (io_d o) (side_mark (s_d s')) then [] else [4]))
  end.

Fixpoint check_items (c : cfg) (s : state) (h : list hitem) (os : list iout) : state * list N :=
  match h, os with
  | i :: h', o :: os' => let '(s', e) := check_item c s i o in
                         let '(s'', e') := check_items c s' h' os' in (s'', e ++ e')
  | [], [] => (s, [])
  | _, _ => (s, [9])
  end.

Definition dedup (l : list N) : list N :=
  fold_right (fun x acc => if existsb (N.eqb x) acc then acc else x :: acc) [] l.

(* an iteration with in-flight commits: result, elapsed time, the DA calls, both watermarks after it (the chain it
   leaves is compared at the end of the case: accepted heights, chain height) *)
Definition check_citem (c : cfg) (s : state) (ci : citem) (o : iout) : state * list N :=
  match ci with
  | CH hi => check_item c s hi o
  | CTickP k scp =>
      let '(s', _, r, el) := tick_p c k scp s in
      (s', (if opt_ok N.eqb (io_res o) (res_class r) then [] else [1]) ++
           (if opt_ok N.eqb (io_el o) el then [] else [2]) ++
           (if list_eqb ocall_eqb (new_calls k s s') (io_calls o) then [] else [3]) ++
           (if opt_ok mark_eqb (io_h o) (side_mark (s_h s')) && opt_ok mark_eqb (io_d o) (side_mark (s_d s')) then [] else [4]))
  end.

Fixpoint check_citems (c : cfg) (s : state) (h : list citem) (os : list iout) : state * list N :=
  match h, os with
  | i :: h', o :: os' => let '(s', e) := check_citem c s i o in
                         let '(s'', e') := check_citems c s' h' os' in (s'', e ++ e')
  | [], [] => (s, [])
  | _, _ => (s, [9])
  end.

(* one call of publishBlockInternal under a pending limit (Model.SubmitterWaiting): 10 = whether numWaitingData ran /
   whether the call was refused; 3 the DA calls of the data iterations that ran inside the check; 4 watermarks *)
Definition lim_code (called refused : bool) : N := (if called then 2 else 0) + (if refused then 1 else 0).
Definition lim_ok (obs : option N) (called refused : bool) : bool :=
  match obs with
  | None => true
  | Some x => if x <? 4 then x =? lim_code called refused else x - 4 =? lim_code false refused
  end.

Definition check_witem (c : cfg) (s : state) (wi : witem) (o : iout) : state * list N :=
  match wi with
  | WC ci => check_citem c s ci o
  | WPublish L b qs =>
      let '(called, refused, s1) := limit_check c L qs s in
      let s' := if refused then s1 else commit b s1 in
      (s', (if lim_ok (io_lim o) called refused then [] else [10]) ++
           (if list_eqb ocall_eqb (new_calls KData s s') (io_calls o) then [] else [3]) ++
           (if opt_ok mark_eqb (io_h o) (side_mark (s_h s')) && opt_ok mark_eqb (io_d o) (side_mark (s_d s')) then [] else [4]))
  end.

Fixpoint check_witems (c : cfg) (s : state) (h : list witem) (os : list iout) : state * list N :=
  match h, os with
  | i :: h', o :: os' => let '(s', e) := check_witem c s i o in
                         let '(s'', e') := check_witems c s' h' os' in (s'', e ++ e')
  | [], [] => (s, [])
  | _, _ => (s, [9])
  end.

(* 5 accepted header heights, 6 accepted data heights, 7 chain height *)
Definition check_case (c : ocase) : list N :=
  let '(s, e) := check_witems (oc_cfg c) (boot (oc_init c)) (oc_hist c) (oc_outs c) in
  dedup e ++
  (if list_eqb N.eqb (rev (acc (s_h s))) (oc_hacc c) then [] else [5]) ++
  (if list_eqb N.eqb (rev (acc (s_d s))) (oc_dacc c) then [] else [6]) ++
  (if height s =? oc_height c then [] else [7]).

Fixpoint mismatches_from (i : N) (cs : list ocase) : list (N * list N) :=
  match cs with
  | [] => []
  | c :: r => match check_case c with
              | [] => mismatches_from (i + 1) r
              | l => (i, l) :: mismatches_from (i + 1) r
              end
  end.
Definition mismatches := mismatches_from 0.
