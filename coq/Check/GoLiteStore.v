(* Check/GoLiteStore.v — the block store, pkg/store/store.go: DefaultStore.SetHeight / Height / SaveBlockData / GetHeader /
   UpdateState / SetMetadata with encodeHeight / decodeHeight, translated from the Go source on every run
   (coq/gen/GoLiteFuns.v) and evaluated against a scripted datastore whose calls (Get, Put, Batch; on the batch: Put,
   Delete, Commit) are logged in order with their arguments.  For ALL worlds (what the datastore holds and answers,
   which calls fail, all heights and hashes):

     go_SetHeight        reads the height record once; an unreadable / undecodable record is an error and nothing is
                         written; otherwise ONE Put of the little-endian height iff the new height is NUMERICALLY
                         greater than the recorded one (a missing record counts as 0) — never a lower or equal one;
     go_SaveBlockData    everything is written through ONE datastore batch, committed once, last: the stale hash-index
                         entry of a different header stored at this height is deleted in that batch, then header,
                         data, signature and hash index are put, in this order; the first failing step ends the call
                         with an error and NOTHING is committed; no write reaches the datastore outside the batch;
     go_UpdateState / go_SetMetadata   one Put under the state key / the metadata key of the given name.

   Proofs/GoLiteStoreRefine.v ties them to Model/Store.v ([step] for OSetHeight / OSave: the writes C14's theorems
   are about).   Used by C14. *)
From Coq Require Import String List NArith ZArith Bool Lia.
From Verif Require Import Model.Types Model.Admission Model.GoLite Check.GoLiteTactics gen.GoLiteFuns.
Import ListNotations.
Open Scope string_scope.
Open Scope list_scope.

Definition er (ok : bool) : gval := VErr (negb ok).
Definition ctx : gval := VUnit.
Definition store_globals : env :=
  [("ds.ErrNotFound", VErrTag "ds.ErrNotFound"); ("heightLength", VZ 8); ("binary.LittleEndian", VUnit)].

Definition is_receiver (e : gval) : bool := match e with VEff x _ => x =? "receiver" | _ => false end.
Definition run_calls (name : string) (recv : gval) (args : list gval) : option (list gval * list gval) :=
  match lookup gen_funs name with
  | Some fn => interp (bind (exec 400 gen_funs store_globals (start_env fn (Some recv) args) [] (f_body fn))
                            (fun r => RRet (fst r, filter (fun e => negb (is_receiver e)) (rev (snd r)))))
  | None => None
  end.

Ltac plazy := lazy -[N.eqb N.leb N.ltb N.add Z.ltb Z.sub str_eqb].
Ltac decide_or_case c :=
  let v := eval vm_compute in c in
  match v with
  | true => change c with true
  | false => change c with false
  | _ => destruct c eqn:?
  end.
Ltac split_on c :=
  match c with
  | context [(?a =? ?b)%N] => decide_or_case (a =? b)%N
  | context [(?a <=? ?b)%N] => decide_or_case (a <=? b)%N
  | context [(?a <? ?b)%N] => decide_or_case (a <? b)%N
  | context [str_eqb ?a ?b] => destruct (str_eqb a b) eqn:?
  | context [?b] => is_var b; match type of b with bool => destruct b end
  end.
Ltac hstep := match goal with
              | |- (if ?c then _ else _) = _ => split_on c
              | |- _ = Some (if ?c then _ else _) => split_on c
              | |- _ = Some (_, if ?c then _ else _) => split_on c
              | |- _ = Some (if ?c then _ else _, _) => split_on c
              end; cbv beta iota.

Definition set_height_name : string := "DefaultStore.SetHeight".
Definition save_name : string := "DefaultStore.SaveBlockData".
Definition commit_call : gval := VEff "batch.Commit" [VUnit].

(* ---- SetHeight / Height ---------------------------------------------------------------------------------- *)
(* what the datastore answers to Get(height key): not found | an error | bytes of the right length (a height) or not *)
Inductive getres := GNotFound | GErr | GHeight (cur : N) | GBadLength.
Definition get_answer (g : getres) : gval :=
  match g with
  | GNotFound => VTuple [VNil; VErrTag "ds.ErrNotFound"]
  | GErr => VTuple [VNil; VErr true]
  | GHeight cur => VTuple [VLE64 cur; VNil]
  | GBadLength => VTuple [VBlobs 3; VNil]
  end.
Definition height_store (g : getres) (put_ok : bool) : gval :=
  VObj "DefaultStore" [("db", VOrc "db" [("Get", [get_answer g]); ("Put", [er put_ok])])].
Definition height_key_v : gval := VTok "getHeightKey" [].

Definition recorded (g : getres) : option N :=
  match g with GNotFound => Some 0%N | GHeight cur => Some cur | _ => None end.

Definition setheight_expect (g : getres) (put_ok : bool) (n : N) : list gval * list gval :=
  let c1 := [VEff "db.Get" [ctx; height_key_v]] in
  match recorded g with
  | None => ([VErr true], c1)
  | Some cur =>
      if (n <=? cur)%N then ([VNil], c1)
      else ([er put_ok], c1 ++ [VEff "db.Put" [ctx; height_key_v; VLE64 n]])
  end.

Lemma go_SetHeight : forall g put_ok n,
  run_calls "DefaultStore.SetHeight" (height_store g put_ok) [ctx; VN n] = Some (setheight_expect g put_ok n).
Proof.
  intros [| |cur|] put_ok n; plazy; repeat hstep; reflexivity.
Qed.

Lemma go_Height : forall g put_ok,
  run_calls "DefaultStore.Height" (height_store g put_ok) [ctx] =
  Some (match g with
        | GHeight cur => [VN cur; VNil]
        | GNotFound => [VZ 0; VNil]                 (* the untyped constant 0 *)
        | _ => [VZ 0; VErr true]
        end, [VEff "db.Get" [ctx; height_key_v]]).
Proof.
  intros [| |cur|] put_ok; plazy; repeat hstep; reflexivity.
Qed.

(* ---- SaveBlockData ------------------------------------------------------------------------------------------ *)
(* what is stored under the header key of this height: nothing readable | bytes that do not decode | a header, by its hash *)
Inductive oldres := ONone | OBad | OHeader (ohash : string).
Record saveworld := {
  v_hash : string; v_height : N;
  v_hm_ok : bool; v_dm_ok : bool;              (* header.MarshalBinary, data.MarshalBinary *)
  v_batch_ok : bool; v_old : oldres;
  v_del_ok : bool; v_p1 : bool; v_p2 : bool; v_p3 : bool; v_p4 : bool; v_commit_ok : bool }.

Definition old_answer (o : oldres) : gval :=
  match o with
  | ONone => VTuple [VNil; VErr true]
  | OBad => VTuple [VTok "bad-blob" []; VNil]
  | OHeader oh => VTuple [VTok "blob" [VRec [("Hash()", VStr oh)]]; VNil]
  end.
Definition batch_v (w : saveworld) : gval :=
  VOrc "batch" [("Delete", [er (v_del_ok w)]); ("Put", [er (v_p1 w); er (v_p2 w); er (v_p3 w); er (v_p4 w)]);
                ("Commit", [er (v_commit_ok w)])].
Definition save_store (w : saveworld) : gval :=
  VObj "DefaultStore" [("db", VOrc "db" [("Batch", [VTuple [batch_v w; er (v_batch_ok w)]]); ("Get", [old_answer (v_old w)])])].
Definition header_arg (w : saveworld) : gval :=
  VRec [("Hash()", VStr (v_hash w)); ("Height()", VN (v_height w));
        ("MarshalBinary()", VTuple [VTok "header-bytes" []; er (v_hm_ok w)])].
Definition data_arg (w : saveworld) : gval := VRec [("MarshalBinary()", VTuple [VTok "data-bytes" []; er (v_dm_ok w)])].
Definition sig_arg : gval := VTok "signature-bytes" [].

Definition stale (w : saveworld) : option string :=
  match v_old w with
  | OHeader oh => if str_eqb oh (v_hash w) then None else Some oh
  | _ => None
  end.

Definition save_expect (w : saveworld) : list gval * list gval :=
  let n := v_height w in
  if negb (v_hm_ok w) then ([VErr true], []) else
  if negb (v_dm_ok w) then ([VErr true], []) else
  let c1 := [VEff "db.Batch" [ctx]] in
  if negb (v_batch_ok w) then ([VErr true], c1) else
  let c2 := c1 ++ [VEff "db.Get" [ctx; VTok "getHeaderKey" [VN n]]] in
  let k (c3 : list gval) : list gval * list gval :=
    let c4 := c3 ++ [VEff "batch.Put" [ctx; VTok "getHeaderKey" [VN n]; VTok "header-bytes" []]] in
    if negb (v_p1 w) then ([VErr true], c4) else
    let c5 := c4 ++ [VEff "batch.Put" [ctx; VTok "getDataKey" [VN n]; VTok "data-bytes" []]] in
    if negb (v_p2 w) then ([VErr true], c5) else
    let c6 := c5 ++ [VEff "batch.Put" [ctx; VTok "getSignatureKey" [VN n]; sig_arg]] in
    if negb (v_p3 w) then ([VErr true], c6) else
    let c7 := c6 ++ [VEff "batch.Put" [ctx; VTok "getIndexKey" [VStr (v_hash w)]; VLE64 n]] in
    if negb (v_p4 w) then ([VErr true], c7) else
    let c8 := c7 ++ [VEff "batch.Commit" [ctx]] in
    if negb (v_commit_ok w) then ([VErr true], c8) else ([VNil], c8) in
  match stale w with
  | Some oh =>
      let c3 := c2 ++ [VEff "batch.Delete" [ctx; VTok "getIndexKey" [VStr oh]]] in
      if negb (v_del_ok w) then ([VErr true], c3) else k c3
  | None => k c2
  end.

Lemma go_SaveBlockData : forall w,
  run_calls "DefaultStore.SaveBlockData" (save_store w) [ctx; header_arg w; data_arg w; sig_arg] = Some (save_expect w).
Proof.
  intros [hash n hm dm bok old dok p1 p2 p3 p4 cok].
  destruct old as [| |oh].
  all: unfold save_expect, stale; cbn [v_old v_hash]; try destruct (str_eqb oh hash) eqn:Heq.
  all: plazy; rewrite ?Heq; cbv beta iota.
  all: repeat hstep; reflexivity.
Qed.

(* ---- UpdateState / SetMetadata ---------------------------------------------------------------------------- *)
Definition put_store (put_ok : bool) : gval := VObj "DefaultStore" [("db", VOrc "db" [("Put", [er put_ok])])].

Lemma go_UpdateState : forall to_ok put_ok,
  run_calls "DefaultStore.UpdateState" (put_store put_ok)
            [ctx; VRec [("ToProto()", VTuple [VRec [("Txs", VTxsQ 1)]; er to_ok])]] =
  Some (if to_ok then ([er put_ok], [VEff "db.Put" [ctx; VTok "getStateKey" []; VEncQ 1]]) else ([VErr true], [])).
Proof. intros [] put_ok; plazy; reflexivity. Qed.

Lemma go_SetMetadata : forall put_ok key value,
  run_calls "DefaultStore.SetMetadata" (put_store put_ok) [ctx; VStr key; VLE64 value] =
  Some ([if put_ok then VNil else VErr true], [VEff "db.Put" [ctx; VTok "getMetaKey" [VStr key]; VLE64 value]]).
Proof. intros [] key value; plazy; reflexivity. Qed.

Print Assumptions go_SetHeight.
Print Assumptions go_Height.
Print Assumptions go_SaveBlockData.
Print Assumptions go_UpdateState.
Print Assumptions go_SetMetadata.
