(* Check/IncluderCheck.v — correspondence check for Model/Includer.v.  The harness writes, per case, the
   operations it ran against the real block.Manager as groups of model items (one group per operation),
   what the node reported after every operation, the recorded effect log (metadata Puts of the includer's
   keys and SetFinal calls, in order), the final dump of the includer's metadata keys, and the cache lookups
   of every stored block's header hash / every data commitment.  [mismatches] lists the cases on which the
   model disagrees (index, what differs).
   Full-node cases carry the history as groups of Model/IncluderScan.v items instead ([ic_fops]: blocks applied,
   DA heights posted with their blob classes, scan iterations with the faults the DA double was scripted to
   answer with, includer runs, deaths, restarts): the mark events are then COMPUTED by the model from the DA
   content, and after every operation the scan cursor m.daHeight and the State.DAHeight found in the store are
   compared as well. *)
From Coq Require Import String NArith List Bool.
From Verif Require Import Base.Keys Model.Includer Model.IncluderScan.
Import ListNotations.
Open Scope string_scope.
Open Scope list_scope.
Open Scope N_scope.

Definition B (h d : N) : blk := {| bh := h; bd := d |}.

(* pkg/store/keys.go getMetaKey + the includer's key formats *)
Definition key_str (k : mkey) : string :=
  match k with
  | KD => "/m/d"
  | KH n => "/m/rhb/" ++ dec n ++ "/h"
  | KT n => "/m/rhb/" ++ dec n ++ "/d"
  end%string.

Definition eff_eqb (a b : eff) : bool :=
  match a, b with
  | EPut k v, EPut k' v' => mkey_eqb k k' && (v =? v')
  | EFin n, EFin n' => (n =? n')
  | EPub n, EPub n' => (n =? n')
  | _, _ => false
  end.

Definition optN_eqb (a b : option N) : bool :=
  match a, b with Some x, Some y => (x =? y) | None, None => true | _, _ => false end.

Fixpoint list_eqb {A} (e : A -> A -> bool) (a b : list A) : bool :=
  match a, b with
  | [], [] => true
  | x :: a', y :: b' => e x y && list_eqb e a' b'
  | _, _ => false
  end.

Record icase := {
  ic_base : N;                       (* genesis.InitialHeight - 1 *)
  ic_ops : list (list item);
  ic_obs : list (N * N * bool);     (* after each operation: reported height, store height, IsDAIncluded(reported+1) *)
  ic_trace : list eff;              (* the recorded effects (datastore Puts, SetFinal calls), oldest first *)
  ic_death : list N;                (* per crash / fault item, in order: GetDAIncludedHeight() of the dying process *)
  ic_meta : list (mkey * N);        (* final dump of "/m/d" and "/m/rhb/*" *)
  ic_hm : list (N * option N);      (* header-hash id, headerCache.GetDAIncludedHeight *)
  ic_dm : list (N * option N);      (* commitment id, dataCache.GetDAIncludedHeight *)
  ic_keys : list (mkey * string);   (* sample of real datastore keys against [key_str] *)
  ic_full : bool;                   (* a full-node case: [ic_fops] is the history, [ic_ops] is unused *)
  ic_fops : list (list fitem);
  ic_fobs : list (N * N)            (* after each operation: m.daHeight, State.DAHeight read back from the store *)
}.

Definition next_included (s : node) : bool :=
  match include_effs s with [] => false | _ => true end.
Definition observe (s : node) : N * N * bool := (rep s, sheight s, next_included s).
Definition obs_eqb (a b : N * N * bool) : bool :=
  let '(x, y, z) := a in let '(x', y', z') := b in (x =? x') && (y =? y') && Bool.eqb z z'.

Fixpoint run_ops (s : node) (ops : list (list item)) : node * list (N * N * bool) :=
  match ops with
  | [] => (s, [])
  | g :: r => let s' := run_from s g in
              let '(s'', os) := run_ops s' r in (s'', observe s' :: os)
  end.

(* the in-memory publication is not recordable from outside: it is compared through [ic_death] and [ic_obs] *)
Definition recordable (e : eff) : bool := match e with EPub _ => false | _ => true end.

Fixpoint deaths (s : node) (l : list item) : list N :=
  match l with
  | [] => []
  | i :: r => match i with ICrash k | IFault k => [di (dying s k)] | _ => [] end ++ deaths (step s i) r
  end.

Definition meta_agrees (m : metaT) (dump : list (mkey * N)) : bool :=
  forallb (fun e => optN_eqb (meta_get m (fst e)) (Some (snd e))) dump
  && forallb (fun e => existsb (fun d => mkey_eqb (fst e) (fst d)) dump) m.

(* a group of full-node items: the Includer items it amounts to, and the state after it *)
Fixpoint frun_group (s : fnode) (g : list fitem) : fnode * list item :=
  match g with
  | [] => (s, [])
  | i :: r => let its := items_of s i in
              let '(s', rest) := frun_group (fstep s i) r in (s', its ++ rest)
  end.
Fixpoint frun_ops (s : fnode) (ops : list (list fitem)) : list (list item) * list (N * N) :=
  match ops with
  | [] => ([], [])
  | g :: r => let '(s', its) := frun_group s g in
              let '(gs, os) := frun_ops s' r in (its :: gs, (cur s', sdah s') :: os)
  end.
Definition pair_eqb (a b : N * N) : bool := (fst a =? fst b) && (snd a =? snd b).

(* 1 = observations differ, 2 = effect log differs, 3 = metadata image differs, 4 = cache marks differ,
   5 = a key builder differs, 6 = the height visible at an instant of death / fault differs,
   7 = (full node) the scan cursor or the stored State.DAHeight differs *)
Definition check_case (c : icase) : list N :=
  let '(fgroups, fobs) := frun_ops (finit (ic_base c)) (ic_fops c) in
  let ops := if ic_full c then fgroups else ic_ops c in
  let '(s, os) := run_ops (init (ic_base c)) ops in
  (if list_eqb obs_eqb os (ic_obs c) then [] else [1]) ++
  (if list_eqb eff_eqb (filter recordable (rev (tr s))) (ic_trace c) then [] else [2]) ++
  (if meta_agrees (meta s) (ic_meta c) then [] else [3]) ++
  (if forallb (fun e => optN_eqb (mget (hm s) (fst e)) (snd e)) (ic_hm c)
      && forallb (fun e => optN_eqb (mget (dm s) (fst e)) (snd e)) (ic_dm c) then [] else [4]) ++
  (if forallb (fun e => String.eqb (key_str (fst e)) (snd e)) (ic_keys c) then [] else [5]) ++
  (if list_eqb N.eqb (deaths (init (ic_base c)) (concat ops)) (ic_death c) then [] else [6]) ++
  (if negb (ic_full c) || list_eqb pair_eqb fobs (ic_fobs c) then [] else [7]).

Fixpoint mismatches_from (i : N) (cs : list icase) : list (N * list N) :=
  match cs with
  | [] => []
  | c :: r => match check_case c with
              | [] => mismatches_from (i + 1) r
              | l => (i, l) :: mismatches_from (i + 1) r
              end
  end.
Definition mismatches := mismatches_from 0.
