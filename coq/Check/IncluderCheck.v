(* Check/IncluderCheck.v — correspondence check for Model/Includer.v.  The harness writes, per case, the
   operations it ran against the real block.Manager as groups of model items (one group per operation),
   what the node reported after every operation, the recorded effect log (metadata Puts of the includer's
   keys and SetFinal calls, in order), the final dump of the includer's metadata keys, and the cache lookups
   of every stored block's header hash / every data commitment.  [mismatches] lists the cases on which the
   model disagrees (index, what differs).
   Full-node cases carry the history as groups of Model/IncluderScan.v items instead ([ic_fops]: blocks applied,
   DA heights posted with their blob classes, scan iterations with the faults the DA double was scripted to
   answer with, includer runs, deaths, restarts): the mark events are then COMPUTED by the model from the DA
   content, and after every operation the scan cursor m.daHeight and the State.DAHeight found in the store are
   compared as well.
   Aggregator cases carry the history as groups of Model/IncluderAgg.v items as well ([ic_aops]: blocks produced,
   iterations of the two submission loops with the ANSWERS the DA double was scripted to give — ids with a nil
   error, errors of every class with or without ids, with or without the blobs being kept —, includer runs, deaths,
   restarts) and the node's directory configuration ([ic_cfg]): the mark events are then COMPUTED by the model from
   the answers (and must equal those the harness derives from the DA double's own record, [ic_ops]); after every
   operation the two submission watermarks and the DA tip, at the end the content of the DA layer, after every
   SaveCache the directory the cache files appeared in, and after every new process the cache lookups are compared. *)
From Coq Require Import String NArith List Bool.
From Verif Require Import Base.Keys Model.Includer Model.IncluderScan Model.IncluderAgg.
Import ListNotations.
Open Scope string_scope.
Open Scope list_scope.
Open Scope N_scope.

Definition B (h d : N) : blk := {| bh := h; bd := d |}.

(* pkg/store/keys.go getMetaKey + the includer's key formats *)
Definition key_str (k : mkey) : string :=
  match k with
  | KD => "/m/d"
  | KH n => "/m/rhb/" ++ dec n ++ "/h"
  | KT n => "/m/rhb/" ++ dec n ++ "/d"
  end%string.

Definition eff_eqb (a b : eff) : bool :=
  match a, b with
  | EPut k v, EPut k' v' => mkey_eqb k k' && (v =? v')
  | EFin n, EFin n' => (n =? n')
  | EPub n, EPub n' => (n =? n')
  | _, _ => false
  end.

Definition optN_eqb (a b : option N) : bool :=
  match a, b with Some x, Some y => (x =? y) | None, None => true | _, _ => false end.

Fixpoint list_eqb {A} (e : A -> A -> bool) (a b : list A) : bool :=
  match a, b with
  | [], [] => true
  | x :: a', y :: b' => e x y && list_eqb e a' b'
  | _, _ => false
  end.

Record icase := {
  ic_base : N;                       (* genesis.InitialHeight - 1 *)
  ic_ops : list (list item);
  ic_obs : list (N * N * bool);     (* after each operation: reported height, store height, IsDAIncluded(reported+1) *)
  ic_trace : list eff;              (* the recorded effects (datastore Puts, SetFinal calls), oldest first *)
  ic_death : list N;                (* per crash / fault item, in order: GetDAIncludedHeight() of the dying process *)
  ic_meta : list (mkey * N);        (* final dump of "/m/d" and "/m/rhb/*" *)
  ic_hm : list (N * option N);      (* header-hash id, headerCache.GetDAIncludedHeight *)
  ic_dm : list (N * option N);      (* commitment id, dataCache.GetDAIncludedHeight *)
  ic_keys : list (mkey * string);   (* sample of real datastore keys against [key_str] *)
  ic_full : bool;                   (* a full-node case: [ic_fops] is the history, [ic_ops] is unused *)
  ic_fops : list (list fitem);
  ic_fobs : list (N * N);           (* after each operation: m.daHeight, State.DAHeight read back from the store *)
  ic_cfg : string * string;         (* config.RootDir (below the scratch directory), config.DBPath *)
  ic_agg : bool;                    (* an aggregator case: [ic_aops] is the history, [ic_ops] the harness's own derivation of the marks *)
  ic_aops : list (list aitem);
  ic_aobs : list (N * N * N);       (* after each operation: last-submitted header height, data height, tip of the DA double *)
  ic_dal : list (list blob);        (* aggregator: final content of the DA double, DA heights 1, 2, ... *)
  ic_saved : list string;           (* per SaveCache (fault / restart operation): the directory below RootDir that holds cache files afterwards *)
  ic_bmarks : list (list (N * option N) * list (N * option N))
                                    (* after each crash / fault / restart operation: the lookups of [ic_hm] / [ic_dm] in the new process *)
}.

Definition next_included (s : node) : bool :=
  match include_effs s with [] => false | _ => true end.
Definition observe (s : node) : N * N * bool := (rep s, sheight s, next_included s).
Definition obs_eqb (a b : N * N * bool) : bool :=
  let '(x, y, z) := a in let '(x', y', z') := b in (x =? x') && (y =? y') && Bool.eqb z z'.

Fixpoint run_ops (s : node) (ops : list (list item)) : node * list (N * N * bool) :=
  match ops with
  | [] => (s, [])
  | g :: r => let s' := run_from s g in
              let '(s'', os) := run_ops s' r in (s'', observe s' :: os)
  end.

(* the in-memory publication is not recordable from outside: it is compared through [ic_death] and [ic_obs] *)
Definition recordable (e : eff) : bool := match e with EPub _ => false | _ => true end.

Fixpoint deaths (s : node) (l : list item) : list N :=
  match l with
  | [] => []
  | i :: r => match i with ICrash k | IFault k => [di (dying s k)] | _ => [] end ++ deaths (step s i) r
  end.

Definition meta_agrees (m : metaT) (dump : list (mkey * N)) : bool :=
  forallb (fun e => optN_eqb (meta_get m (fst e)) (Some (snd e))) dump
  && forallb (fun e => existsb (fun d => mkey_eqb (fst e) (fst d)) dump) m.

(* a group of full-node items: the Includer items it amounts to, and the state after it *)
Fixpoint frun_group (s : fnode) (g : list fitem) : fnode * list item :=
  match g with
  | [] => (s, [])
  | i :: r => let its := items_of s i in
              let '(s', rest) := frun_group (fstep s i) r in (s', its ++ rest)
  end.
Fixpoint frun_ops (s : fnode) (ops : list (list fitem)) : list (list item) * list (N * N) :=
  match ops with
  | [] => ([], [])
  | g :: r => let '(s', its) := frun_group s g in
              let '(gs, os) := frun_ops s' r in (its :: gs, (cur s', sdah s') :: os)
  end.
Definition pair_eqb (a b : N * N) : bool := (fst a =? fst b) && (snd a =? snd b).

(* a group of aggregator items: the Includer items it amounts to, and the state after it *)
Fixpoint arun_group (s : anode) (g : list aitem) : anode * list item :=
  match g with
  | [] => (s, [])
  | i :: r => let its := aitems s i in
              let '(s', rest) := arun_group (astep s i) r in (s', its ++ rest)
  end.
Fixpoint arun_ops (s : anode) (ops : list (list aitem)) : anode * list (list item) * list (N * N * N) :=
  match ops with
  | [] => (s, [], [])
  | g :: r => let '(s', its) := arun_group s g in
              let '(sf, gs, os) := arun_ops s' r in
              (sf, its :: gs, (a_wh s', a_wd s', N.of_nat (length (a_dal s'))) :: os)
  end.
Definition triple_eqb (a b : N * N * N) : bool :=
  let '(x, y, z) := a in let '(x', y', z') := b in (x =? x') && (y =? y') && (z =? z').

Definition blk_eqb (a b : blk) : bool := (bh a =? bh b) && (bd a =? bd b).
Definition item_eqb (a b : item) : bool :=
  match a, b with
  | IAppend x, IAppend y => blk_eqb x y
  | IMarkH i d, IMarkH i' d' => (i =? i') && (d =? d')
  | IMarkD i d, IMarkD i' d' => (i =? i') && (d =? d')
  | IInclude, IInclude => true
  | ICrash k, ICrash k' => Nat.eqb k k'
  | IFault k, IFault k' => Nat.eqb k k'
  | IRestart, IRestart => true
  | _, _ => false
  end.

(* the states in which a new process has just started *)
Definition is_boot_item (i : item) : bool := match i with ICrash _ | IFault _ | IRestart => true | _ => false end.
Definition is_save_item (i : item) : bool := match i with IFault _ | IRestart => true | _ => false end.
Fixpoint boot_states (s : node) (ops : list (list item)) : list node :=
  match ops with
  | [] => []
  | g :: r => let s' := run_from s g in (if existsb is_boot_item g then [s'] else []) ++ boot_states s' r
  end.
Fixpoint all2 {A B} (f : A -> B -> bool) (a : list A) (b : list B) : bool :=
  match a, b with
  | [], [] => true
  | x :: a', y :: b' => f x y && all2 f a' b'
  | _, _ => false
  end.
Definition marks_agree (s : node) (o : list (N * option N) * list (N * option N)) : bool :=
  forallb (fun e => optN_eqb (mget (hm s) (fst e)) (snd e)) (fst o)
  && forallb (fun e => optN_eqb (mget (dm s) (fst e)) (snd e)) (snd o).

(* 1 = observations differ, 2 = effect log differs, 3 = metadata image differs, 4 = cache marks differ,
   5 = a key builder differs, 6 = the height visible at an instant of death / fault differs,
   7 = (full node) the scan cursor or the stored State.DAHeight differs,
   8 = (aggregator) a submission watermark or the tip of the DA layer differs after some operation,
   9 = (aggregator) the content of the DA layer differs, 10 = (aggregator) the mark events the model computes from
   the DA layer's answers are not those of the DA double's own record, 11 = a SaveCache did not leave the cache files
   in the directory the model saves to (or their number differs from the clean shutdowns), 12 = the cache lookups
   of a newly started process differ *)
Definition check_case (c : icase) : list N :=
  let '(fgroups, fobs) := frun_ops (finit (ic_base c)) (ic_fops c) in
  let cfg := {| c_root := fst (ic_cfg c); c_db := snd (ic_cfg c) |} in
  let '(sa, agroups, aobs) := arun_ops (ainit cfg (ic_base c)) (ic_aops c) in
  let ops := if ic_full c then fgroups else if ic_agg c then agroups else ic_ops c in
  let '(s, os) := run_ops (init (ic_base c)) ops in
  (if list_eqb obs_eqb os (ic_obs c) then [] else [1]) ++
  (if list_eqb eff_eqb (filter recordable (rev (tr s))) (ic_trace c) then [] else [2]) ++
  (if meta_agrees (meta s) (ic_meta c) then [] else [3]) ++
  (if forallb (fun e => optN_eqb (mget (hm s) (fst e)) (snd e)) (ic_hm c)
      && forallb (fun e => optN_eqb (mget (dm s) (fst e)) (snd e)) (ic_dm c) then [] else [4]) ++
  (if forallb (fun e => String.eqb (key_str (fst e)) (snd e)) (ic_keys c) then [] else [5]) ++
  (if list_eqb N.eqb (deaths (init (ic_base c)) (concat ops)) (ic_death c) then [] else [6]) ++
  (if negb (ic_full c) || list_eqb pair_eqb fobs (ic_fobs c) then [] else [7]) ++
  (if negb (ic_agg c) || list_eqb triple_eqb aobs (ic_aobs c) then [] else [8]) ++
  (if negb (ic_agg c) || list_eqb (list_eqb blob_eqb) (a_dal sa) (ic_dal c) then [] else [9]) ++
  (if negb (ic_agg c) || list_eqb (list_eqb item_eqb) agroups (ic_ops c) then [] else [10]) ++
  (if forallb (String.eqb (snd (save_dir cfg))) (ic_saved c)
      && Nat.eqb (length (ic_saved c)) (length (filter is_save_item (concat ops))) then [] else [11]) ++
  (if all2 marks_agree (boot_states (init (ic_base c)) ops) (ic_bmarks c) then [] else [12]).

Fixpoint mismatches_from (i : N) (cs : list icase) : list (N * list N) :=
  match cs with
  | [] => []
  | c :: r => match check_case c with
              | [] => mismatches_from (i + 1) r
              | l => (i, l) :: mismatches_from (i + 1) r
              end
  end.
Definition mismatches := mismatches_from 0.
