(* Check/GoLiteBlock.v — building, signing and executing a block: Manager.execCreateBlock, Manager.getHeaderSignature,
   Manager.getDataSignature and Manager.execApplyBlock (block/manager.go), translated from the Go source on every run
   and evaluated against scripted collaborators (signer, hasher / payload providers, executor) whose calls are logged.
   These are the collaborators Check/GoLitePublish.v and Check/GoLiteSync.v script as createBlock / applyBlock /
   getHeaderSignature; here is what they do themselves.  For ALL worlds:

     go_execCreateBlock   without a signer, with a failing signer or with a signer whose address is not the genesis
                          proposer's: an error, nothing built.  Otherwise the header carries the chain id and app hash of
                          the last state, the height asked for, the batch's time, the given last-header hash, the genesis
                          proposer address, the LAST block's signature, the signer (public key, genesis address), and the
                          data hash of the block's data; the data carries EXACTLY the batch's transactions — all of them,
                          in order (element-wise copy) — or no transaction and the empty-data hash for an empty batch;
     go_getHeaderSignature / go_getDataSignature   the payload (of the header / the marshalled data) is signed by the
                          signer, once; a failing payload / no signer is an error with nothing signed;
     go_execApplyBlock    ExecuteTxs is called ONCE with exactly the block's transactions, the header's height and time and
                          the app hash of the last state; an executor error is an error; otherwise the new state is
                          Types.next_state (last state, header, returned root).
   Used by C01, C05, C11. *)
From Coq Require Import String List NArith ZArith Bool Lia.
From Verif Require Import Model.Types Model.Admission Model.GoLite Check.GoLiteTactics gen.GoLiteFuns.
Import ListNotations.
Open Scope string_scope.
Open Scope list_scope.

Definition er (ok : bool) : gval := VErr (negb ok).
Definition is_receiver (e : gval) : bool := match e with VEff x _ => x =? "receiver" | _ => false end.
Definition run_calls (globals : env) (name : string) (recv : gval) (args : list gval) : option (list gval * list gval) :=
  match lookup gen_funs name with
  | Some fn => interp (bind (exec 400 gen_funs globals (start_env fn (Some recv) args) [] (f_body fn))
                            (fun r => RRet (fst r, filter (fun e => negb (is_receiver e)) (rev (snd r)))))
  | None => None
  end.

Ltac plazy := lazy -[N.eqb N.leb N.ltb N.add N.sub str_eqb].
Ltac decide_or_case c :=
  let v := eval vm_compute in c in
  match v with
  | true => change c with true
  | false => change c with false
  | _ => destruct c eqn:?
  end.
Ltac split_on c :=
  match c with
  | context [str_eqb ?a ?b] => destruct (str_eqb a b) eqn:?
  | context [(?a =? ?b)%N] => decide_or_case (a =? b)%N
  | context [?b] => is_var b; match type of b with bool => destruct b end
  end.
Ltac hstep := match goal with
              | |- (if ?c then _ else _) = _ => split_on c
              | |- _ = Some (if ?c then _ else _) => split_on c
              end; cbv beta iota.

(* ---- execCreateBlock ---- *)
Record cworld := { k_signer : bool; k_pub_ok : bool; k_addr_ok : bool; k_gaddr : string; k_saddr : string;
                   k_hash_ok : bool; k_height : N; k_ts : Z; k_batch : bool; k_nonempty : bool; k_txid : N }.
Definition signer_v (w : cworld) : gval :=
  if k_signer w then VOrc "signer" [("GetPublic", [VTuple [VTok "public-key" []; er (k_pub_ok w)]]);
                                    ("GetAddress", [VTuple [VStr (k_saddr w); er (k_addr_ok w)]])]
  else VNil.
Definition create_mgr (w : cworld) : gval :=
  VObj "Manager" [("signer", signer_v w);
                  ("genesis", VRec [("ProposerAddress", VStr (k_gaddr w))]);
                  ("lastState", VRec [("Version", VRec [("Block", VTok "vb" []); ("App", VTok "va" [])]);
                                      ("ChainID", VTok "chain" []); ("AppHash", VTok "app-hash" [])]);
                  ("$orc", VOrc "m" [("validatorHasherProvider", [VTuple [VTok "validator-hash" []; er (k_hash_ok w)]])])].
Definition txs_v (w : cworld) : gval := if k_nonempty w then VTxsQ (k_txid w) else VList [].
Definition batch_v (w : cworld) : gval :=
  VRec [("Batch", if k_batch w then VRec [("Transactions", txs_v w)] else VNil); ("Time", VZ (k_ts w)); ("Data", VUnit)].
Definition create_args (w : cworld) : list gval :=
  [VUnit; VN (k_height w); VTok "last-signature" []; VTok "last-header-hash" []; VUnit; batch_v w].
Definition create_globals : env := [("dataHashForEmptyTxs", VTok "empty-data-hash" [])].

Definition header_built (w : cworld) (data_hash : gval) : gval :=
  VRec [("DataHash", data_hash);
        ("Header", VRec [("Version", VRec [("Block", VTok "vb" []); ("App", VTok "va" [])]);
                         ("BaseHeader", VRec [("ChainID", VTok "chain" []); ("Height", VN (k_height w)); ("Time", VZ (k_ts w))]);
                         ("LastHeaderHash", VTok "last-header-hash" []); ("ConsensusHash", VZero "make types.Hash");
                         ("AppHash", VTok "app-hash" []); ("ProposerAddress", VStr (k_gaddr w));
                         ("ValidatorHash", VTok "validator-hash" [])]);
        ("Signature", VTok "last-signature" []);
        ("Signer", VRec [("PubKey", VTok "public-key" []); ("Address", VStr (k_gaddr w))])].
Definition fail3 (cs : list gval) : list gval * list gval := ([VNil; VNil; VErr true], cs).

Definition create_expect (w : cworld) : list gval * list gval :=
  if negb (k_signer w) then fail3 [] else
  let c1 := [VEff "signer.GetPublic" []] in
  if negb (k_pub_ok w) then fail3 c1 else
  let c2 := c1 ++ [VEff "signer.GetAddress" []] in
  if negb (k_addr_ok w) then fail3 c2 else
  if negb (str_eqb (k_gaddr w) (k_saddr w)) then fail3 c2 else
  let c3 := c2 ++ [VEff "m.validatorHasherProvider" [VStr (k_gaddr w); VTok "public-key" []]] in
  if negb (k_hash_ok w) then fail3 c3 else
  if k_batch w && k_nonempty w
  then ([header_built w (VTok "commitment" [VTxsQ (k_txid w)]); VRec [("Txs", VTxsQ (k_txid w)); ("Txs", VZero "make types.Txs")]; VNil], c3)
  else ([header_built w (VTok "empty-data-hash" []); VRec [("Txs", VZero "make types.Txs")]; VNil], c3).

Lemma go_execCreateBlock : forall w,
  run_calls create_globals "Manager.execCreateBlock" (create_mgr w) (create_args w) = Some (create_expect w).
Proof.
  intros [sg pok aok ga sa hok h ts b ne tx]. unfold create_expect;
    cbn [k_signer k_pub_ok k_addr_ok k_gaddr k_saddr k_hash_ok k_height k_ts k_batch k_nonempty k_txid].
  destruct sg; [|plazy; reflexivity].
  destruct b, ne; plazy; repeat hstep; reflexivity.
Qed.

(* the transactions of the block are exactly the transactions of the batch *)
Lemma created_block_carries_the_batch : forall w,
  k_signer w = true -> k_pub_ok w = true -> k_addr_ok w = true -> str_eqb (k_gaddr w) (k_saddr w) = true -> k_hash_ok w = true ->
  k_batch w = true -> k_nonempty w = true ->
  match fst (create_expect w) with
  | [_; VRec fs; VNil] => lookup fs "Txs" = Some (VTxsQ (k_txid w))
  | _ => False
  end.
Proof.
  intros w H1 H2 H3 H4 H5 H6 H7. unfold create_expect. rewrite H1, H2, H3, H4, H5, H6, H7. reflexivity.
Qed.

(* ---- getHeaderSignature / getDataSignature ---- *)
Definition sign_mgr (signer payload_ok sign_ok : bool) : gval :=
  VObj "Manager" [("signer", if signer then VOrc "signer" [("Sign", [VTuple [VTok "signature" []; er sign_ok]])] else VNil);
                  ("$orc", VOrc "m" [("signaturePayloadProvider", [VTuple [VTok "payload" []; er payload_ok]])])].
Lemma go_getHeaderSignature : forall signer payload_ok sign_ok (h : gval),
  run_calls [] "Manager.getHeaderSignature" (sign_mgr signer payload_ok sign_ok) [h] =
  Some (let c1 := [VEff "m.signaturePayloadProvider" [h]] in
        if negb payload_ok then ([VNil; VErr true], c1)
        else if negb signer then ([VNil; VErr true], c1)
        else ([VTuple [VTok "signature" []; er sign_ok]], c1 ++ [VEff "signer.Sign" [VTok "payload" []]])).
Proof. intros [] [] sok h; plazy; reflexivity. Qed.

Lemma go_getDataSignature : forall signer marshal_ok sign_ok,
  run_calls [] "Manager.getDataSignature" (sign_mgr signer true sign_ok)
            [VRec [("MarshalBinary()", VTuple [VTok "data-bytes" []; er marshal_ok])]] =
  Some (if negb marshal_ok then ([VNil; VErr true], [])
        else if negb signer then ([VNil; VErr true], [])
        else ([VTuple [VTok "signature" []; er sign_ok]], [VEff "signer.Sign" [VTok "data-bytes" []]])).
Proof. intros [] [] sok; plazy; reflexivity. Qed.

(* ---- execApplyBlock ---- *)
Definition state_of_rec (v : gval) : option cstate :=
  match v with
  | VRec fs =>
      match lookup fs "ChainID", lookup fs "InitialHeight", lookup fs "LastBlockHeight", lookup fs "LastBlockTime", lookup fs "AppHash", lookup fs "DAHeight" with
      | Some (VN c), Some (VN i), Some (VN h), Some (VZ t), Some (VRoot a), Some (VN d) =>
          Some {| s_chain := c; s_initial := i; s_height := h; s_time := t; s_app := a; s_da := d |}
      | _, _, _, _, _, _ => None
      end
  | _ => None
  end.
Definition apply_mgr (r : root) (ok : bool) : gval :=
  VObj "Manager" [("exec", VOrc "exec" [("ExecuteTxs", [VTuple [VRoot r; VUnit; er ok]])])].
Definition apply_globals : env := [("HeaderContextKey", VTok "header-context-key" [])].

Lemma go_execApplyBlock : forall (s : cstate) (h : header) (d : data) (r : root) (ok : bool),
  match run_calls apply_globals "Manager.execApplyBlock" (apply_mgr r ok) [VUnit; VState s; VHeader h; VData d] with
  | Some ([v; e], calls) =>
      calls = [VEff "exec.ExecuteTxs" [VTok "context.WithValue" [VUnit; VTok "header-context-key" []; VHeader h];
                                      VTxs (Some (d_txs d)); VN (h_height h); VZ (h_time h); VRoot (s_app s)]] /\
      (if ok then state_of_rec v = Some (next_state s h r) /\ e = VNil else e = VErr true)
  | _ => False
  end.
Proof. intros s h d r ok; destruct s, h, d, ok; lazy; split; try split; reflexivity. Qed.

Print Assumptions go_execCreateBlock.
Print Assumptions created_block_carries_the_batch.
Print Assumptions go_getHeaderSignature.
Print Assumptions go_getDataSignature.
Print Assumptions go_execApplyBlock.
