(* Check/GoLiteFiles.v — three small pieces of code that several properties lean on, translated from the Go source on
   every run (coq/gen/GoLiteFuns.v) and evaluated against scripted collaborators whose calls are logged:

     go_saveMapGob       pkg/cache/cache.go saveMapGob, the one function that writes a cache file: for ALL paths and all
                         failures it creates "<path>.tmp", encodes, syncs and closes THAT file, and only then renames it
                         over <path>; a failing step ends the call with an error; the final path is named by no call
                         but the rename, which is the last call — so no crash point leaves a partly written file under
                         the final name, on the first save as on every later one (C04, C05, C12);
     go_SaveCache / go_LoadCache / cache_dirs_agree
                         block/manager.go: for ALL root directories and configurations the directories LoadCache reads
                         at start-up are the directories SaveCache wrote at shutdown, header cache first (C07: the
                         DA-included marks survive a clean restart only through this pair; C04, C05);
     go_setLastSubmittedHeight
                         block/pending_base.go: the submission watermark moves only UP — the in-memory value is
                         replaced iff the new height is greater, then (and only then) the same value is written to the
                         store; a failing store write is only logged (C06, C13). *)
From Coq Require Import String List NArith ZArith Bool Lia.
From Verif Require Import Model.Types Model.Admission Model.GoLite Check.GoLiteTactics gen.GoLiteFuns.
Import ListNotations.
Open Scope string_scope.
Open Scope list_scope.

Definition er (ok : bool) : gval := VErr (negb ok).
Definition ctx : gval := VUnit.
Definition is_receiver (e : gval) : bool := match e with VEff x _ => x =? "receiver" | _ => false end.
Definition run_calls (globals : env) (name : string) (recv : option gval) (args : list gval) : option (list gval * list gval) :=
  match lookup gen_funs name with
  | Some fn => interp (bind (exec 400 gen_funs globals (start_env fn recv args) [] (f_body fn))
                            (fun r => RRet (fst r, filter (fun e => negb (is_receiver e)) (rev (snd r)))))
  | None => None
  end.

Ltac plazy := lazy -[N.eqb N.leb N.ltb N.add Z.ltb Z.sub str_app].
Ltac decide_or_case c :=
  let v := eval vm_compute in c in
  match v with
  | true => change c with true
  | false => change c with false
  | _ => destruct c eqn:?
  end.
Ltac split_on c :=
  match c with
  | context [(?a =? ?b)%N] => decide_or_case (a =? b)%N
  | context [(?a <=? ?b)%N] => decide_or_case (a <=? b)%N
  | context [(?a <? ?b)%N] => decide_or_case (a <? b)%N
  | context [?b] => is_var b; match type of b with bool => destruct b end
  end.
Ltac hstep := match goal with
              | |- (if ?c then _ else _) = _ => split_on c
              | |- _ = Some (if ?c then _ else _) => split_on c
              | |- _ = Some (_, if ?c then _ else _) => split_on c
              end; cbv beta iota.

(* ---- saveMapGob ------------------------------------------------------------------------------------------ *)
Record fworld := { f_create : bool; f_encode : bool; f_sync : bool; f_close : bool; f_rename : bool }.
Definition file_v (w : fworld) : gval :=
  VOrc "file" [("Encode", [er (f_encode w)]); ("Sync", [er (f_sync w)]); ("Close", [er (f_close w)])].
Definition file_globals (w : fworld) : env :=
  [("$pkg", VOrc "pkg" [("os.Create", [VTuple [file_v w; er (f_create w)]]); ("os.Rename", [er (f_rename w)])])].
Definition tmp_of (path : string) : string := str_app path ".tmp".

Definition save_file_expect (w : fworld) (path : string) (data : gval) : list gval * list gval :=
  let c1 := [VEff "pkg.os.Create" [VStr (tmp_of path)]] in
  if negb (f_create w) then ([VErr true], c1) else
  let c2 := c1 ++ [VEff "file.Encode" [data]] in
  if negb (f_encode w) then ([VErr true], c2 ++ [VEff "file.Close" []]) else
  let c3 := c2 ++ [VEff "file.Sync" []] in
  if negb (f_sync w) then ([VErr true], c3 ++ [VEff "file.Close" []]) else
  let c4 := c3 ++ [VEff "file.Close" []] in
  if negb (f_close w) then ([VErr true], c4) else
  let c5 := c4 ++ [VEff "pkg.os.Rename" [VStr (tmp_of path); VStr path]] in
  ([if f_rename w then VNil else VErr true], c5).

Lemma go_saveMapGob : forall w path data,
  run_calls (file_globals w) "saveMapGob" None [VStr path; data] = Some (save_file_expect w path data).
Proof.
  intros [c e s cl r] path data. unfold tmp_of. plazy. repeat hstep; reflexivity.
Qed.

(* the final name is touched by the rename only, and the rename is the last call *)
Definition names_path (path : string) (e : gval) : bool :=
  match e with
  | VEff name args => String.prefix "pkg." name && existsb (fun a => match a with VStr s => s =? path | _ => false end) args
  | _ => false     (* file-system calls of package os naming the path; the methods of the open file name no path *)
  end.
Lemma final_name_only_renamed : forall w path data,
  (tmp_of path =? path) = false ->
  let cs := snd (save_file_expect w path data) in
  filter (names_path path) cs = (if f_create w && f_encode w && f_sync w && f_close w
                                 then [VEff "pkg.os.Rename" [VStr (tmp_of path); VStr path]] else []) /\
  (f_create w && f_encode w && f_sync w && f_close w = true -> List.last cs VUnit = VEff "pkg.os.Rename" [VStr (tmp_of path); VStr path]).
Proof.
  intros [c e s cl r] path data Hne. cbv zeta. unfold save_file_expect, tmp_of in *; cbn [f_create f_encode f_sync f_close f_rename].
  destruct c, e, s, cl; cbn -[str_app String.eqb]; rewrite ?Hne, ?String.eqb_refl; cbn -[str_app String.eqb];
    (split; [reflexivity | intros H; try discriminate H; reflexivity]).
Qed.

(* ---- SaveCache / LoadCache ------------------------------------------------------------------------------- *)
Record cworld := { c_root : string; c_dbpath : string; c_h_ok : bool; c_d_ok : bool }.
Definition cache_mgr (w : cworld) : gval :=
  VObj "Manager" [("config", VRec [("RootDir", VStr (c_root w)); ("DBPath", VStr (c_dbpath w))]);
                  ("headerCache", VOrc "headerCache" [("SaveToDisk", [er (c_h_ok w)]); ("LoadFromDisk", [er (c_h_ok w)])]);
                  ("dataCache", VOrc "dataCache" [("SaveToDisk", [er (c_d_ok w)]); ("LoadFromDisk", [er (c_d_ok w)])])].
Definition cache_globals : env := [("headerCacheDir", VStr "cache/header"); ("dataCacheDir", VStr "cache/data")].
Definition header_dir (w : cworld) : gval :=
  VTok "filepath.Join" [VTok "filepath.Join" [VStr (c_root w); VStr "data"]; VStr "cache/header"].
Definition data_dir (w : cworld) : gval :=
  VTok "filepath.Join" [VTok "filepath.Join" [VStr (c_root w); VStr "data"]; VStr "cache/data"].

Definition cache_expect (op : string) (w : cworld) : list gval * list gval :=
  let c1 := [VEff ("headerCache." ++ op) [header_dir w]] in
  if negb (c_h_ok w) then ([VErr true], c1) else
  let c2 := c1 ++ [VEff ("dataCache." ++ op) [data_dir w]] in
  if negb (c_d_ok w) then ([VErr true], c2) else ([VNil], c2).

Lemma go_SaveCache : forall w, run_calls cache_globals "Manager.SaveCache" (Some (cache_mgr w)) [] = Some (cache_expect "SaveToDisk" w).
Proof. intros [root dbp h d]. plazy. repeat hstep; reflexivity. Qed.
Lemma go_LoadCache : forall w, run_calls cache_globals "Manager.LoadCache" (Some (cache_mgr w)) [] = Some (cache_expect "LoadFromDisk" w).
Proof. intros [root dbp h d]. plazy. repeat hstep; reflexivity. Qed.

Definition dirs (o : list gval * list gval) : list gval :=
  flat_map (fun e => match e with VEff _ [d] => [d] | _ => [] end) (snd o).
Lemma cache_dirs_agree : forall w,
  c_h_ok w = true -> c_d_ok w = true ->
  exists s l, run_calls cache_globals "Manager.SaveCache" (Some (cache_mgr w)) [] = Some s /\
              run_calls cache_globals "Manager.LoadCache" (Some (cache_mgr w)) [] = Some l /\
              dirs s = dirs l /\ dirs s = [header_dir w; data_dir w].
Proof.
  intros w Hh Hd. exists (cache_expect "SaveToDisk" w), (cache_expect "LoadFromDisk" w).
  split; [apply go_SaveCache|]. split; [apply go_LoadCache|].
  unfold cache_expect. rewrite Hh, Hd. split; reflexivity.
Qed.

(* ---- setLastSubmittedHeight ------------------------------------------------------------------------------ *)
Definition pb_v (cur : N) (key : string) (put_ok : bool) : gval :=
  VObj "pendingBase" [("lastHeight", VAtom "lastHeight" cur); ("store", VOrc "store" [("SetMetadata", [er put_ok])]);
                      ("metaKey", VStr key); ("logger", VUnit)].
Definition watermark_expect (cur new : N) (key : string) : list gval * list gval :=
  ([], if (cur <? new)%N then [VEff "lastHeight.store" [VN new]; VEff "store.SetMetadata" [ctx; VStr key; VLE64 new]] else []).

Definition le_name : string := "binary.LittleEndian".
Definition set_name : string := "pendingBase.setLastSubmittedHeight".
Lemma go_setLastSubmittedHeight : forall cur new key put_ok,
  run_calls [(le_name, VUnit)] set_name (Some (pb_v cur key put_ok)) [ctx; VN new]
  = Some (watermark_expect cur new key).
Proof.
  intros cur new key put_ok. unfold watermark_expect, le_name, set_name. plazy. rewrite ?N.eqb_refl. cbv beta iota.
  repeat hstep; reflexivity.
Qed.

Print Assumptions go_saveMapGob.
Print Assumptions final_name_only_renamed.
Print Assumptions cache_dirs_agree.
Print Assumptions go_setLastSubmittedHeight.
