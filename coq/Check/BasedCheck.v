(* Check/BasedCheck.v — correspondence check for Model/Based.v.  The harness (harness/c20) writes, per case:
   the configuration, the DA contents, the history it ran against the real based.Sequencer, and per call
   what it observed (projections only): the response (ids as (height, index), timestamp as DA height), the
   DA heights retrieved, the persisted scan position, the in-memory and the persisted carry-over queue.
   Calls whose request cannot be used (foreign chain id, malformed LastBatchData) and calls under a cancelled
   context are part of the histories: for them the same five observables are compared.
   [mismatches] lists the cases on which the model disagrees (index, what differs). *)
From Coq Require Import NArith List Bool.
From Verif Require Import Model.Based.
Import ListNotations.
Open Scope N_scope.

(* RFail k: GetNextBatch returned an error; k = its class: 1 = ErrInvalidId (errors.Is), 2 = "failed to get last
   DA height" (the LastBatchData error), 3 = the context's error, 9 = anything else *)
Inductive oresp := RFail (k : N) | RNone | RBatch (ids : list (N * N)) (ts : option N).
Definition oqueue := list (list (N * N) * option N).

Record obs := { o_resp : oresp; o_log : list N; o_scan : option N; o_mem : oqueue; o_dur : oqueue }.
Definition mkobs r l s q := {| o_resp := r; o_log := l; o_scan := s; o_mem := q; o_dur := q |}.
Definition mkobs2 r l s m d := {| o_resp := r; o_log := l; o_scan := s; o_mem := m; o_dur := d |}.

Record bcase := { bc_cfg : config; bc_da : list (N * list N); bc_hist : list item; bc_obs : list obs }.
Definition mkcase (start drift : N) (da : list (N * list N)) (h : list item) (o : list obs) : bcase :=
  {| bc_cfg := {| cf_start := start; cf_drift := drift |}; bc_da := da; bc_hist := h; bc_obs := o |}.

Fixpoint list_eqb {A} (e : A -> A -> bool) (a b : list A) : bool :=
  match a, b with
  | [], [] => true
  | x :: a', y :: b' => e x y && list_eqb e a' b'
  | _, _ => false
  end.
Definition pair_eqb (a b : N * N) : bool := (fst a =? fst b) && (snd a =? snd b).
Definition optN_eqb (a b : option N) : bool :=
  match a, b with Some x, Some y => x =? y | None, None => true | _, _ => false end.

Definition ids_of (txs : list tx) : list (N * N) := map (fun t => (t_h t, t_i t)) txs.
Definition proj_q (q : list entry) : oqueue := map (fun e => (ids_of (e_txs e), Some (e_ts e))) q.
Definition oq_eqb (a b : oqueue) : bool :=
  list_eqb (fun x y => list_eqb pair_eqb (fst x) (fst y) && optN_eqb (snd x) (snd y)) a b.

Definition resp_eqb (m : response) (o : oresp) : bool :=
  match m, o with
  | MNone, RNone => true
  | MBatch txs ts, RBatch ids ots => list_eqb pair_eqb (ids_of txs) ids && optN_eqb ts ots
  | MErr EInvalidId, RFail k => k =? 1
  | MErr EBadLbd, RFail k => k =? 2
  | _, _ => false
  end.

(* 1 response, 2 heights retrieved, 3 persisted scan position, 4 in-memory queue, 5 persisted queue *)
Definition check_obs (m : response * list N * state) (o : obs) : list N :=
  let '(rp, lg, st) := m in
  (if resp_eqb rp (o_resp o) then [] else [1]) ++
  (if list_eqb N.eqb lg (o_log o) then [] else [2]) ++
  (if optN_eqb (dur_scan st) (o_scan o) then [] else [3]) ++
  (if oq_eqb (proj_q (mem_q st)) (o_mem o) then [] else [4]) ++
  (if oq_eqb (proj_q (dur_q st)) (o_dur o) then [] else [5]).

(* 6 = different numbers of calls *)
Fixpoint check_all (ms : list (response * list N * state)) (os : list obs) : list N :=
  match ms, os with
  | [], [] => []
  | m :: ms', o :: os' => check_obs m o ++ check_all ms' os'
  | _, _ => [6]
  end.

Definition check_case (c : bcase) : list N :=
  check_all (trace (bc_cfg c) (da_at (bc_da c)) init_sys (bc_hist c)) (bc_obs c).

Fixpoint mismatches_from (i : N) (cs : list bcase) : list (N * list N) :=
  match cs with
  | [] => []
  | c :: r => match check_case c with
              | [] => mismatches_from (i + 1) r
              | l => (i, l) :: mismatches_from (i + 1) r
              end
  end.
Definition mismatches := mismatches_from 0.

(* which cases are inside the domain of the order theorems *)
Definition in_domain (c : bcase) : bool := manager_lbd (bc_hist c).
