(* Check/GoLiteQueue.v — the single sequencer's batch queue (sequencers/single/queue.go batchKey, AddBatch, Next) does
   what Model/Queue.v [step_mem] says: lemmas over the regenerated coq/gen/GoLiteFuns.v, for ALL queue contents,
   sequence numbers, bounds and batches.  The functions are translated with their effect on the datastore (Put /
   Delete, in order) and on the queue object (queue, keys, nextSeq), read back through [qabs].
     AddBatch : full -> error, nothing written, nothing changed;  otherwise Put batchKey(nextSeq) := batch FIRST, then
                the batch is appended with that key and nextSeq is incremented;  a failing Put changes nothing
     Next     : empty -> a batch without transactions, nothing written;  otherwise the head is handed out, removed, and
                its record deleted
     batchKey : "s%016x-%s" of the sequence number and the hex hash (the model identifies the key with the number)
   Used by C10 and C11.  Not translated: Load (a loop over a datastore query), mutual exclusion (C13). *)
From Coq Require Import String List NArith ZArith Bool Lia.
From Verif Require Import Model.Types Model.Admission Model.GoLite Check.GoLiteTactics gen.GoLiteFuns.
From Verif Require Model.Queue.
Import ListNotations.
Open Scope string_scope.
Open Scope list_scope.

Definition qbatches (m : list Queue.entry) : list gval := map (fun e => VBatchQ (snd e)) m.
Definition qkeys (m : list Queue.entry) : list gval := map (fun e => VKeyQ (fst e)) m.
Definition qobj (m : list Queue.entry) (next max : N) (put_ok : bool) : gval :=
  VObj "BatchQueue" [("queue", VList (qbatches m)); ("keys", VList (qkeys m));
                     ("nextSeq", VN next); ("maxQueueSize", VN max); ("db", VQDB put_ok)].

(* reading a queue object back: its (key, batch) entries and its next sequence number *)
Fixpoint zipq (ks bs : list gval) : option (list Queue.entry) :=
  match ks, bs with
  | [], [] => Some []
  | VKeyQ k :: ks', VBatchQ b :: bs' => option_map (cons (k, b)) (zipq ks' bs')
  | _, _ => None
  end.
Definition qabs (v : gval) : option (list Queue.entry * N) :=
  match v with
  | VObj _ fs => match lookup fs "keys", lookup fs "queue", lookup fs "nextSeq" with
                 | Some (VList ks), Some (VList bs), Some (VN n) => option_map (fun m => (m, n)) (zipq ks bs)
                 | _, _, _ => None
                 end
  | _ => None
  end.
Lemma zipq_map : forall m, zipq (qkeys m) (qbatches m) = Some m.
Proof. unfold qkeys, qbatches. induction m as [|[k b] m IH]; cbn; [reflexivity|]. rewrite IH. reflexivity. Qed.
Lemma zipq_app : forall m k b, zipq (lapp (qkeys m) [VKeyQ k]) (lapp (qbatches m) [VBatchQ b]) = Some (m ++ [(k, b)]).
Proof. unfold qkeys, qbatches, lapp. induction m as [|[k' b'] m IH]; intros; cbn; [reflexivity|]. rewrite IH. reflexivity. Qed.
Lemma llen_qbatches : forall m, llen (qbatches m) = N.of_nat (length m).
Proof. intros; unfold llen, qbatches; rewrite map_length; reflexivity. Qed.

(* what a run did: returned "is an error", datastore effects in order, the queue object afterwards *)
Definition qwrite (e : gval) : option Queue.wr :=
  match e with
  | VEff w [VKeyQ k; VBatchQ b] => if w =? "put" then Some (Queue.WPut k b) else None
  | VEff w [VKeyQ k] => if w =? "delete" then Some (Queue.WDel k) else None
  | _ => None
  end.
Definition is_receiver (e : gval) : option gval :=
  match e with VEff w [o] => if w =? "receiver" then Some o else None | _ => None end.
Fixpoint qsplit (effs : list gval) : list Queue.wr * option (list Queue.entry * N) :=
  match effs with
  | [] => ([], None)
  | e :: r =>
      match is_receiver e with
      | Some o => (fst (qsplit r), qabs o)
      | None => match qwrite e with Some w => (w :: fst (qsplit r), snd (qsplit r)) | None => qsplit r end
      end
  end.

Ltac qlazy := lazy -[N.eqb N.ltb N.leb N.add llen lapp qbatches qkeys zipq].

(* AddBatch *)
Lemma go_AddBatch_raw : forall m next max ok b,
  run_eff gen_funs [] "BatchQueue.AddBatch" (Some (qobj m next max ok)) [VUnit; VBatchQ b] =
  if (0 <? max)%N && (max <=? llen (qbatches m))%N
  then Some ([VErr true], [VEff "receiver" [qobj m next max ok]])
  else if ok
       then Some ([VNil], [VEff "put" [VKeyQ next; VBatchQ b];
                           VEff "receiver" [VObj "BatchQueue"
                              (("nextSeq", VN (next + 1)) ::
                               ("keys", VList (lapp (qkeys m) [VKeyQ next])) ::
                               ("queue", VList (lapp (qbatches m) [VBatchQ b])) ::
                               [("queue", VList (qbatches m)); ("keys", VList (qkeys m));
                                ("nextSeq", VN next); ("maxQueueSize", VN max); ("db", VQDB ok)])]])
       else Some ([VErr true], [VEff "receiver" [qobj m next max ok]]).
Proof.
  intros. unfold qobj. qlazy.
  destruct (0 <? max)%N; cbv beta iota.
  - destruct (max <=? llen (qbatches m))%N; cbv beta iota; [reflexivity|].
    destruct ok; reflexivity.
  - destruct ok; reflexivity.
Qed.

(* ... is Queue.step_mem for a submission whose key is batchKey(nextSeq) *)
Lemma go_AddBatch : forall m next max b,
  match run_eff gen_funs [] "BatchQueue.AddBatch" (Some (qobj m next max true)) [VUnit; VBatchQ b] with
  | Some ([r], effs) =>
      let '(m', out, ws) := Queue.step_mem max m (Queue.OSubmit true (Queue.SB next b)) in
      is_nil r = Some (match out with Queue.ROk => true | _ => false end) /\
      fst (qsplit effs) = ws /\
      snd (qsplit effs) = Some (m', if Queue.full max m then next else (next + 1)%N)
  | _ => False
  end.
Proof.
  intros. rewrite go_AddBatch_raw. unfold Queue.step_mem, Queue.full. rewrite llen_qbatches.
  destruct ((0 <? max)%N && (max <=? N.of_nat (length m))%N) eqn:E.
  - repeat split. cbv -[zipq qkeys qbatches lapp N.add]. rewrite zipq_map. reflexivity.
  - repeat split. cbv -[zipq qkeys qbatches lapp N.add]. rewrite zipq_app. reflexivity.
Qed.

(* a failing Put: an error, nothing appended, the sequence number not consumed *)
Lemma go_AddBatch_put_fails : forall m next max b,
  Queue.full max m = false ->
  exists r effs, run_eff gen_funs [] "BatchQueue.AddBatch" (Some (qobj m next max false)) [VUnit; VBatchQ b] = Some ([r], effs) /\
    is_nil r = Some false /\ fst (qsplit effs) = [] /\ snd (qsplit effs) = Some (m, next).
Proof.
  intros m next max b Hf. rewrite go_AddBatch_raw. unfold Queue.full in Hf. rewrite llen_qbatches, Hf.
  eexists _, _. split; [reflexivity|]. repeat split. cbv -[zipq qkeys qbatches lapp N.add]. rewrite zipq_map. reflexivity.
Qed.

(* Next *)
Lemma go_Next_empty : forall next max ok,
  exists r effs, run_eff gen_funs [] "BatchQueue.Next" (Some (qobj [] next max ok)) [VUnit] = Some ([r; VNil], effs) /\
    r = VRec [("Transactions", VNil)] /\ fst (qsplit effs) = [] /\ snd (qsplit effs) = Some ([], next).
Proof. intros. eexists _, _. split; [unfold qobj, qbatches, qkeys; cbn [map]; qlazy; reflexivity|]. repeat split. Qed.

Lemma go_Next_head : forall k b m next max ok,
  exists effs, run_eff gen_funs [] "BatchQueue.Next" (Some (qobj ((k, b) :: m) next max ok)) [VUnit] = Some ([VBatchQ b; VNil], effs) /\
    (let '(m', out, ws) := Queue.step_mem max ((k, b) :: m) (Queue.ONext true) in
     out = Queue.RBatch b /\ fst (qsplit effs) = ws /\ snd (qsplit effs) = Some (m', next)).
Proof.
  intros. eexists. split; [unfold qobj; change (qbatches ((k, b) :: m)) with (VBatchQ b :: qbatches m); change (qkeys ((k, b) :: m)) with (VKeyQ k :: qkeys m); qlazy; reflexivity|].
  cbn [Queue.step_mem]. repeat split. cbv -[zipq qkeys qbatches lapp N.add]. rewrite zipq_map. reflexivity.
Qed.

(* batchKey: the format; the model identifies the key with its sequence number *)
Lemma go_batchKey : forall sq b,
  run_fun gen_funs [] "batchKey" None [VN sq; VHashQ b] = Some [VKeyQ sq].
Proof. intros. qlazy. reflexivity. Qed.

(* ---- the Sequencer around the queue (sequencers/single/sequencer.go SubmitBatchTxs, GetNextBatch, isValid) ---- *)
Definition seqobj (me : N) (m : list Queue.entry) (next max : N) : gval :=
  VObj "Sequencer" [("Id", VChainQ me); ("queue", qobj m next max true); ("logger", VUnit)].
Definition seq_globals : env := [("ErrQueueFull", VErrTag "ErrQueueFull"); ("ErrInvalidId", VErrTag "ErrInvalidId")].
(* a request: its chain id and what it carries (Queue.sub: nil batch / no transactions / a batch) *)
Definition req_of (id : N) (sb : Queue.sub) : gval :=
  VRec [("Id", VChainQ id);
        ("Batch", match sb with
                  | Queue.SNil => VNil
                  | Queue.SEmpty => VRec [("Transactions", VList [])]
                  | Queue.SB _ b => VRec [("Transactions", VTxsQ b)]
                  end)].
(* the queue inside a sequencer object *)
Definition seq_queue (v : gval) : option (list Queue.entry * N) :=
  match v with VObj _ fs => match lookup fs "queue" with Some q => qabs q | None => None end | _ => None end.
Definition seq_after (effs : list gval) : option (list Queue.entry * N) :=
  match rev effs with
  | e :: _ => match is_receiver e with Some o => seq_queue o | None => None end
  | [] => None
  end.
Definition err_class (v : gval) : string :=
  match v with VNil => "ok" | VErrTag t => t | _ => "error" end.

Ltac slazy := lazy -[N.eqb N.ltb N.leb N.add llen lapp qbatches qkeys zipq].

(* SubmitBatchTxs: Queue.step_mem (OSubmit (id = own id) sb), the key of an accepted batch being batchKey(nextSeq):
   the error class (nil / ErrInvalidId / an error that IS ErrQueueFull), the datastore writes, the queue afterwards *)
Lemma go_SubmitBatchTxs : forall me id m next max sb,
  (match sb with Queue.SB k _ => k = next | _ => True end) ->
  match run_eff gen_funs seq_globals "Sequencer.SubmitBatchTxs" (Some (seqobj me m next max)) [VUnit; req_of id sb] with
  | Some ([_; e], effs) =>
      let '(m', out, ws) := Queue.step_mem max m (Queue.OSubmit (id =? me)%N sb) in
      err_class e = match out with Queue.ROk => "ok" | Queue.RInvalidId => "ErrInvalidId" | Queue.RFull => "ErrQueueFull" | _ => "?" end /\
      fst (qsplit effs) = ws /\
      seq_after effs = Some (m', match out, sb with Queue.ROk, Queue.SB _ _ => (next + 1)%N | _, _ => next end)
  | _ => False
  end.
Proof.
  intros me id m next max sb Hk. unfold seqobj, qobj, req_of, Queue.step_mem, Queue.full.
  rewrite <- llen_qbatches.
  destruct sb as [| |k b]; [| |subst k].
  - slazy. rewrite (N.eqb_sym me id). destruct (id =? me)%N; cbv beta iota.
    + repeat split. cbv -[zipq qkeys qbatches lapp N.add]. rewrite zipq_map. reflexivity.
    + repeat split. cbv -[zipq qkeys qbatches lapp N.add]. rewrite zipq_map. reflexivity.
  - slazy. rewrite (N.eqb_sym me id). destruct (id =? me)%N; cbv beta iota.
    + repeat split. cbv -[zipq qkeys qbatches lapp N.add]. rewrite zipq_map. reflexivity.
    + repeat split. cbv -[zipq qkeys qbatches lapp N.add]. rewrite zipq_map. reflexivity.
  - slazy. rewrite (N.eqb_sym me id). destruct (id =? me)%N; cbv beta iota.
    + destruct (0 <? max)%N; cbv beta iota.
      * destruct (max <=? llen (qbatches m))%N; cbv beta iota.
        -- repeat split. cbv -[zipq qkeys qbatches lapp N.add]. rewrite zipq_map. reflexivity.
        -- repeat split. cbv -[zipq qkeys qbatches lapp N.add]. rewrite zipq_app. reflexivity.
      * repeat split. cbv -[zipq qkeys qbatches lapp N.add]. rewrite zipq_app. reflexivity.
    + repeat split. cbv -[zipq qkeys qbatches lapp N.add]. rewrite zipq_map. reflexivity.
Qed.

(* GetNextBatch: Queue.step_mem (ONext (id = own id)) *)
Lemma go_GetNextBatch : forall me id m next max,
  match run_eff gen_funs seq_globals "Sequencer.GetNextBatch" (Some (seqobj me m next max)) [VUnit; VRec [("Id", VChainQ id)]] with
  | Some ([r; e], effs) =>
      let '(m', out, ws) := Queue.step_mem max m (Queue.ONext (id =? me)%N) in
      err_class e = match out with Queue.RInvalidId => "ErrInvalidId" | _ => "ok" end /\
      (match out with
       | Queue.RBatch b => exists ts, r = VRec [("Batch", VBatchQ b); ("Timestamp", ts)]
       | Queue.REmpty => exists ts, r = VRec [("Batch", VRec [("Transactions", VNil)]); ("Timestamp", ts)]
       | _ => r = VNil
       end) /\
      fst (qsplit effs) = ws /\
      seq_after effs = Some (m', next)
  | _ => False
  end.
Proof.
  intros me id m next max. unfold seqobj, qobj, Queue.step_mem.
  destruct m as [|[k b] m].
  - unfold qbatches, qkeys; cbn [map]. slazy. rewrite (N.eqb_sym me id). destruct (id =? me)%N; cbv beta iota.
    + repeat split. eexists; reflexivity.
    + repeat split.
  - change (qbatches ((k, b) :: m)) with (VBatchQ b :: qbatches m). change (qkeys ((k, b) :: m)) with (VKeyQ k :: qkeys m).
    slazy. rewrite (N.eqb_sym me id). destruct (id =? me)%N; cbv beta iota.
    + repeat split. eexists; reflexivity. cbv -[zipq qkeys qbatches lapp N.add]. rewrite zipq_map. reflexivity.
    + repeat split. cbv -[zipq qkeys qbatches lapp N.add].
      change (VKeyQ k :: qkeys m) with (qkeys ((k, b) :: m)). change (VBatchQ b :: qbatches m) with (qbatches ((k, b) :: m)).
      rewrite zipq_map. reflexivity.
Qed.

(* every lemma is closed under the global context (bin/tr-golite fails on any "Axioms:" line) *)
Print Assumptions go_AddBatch_raw.
Print Assumptions go_AddBatch.
Print Assumptions go_AddBatch_put_fails.
Print Assumptions go_Next_empty.
Print Assumptions go_Next_head.
Print Assumptions go_batchKey.
Print Assumptions go_SubmitBatchTxs.
Print Assumptions go_GetNextBatch.
