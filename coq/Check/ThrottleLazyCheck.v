(* Check/ThrottleLazyCheck.v — correspondence check for Model/ThrottleLazy.v.  harness/c08 (lazy-loop stream) runs
   the REAL Manager.AggregationLoop in lazy mode (own goroutine, its own two timers, virtual time) with the real
   publishBlockInternal behind it and a pending-submission limit, lets submission iterations and transaction
   announcements happen at chosen instants, and writes per case: the configuration (initial height, limit, block
   time, lazy interval), the events with their instants, the horizon, and what the code did — per event its
   observation (result class, DA requests, height, watermarks), and EVERY call the loop made of publishBlock:
   instant, produced or refused, store height after.  [lmismatches] lists the cases on which the model disagrees;
   a loop that stops calling publishBlock (a timer that is not re-armed) disagrees on the attempts. *)
From Coq Require Import NArith List Bool.
From Verif Require Import Model.Throttle Model.ThrottleLazy Check.ThrottleCheck.
Import ListNotations.
Open Scope N_scope.

Record lcase := {
  lc_idx : N;                        (* index of the case in the harness run (reported on disagreement) *)
  lc_init : N; lc_limit : N; lc_bt : N; lc_li : N;
  lc_evs : list (N * levent);        (* instants ascending, none at a timer instant *)
  lc_H : N;                          (* the run was observed up to and including this instant *)
  lc_outs : list obs;                (* observed, per event *)
  lc_atts : list (N * (bool * N));   (* observed calls of publishBlock, oldest first: instant, (produced, height after) *)
  lc_chain : list bool; lc_hacc : list N; lc_dacc : list N
}.

Definition att_eqb (a b : N * (bool * N)) : bool :=
  (fst a =? fst b) && Bool.eqb (fst (snd a)) (fst (snd b)) && (snd (snd a) =? snd (snd b)).

(* 1 = the events' observations differ; 2 = block emptiness; 3 = accepted headers; 4 = accepted data;
   6 = the calls of publishBlock differ (instants / produced / height); 7 = the model ran out of fuel *)
Definition lcheck_case (c : lcase) : list N :=
  let cf := mk_lcfg (mk_cfg (lc_init c) (lc_limit c)) (lc_bt c) (lc_li c) in
  let fuel := (N.to_nat (lc_H c / N.min (lc_bt c) (lc_li c)) + length (lc_evs c) + 4)%nat in
  match lrun fuel cf (linit cf) (lc_evs c) (lc_H c) with
  | None => [7]
  | Some (ls, outs) =>
    let s := l_s ls in
    (if list_eqb obs_eqb outs (lc_outs c) then [] else [1]) ++
    (if list_eqb att_eqb (rev (l_atts ls)) (lc_atts c) then [] else [6]) ++
    (if list_eqb Bool.eqb (map (nonempty s) (committed (l_c cf) s)) (lc_chain c) then [] else [2]) ++
    (if list_eqb N.eqb (t_dah s) (lc_hacc c) then [] else [3]) ++
    (if list_eqb N.eqb (t_dad s) (lc_dacc c) then [] else [4])
  end.

Fixpoint lmismatches (cs : list lcase) : list (N * list N) :=
  match cs with
  | [] => []
  | c :: r => match lcheck_case c with
              | [] => lmismatches r
              | l => (lc_idx c, l) :: lmismatches r
              end
  end.
