(* Check/GoLiteLoopPending.v (one of Check/GoLiteLoop*.v) — the loop of pendingBase.getPending (block/pending_base.go),
   translated SHALLOWLY into a Gallina Fixpoint by harness/translators/golite (loops.go) on every run
   (coq/gen/GoLoops.v), computes what Model/Throttle.v [get_pending] says: it fetches exactly the heights
   lastSubmitted+1, ..., height, each once, in increasing order, and stops at the first failing fetch with what it
   has.  By induction, for ALL watermarks and heights (no window, no bound).  Used by C06 and C08. *)
From Coq Require Import List NArith Bool Lia.
From Verif Require Import gen.GoLoops.
From Verif Require Model.Throttle.
From Coq Require String.
Import ListNotations.
Open Scope N_scope.
Open Scope list_scope.

Section Pending.
  Variable R : Type.
  Variable fetch : N -> option R.               (* pb.fetch(ctx, pb.store, i) *)

  Fixpoint fetch_seq (hs : list N) (acc : list R) : list R + list R :=
    match hs with
    | [] => inl acc
    | h :: r => match fetch h with Some v => fetch_seq r (acc ++ [v]) | None => inr acc end
    end.

  Lemma go_get_pending_gen : forall (h : N) (n : nat) (i : N) (acc : list R),
    i + N.of_nat n = h + 1 ->
    loop_get_pending R fetch h (S n) i acc = Some (fetch_seq (Throttle.seqN i n) acc).
  Proof.
    intros h n. induction n as [|n IH]; intros i acc Hi.
    - cbn [L_get_pending.loop Throttle.seqN fetch_seq].
      replace (i <=? h) with false by (symmetry; apply N.leb_gt; lia). reflexivity.
    - cbn [L_get_pending.loop]. replace (i <=? h) with true by (symmetry; apply N.leb_le; lia).
      cbn [Throttle.seqN fetch_seq]. destruct (fetch i) as [v|]; [|reflexivity].
      apply IH. lia.
  Qed.

  (* from the loop's start: with the watermark at or below the height, the pending range of the model, fetched in order *)
  Lemma go_get_pending : forall w h l,
    Throttle.get_pending w h = Some l ->
    loop_get_pending R fetch h (S (length l)) (loop_get_pending_start w) [] = Some (fetch_seq l []).
  Proof.
    intros w h l Hg. unfold Throttle.get_pending in Hg.
    destruct (w =? h) eqn:E1.
    - inversion Hg; subst. apply N.eqb_eq in E1. subst. cbn [length]. unfold L_get_pending.loop_start.
      apply (go_get_pending_gen h 0). cbn. lia.
    - destruct (h <? w) eqn:E2; [discriminate|]. inversion Hg; subst. clear Hg.
      apply N.eqb_neq in E1. apply N.ltb_ge in E2.
      assert (Hl : length (Throttle.seqN (w + 1) (N.to_nat (h - w))) = N.to_nat (h - w)).
      { generalize (w + 1). induction (N.to_nat (h - w)) as [|k IHk]; intros a; cbn; [reflexivity|]. rewrite IHk. reflexivity. }
      rewrite Hl. unfold L_get_pending.loop_start. apply go_get_pending_gen. lia.
  Qed.
End Pending.


(* the loop reads exactly these inputs, by name (the lemmas instantiate them by position) *)
Section InputNames.
Import String.
Open Scope string_scope.
Lemma go_get_pending_inputs : LoopInputs.loop_get_pending_inputs = (["height"; "lastSubmitted"]).
Proof. reflexivity. Qed.
End InputNames.

Print Assumptions go_get_pending.
