(* Check/KVExecCheck.v — correspondence check for Model/KVExec.v: the harness writes the histories it ran
   against real KVExecutor instances together with what the code returned per call, the state root after
   every call (computeStateRoot through the verif hook), the final datastore dump, and tables of
   ds.NewKey / strings.TrimSpace results; [mismatches] lists the cases on which the model disagrees. *)
From Coq Require Import String Ascii NArith List Bool.
From Verif Require Import Base.Keys Model.KVExec.
Import ListNotations.
Open Scope string_scope.
Open Scope list_scope.

Definition bs (l : list N) : string :=
  fold_right (fun n s => String (ascii_of_N n) s) EmptyString l.

Definition ostr_eqb (a b : option string) : bool :=
  match a, b with Some x, Some y => String.eqb x y | None, None => true | _, _ => false end.

Fixpoint list_eqb {A} (e : A -> A -> bool) (a b : list A) : bool :=
  match a, b with
  | [], [] => true
  | x :: a', y :: b' => e x y && list_eqb e a' b'
  | _, _ => false
  end.

Definition out_eqb (a b : out) : bool :=
  match a, b with
  | OInit x, OInit y | OExec x, OExec y => ostr_eqb x y
  | OFinal x, OFinal y => Bool.eqb x y
  | OTxs x, OTxs y => list_eqb String.eqb x y
  | ONone, ONone => true
  | _, _ => false
  end.

Definition pair_eqb (a b : string * string) : bool :=
  String.eqb (fst a) (fst b) && String.eqb (snd a) (snd b).

Record kcase := {
  kc_hist : list item;
  kc_outs : list (out * string);        (* per call: what the code returned, and computeStateRoot afterwards *)
  kc_dump : list (string * string);     (* final datastore contents, every key, in key order *)
  kc_keys : list (string * string);     (* (raw key, ds.NewKey(raw).String()) *)
  kc_trims : list (string * string);    (* (raw, strings.TrimSpace(raw)) *)
  kc_cap : N                            (* txChannelBufferSize *)
}.

(* 1 = results differ, 2 = roots after the calls differ, 3 = final datastore differs,
   4 = ds.NewKey table differs, 5 = TrimSpace table differs, 6 = mempool capacity differs *)
Definition check_case (c : kcase) : list N :=
  let '(s, outs) := run init_st (kc_hist c) in
  (if list_eqb out_eqb (map fst outs) (map fst (kc_outs c)) then [] else [1%N]) ++
  (if list_eqb String.eqb (map snd outs) (map snd (kc_outs c)) then [] else [2%N]) ++
  (if list_eqb pair_eqb (s_db s) (kc_dump c) then [] else [3%N]) ++
  (if forallb (fun e => String.eqb (clean_key (fst e)) (snd e)) (kc_keys c) then [] else [4%N]) ++
  (if forallb (fun e => String.eqb (trim (fst e)) (snd e)) (kc_trims c) then [] else [5%N]) ++
  (if (kc_cap c =? mempool_cap)%N then [] else [6%N]).

Fixpoint mismatches_from (i : N) (cs : list kcase) : list (N * list N) :=
  match cs with
  | [] => []
  | c :: r => match check_case c with
              | [] => mismatches_from (i + 1) r
              | l => (i, l) :: mismatches_from (i + 1) r
              end
  end.
Definition mismatches := mismatches_from 0.

(* ---- size-boundary stream: blocks of hundreds/thousands of generated transactions ----------------------
   The harness does not write such blocks out; it names them ([GGen n tag bad] = the n transactions
   "k<n-1>=tag", ..., "k0001=tag", "k0000=tag" (four digits, keys descending so that the model's sorted
   insertion stays linear) with, optionally, the one at index [fst bad] replaced by the text [snd bad])
   and reports fingerprints (length and a polynomial hash) of the roots and of the final datastore instead
   of the strings.  The model is run on the expanded history; the full strings are compared on the Go side
   by the oracle. *)
Definition pad4 (n : N) : string :=
  let d := dec n in
  append (match String.length d with 1 => "000" | 2 => "00" | 3 => "0" | _ => "" end)%nat d.

Definition gen_tx (tag : string) (i : N) : string := append "k" (append (pad4 i) (String "="%char tag)).

Definition gen_txs (n : N) (tag : string) (bad : option (N * string)) : list string :=
  map (fun i => let i := N.of_nat i in
                match bad with
                | Some (j, t) => if (i =? j)%N then t else gen_tx tag (n - 1 - i)
                | None => gen_tx tag (n - 1 - i)
                end) (seq 0 (N.to_nat n)).

Inductive gitem := GI (i : item) | GGen (n : N) (tag : string) (bad : option (N * string)).

Definition expand (h : list gitem) : list item :=
  map (fun g => match g with GI i => i | GGen n tag bad => IExec (gen_txs n tag bad) end) h.

(* fingerprint: hash + length * 1000000007, hash = fold (h * 257 + byte) mod 1000000007 *)
Fixpoint fp_aux (s : string) (h len : N) : N :=
  match s with
  | EmptyString => (h + len * 1000000007)%N
  | String c r => fp_aux r ((h * 257 + byte c) mod 1000000007)%N (len + 1)%N
  end.
Definition fp (s : string) : N := fp_aux s 0 0.

Inductive pout :=
| PInit (r : option N) | PExec (r : option N) | PFinal (ok : bool) | PTxs (l : list string) | PNone.

Definition proj (o : out) : pout :=
  match o with
  | OInit r => PInit (option_map fp r)
  | OExec r => PExec (option_map fp r)
  | OFinal b => PFinal b
  | OTxs l => PTxs l
  | ONone => PNone
  end.

Definition on_eqb (a b : option N) : bool :=
  match a, b with Some x, Some y => (x =? y)%N | None, None => true | _, _ => false end.

Definition pout_eqb (a b : pout) : bool :=
  match a, b with
  | PInit x, PInit y | PExec x, PExec y => on_eqb x y
  | PFinal x, PFinal y => Bool.eqb x y
  | PTxs x, PTxs y => list_eqb String.eqb x y
  | PNone, PNone => true
  | _, _ => false
  end.

Record bcase := {
  bc_hist : list gitem;
  bc_outs : list (pout * N);     (* per call: projected result, fingerprint of computeStateRoot afterwards *)
  bc_count : N;                  (* number of keys in the final datastore *)
  bc_dump : N                    (* fingerprint of "key:value;" over the whole final datastore, in key order *)
}.

(* 11 = results differ, 12 = roots after the calls differ, 13 = final datastore differs *)
Definition check_big (c : bcase) : list N :=
  let '(s, outs) := run init_st (expand (bc_hist c)) in
  (if list_eqb pout_eqb (map (fun o => proj (fst o)) outs) (map fst (bc_outs c)) then [] else [11%N]) ++
  (if list_eqb N.eqb (map (fun o => fp (snd o)) outs) (map snd (bc_outs c)) then [] else [12%N]) ++
  (if (N.of_nat (List.length (s_db s)) =? bc_count c)%N && (fp (render (s_db s)) =? bc_dump c)%N then [] else [13%N]).

Inductive xcase := Small (c : kcase) | Big (c : bcase).

Fixpoint xmismatches_from (i : N) (cs : list xcase) : list (N * list N) :=
  match cs with
  | [] => []
  | c :: r => match (match c with Small k => check_case k | Big b => check_big b end) with
              | [] => xmismatches_from (i + 1) r
              | l => (i, l) :: xmismatches_from (i + 1) r
              end
  end.
Definition xmismatches := xmismatches_from 0.
