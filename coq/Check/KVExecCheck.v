(* Check/KVExecCheck.v — correspondence check for Model/KVExec.v: the harness writes the histories it ran
   against real KVExecutor instances together with what the code returned per call, the state root after
   every call (computeStateRoot through the verif hook), the final datastore dump, and tables of
   ds.NewKey / strings.TrimSpace results; [mismatches] lists the cases on which the model disagrees. *)
From Coq Require Import String Ascii NArith List Bool.
From Verif Require Import Base.Keys Model.KVExec.
Import ListNotations.
Open Scope string_scope.
Open Scope list_scope.

Definition bs (l : list N) : string :=
  fold_right (fun n s => String (ascii_of_N n) s) EmptyString l.

Definition ostr_eqb (a b : option string) : bool :=
  match a, b with Some x, Some y => String.eqb x y | None, None => true | _, _ => false end.

Fixpoint list_eqb {A} (e : A -> A -> bool) (a b : list A) : bool :=
  match a, b with
  | [], [] => true
  | x :: a', y :: b' => e x y && list_eqb e a' b'
  | _, _ => false
  end.

Definition out_eqb (a b : out) : bool :=
  match a, b with
  | OInit x, OInit y | OExec x, OExec y => ostr_eqb x y
  | OFinal x, OFinal y => Bool.eqb x y
  | OTxs x, OTxs y => list_eqb String.eqb x y
  | ONone, ONone => true
  | _, _ => false
  end.

Definition pair_eqb (a b : string * string) : bool :=
  String.eqb (fst a) (fst b) && String.eqb (snd a) (snd b).

Record kcase := {
  kc_hist : list item;
  kc_outs : list (out * string);        (* per call: what the code returned, and computeStateRoot afterwards *)
  kc_dump : list (string * string);     (* final datastore contents, every key, in key order *)
  kc_keys : list (string * string);     (* (raw key, ds.NewKey(raw).String()) *)
  kc_trims : list (string * string);    (* (raw, strings.TrimSpace(raw)) *)
  kc_cap : N                            (* txChannelBufferSize *)
}.

(* 1 = results differ, 2 = roots after the calls differ, 3 = final datastore differs,
   4 = ds.NewKey table differs, 5 = TrimSpace table differs, 6 = mempool capacity differs *)
Definition check_case (c : kcase) : list N :=
  let '(s, outs) := run init_st (kc_hist c) in
  (if list_eqb out_eqb (map fst outs) (map fst (kc_outs c)) then [] else [1%N]) ++
  (if list_eqb String.eqb (map snd outs) (map snd (kc_outs c)) then [] else [2%N]) ++
  (if list_eqb pair_eqb (s_db s) (kc_dump c) then [] else [3%N]) ++
  (if forallb (fun e => String.eqb (clean_key (fst e)) (snd e)) (kc_keys c) then [] else [4%N]) ++
  (if forallb (fun e => String.eqb (trim (fst e)) (snd e)) (kc_trims c) then [] else [5%N]) ++
  (if (kc_cap c =? mempool_cap)%N then [] else [6%N]).

Fixpoint mismatches_from (i : N) (cs : list kcase) : list (N * list N) :=
  match cs with
  | [] => []
  | c :: r => match check_case c with
              | [] => mismatches_from (i + 1) r
              | l => (i, l) :: mismatches_from (i + 1) r
              end
  end.
Definition mismatches := mismatches_from 0.
