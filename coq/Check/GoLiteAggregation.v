(* Check/GoLiteAggregation.v — the event loops of block production, Manager.lazyAggregationLoop and
   Manager.normalAggregationLoop with Manager.produceBlock (block/aggregation.go), translated from the Go source on every
   run: the loops are `for { select { … } }`; the translator emits ONE FUNCTION PER CASE of the select (the case's body,
   then "go round again"), evaluated with publishBlock and the two timers as scripted collaborators whose calls are logged.

   For ALL worlds (transactions announced or not, a failing or successful production, a context cancelled meanwhile, all
   durations and clock readings):
     lazy / lazy timer fires    one production; then BOTH timers are re-armed, the lazy timer to what is left of the lazy
                                interval and the block timer to what is left of the block time, counted from the START of
                                the production (at least 1 ms);
     lazy / block timer fires   with transactions announced: one production, both timers re-armed as above, the
                                announcement is consumed; without: NO production, the block timer is re-armed to a full
                                block time;
     lazy / notification        the announcement is recorded, nothing else — no production, no timer touched;
     normal / block timer       one production, the block timer re-armed to what is left of the block time;
     normal / notification      recorded, nothing else;
     a production that fails while the context is live ends the loop with an error, nothing re-armed; a failure after a
     cancellation is not an error.
   This is the step function of Model/Lazy.v read off the code.   Used by C17. *)
From Coq Require Import String List NArith ZArith Bool Lia.
From Verif Require Import Model.Types Model.Admission Model.GoLite Check.GoLiteTactics gen.GoLiteFuns.
Import ListNotations.
Open Scope string_scope.
Open Scope list_scope.

Record aworld := { a_txs : bool; a_pub_ok : bool; a_cancel : bool;
                   a_start : Z; a_now : Z; a_bt : Z; a_lazy : Z }.
Definition er (ok : bool) : gval := VErr (negb ok).
Definition ctx_v (w : aworld) : gval := VTok "ctx" [VBool (a_cancel w)].
Definition timer_v (name : string) : gval := VOrc name [("Reset", [VBool true; VBool true]); ("Stop", [VBool true])].
Definition agg_mgr (w : aworld) : gval :=
  VObj "Manager" [("logger", VUnit); ("txsAvailable", VBool (a_txs w));
                  ("config", VRec [("Node", VRec [("BlockTime", VRec [("Duration", VZ (a_bt w))]);
                                                  ("LazyBlockInterval", VRec [("Duration", VZ (a_lazy w))])])]);
                  ("$orc", VOrc "m" [("publishBlock", [er (a_pub_ok w)])])].
Definition agg_globals (w : aworld) : env :=
  [("$continue", VTok "continue" []); ("$start", VZ (a_start w)); ("$now", VZ (a_now w)); ("time.Millisecond", VZ 1);
   ("$pkg", VOrc "pkg" [("time.NewTimer", [timer_v "lazyTimer"])])].

Definition is_receiver (e : gval) : bool := match e with VEff x _ => x =? "receiver" | _ => false end.
Record aobs := { ao_result : list gval; ao_calls : list gval; ao_txs : option gval }.
Definition aobserve (r : list gval * list gval) : aobs :=
  let effs := rev (snd r) in
  {| ao_result := fst r; ao_calls := filter (fun e => negb (is_receiver e)) effs;
     ao_txs := match rev effs with
               | VEff x [VObj _ fs] :: _ => if x =? "receiver" then lookup fs "txsAvailable" else None
               | _ => None
               end |}.
(* the translated functions that run inside this lemma file; every other call is a scripted collaborator *)
Definition agg_funs : list (string * gfun) :=
  filter (fun p => (fst p =? "Manager.lazyAggregationLoop$lazyTimer") || (fst p =? "Manager.lazyAggregationLoop$blockTimer") || (fst p =? "Manager.lazyAggregationLoop$txNotifyCh") || (fst p =? "Manager.normalAggregationLoop$blockTimer") || (fst p =? "Manager.normalAggregationLoop$txNotifyCh") || (fst p =? "Manager.produceBlock") || (fst p =? "getRemainingSleep")) gen_funs.
Definition run_case (name : string) (w : aworld) : option aobs :=
  match lookup agg_funs name with
  | Some fn => interp (bind (exec 400 agg_funs (agg_globals w) (start_env fn (Some (agg_mgr w)) [ctx_v w; timer_v "blockTimer"]) [] (f_body fn))
                            (fun r => RRet (aobserve r)))
  | None => None
  end.

(* getRemainingSleep(start, interval) at clock reading now *)
Definition remaining (w : aworld) (interval : Z) : Z :=
  if (a_now w - a_start w <? interval)%Z then (interval - (a_now w - a_start w))%Z else 1%Z.
Definition go_on : list gval := [VTok "continue" []].
Definition new_lazy_timer : gval := VEff "pkg.time.NewTimer" [VZ 0].
Definition out (res : list gval) (cs : list gval) (txs : bool) : aobs :=
  {| ao_result := res; ao_calls := cs; ao_txs := Some (VBool txs) |}.

(* one production followed by the re-arming of both timers (produceBlock) *)
Definition produce (w : aworld) (pre : list gval) (txs_after : bool) : aobs :=
  let c1 := pre ++ [VEff "m.publishBlock" [ctx_v w]] in
  if negb (a_pub_ok w) && negb (a_cancel w) then out [VErr true] c1 (a_txs w)
  else out go_on (c1 ++ [VEff "lazyTimer.Reset" [VZ (remaining w (a_lazy w))];
                         VEff "blockTimer.Reset" [VZ (remaining w (a_bt w))]]) txs_after.

Definition lazy_timer_expect (w : aworld) : aobs := produce w [new_lazy_timer] (a_txs w).
Definition lazy_block_timer_expect (w : aworld) : aobs :=
  if a_txs w then produce w [new_lazy_timer] false
  else out go_on [new_lazy_timer; VEff "blockTimer.Reset" [VZ (a_bt w)]] false.
Definition notify_expect (pre : list gval) (w : aworld) : aobs := out go_on pre true.
Definition normal_block_timer_expect (w : aworld) : aobs :=
  let c1 := [VEff "m.publishBlock" [ctx_v w]] in
  if negb (a_pub_ok w) && negb (a_cancel w) then out [VErr true] c1 (a_txs w)
  else out go_on (c1 ++ [VEff "blockTimer.Reset" [VZ (remaining w (a_bt w))]]) (a_txs w).

Ltac plazy := lazy -[Z.ltb Z.sub Z.add].
Ltac decide_or_case c :=
  let v := eval vm_compute in c in
  match v with
  | true => change c with true
  | false => change c with false
  | _ => destruct c eqn:?
  end.
Ltac split_on c :=
  match c with
  | context [(?a <? ?b)%Z] => decide_or_case (a <? b)%Z
  | context [?b] => is_var b; match type of b with bool => destruct b end
  end.
Ltac hstep := match goal with
              | |- (if ?c then _ else _) = _ => split_on c
              | |- _ = Some (if ?c then _ else _) => split_on c
              | |- context [(?a <? ?b)%Z] => decide_or_case (a <? b)%Z
              end; cbv beta iota.
Ltac solve_case := unfold lazy_timer_expect, lazy_block_timer_expect, notify_expect, normal_block_timer_expect, produce, remaining, out;
                   plazy; repeat hstep; reflexivity.

Lemma go_lazy_lazyTimer : forall w, run_case "Manager.lazyAggregationLoop$lazyTimer" w = Some (lazy_timer_expect w).
Proof. intros [txs ok c st now bt lz]. solve_case. Qed.
Lemma go_lazy_blockTimer : forall w, run_case "Manager.lazyAggregationLoop$blockTimer" w = Some (lazy_block_timer_expect w).
Proof. intros [txs ok c st now bt lz]. destruct txs; solve_case. Qed.
Lemma go_lazy_txNotify : forall w, run_case "Manager.lazyAggregationLoop$txNotifyCh" w = Some (notify_expect [new_lazy_timer] w).
Proof. intros [txs ok c st now bt lz]. solve_case. Qed.
Lemma go_normal_blockTimer : forall w, run_case "Manager.normalAggregationLoop$blockTimer" w = Some (normal_block_timer_expect w).
Proof. intros [txs ok c st now bt lz]. solve_case. Qed.
Lemma go_normal_txNotify : forall w, run_case "Manager.normalAggregationLoop$txNotifyCh" w = Some (notify_expect [] w).
Proof. intros [txs ok c st now bt lz]. solve_case. Qed.

(* no lost wake-up, in the code's own terms: an announcement is never cleared without a production *)
Lemma announcement_cleared_only_by_production : forall w,
  a_txs w = true -> ao_txs (lazy_block_timer_expect w) = Some (VBool false) ->
  existsb (fun e => match e with VEff n _ => n =? "m.publishBlock" | _ => false end) (ao_calls (lazy_block_timer_expect w)) = true.
Proof.
  intros w Ht _. unfold lazy_block_timer_expect, produce. rewrite Ht.
  destruct (negb (a_pub_ok w) && negb (a_cancel w)); reflexivity.
Qed.

Print Assumptions go_lazy_lazyTimer.
Print Assumptions go_lazy_blockTimer.
Print Assumptions go_lazy_txNotify.
Print Assumptions go_normal_blockTimer.
Print Assumptions go_normal_txNotify.
Print Assumptions announcement_cleared_only_by_production.
