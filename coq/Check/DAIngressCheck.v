(* Check/DAIngressCheck.v — correspondence check for Model/DAIngress.v (C02, DA-ingress stream): the harness runs
   the REAL RetrieveLoop + SyncLoop of a full node on a scripted DA layer that holds the header blobs and signed
   data blobs of the proposer's chain at generated DA heights and answers the retriever's requests with generated
   outcomes — errors of every class (generic, deadline and cancellation in both spellings, height from the future,
   not found) at GetIDs or at Get, a request that hangs until its own deadline, or the blobs.  Per process it
   records every request the DA double saw (height asked, outcome served), the parts delivered by P2P events, the
   scan position and the node's height at the end; [mismatches] lists the cases on which the model disagrees, or
   on which the node's height is below what C02_da_complete_partial guarantees. *)
From Coq Require Import String NArith ZArith List Bool.
From Verif Require Import Base.KV Base.Keys Model.Types Model.Syncer Model.DAIngress.
Import ListNotations.
Open Scope list_scope.
Open Scope N_scope.

(* one process of the node *)
Record dproc := {
  dp_c0 : N;                       (* Manager.daHeight when the process started *)
  dp_h0 : N;                       (* the node's store height when the process started *)
  dp_reqs : list (N * outcome);    (* every GetIDs call the DA double answered, in order: height asked, outcome served *)
  dp_p2p : list part;              (* parts delivered by P2P events while SyncLoop was running *)
  dp_quiescent : bool;             (* the process ran until nothing moved any more (not stopped at a commit, SyncLoop alive) *)
  dp_cursor : N;                   (* Manager.daHeight at the end *)
  dp_height : N                    (* the node's store height at the end *)
}.

Record dcase := {
  dc_initial : N;                  (* genesis initial height *)
  dc_len : N;                      (* blocks of the proposer's chain *)
  dc_nonempty : list N;            (* numbers of the blocks that carry transactions *)
  dc_content : content;            (* what the DA layer holds *)
  dc_procs : list dproc
}.

Fixpoint list_eqb {A} (e : A -> A -> bool) (a b : list A) : bool :=
  match a, b with
  | [], [] => true
  | x :: a', y :: b' => e x y && list_eqb e a' b'
  | _, _ => false
  end.

Definition has (l : list part) (q : part) : bool := existsb (part_eqb q) l.
Definition memN (x : N) (l : list N) : bool := existsb (N.eqb x) l.

(* the first block number, from i on, of which a part is not available (fuel = blocks left) *)
Fixpoint first_missing (avail : list part) (ne : list N) (i : N) (fuel : nat) : N :=
  match fuel with
  | O => i
  | S f => if has avail (PH i) && (negb (memN i ne) || has avail (PD i))
           then first_missing avail ne (i + 1) f else i
  end.

(* the conclusion of C02_da_complete_partial for one process: every block up to the first one of which a part is
   neither applied already, nor delivered by P2P, nor handed over by the retriever (according to the model) *)
Definition height_bound (c : dcase) (p : dproc) : N :=
  let outs := map snd (dp_reqs p) in
  let avail := dp_p2p p ++ map fst (da_handed (dc_content c) (dp_c0 p) outs) in
  let i0 := dp_h0 p + 1 - dc_initial c in
  let m := first_missing avail (dc_nonempty c) i0 (N.to_nat (dc_len c - i0)) in
  dc_initial c + m - 1.

(* 1 = a request was for another height than the model's scan position, 2 = the scan position at the end differs,
   3 = node below the height guaranteed by the composition theorem, 4 = node above the chain *)
Definition check_proc (c : dcase) (p : dproc) : list N :=
  let outs := map snd (dp_reqs p) in
  (if list_eqb N.eqb (da_asked (dc_content c) (dp_c0 p) outs) (map fst (dp_reqs p)) then [] else [1]) ++
  (if negb (dp_quiescent p) || (da_cursor (dc_content c) (dp_c0 p) outs =? dp_cursor p) then [] else [2]) ++
  (if negb (dp_quiescent p) || (height_bound c p <=? dp_height p) then [] else [3]) ++
  (if dp_height p <=? dc_initial c + dc_len c - 1 then [] else [4]).

Definition check_case (c : dcase) : list N := flat_map (check_proc c) (dc_procs c).

Fixpoint mismatches_from (i : N) (cs : list dcase) : list (N * list N) :=
  match cs with
  | [] => []
  | c :: r => match check_case c with
              | [] => mismatches_from (i + 1) r
              | l => (i, l) :: mismatches_from (i + 1) r
              end
  end.
(* case indices of this stream start at 200000 (event histories: 0.., P2P ingress: 100000..) *)
Definition mismatches := mismatches_from 200000.
