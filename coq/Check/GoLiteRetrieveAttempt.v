(* Check/GoLiteRetrieveAttempt.v — the examination of ONE DA height, Manager.processNextDAHeaderAndData
   (block/retriever.go), translated from the Go source on every run:
     * "Manager.processNextDAHeaderAndData$iter": ONE ITERATION of its retry loop `for r := 0; r < dAFetcherRetries; r++`,
       a function of the loop's locals (daHeight, err, r), with Manager.fetchBlobs and the walk over the blobs found
       as scripted collaborators whose calls are logged;
     * "Manager.processNextDAHeaderAndData$range1": the BODY of that walk, `for _, bz := range blobsResp.Data`, a function
       of one blob, with handlePotentialHeader / handlePotentialData as scripted collaborators (their own lemmas are in
       GoLiteAdmit.v);
     * "Manager.fetchBlobs": the status of the DA helper's answer turned into (answer, error).

   [go_processNext_iter]: for ALL values of the locals and every answer of fetchBlobs, an attempt
     - stops the loop (the function then returns the accumulated error) once r reaches dAFetcherRetries = 10;
     - asks for exactly the height daHeight — never another one;
     - answer without error: "not found" ends the examination with nil and looks at no blob; anything else walks over
       exactly the blobs of the answer and then ends the examination with nil;
     - a "height from the future" error ends the examination with THAT error at once (no retry, no wait);
     - any other error is remembered (the accumulated error becomes non-nil), the attempt counter grows by one, the
       loop waits 100 ms and goes round again with the SAME height: the examination never ends with nil after a
       failed fetch, so (GoLiteRetrieveTick.failed_examination_keeps_height) the DA height does not advance.
   [go_processNext_blob]: an empty blob is ignored; a non-empty one is offered to handlePotentialHeader first and to
     handlePotentialData only if that said "not a header"; both with the height being examined.  Nothing a blob
     contains can make the walk stop or return: the body has no other exit.
   [go_fetchBlobs]: the error is nil exactly when the helper's status is neither StatusError nor
     StatusHeightFromFuture; for the latter it wraps coreda.ErrHeightFromFuture (its text is what the retry loop
     looks for); the helper is asked for the height passed in.
   Used by C09. *)
From Coq Require Import String List NArith ZArith Bool Lia.
From Verif Require Import Model.Types Model.Admission Model.GoLite Check.GoLiteTactics gen.GoLiteFuns.
From Verif Require Model.Proxy.
Import ListNotations.
Open Scope string_scope.
Open Scope list_scope.

Definition only (names : list string) : list (string * gfun) :=
  filter (fun p => existsb (fun n => fst p =? n) names) gen_funs.
Definition is_receiver (e : gval) : bool := match e with VEff x _ => x =? "receiver" | _ => false end.
Definition observe (r : list gval * list gval) : list gval * list gval :=
  (fst r, filter (fun e => negb (is_receiver e)) (rev (snd r))).
Definition future_text : string := "given height is from the future".
Definition future_sentinel : gval := VSent Proxy.SFuture future_text.
Definition future_err : gval := VDAErr (Proxy.mk_err [Proxy.SFuture] false future_text).
Definition other_err : gval := VDAErr (Proxy.mk_err [] false "failed to retrieve block: connection refused").
(* an error STATUS whose message happens to carry the from-the-future text (types/da.go puts the DA layer's message
   into it): the retry loop looks at the text, so this one is not retried either *)
Definition other_fut_err : gval := VDAErr (Proxy.mk_err [] false "failed to retrieve block: given height is from the future").

(* ---- one attempt ------------------------------------------------------------------------------------------- *)
Inductive fetched := FNotFound | FFound | FFuture | FFailedFut | FFailed.
Record aworld := { a_cancel : bool; a_h : N; a_prev : bool;    (* a_prev: an earlier attempt has failed (err != nil) *)
                   a_r : Z; a_fetch : fetched }.
Definition ctx_v (w : aworld) : gval := VTok "ctx" [VBool (a_cancel w)].
Definition blobs_v : gval := VSeg "blobs of the answer" 0 3.
Definition resp_v (w : aworld) : gval :=
  VRec [("Code", VStatus (match a_fetch w with FNotFound => Proxy.StNotFound | FFound => Proxy.StSuccess
                                          | FFuture => Proxy.StFuture | FFailedFut | FFailed => Proxy.StError end));
        ("Data", blobs_v); ("Message", VStr "")].
Definition fetch_err (w : aworld) : gval :=
  match a_fetch w with FFuture => future_err | FFailedFut => other_fut_err | FFailed => other_err | _ => VNil end.
Definition prev_v (w : aworld) : gval := VErr (a_prev w).
Definition att_mgr (w : aworld) : gval :=
  VObj "Manager" [("logger", VUnit); ("$orc", VOrc "m" [("fetchBlobs", [VTuple [resp_v w; fetch_err w]])])].
Definition att_globals (w : aworld) : env :=
  [("$cancelled", VBool (a_cancel w)); ("$continue", VTok "continue" []); ("$break", VTok "break" []);
   ("dAFetcherRetries", VZ 10); ("time.Millisecond", VZ 1);
   ("coreda.StatusNotFound", VStatus Proxy.StNotFound); ("coreda.ErrHeightFromFuture", future_sentinel);
   ("$pkg", VOrc "pkg" [("$range1", [VUnit]); ("time.After", [VUnit])])].
Definition att_funs : list (string * gfun) := only ["Manager.processNextDAHeaderAndData$iter"].
Definition run_attempt (w : aworld) : option (list gval * list gval) :=
  match lookup att_funs "Manager.processNextDAHeaderAndData$iter" with
  | Some fn => interp (bind (exec 400 att_funs (att_globals w)
                                  (start_env fn (Some (att_mgr w)) [ctx_v w; VN (a_h w); prev_v w; VZ (a_r w)]) [] (f_body fn))
                            (fun r => RRet (observe r)))
  | None => None
  end.

Definition joined (w : aworld) : gval :=
  if a_prev w then VTok "errors.Join" [VErr true; other_err] else VTok "errors.Join" [other_err].
Definition attempt_expect (w : aworld) : list gval * list gval :=
  if negb (a_r w <? 10)%Z then ([VTok "break" []; VN (a_h w); prev_v w; VZ (a_r w)], []) else
  if a_cancel w then ([VErr true], []) else
  let asked := [VEff "m.fetchBlobs" [ctx_v w; VN (a_h w)]] in
  match a_fetch w with
  | FNotFound => ([VNil], asked)
  | FFound => ([VNil], asked ++ [VEff "pkg.$range1" [blobs_v]])
  | FFuture => ([future_err], asked)
  | FFailedFut => ([other_fut_err], asked)
  | FFailed => ([VTok "continue" []; VN (a_h w); joined w; VZ (a_r w + 1)],
                asked ++ [VEff "pkg.time.After" [VZ 100]])
  end.

Ltac plazy := lazy -[N.eqb N.leb N.ltb N.add N.sub Z.ltb Z.add Z.mul seg_len].
Ltac decide_or_case c :=
  let v := eval vm_compute in c in
  match v with
  | true => change c with true
  | false => change c with false
  | _ => destruct c eqn:?
  end.
Ltac split_on c :=
  match c with
  | context [(?a <? ?b)%Z] => decide_or_case (a <? b)%Z
  | context [(?a =? ?b)%N] => decide_or_case (a =? b)%N
  | context [?b] => is_var b; match type of b with bool => destruct b end
  end.
Ltac hstep := match goal with
              | |- (if ?c then _ else _) = _ => split_on c
              | |- _ = Some (if ?c then _ else _) => split_on c
              end; cbv beta iota.

Lemma go_processNext_iter : forall w, run_attempt w = Some (attempt_expect w).
Proof.
  intros [cancel h prev r f]. destruct f; destruct prev; destruct cancel.
  all: plazy.
  all: repeat hstep; reflexivity.
Qed.

(* what C09 reads off it: an attempt whose fetch failed never ends the examination with nil — it goes round again
   with the same height and a non-nil accumulated error, or (future) returns the error *)
Lemma failed_fetch_never_ends_with_nil : forall w,
  (a_r w <? 10)%Z = true -> a_cancel w = false -> (a_fetch w = FFailed \/ a_fetch w = FFuture \/ a_fetch w = FFailedFut) ->
  fst (attempt_expect w) <> [VNil] /\
  (a_fetch w = FFailed ->
     exists e, fst (attempt_expect w) = [VTok "continue" []; VN (a_h w); e; VZ (a_r w + 1)] /\ is_nil e = Some false).
Proof.
  intros w Hr Hc Hf. unfold attempt_expect. rewrite Hr, Hc. cbn [negb].
  destruct Hf as [Hf|[Hf|Hf]]; rewrite Hf.
  - split; [discriminate|]. intros _. exists (joined w). split; [reflexivity|]. unfold joined. destruct (a_prev w); reflexivity.
  - split; [discriminate|]. discriminate.
  - split; [discriminate|]. discriminate.
Qed.
(* every request of an attempt is for the height being examined *)
Lemma attempt_asks_only_for_its_height : forall w e,
  In e (snd (attempt_expect w)) -> match e with VEff "m.fetchBlobs" args => args = [ctx_v w; VN (a_h w)] | _ => True end.
Proof.
  intros w e. unfold attempt_expect.
  destruct (negb (a_r w <? 10)%Z); [intros []|]. destruct (a_cancel w) eqn:Hc; [intros []|].
  destruct (a_fetch w); cbn [snd app In]; intros H;
    repeat match goal with H : _ \/ _ |- _ => destruct H as [H|H] | H : False |- _ => destruct H end; subst e; exact I || reflexivity.
Qed.

(* ---- one blob of the walk ------------------------------------------------------------------------------------ *)
Record bworld := { b_len : N; b_h : N; b_ishdr : bool }.
Definition blob_v (w : bworld) : gval := VSeg "blob" 0 (b_len w).
Definition blob_mgr (w : bworld) : gval :=
  VObj "Manager" [("logger", VUnit);
                  ("$orc", VOrc "m" [("handlePotentialHeader", [VBool (b_ishdr w)]); ("handlePotentialData", [VUnit])])].
Definition blob_funs : list (string * gfun) := only ["Manager.processNextDAHeaderAndData$range1"].
Definition run_blob (w : bworld) : option (list gval * list gval) :=
  match lookup blob_funs "Manager.processNextDAHeaderAndData$range1" with
  | Some fn => interp (bind (exec 400 blob_funs [] (start_env fn (Some (blob_mgr w)) [VUnit; blob_v w; VN (b_h w)]) [] (f_body fn))
                            (fun r => RRet (observe r)))
  | None => None
  end.
Definition blob_expect (w : bworld) : list gval * list gval :=
  if (b_len w =? 0)%N then ([], []) else
  let c1 := [VEff "m.handlePotentialHeader" [VUnit; blob_v w; VN (b_h w)]] in
  if b_ishdr w then ([], c1) else ([], c1 ++ [VEff "m.handlePotentialData" [VUnit; blob_v w; VN (b_h w)]]).

Lemma go_processNext_blob : forall w, run_blob w = Some (blob_expect w).
Proof.
  intros [n h ishdr]. unfold blob_expect; cbn [b_len b_h b_ishdr].
  plazy. unfold seg_len. rewrite N.sub_0_r.
  destruct (n =? 0)%N; cbv beta iota; [reflexivity|]. destruct ishdr; reflexivity.
Qed.

(* ---- fetchBlobs ---------------------------------------------------------------------------------------------- *)
Record fworld := { f_h : N; f_status : Proxy.status }.
Definition helper_res (w : fworld) : gval := VRec [("Code", VStatus (f_status w)); ("Message", VStr "m"); ("Data", blobs_v)].
Definition fetch_mgr : gval :=
  VObj "Manager" [("logger", VUnit); ("da", VTok "da" []); ("genesis", VRec [("ChainID", VStr "chain")])].
Definition fetch_globals (w : fworld) : env :=
  [("dAefetcherTimeout", VZ 30000); ("coreda.StatusError", VStatus Proxy.StError);
   ("coreda.StatusHeightFromFuture", VStatus Proxy.StFuture); ("coreda.ErrHeightFromFuture", future_sentinel);
   ("$pkg", VOrc "pkg" [("RetrieveWithHelpers", [helper_res w])])].
Definition fetch_funs : list (string * gfun) := only ["Manager.fetchBlobs"].
Definition run_fetch (w : fworld) : option (list gval * list gval) :=
  match lookup fetch_funs "Manager.fetchBlobs" with
  | Some fn => interp (bind (exec 400 fetch_funs (fetch_globals w) (start_env fn (Some fetch_mgr) [VUnit; VN (f_h w)]) [] (f_body fn))
                            (fun r => RRet (observe r)))
  | None => None
  end.
Definition fetch_expect (w : fworld) : list gval * list gval :=
  ([helper_res w;
    match f_status w with Proxy.StError => VErr true | Proxy.StFuture => future_err | _ => VNil end],
   [VEff "pkg.RetrieveWithHelpers" [VTok "ctx-with-timeout" [VUnit; VZ 30000]; VTok "da" []; VUnit; VN (f_h w); VStr "chain"]]).

Lemma go_fetchBlobs : forall w, run_fetch w = Some (fetch_expect w).
Proof. intros [h st]. destruct st; plazy; reflexivity. Qed.

(* the error fetchBlobs makes of a "from the future" status is the one the retry loop recognises, and the one it
   makes of an error status is not: the two translated functions agree on the text *)
Lemma future_error_is_recognised :
  Proxy.contains (Proxy.e_msg (Proxy.mk_err [Proxy.SFuture] false future_text)) future_text = true.
Proof. vm_compute. reflexivity. Qed.


(* ---- before the loop ------------------------------------------------------------------------------------------ *)
Record pworld := { p_cancel : bool; p_h : N }.
Definition pre_mgr (w : pworld) : gval := VObj "Manager" [("logger", VUnit); ("daHeight", VAtom "daHeight" (p_h w))].
Definition pre_funs : list (string * gfun) := only ["Manager.processNextDAHeaderAndData$pre"].
Definition run_pre (w : pworld) : option (list gval * list gval) :=
  match lookup pre_funs "Manager.processNextDAHeaderAndData$pre" with
  | Some fn => interp (bind (exec 400 pre_funs [("$cancelled", VBool (p_cancel w)); ("$loop", VTok "loop" [])]
                                  (start_env fn (Some (pre_mgr w)) [VTok "ctx" [VBool (p_cancel w)]]) [] (f_body fn))
                            (fun r => RRet (observe r)))
  | None => None
  end.
(* the height examined is the DA-height register's value when the examination starts; the accumulated error starts nil *)
Definition pre_expect (w : pworld) : list gval * list gval :=
  if p_cancel w then ([VErr true], []) else ([VTok "loop" []; VN (p_h w); VNil], []).
Lemma go_processNext_pre : forall w, run_pre w = Some (pre_expect w).
Proof. intros [c h]. destruct c; plazy; reflexivity. Qed.

(* ---- the whole examination, as the code's attempts one after the other ------------------------------------------
   [examine fs] runs [attempt_expect] — which go_processNext_iter proves IS the translated iteration — from r = 0 with
   the answers [fs] of the successive fetches (a live context), reading off each result whether the code goes round
   again.  It yields the examination's return value: Some true = nil, Some false = an error, None = answers used up.
   [examination_nil_iff_fetched]: the examination returns nil ONLY IF one of the (at most 10) fetches came back without
   error, and every fetch before that one failed with a retryable error; ten failures in a row, or one "from the
   future", end it with an error.  With GoLiteRetrieveTick.go_RetrieveLoop (the DA height advances only after a nil
   examination) this is "no DA height is passed over without having been fetched successfully". *)
Definition world_at (h : N) (prev : bool) (r : Z) (f : fetched) : aworld :=
  {| a_cancel := false; a_h := h; a_prev := prev; a_r := r; a_fetch := f |}.
Fixpoint examine (h : N) (prev : bool) (r : Z) (fs : list fetched) : option bool :=
  match fs with
  | [] => if (r <? 10)%Z then None else Some (negb prev)
  | f :: rest =>
      match fst (attempt_expect (world_at h prev r f)) with
      | [VTok t []; _; e; VZ r'] =>
          if t =? "continue" then
            match is_nil e with Some n => examine h (negb n) r' rest | None => None end
          else if t =? "break" then Some (negb prev) else None
      | [VNil] => Some true
      | [_] => Some false
      | _ => None
      end
  end.

Lemma examine_failed : forall h prev r f rest, (r <? 10)%Z = true -> f = FFailed ->
  examine h prev r (f :: rest) = examine h true (r + 1) rest.
Proof.
  intros h prev r f rest Hr ->. cbn [examine]. unfold attempt_expect, world_at; cbn [a_r a_cancel a_fetch a_h a_prev fst].
  rewrite Hr. cbn [negb]. cbn [String.eqb Ascii.eqb Bool.eqb]. unfold joined; cbn [a_prev]. destruct prev; reflexivity.
Qed.

Theorem examination_nil_iff_fetched : forall fs h prev r, (0 <= r)%Z ->
  examine h prev r fs = Some true ->
  (prev = false /\ (10 <= r)%Z) \/
  exists k f, (r + Z.of_nat k < 10)%Z /\ nth_error fs k = Some f /\ (f = FNotFound \/ f = FFound) /\
              forall j, (j < k)%nat -> nth_error fs j = Some FFailed.
Proof.
  induction fs as [|f rest IH]; intros h prev r Hr0 H.
  - cbn [examine] in H. destruct (r <? 10)%Z eqn:Hr; [discriminate|]. left. destruct prev; [discriminate|]. split; [reflexivity|]. lia.
  - destruct (r <? 10)%Z eqn:Hr.
    + destruct f.
      * right. exists 0%nat, FNotFound. repeat split; [lia|auto|intros j Hj; lia].
      * right. exists 0%nat, FFound. repeat split; [lia|auto|intros j Hj; lia].
      * exfalso. cbn [examine] in H. unfold attempt_expect, world_at in H; cbn [a_r a_cancel a_fetch a_h a_prev fst] in H.
        rewrite Hr in H. cbn in H. discriminate.
      * exfalso. cbn [examine] in H. unfold attempt_expect, world_at in H; cbn [a_r a_cancel a_fetch a_h a_prev fst] in H.
        rewrite Hr in H. cbn in H. discriminate.
      * rewrite (examine_failed h prev r FFailed rest Hr eq_refl) in H.
        apply IH in H; [|lia]. destruct H as [[Hp _]|[k [f [Hk [Hn [Hf Hall]]]]]].
        -- (* ten failures: the accumulated error is not nil *) discriminate Hp.
        -- right. exists (S k), f. repeat split; [lia|exact Hn|exact Hf|].
           intros j Hj. destruct j as [|j]; [reflexivity|]. apply Hall. lia.
    + (* r >= 10: the loop stops *)
      cbn [examine] in H. unfold attempt_expect, world_at in H; cbn [a_r a_cancel a_fetch a_h a_prev fst] in H.
      rewrite Hr in H. cbn in H. left. destruct prev; [discriminate|]. split; [reflexivity|]. lia.
Qed.


(* as the node runs it: from r = 0 with no error yet *)
Corollary examination_nil_only_after_a_fetch : forall fs h,
  examine h false 0 fs = Some true ->
  exists k f, (Z.of_nat k < 10)%Z /\ nth_error fs k = Some f /\ (f = FNotFound \/ f = FFound) /\
              forall j, (j < k)%nat -> nth_error fs j = Some FFailed.
Proof.
  intros fs h H. destruct (examination_nil_iff_fetched fs h false 0%Z (Z.le_refl 0) H) as [[_ H10]|H']; [lia|].
  destruct H' as [k [f [Hk H']]]. exists k, f. split; [lia|exact H'].
Qed.

(* non-vacuity: two failures then a find end with nil; ten failures, or one "from the future", end with an error *)
Example examination_succeeds_after_retries : examine 7 false 0 [FFailed; FFailed; FFound] = Some true.
Proof. vm_compute. reflexivity. Qed.
Example examination_gives_up_after_ten :
  examine 7 false 0 [FFailed; FFailed; FFailed; FFailed; FFailed; FFailed; FFailed; FFailed; FFailed; FFailed] = Some false.
Proof. vm_compute. reflexivity. Qed.
Example examination_future_is_an_error : examine 7 false 0 [FFailed; FFuture] = Some false.
Proof. vm_compute. reflexivity. Qed.

Print Assumptions go_processNext_iter.
Print Assumptions failed_fetch_never_ends_with_nil.
Print Assumptions attempt_asks_only_for_its_height.
Print Assumptions go_processNext_blob.
Print Assumptions go_fetchBlobs.
Print Assumptions go_processNext_pre.
Print Assumptions examination_nil_iff_fetched.
Print Assumptions examination_nil_only_after_a_fetch.
