(* Check/GoLiteSignedData.v — Manager.createSignedDataToSubmit (block/submitter.go), what the data submission loop
   hands to the DA layer, translated from the Go source on every run:
     * "Manager.createSignedDataToSubmit":         the function; its walk over the pending data is the logged call
                                                   $range1(dataList, signedDataToSubmit) in the general form;
     * "Manager.createSignedDataToSubmit$range1":  the BODY of `for _, data := range dataList`.
   pendingData, the signer and getDataSignature (its own lemma: GoLiteBlock.go_getDataSignature) are scripted
   collaborators whose calls are logged.

   [go_createSignedData]: for ALL worlds: the pending list is fetched ONCE; a failing fetch, a node without signer or a
   signer without public key end the call with an error and NOTHING to submit; otherwise the walk goes over exactly the
   pending list, starting from an empty result; a walk that left the function (a signature could not be made) returns
   its error and nothing to submit; otherwise exactly the walk's result is returned.
   [go_signed_one]: data WITHOUT transactions is passed over (it is never submitted: Throttle / Submitter treat empty
   data as submitted); otherwise the data is signed ONCE and appended at the END of the result as
   SignedData{Data: that data, Signature: that signature, Signer: the node's (public key, genesis proposer address)} —
   order kept, nothing else altered; a failing signature leaves the function.
   Used by C06, C03. *)
From Coq Require Import String List NArith ZArith Bool Lia.
From Verif Require Import Model.Types Model.Admission Model.GoLite Check.GoLiteTactics gen.GoLiteFuns.
Import ListNotations.
Open Scope string_scope.
Open Scope list_scope.

Definition only (names : list string) : list (string * gfun) :=
  filter (fun p => existsb (fun n => fst p =? n) names) gen_funs.
Definition is_receiver (e : gval) : bool := match e with VEff x _ => x =? "receiver" | _ => false end.
Definition er (ok : bool) : gval := VErr (negb ok).
Definition observe (r : list gval * list gval) : list gval * list gval :=
  (fst r, filter (fun e => negb (is_receiver e)) (rev (snd r))).
Definition ctx : gval := VUnit.

Record cworld := { c_pend_ok : bool; c_signer : bool; c_pub_ok : bool; c_left : bool; c_sel : list gval }.
Definition pending_v : gval := VTok "the pending data" [].
Definition pub_v : gval := VTok "the signer's public key" [].
Definition addr_v : gval := VTok "genesis proposer address" [].
Definition mgr_v (w : cworld) : gval :=
  VObj "Manager" [("logger", VUnit);
                  ("pendingData", VOrc "pendingData" [("getPendingData", [VTuple [pending_v; er (c_pend_ok w)]])]);
                  ("signer", if c_signer w then VOrc "signer" [("GetPublic", [VTuple [pub_v; er (c_pub_ok w)]])] else VNil);
                  ("genesis", VRec [("ProposerAddress", addr_v)])].
Definition c_globals (w : cworld) : env :=
  [("$pkg", VOrc "pkg" [("$range1", [VTuple [VBool (c_left w); VList (c_sel w); VNil; VErr true]])])].
Definition run_create (w : cworld) : option (list gval * list gval) :=
  match lookup (only ["Manager.createSignedDataToSubmit"]) "Manager.createSignedDataToSubmit" with
  | Some fn => interp (bind (exec 400 (only ["Manager.createSignedDataToSubmit"]) (c_globals w)
                                  (start_env fn (Some (mgr_v w)) [ctx]) [] (f_body fn))
                            (fun r => RRet (observe r)))
  | None => None
  end.
Definition nothing (cs : list gval) : list gval * list gval := ([VNil; VErr true], cs).
Definition create_expect (w : cworld) : list gval * list gval :=
  let c1 := [VEff "pendingData.getPendingData" [ctx]] in
  if negb (c_pend_ok w) then nothing c1 else
  if negb (c_signer w) then nothing c1 else
  let c2 := c1 ++ [VEff "signer.GetPublic" []] in
  if negb (c_pub_ok w) then nothing c2 else
  let c3 := c2 ++ [VEff "pkg.$range1" [pending_v; VZero "make []*types.SignedData"]] in
  if c_left w then nothing c3 else ([VList (c_sel w); VNil], c3).

Ltac plazy := lazy -[N.eqb N.leb N.ltb N.add N.sub llen lapp].
Ltac split_on c :=
  match c with
  | context [(?a =? ?b)%N] => destruct (a =? b)%N eqn:?
  | context [?b] => is_var b; match type of b with bool => destruct b end
  end.
Ltac hstep := match goal with
              | |- (if ?c then _ else _) = _ => split_on c
              | |- _ = Some (if ?c then _ else _) => split_on c
              end; cbv beta iota.

Lemma go_createSignedData : forall w, run_create w = Some (create_expect w).
Proof.
  intros [pok sg kok left sel]. destruct pok; destruct sg; destruct kok; destruct left.
  all: plazy; reflexivity.
Qed.

(* ---- one item of the pending data -------------------------------------------------------------------------------- *)
Record dworld := { d_txs : list gval; d_sig_ok : bool; d_acc : list gval }.
Definition data_v (w : dworld) : gval := VRec [("Txs", VList (d_txs w)); ("Metadata", VTok "its metadata" [])].
Definition sig_v : gval := VTok "the signature over it" [].
Definition signer_v : gval := VRec [("PubKey", pub_v); ("Address", addr_v)].
Definition d_mgr (w : dworld) : gval :=
  VObj "Manager" [("logger", VUnit); ("$orc", VOrc "m" [("getDataSignature", [VTuple [sig_v; er (d_sig_ok w)]])])].
Definition run_one (w : dworld) : option (list gval * list gval) :=
  match lookup (only ["Manager.createSignedDataToSubmit$range1"]) "Manager.createSignedDataToSubmit$range1" with
  | Some fn => interp (bind (exec 400 (only ["Manager.createSignedDataToSubmit$range1"]) []
                                  (start_env fn (Some (d_mgr w)) [ctx; data_v w; VNil; signer_v; VList (d_acc w)]) [] (f_body fn))
                            (fun r => RRet (observe r)))
  | None => None
  end.
Definition signed_v (w : dworld) : gval := VRec [("Data", data_v w); ("Signature", sig_v); ("Signer", signer_v)].
Definition one_expect (w : dworld) : list gval * list gval :=
  if (llen (d_txs w) =? 0)%N then ([VBool false; VList (d_acc w); VNil; VNil], []) else
  let c1 := [VEff "m.getDataSignature" [data_v w]] in
  if negb (d_sig_ok w) then ([VBool true; VList (d_acc w); VNil; VErr true], c1)
  else ([VBool false; VList (lapp (d_acc w) [signed_v w]); VNil; VNil], c1).

Lemma go_signed_one : forall w, run_one w = Some (one_expect w).
Proof.
  intros [txs sok acc]. unfold one_expect; cbn [d_txs d_sig_ok d_acc]. destruct sok.
  all: plazy.
  all: repeat hstep; reflexivity.
Qed.

Print Assumptions go_createSignedData.
Print Assumptions go_signed_one.
