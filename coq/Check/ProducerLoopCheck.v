(* Check/ProducerLoopCheck.v — correspondence check for Model/ProducerLoop.v (C01): the cases of the C01 harness.
   [UPlain k]   a case of Check/ProducerCheck.v: the steps were driven by direct calls of publishBlockInternal.
   [ULoop k al] the steps were made by the node's OWN production loop — the real Manager.AggregationLoop (normal or
                lazy) started after every successful NewManager, under virtual time, each of its rounds consuming the
                next step item (harness/producer/loop.go).  Per item the harness recorded what Check/ProducerCheck.v
                compares (result class of the round, ExecuteTxs call, cursor passed to the sequencer, datastore write
                log, store height, recorded state, served blocks at the tip and the pending height) and, in [al],
                whether the production loop was still RUNNING afterwards (it had neither returned nor reported an
                error on the node's error channel).
   [umismatches] lists the cases on which the model disagrees.  Only projected observables are compared. *)
From Coq Require Import String NArith ZArith List Bool.
From Verif Require Import Base.KV Base.Keys Model.Types Model.Producer Model.ProducerLoop Check.ProducerCheck.
Import ListNotations.
Open Scope N_scope.

Inductive ucase := UPlain (k : pcase) | ULoop (k : pcase) (al : list bool).

(* a history of the node under its loop holds completed starts and rounds only *)
Fixpoint acts_of (h : list item) : option (list act) :=
  match h with
  | [] => Some []
  | IRun a :: r => option_map (cons a) (acts_of r)
  | _ :: _ => None
  end.

Fixpoint lrun_obs (c : cfg) (st : mach) (h : list act) : mach * list (obs * bool) :=
  match h with
  | [] => (st, [])
  | a :: r => let '(st', o) := loop_item c st a in
              let '(st'', os) := lrun_obs c st' r in (st'', (proj_obs c st' o, alive st') :: os)
  end.

(* 1 = per-item observations differ, 2 = final blocks differ, 3 = not a loop history, 4 = the loop is / is not
   running where the model says otherwise *)
Definition check_loop_case (k : pcase) (al : list bool) : list N :=
  let c := case_cfg k in
  match acts_of (pc_hist k) with
  | None => [3]
  | Some acts =>
      let '(st, os) := lrun_obs c fresh acts in
      let top := N.max (g_height (img_of st)) (c_initial c - 1) in
      let bs := proj_blocks c (img_of st) (c_initial c) (N.to_nat (top + 2 - c_initial c)) in
      (if list_eqb obs_eqb (map fst os) (pc_obs k) then [] else [1]) ++
      (if list_eqb (opt_eqb pblock_eqb) bs (pc_blocks k) then [] else [2]) ++
      (if list_eqb Bool.eqb (map snd os) al then [] else [4])
  end.

Definition check_ucase (u : ucase) : list N :=
  match u with
  | UPlain k => check_case k
  | ULoop k al => check_loop_case k al
  end.

Fixpoint umismatches_from (i : N) (cs : list ucase) : list (N * list N) :=
  match cs with
  | [] => []
  | c :: r => match check_ucase c with
              | [] => umismatches_from (i + 1) r
              | l => (i, l) :: umismatches_from (i + 1) r
              end
  end.
Definition umismatches := umismatches_from 0.

Definition is_loop_case (u : ucase) : bool := match u with ULoop _ _ => true | UPlain _ => false end.
