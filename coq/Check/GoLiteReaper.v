(* Check/GoLiteReaper.v — Reaper.SubmitTxs (block/reaper.go), the hand-off of mempool transactions to the sequencer,
   translated from the Go source on every run:
     * "Reaper.SubmitTxs":         the function, its two `range` loops as logged calls: the first is a STATE TRANSFORMER
                                   over the variables it writes (newTxs, inBatch = $range1(txs, newTxs, inBatch)), the
                                   second a plain walk ($range2(newTxs));
     * "Reaper.SubmitTxs$range1":  the body of the selection loop, a function of one transaction and of (newTxs,
                                   inBatch) that returns their new values at every exit;
     * "Reaper.SubmitTxs$range2":  the body of the marking loop.
   The executor, the sequencer, the seen-store, the manager, hashTx and the set operations are scripted collaborators
   whose calls are logged in order with their arguments.

   [go_SubmitTxs]: for ALL worlds (GetTxs failing or not, any selected list, the sequencer accepting or refusing, a
   manager or none) the calls are exactly: GetTxs; the selection over exactly the transactions GetTxs returned,
   starting from the empty list and the empty set; nothing more if nothing was selected; else ONE SubmitBatchTxs
   carrying exactly the selected list; if it FAILS nothing is marked seen and nobody is notified (the transactions are
   offered again by the next reap); else the marking walk over exactly the selected list and then the notification.
   [go_select_one]: a transaction already in this batch is passed over WITHOUT consulting the seen-store; otherwise
   the seen-store is asked for exactly its hash; an error there or "seen" passes it over; only otherwise it is
   appended (at the END: order kept) and its hash added to the batch set.  [go_mark_one]: exactly one Put under the
   transaction's hash; a failing Put is logged and the walk goes on.
   Proofs/GoLiteReaperRefine.v ties the selection to Reaper.select.   Used by C11. *)
From Coq Require Import String List NArith ZArith Bool Lia.
From Verif Require Import Model.Types Model.Admission Model.GoLite Check.GoLiteTactics gen.GoLiteFuns.
Import ListNotations.
Open Scope string_scope.
Open Scope list_scope.

Definition only (names : list string) : list (string * gfun) :=
  filter (fun p => existsb (fun n => fst p =? n) names) gen_funs.
Definition is_receiver (e : gval) : bool := match e with VEff x _ => x =? "receiver" | _ => false end.
Definition er (ok : bool) : gval := VErr (negb ok).
Definition observe (r : list gval * list gval) : list gval * list gval :=
  (fst r, filter (fun e => negb (is_receiver e)) (rev (snd r))).
Definition rctx : gval := VTok "r.ctx" [].

(* ---- the function --------------------------------------------------------------------------------------------- *)
Record rworld := { r_getok : bool; r_sel : list gval; r_submitok : bool; r_mgr : bool }.
Definition txs_v : gval := VTok "what GetTxs returned" [].
Definition set_after : gval := VTok "the batch set after the selection" [].
Definition mgr_v : gval := VOrc "manager" [("NotifyNewTransactions", [VUnit])].
Definition reaper_v (w : rworld) : gval :=
  VObj "Reaper" [("logger", VUnit); ("ctx", rctx); ("chainID", VStr "chain");
                 ("exec", VOrc "exec" [("GetTxs", [VTuple [txs_v; er (r_getok w)]])]);
                 ("sequencer", VOrc "sequencer" [("SubmitBatchTxs", [VTuple [VUnit; er (r_submitok w)]])]);
                 ("manager", if r_mgr w then mgr_v else VNil)].
Definition reap_globals (w : rworld) : env :=
  [("$pkg", VOrc "pkg" [("$range1", [VTuple [VList (r_sel w); set_after]]); ("$range2", [VUnit])])].
Definition run_reap (w : rworld) : option (list gval * list gval) :=
  match lookup (only ["Reaper.SubmitTxs"]) "Reaper.SubmitTxs" with
  | Some fn => interp (bind (exec 400 (only ["Reaper.SubmitTxs"]) (reap_globals w) (start_env fn (Some (reaper_v w)) []) [] (f_body fn))
                            (fun r => RRet (observe r)))
  | None => None
  end.

Definition request (w : rworld) : gval :=
  VRec [("Id", VStr "chain"); ("Batch", VRec [("Transactions", VList (r_sel w))])].
Definition reap_expect (w : rworld) : list gval * list gval :=
  let c1 := [VEff "exec.GetTxs" [rctx]] in
  if negb (r_getok w) then ([], c1) else
  let c2 := c1 ++ [VEff "pkg.$range1" [txs_v; VZero "[][]byte"; VZero "make map[string]struct{}"]] in
  if (llen (r_sel w) =? 0)%N then ([], c2) else
  let c3 := c2 ++ [VEff "sequencer.SubmitBatchTxs" [rctx; request w]] in
  if negb (r_submitok w) then ([], c3) else
  let c4 := c3 ++ [VEff "pkg.$range2" [VList (r_sel w)]] in
  if r_mgr w && (0 <? llen (r_sel w))%N then ([], c4 ++ [VEff "manager.NotifyNewTransactions" []]) else ([], c4).

Ltac plazy := lazy -[N.eqb N.leb N.ltb N.add N.sub llen].
Ltac split_on c :=
  match c with
  | context [(?a =? ?b)%N] => destruct (a =? b)%N eqn:?
  | context [(?a <? ?b)%N] => destruct (a <? b)%N eqn:?
  | context [?b] => is_var b; match type of b with bool => destruct b end
  end.
Ltac hstep := match goal with
              | |- (if ?c then _ else _) = _ => split_on c
              | |- _ = Some (if ?c then _ else _) => split_on c
              end; cbv beta iota.

Lemma go_SubmitTxs : forall w, run_reap w = Some (reap_expect w).
Proof.
  intros [getok sel submitok mgr]. destruct getok; destruct submitok; destruct mgr.
  all: plazy.
  all: repeat hstep; reflexivity.
Qed.

(* a refused hand-off marks nothing and notifies nobody *)
Definition marks_or_notifies (e : gval) : bool :=
  match e with VEff n _ => (n =? "pkg.$range2") || (n =? "manager.NotifyNewTransactions") | _ => false end.
Lemma refused_handoff_marks_nothing : forall w, r_getok w = true -> r_submitok w = false ->
  filter marks_or_notifies (snd (reap_expect w)) = [].
Proof.
  intros w Hg Hs. unfold reap_expect. rewrite Hg, Hs. cbn [negb]. destruct (llen (r_sel w) =? 0)%N; reflexivity.
Qed.

(* ---- one transaction of the selection -------------------------------------------------------------------------- *)
Record sworld := { s_tx : N; s_dup : bool; s_hasok : bool; s_has : bool; s_new : list gval }.
Definition tx_v (w : sworld) : gval := VN (s_tx w).
Definition hash_v (w : sworld) : gval := VTok "hash" [VN (s_tx w)].
Definition set_v : gval := VTok "the batch set so far" [].
Definition set_plus (w : sworld) : gval := VTok "the batch set with" [VN (s_tx w)].
Definition sel_reaper (w : sworld) : gval :=
  VObj "Reaper" [("logger", VUnit); ("ctx", rctx);
                 ("seenStore", VOrc "seenStore" [("Has", [VTuple [VBool (s_has w); er (s_hasok w)]]); ("Put", [er (s_hasok w)])])].
Definition sel_globals (w : sworld) : env :=
  [("$pkg", VOrc "pkg" [("hashTx", [hash_v w]); ("$set_has", [VBool (s_dup w)]); ("$set_add", [set_plus w])])].
Definition run_select (w : sworld) : option (list gval * list gval) :=
  match lookup (only ["Reaper.SubmitTxs$range1"]) "Reaper.SubmitTxs$range1" with
  | Some fn => interp (bind (exec 400 (only ["Reaper.SubmitTxs$range1"]) (sel_globals w)
                                  (start_env fn (Some (sel_reaper w)) [tx_v w; VNil; VList (s_new w); set_v; VUnit; VUnit]) [] (f_body fn))
                            (fun r => RRet (observe r)))
  | None => None
  end.
Definition select_expect (w : sworld) : list gval * list gval :=
  let c1 := [VEff "pkg.hashTx" [tx_v w]; VEff "pkg.$set_has" [set_v; hash_v w]] in
  let same := [VList (s_new w); set_v] in
  if s_dup w then (same, c1) else
  let c2 := c1 ++ [VEff "seenStore.Has" [rctx; hash_v w]] in
  if negb (s_hasok w) then (same, c2) else
  if s_has w then (same, c2) else
  ([VList (lapp (s_new w) [tx_v w]); set_plus w], c2 ++ [VEff "pkg.$set_add" [set_v; hash_v w]]).

Lemma go_select_one : forall w, run_select w = Some (select_expect w).
Proof.
  intros [t dup hasok has new]. destruct dup; destruct hasok; destruct has.
  all: plazy; reflexivity.
Qed.

(* ---- one transaction of the marking ----------------------------------------------------------------------------- *)
Definition run_mark (w : sworld) : option (list gval * list gval) :=
  match lookup (only ["Reaper.SubmitTxs$range2"]) "Reaper.SubmitTxs$range2" with
  | Some fn => interp (bind (exec 400 (only ["Reaper.SubmitTxs$range2"]) (sel_globals w)
                                  (start_env fn (Some (sel_reaper w)) [tx_v w; VNil; VUnit; VUnit]) [] (f_body fn))
                            (fun r => RRet (observe r)))
  | None => None
  end.
Definition mark_expect (w : sworld) : list gval * list gval :=
  ([], [VEff "pkg.hashTx" [tx_v w]; VEff "seenStore.Put" [rctx; hash_v w; VRec [("0", VZ 1)]]]).
Lemma go_mark_one : forall w, run_mark w = Some (mark_expect w).
Proof. intros [t dup hasok has new]. destruct hasok; plazy; reflexivity. Qed.

Print Assumptions go_SubmitTxs.
Print Assumptions refused_handoff_marks_nothing.
Print Assumptions go_select_one.
Print Assumptions go_mark_one.
