(* Check/GoLiteLoopWaiting.v (one of Check/GoLiteLoop*.v) — loops of the Go code, translated SHALLOWLY into Gallina Fixpoints by
   harness/translators/golite (loops.go) on every run (coq/gen/GoLoops.v), and proved — by induction, for ALL lists —
   to compute what the hand-written models compute.  (The deep embedding Model/GoLite.v evaluates straight-line
   decision code symbolically; a loop over an unbounded list needs an induction, which is done here.)
     loop_client_filter   da/jsonrpc/client.go SubmitWithOptions, the size filter     = Proxy.filter_loop          (C16)
     loop_num_waiting     block/pending_data.go numWaitingData                          = Throttle.waiting_loop      (C08)
     loop_retrieve_chunks types/da.go RetrieveWithHelpers, the chunked Get loop         = consecutive index ranges of
                                                                                          Admission.batch_size ids   (C03, C09, C16)
   Integers are N (sizes and indices far below 2^63). *)
From Coq Require Import List NArith Bool Lia.
From Verif Require Import gen.GoLoops.
From Verif Require Model.Proxy Model.Throttle Model.Admission.
From Coq Require String.
Import ListNotations.
Open Scope N_scope.
Open Scope list_scope.

(* ---- numWaitingData ------------------------------------------------------------------------------------------ *)
(* pending data items are their heights; an item carries transactions iff its height is in t_nes; Metadata is never
   nil for an item read from the store *)
Definition num_waiting (s : Throttle.state) :=
  loop_num_waiting N (fun _ => true) (fun h => h) (fun h => if Throttle.nonempty s h then 1 else 0).

Lemma go_num_waiting_gen : forall s hs waiting effs wp,
  let '(w', effs') := num_waiting s hs (waiting, effs) in
  Throttle.waiting_loop s hs waiting (fold_left Throttle.set_mark effs wp) =
  (w', fold_left Throttle.set_mark effs' wp).
Proof.
  intros s hs. induction hs as [|h r IH]; intros waiting effs wp.
  - reflexivity.
  - unfold num_waiting in *. cbn [L_num_waiting.loop Throttle.waiting_loop].
    destruct (Throttle.nonempty s h) eqn:E.
    + replace (0 <? 1) with true by reflexivity. apply IH.
    + replace (0 <? 0) with false by reflexivity. rewrite andb_true_r.
      destruct (waiting =? 0) eqn:E2.
      * specialize (IH waiting (effs ++ [h]) wp). rewrite fold_left_app in IH. exact IH.
      * apply IH.
Qed.

(* from the initial state: the count is the model's, and stepping the watermark over the recorded heights in order
   gives the model's watermark pair *)
Lemma go_num_waiting : forall s hs wp,
  let '(w, effs) := num_waiting s hs (0, []) in
  Throttle.waiting_loop s hs 0 wp = (w, fold_left Throttle.set_mark effs wp).
Proof. intros. exact (go_num_waiting_gen s hs 0 [] wp). Qed.


(* the loop reads exactly these inputs, by name (the lemmas instantiate them by position) *)
Lemma go_num_waiting_inputs : LoopInputs.loop_num_waiting_inputs = [].
Proof. reflexivity. Qed.

Print Assumptions go_num_waiting.
