(* Check/GoLiteLazy.v — C17: getRemainingSleep = Lazy.remaining.
   Lemmas over coq/gen/GoLiteFuns.v, which harness/translators/golite regenerates from /repo's source on every
   run; for all arguments. *)
From Coq Require Import String List NArith ZArith Bool Lia.
From Verif Require Import Model.Types Model.Admission Model.GoLite Check.GoLiteTactics gen.GoLiteFuns.
From Verif Require Model.Submitter Model.Throttle Model.Lazy.
Import ListNotations.
Open Scope string_scope.

(* block/aggregation.go getRemainingSleep; [now] = the instant of the call, time.Millisecond = Lazy.ms *)
Lemma go_getRemainingSleep : forall now start interval,
  run_fun gen_funs [("$now", VZ now); ("time.Millisecond", VZ Lazy.ms)] "getRemainingSleep" None [VZ start; VZ interval] =
  Some [VZ (Lazy.remaining (now - start) interval)].
Proof. intros. unfold Lazy.remaining. glazy. destruct (now - start <? interval)%Z; reflexivity. Qed.

(* every lemma is closed under the global context (bin/tr-golite fails on any "Axioms:" line) *)
Print Assumptions go_getRemainingSleep.
