(* Check/GoLiteAdmit.v — the DA admission path of a syncing node (block/retriever.go handlePotentialHeader /
   handlePotentialData) does exactly what Model/Admission.v [da_admit] says: lemmas over the regenerated
   coq/gen/GoLiteFuns.v, for ALL genesis data, seen-sets, items and DA heights.  The functions are translated with
   their effects: the result, the DA-included mark put into the header / data cache, the signal to the DA includer
   and the event sent to the sync loop, in order.

   What is assumed, not translated: what the bytes of a blob decode to (the blob classes of Admission.v; the wire
   codec is C12's subject): proto.Unmarshal / FromProto / UnmarshalBinary are given their meaning on the classes
   in Model/GoLite.v [mut_call] / [mut_meth]; the node's context is alive (a send is not cut by cancellation;
   the cancelled case is lemma go_handlePotentialHeader_cancelled).

   Used by C03 (only proposer-signed material is admitted), C09 (every genuine blob is handed to sync), C02 / C07
   (DA ingress, marks). *)
From Coq Require Import String List NArith ZArith Bool Lia.
From Verif Require Import Model.Types Model.Admission Model.GoLite Check.GoLiteTactics gen.GoLiteFuns.
Import ListNotations.
Open Scope string_scope.

Definition mk_mgr (g : genesis) (hs : list header) (ds : list commitment) : mgr :=
  {| mg_genesis := g; mg_da_block_time := 0; mg_hseen := hs; mg_dseen := ds |}.

(* the effects [da_admit] predicts, oldest first *)
Definition header_effects (o : da_out) (da : N) : list gval :=
  match o_hmark o with
  | Some h => [VEff "header-da-included" [VHash h; VN da]; VEff "signal-da-includer" []]
  | None => []
  end ++
  match o_hevent o with
  | Some sh => [VEff "send" [VChan "headerInCh"; VRec [("0", VSHeader sh); ("1", VN da)]]]
  | None => []
  end.
Definition data_effects (o : da_out) (da : N) : list gval :=
  match o_dmark o with
  | Some c => [VEff "data-da-included" [VCommit c; VN da]; VEff "signal-da-includer" []]
  | None => []
  end ++
  match o_devent o with
  | Some d => [VEff "send" [VChan "dataInCh"; VRec [("0", VData d); ("1", VN da)]]]
  | None => []
  end.

Ltac astep := match goal with |- context [if ?c then _ else _] => atom_in c end; cbv beta iota.
Ltac glazy' :=
  lazy -[N.eqb N.ltb N.leb Z.eqb Z.ltb Z.leb addr_eqb commitment_eqb verify_header verify_data key_address header_eqb
         addr_len sig_len mem_header mem_commitment].

(* a decodable SignedHeader blob *)
Lemma go_handlePotentialHeader_hdr : forall g hs ds sh da,
  run_eff gen_funs [] "Manager.handlePotentialHeader" (Some (VMgr (mk_mgr g hs ds))) [VUnit; VBlob (BHdr sh); VN da] =
  Some ([VBool (o_handled (da_admit g hs ds (BHdr sh)))], header_effects (da_admit g hs ds (BHdr sh)) da).
Proof.
  intros g hs ds sh da. destruct g as [gc gi gp]; destruct sh as [h sg [[p|] a]]; destruct h.
  all: unfold da_admit, is_expected_sequencer, validate_basic, header_effects.
  all: glazy'; rewrite ?addr_len_zero, ?sig_len_zero; glazy'.
  all: repeat (first [ astep | match goal with |- context [mem_header ?x ?l] => destruct (mem_header x l) eqn:? end; cbv beta iota ]).
  all: reflexivity.
Qed.

(* bytes that unmarshal as a pb.SignedHeader but do not decode: handled, nothing happens *)
Lemma go_handlePotentialHeader_undecodable : forall g hs ds da,
  run_eff gen_funs [] "Manager.handlePotentialHeader" (Some (VMgr (mk_mgr g hs ds))) [VUnit; VBlob BHdrUndecodable; VN da] =
  Some ([VBool true], []).
Proof. intros; glazy'; reflexivity. Qed.

(* anything else on the header path: not a header, nothing happens *)
Lemma go_handlePotentialHeader_other : forall g hs ds b da,
  match b with BHdr _ | BHdrUndecodable => False | _ => True end ->
  run_eff gen_funs [] "Manager.handlePotentialHeader" (Some (VMgr (mk_mgr g hs ds))) [VUnit; VBlob b; VN da] =
  Some ([VBool false], []).
Proof. intros g hs ds b da Hb; destruct b; try contradiction; glazy'; reflexivity. Qed.

(* when the node is stopping the event is not sent, everything else is unchanged *)
Lemma go_handlePotentialHeader_cancelled : forall g hs ds sh da,
  o_hmark (da_admit g hs ds (BHdr sh)) <> None ->
  run_eff gen_funs [("$cancelled", VBool true)] "Manager.handlePotentialHeader" (Some (VMgr (mk_mgr g hs ds))) [VUnit; VBlob (BHdr sh); VN da] =
  Some ([VBool true], [VEff "header-da-included" [VHash (sh_hdr sh); VN da]; VEff "signal-da-includer" []]).
Proof.
  intros g hs ds sh da. destruct g as [gc gi gp]; destruct sh as [h sg [[p|] a]]; destruct h.
  all: unfold da_admit, is_expected_sequencer, validate_basic.
  all: glazy'; rewrite ?addr_len_zero, ?sig_len_zero; glazy'.
  all: repeat (first [ astep | match goal with |- context [mem_header ?x ?l] => destruct (mem_header x l) eqn:? end; cbv beta iota ]).
  all: try reflexivity; intros Hc; exfalso; apply Hc; reflexivity.
Qed.

(* a decodable SignedData blob *)
Lemma go_handlePotentialData_data : forall g hs ds sd da,
  run_eff gen_funs [] "Manager.handlePotentialData" (Some (VMgr (mk_mgr g hs ds))) [VUnit; VBlob (BData sd); VN da] =
  Some ([], data_effects (da_admit g hs ds (BData sd)) da).
Proof.
  intros g hs ds sd da. destruct g as [gc gi gp]; destruct sd as [[mt txs] sg [[p|] a]].
  all: destruct txs as [|t txs]; destruct mt as [mt|].
  all: unfold da_admit, is_valid_signed_data, data_effects.
  all: lazy -[addr_eqb commitment_eqb verify_header verify_data key_address header_eqb mem_header mem_commitment].
  all: repeat (first [ astep | match goal with |- context [mem_commitment ?x ?l] => destruct (mem_commitment x l) eqn:? end; cbv beta iota ]).
  all: reflexivity.
Qed.

(* anything that is not a decodable SignedData: nothing happens *)
Lemma go_handlePotentialData_other : forall g hs ds b da,
  match b with BData _ => False | _ => True end ->
  run_eff gen_funs [] "Manager.handlePotentialData" (Some (VMgr (mk_mgr g hs ds))) [VUnit; VBlob b; VN da] = Some ([], []).
Proof. intros g hs ds b da Hb; destruct b; try contradiction; glazy'; reflexivity. Qed.

(* every lemma is closed under the global context (bin/tr-golite fails on any "Axioms:" line) *)
Print Assumptions go_handlePotentialHeader_hdr.
Print Assumptions go_handlePotentialHeader_undecodable.
Print Assumptions go_handlePotentialHeader_other.
Print Assumptions go_handlePotentialHeader_cancelled.
Print Assumptions go_handlePotentialData_data.
Print Assumptions go_handlePotentialData_other.
