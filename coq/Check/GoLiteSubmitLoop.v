(* Check/GoLiteSubmitLoop.v — the retry loop of block/submitter.go submitToDA, the function behind submitHeadersToDA and
   submitDataToDA, translated from the Go source on every run: ONE ITERATION of `for !submittedAll && attempt <
   maxSubmitAttempts { … }` as a function of the loop's locals (coq/gen/GoLiteFuns.v, "submitToDA$iter"), evaluated
   with the DA helper (types.SubmitWithHelpers — proved equal to Proxy.submit_helper in GoLiteDA.v), the postSubmit
   callback and the timer as scripted collaborators whose calls are logged.

   [go_submitToDA_iter] states, for ALL values of the locals (what is still to submit, attempt, backoff, gas price), all
   configurations and every answer of the helper (status, submitted count): the calls made with their arguments, and
   either the function's return or the locals for the next iteration = [iter_expect].  In particular
     * the loop stops when everything was submitted or the attempts are used up; a cancelled context ends the call
       with nil before anything is sent;
     * every attempt sends exactly what is still to submit (remaining and its marshalled form stay aligned);
     * only a SUCCESS answer marks anything: postSubmit gets exactly the first SubmittedCount remaining items, these
       and only these leave `remaining`; the backoff is reset;
     * any other answer marks nothing and drops nothing: not-included / already-in-mempool wait BlockTime * MempoolTTL
       (and raise the gas price), a cancellation returns nil, everything else — too big included — backs off
       exponentially; the attempt counter grows by one on every path that goes round again.
   Proofs/GoLiteSubmitLoopRefine.v ties [iter_expect] to Submitter.submit.   Used by C06, C07, C08. *)
From Coq Require Import String List NArith ZArith Bool Lia.
From Verif Require Import Model.Types Model.Admission Model.GoLite Check.GoLiteTactics gen.GoLiteFuns.
From Verif Require Model.Proxy.
Import ListNotations.
Open Scope string_scope.
Open Scope list_scope.

Record lworld := {
  (* the loop's locals *)
  l_all : bool; l_attempt : Z; l_backoff : Z; l_gas0 : Z; l_gas : Z;
  l_lo : N; l_hi : N;                      (* remaining = items[lo:hi], marshaled likewise *)
  l_nsub : N; l_remlen : N;
  (* configuration: DA.BlockTime, DA.MempoolTTL, gas multiplier, initialBackoff *)
  l_bt : Z; l_ttl : Z; l_mult : Z; l_ib : Z;
  (* this iteration: context cancelled; the helper's answer *)
  l_cancel : bool; l_status : Proxy.status; l_cnt : N; l_dah : N }.

Definition ctx : gval := VUnit.
Definition res_v (w : lworld) : gval :=
  VRec [("Code", VStatus (l_status w)); ("SubmittedCount", VN (l_cnt w)); ("Height", VN (l_dah w))].
Definition mgr_v (w : lworld) : gval :=
  VObj "Manager" [("da", VTok "da" []); ("logger", VUnit); ("gasMultiplier", VZ (l_mult w));
                  ("config", VRec [("DA", VRec [("BlockTime", VRec [("Duration", VZ (l_bt w))]); ("MempoolTTL", VZ (l_ttl w))])])].
Definition loop_globals (w : lworld) : env :=
  [("maxSubmitAttempts", VZ 30); ("time.Second", VZ 1000); ("initialBackoff", VZ (l_ib w)); ("$cancelled", VBool (l_cancel w));
   ("$break", VTok "break" []); ("$continue", VTok "continue" []);
   ("coreda.StatusSuccess", VStatus Proxy.StSuccess); ("coreda.StatusNotIncludedInBlock", VStatus Proxy.StNotIncluded);
   ("coreda.StatusAlreadyInMempool", VStatus Proxy.StMempool); ("coreda.StatusTooBig", VStatus Proxy.StTooBig);
   ("coreda.StatusContextCanceled", VStatus Proxy.StCanceled);
   ("$pkg", VOrc "pkg" [("time.After", [VUnit]); ("SubmitWithHelpers", [res_v w]); ("postSubmit", [VUnit])])].
(* the helper is a collaborator here (its own lemma is GoLiteDA.go_SubmitWithHelpers) *)
Definition loop_funs : list (string * gfun) := filter (fun p => (fst p =? "submitToDA$iter") || (fst p =? "Manager.exponentialBackoff")) gen_funs.

Definition locals_v (all : bool) (backoff attempt gas0 gas : Z) (lo hi nsub remlen : N) : list gval :=
  [VBool all; VZ backoff; VZ attempt; VZ gas0; VZ gas; VSeg "items" lo hi; VN nsub; VSeg "blobs" lo hi; VN remlen].
Definition args_v (w : lworld) : list gval :=
  [mgr_v w; ctx; VSeg "items" 0 (l_hi w); VUnit; VUnit; VStr "header"] ++
  locals_v (l_all w) (l_backoff w) (l_attempt w) (l_gas0 w) (l_gas w) (l_lo w) (l_hi w) (l_nsub w) (l_remlen w).

Definition is_receiver (e : gval) : bool := match e with VEff x _ => x =? "receiver" | _ => false end.
Definition run_iter (w : lworld) : option (list gval * list gval) :=
  match lookup loop_funs "submitToDA$iter" with
  | Some fn => interp (bind (exec 400 loop_funs (loop_globals w) (start_env fn None (args_v w)) [] (f_body fn))
                            (fun r => RRet (fst r, filter (fun e => negb (is_receiver e)) (rev (snd r)))))
  | None => None
  end.

(* ---- expected ------------------------------------------------------------------------------------------------ *)
Definition expb (bt ib b : Z) : Z :=              (* Manager.exponentialBackoff, on Z (GoLiteSubmit.go_exponentialBackoff) *)
  let b2 := (b * 2)%Z in
  let b3 := if (b2 =? 0)%Z then ib else b2 in
  if (bt <? b3)%Z then bt else b3.
Definition adjust (w : lworld) : bool := (0 <? l_mult w)%Z && negb (l_gas w =? -1)%Z.

Definition iter_expect (w : lworld) : list gval * list gval :=
  let lo := l_lo w in let hi := l_hi w in
  if l_all w || negb (l_attempt w <? 30)%Z
  then (VTok "break" [] :: locals_v (l_all w) (l_backoff w) (l_attempt w) (l_gas0 w) (l_gas w) lo hi (l_nsub w) (l_remlen w), [])
  else if l_cancel w then ([VNil], [])
  else
    let n := seg_len lo hi in
    let sent := [VEff "pkg.time.After" [VZ (l_backoff w)];
                 VEff "pkg.SubmitWithHelpers" [VTok "ctx-with-timeout" [ctx; VZ (60 * 1000)%Z]; VTok "da" []; VUnit;
                                                VSeg "blobs" lo hi; VZ (l_gas w); VNil]] in
    let again (all : bool) (backoff gas : Z) (lo' : N) (nsub : N) (cs : list gval) :=
      (VTok "continue" [] :: locals_v all backoff (l_attempt w + 1)%Z (l_gas0 w) gas lo' hi nsub n, cs) in
    match l_status w with
    | Proxy.StSuccess =>
        let cnt := l_cnt w in
        again (cnt =? n)%N 0%Z
              (if adjust w then Z.max (l_gas w / l_mult w) (l_gas0 w) else l_gas w)
              (lo + cnt)%N (l_nsub w + cnt)%N
              (sent ++ [VEff "pkg.postSubmit" [VSeg "items" lo (lo + cnt); res_v w; VZ (l_gas w)]])
    | Proxy.StNotIncluded | Proxy.StMempool =>
        again false (l_bt w * l_ttl w)%Z (if adjust w then (l_gas w * l_mult w)%Z else l_gas w) lo (l_nsub w) sent
    | Proxy.StCanceled => ([VNil], sent)
    | _ => again false (expb (l_bt w) (l_ib w) (l_backoff w)) (l_gas w) lo (l_nsub w) sent
    end.

Ltac plazy := lazy -[N.eqb N.leb N.ltb N.add N.sub Z.ltb Z.leb Z.eqb Z.add Z.sub Z.mul Z.div Z.max seg_len].
Ltac decide_or_case c :=
  let v := eval vm_compute in c in
  match v with
  | true => change c with true
  | false => change c with false
  | _ => destruct c eqn:?
  end.
Ltac split_on c :=
  match c with
  | context [(?a =? ?b)%N] => decide_or_case (a =? b)%N
  | context [(?a <=? ?b)%N] => decide_or_case (a <=? b)%N
  | context [(?a <? ?b)%N] => decide_or_case (a <? b)%N
  | context [(?a =? ?b)%Z] => decide_or_case (a =? b)%Z
  | context [(?a <=? ?b)%Z] => decide_or_case (a <=? b)%Z
  | context [(?a <? ?b)%Z] => decide_or_case (a <? b)%Z
  | context [?b] => is_var b; match type of b with bool => destruct b end
  end.
Ltac hstep := match goal with
              | |- (if ?c then _ else _) = _ => split_on c
              | |- _ = Some (if ?c then _ else _) => split_on c
              | |- _ = Some (_ :: _ (if ?c then _ else _) _ _ _ _ _ _ _ _, _) => split_on c
              | |- context [VBool (?a =? ?b)%N] => fail
              end; cbv beta iota.

Lemma go_submitToDA_iter : forall w, run_iter w = Some (iter_expect w).
Proof.
  intros [all attempt backoff gas0 gas lo hi nsub remlen bt ttl mult ib cancel st cnt dah].
  unfold iter_expect, adjust, expb, locals_v;
    cbn [l_all l_attempt l_backoff l_gas0 l_gas l_lo l_hi l_nsub l_remlen l_bt l_ttl l_mult l_ib l_cancel l_status l_cnt l_dah].
  destruct st.
  all: plazy.
  all: repeat hstep; try reflexivity.
Qed.
Print Assumptions go_submitToDA_iter.
