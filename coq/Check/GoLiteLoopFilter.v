(* Check/GoLiteLoopFilter.v (one of Check/GoLiteLoop*.v) — loops of the Go code, translated SHALLOWLY into Gallina Fixpoints by
   harness/translators/golite (loops.go) on every run (coq/gen/GoLoops.v), and proved — by induction, for ALL lists —
   to compute what the hand-written models compute.  (The deep embedding Model/GoLite.v evaluates straight-line
   decision code symbolically; a loop over an unbounded list needs an induction, which is done here.)
     loop_client_filter   da/jsonrpc/client.go SubmitWithOptions, the size filter     = Proxy.filter_loop          (C16)
     loop_num_waiting     block/pending_data.go numWaitingData                          = Throttle.waiting_loop      (C08)
     loop_retrieve_chunks types/da.go RetrieveWithHelpers, the chunked Get loop         = consecutive index ranges of
                                                                                          Admission.batch_size ids   (C03, C09, C16)
   Integers are N (sizes and indices far below 2^63). *)
From Coq Require Import List NArith Bool Lia.
From Verif Require Import gen.GoLoops.
From Verif Require Model.Proxy Model.Throttle Model.Admission.
From Coq Require String.
Import ListNotations.
Open Scope N_scope.
Open Scope list_scope.

(* ---- the client's size filter ------------------------------------------------------------------------------- *)
(* blobs are their sizes, as in Model/Proxy.v *)
Definition client_filter (max : N) := loop_client_filter N (fun x => x) max.

Lemma go_client_filter_gen : forall max xs ov cur out,
  let '(ov', cur', out') := client_filter max xs (ov, cur, out) in
  out' = out ++ fst (Proxy.filter_loop max cur xs) /\
  (0 <? ov') = (0 <? ov) || snd (Proxy.filter_loop max cur xs).
Proof.
  intros max xs. induction xs as [|b r IH]; intros ov cur out.
  - cbn. rewrite app_nil_r, orb_false_r. split; reflexivity.
  - unfold client_filter in *. cbn [L_client_filter.loop Proxy.filter_loop].
    destruct (max <? b) eqn:E1.
    + specialize (IH (ov + 1) cur out). destruct (L_client_filter.loop N (fun x => x) max r (ov + 1, cur, out)) as [[ov' cur'] out'].
      destruct IH as [IH1 IH2]. cbn [fst snd]. split; [exact IH1|].
      rewrite IH2. replace (0 <? ov + 1) with true by (symmetry; apply N.ltb_lt; lia).
      rewrite orb_true_r. reflexivity.
    + destruct (max <? cur + b) eqn:E2.
      * cbn [fst snd]. rewrite app_nil_r, orb_false_r. split; reflexivity.
      * specialize (IH ov (cur + b) (out ++ [b])).
        destruct (L_client_filter.loop N (fun x => x) max r (ov, cur + b, out ++ [b])) as [[ov' cur'] out'].
        destruct IH as [IH1 IH2]. cbn [fst snd]. split; [|exact IH2].
        rewrite IH1, <- app_assoc. reflexivity.
Qed.

(* from the loop's initial state: what is submitted is exactly the model's prefix, and "some blob was oversize"
   is the model's flag *)
Lemma go_client_filter : forall max xs,
  let '(ov, _, out) := client_filter max xs (0, 0, []) in
  out = fst (Proxy.filter_loop max 0 xs) /\ (0 <? ov) = snd (Proxy.filter_loop max 0 xs).
Proof.
  intros. pose proof (go_client_filter_gen max xs 0 0 []) as H.
  destruct (client_filter max xs (0, 0, [])) as [[ov cur] out]. exact H.
Qed.


(* the loop reads exactly these inputs, by name (the lemmas instantiate them by position) *)
Section InputNames.
Import String.
Open Scope string_scope.
Lemma go_client_filter_inputs : LoopInputs.loop_client_filter_inputs = (["maxBlobSize"]).
Proof. reflexivity. Qed.
End InputNames.

Print Assumptions go_client_filter.
