(* Check/ProducerCheck.v — correspondence check for Model/Producer.v (C01, C04).
   The harness (harness/producer, harness/c01, harness/c04) drives the real block.Manager with a history
   and writes, per case: the history, what the code did per item (result class, ExecuteTxs call, cursor
   passed to the sequencer, shapes of the atomic datastore writes, store height and recorded state
   afterwards, and the projection of the block records the node's store SERVES afterwards at the store height
   and at the pending height above it; for a shutdown: the operations the real SaveCache performed on the cache
   files, as the kernel reported them, up to the point where the process was cut) and the projection of the block
   record served at every height at the end.
   [mismatches] lists the cases on which the model disagrees. Only projected observables are compared. *)
From Coq Require Import String NArith ZArith List Bool.
From Verif Require Import Base.KV Base.Keys Model.Types Model.Producer.
Import ListNotations.
Open Scope N_scope.

Inductive shape := HCursor (c : N) | HBlock (n : N) | HHeight (n : N) | HState | HOther.

(* an operation on a file of the cache directory as the harness recorded it (inotify): create / open-for-writing
   = FCreate, close-after-write = FWrite, move = FRename, on the final or temporary name of cache file 0..7;
   anything else (another name, a removal) = XOther *)
Inductive fshape := XOp (o : fop) | XOther.

Record pblock := mk_pb {
  pb_height : N; pb_time : Z; pb_txs : list N;
  pb_link : N;      (* 0 empty LastHeaderHash, 1 = hash of the header stored one below, 2 other *)
  pb_dh : N;        (* DataHash = commitment of the stored transactions *)
  pb_app : N;
  pb_chain : N; pb_prop : N;
  pb_hsig : N;      (* header signature: 0 empty, 1 verifies under the header's signer key, 2 other *)
  pb_signer : N;    (* signer = genesis proposer (key and address) *)
  pb_ssig : N;      (* signature record: 0 empty, 1 equal to the header signature, 2 other *)
  pb_meta : N;      (* data metadata: 0 none, 1 matches the header, 2 differs *)
  pb_vbasic : N     (* SignedHeader.ValidateBasic *)
}.

Record obs := mk_obs {
  ob_res : N;                                  (* result class, see [res_code] *)
  ob_n : N;                                    (* committed height (0 otherwise) *)
  ob_call : option (N * list N * Z * N);       (* ExecuteTxs(height, txs, time, previous root) *)
  ob_req : option N;                           (* cursor passed to GetNextBatch *)
  ob_shapes : list shape;                      (* atomic writes that reached the datastore, in order *)
  ob_height : N;                               (* store height afterwards *)
  ob_state : option (N * Z * N);               (* recorded state afterwards: height, time, app root *)
  ob_tip : list (option pblock);               (* afterwards: the block records SERVED by the store the node runs on (a freshly opened
                                                  one when no process runs) at the store height and one above it (the pending block) *)
  ob_fops : list fshape                        (* shutdown: the completed operations on cache files, in order *)
}.

Record pcase := mk_case {
  pc_initial : N; pc_gtime : Z;
  pc_hist : list item;
  pc_obs : list obs;
  pc_blocks : list (option pblock)             (* heights initial .. max(height, initial-1)+1 *)
}.

Definition case_cfg (k : pcase) : cfg :=
  {| c_chain := 1; c_initial := pc_initial k; c_gtime := pc_gtime k; c_key := 1; c_gaddr := Addr 1 |}.

(* ---- projections of the model ---------------------------------------------------------------- *)
Definition b2n (b : bool) : N := if b then 1 else 0.

Definition res_code (o : outcome) : N * N :=
  match o with
  | OCommitted n => (1, n) | OSkipped => (2, 0) | OErrLoad => (3, 0) | OErrTime => (4, 0) | OErrProposer => (5, 0)
  | OErrExec => (6, 0) | OErrValidate => (7, 0) | ONotRunning => (8, 0) | OBootOk => (9, 0) | OBootFailInit => (10, 0)
  | OBootFailGenesis => (11, 0) | OBootFailCache => (12, 0) | OCrashed => (13, 0) | OStopped => (14, 0) | OTampered => (15, 0)
  end.

Definition prim_shape (p : prim pval) : shape :=
  match p with
  | Put _ (VCursor c) => HCursor c
  | Put _ (VBlock b) => HBlock (h_height (hdr_of b))
  | Put _ (VHeight n) => HHeight n
  | Put _ (VState _) => HState
  | Del _ => HOther
  end.
Definition write_shape (w : wr) : shape :=
  match w with W1 p => prim_shape p | WBatch [p] => prim_shape p | WBatch _ => HOther end.

Definition sig_eqb (a b : sigterm) : bool :=
  match a, b with
  | Sig k h, Sig k' h' => (k =? k') && header_eqb h h'
  | SigEmpty, SigEmpty => true
  | SigJunk x, SigJunk y => x =? y
  | _, _ => false
  end.

Definition proj_block (c : cfg) (m : img) (n : N) : option pblock :=
  match g_block m n with
  | None => None
  | Some b =>
      let h := hdr_of b in
      let sh := b_sh b in
      Some (mk_pb (h_height h) (h_time h) (d_txs (b_data b))
        (match h_last h with
         | None => 0
         | Some p => match g_block m (n - 1) with
                     | Some q => if header_eqb (hdr_of q) p then 1 else 2
                     | None => 2
                     end
         end)
        (b2n (commitment_eqb (d_txs (b_data b)) (h_data h)))
        (h_app h)
        (b2n (h_chain h =? c_chain c))
        (b2n (addr_eqb (h_proposer h) (c_gaddr c)))
        (match sh_sig sh with
         | SigEmpty => 0
         | s => match sg_pub (sh_signer sh) with
                | Some p => if verify_header p h s then 1 else 2
                | None => 2
                end
         end)
        (match sg_pub (sh_signer sh) with
         | Some p => b2n (pubkey_eqb p (Pub (c_key c)) && addr_eqb (sg_addr (sh_signer sh)) (c_gaddr c)
                          && addr_eqb (key_address p) (c_gaddr c))
         | None => 0
         end)
        (match b_sig b with
         | SigEmpty => 0
         | s => if sig_eqb s (sh_sig sh) then 1 else 2
         end)
        (match d_meta (b_data b) with
         | None => 0
         | Some mt => if (m_chain mt =? h_chain h) && (m_height mt =? h_height h) && (m_time mt =? h_time h)%Z then 1 else 2
         end)
        (b2n (validate_basic sh)))
  end.

Definition proj_obs (c : cfg) (st : mach) (o : iout) : obs :=
  let '(code, n) := res_code (o_res o) in
  let m := img_of st in
  mk_obs code n (o_call o) (o_req o) (map write_shape (o_ws o)) (g_height m)
         (match g_state m with Some s => Some (s_height s, s_time s, s_app s) | None => None end)
         [proj_block c m (g_height m); proj_block c m (g_height m + 1)]
         (map XOp (o_fops o)).

Fixpoint run_obs (c : cfg) (st : mach) (h : list item) : mach * list obs :=
  match h with
  | [] => (st, [])
  | i :: r => let '(st', o) := exec_item c st i in
              let '(st'', os) := run_obs c st' r in (st'', proj_obs c st' o :: os)
  end.

(* heights lo, lo+1, ..., lo+len-1 *)
Fixpoint proj_blocks (c : cfg) (m : img) (lo : N) (len : nat) : list (option pblock) :=
  match len with
  | O => []
  | S k => proj_block c m lo :: proj_blocks c m (lo + 1) k
  end.

Definition model_case (k : pcase) : list obs * list (option pblock) :=
  let c := case_cfg k in
  let '(st, os) := run_obs c fresh (pc_hist k) in
  let top := N.max (g_height (img_of st)) (c_initial c - 1) in
  (os, proj_blocks c (img_of st) (c_initial c) (N.to_nat (top + 2 - c_initial c))).

(* ---- comparators ------------------------------------------------------------------------------- *)
Fixpoint list_eqb {A} (e : A -> A -> bool) (a b : list A) : bool :=
  match a, b with
  | [], [] => true
  | x :: a', y :: b' => e x y && list_eqb e a' b'
  | _, _ => false
  end.
Definition opt_eqb {A} (e : A -> A -> bool) (a b : option A) : bool :=
  match a, b with Some x, Some y => e x y | None, None => true | _, _ => false end.

Definition shape_eqb (a b : shape) : bool :=
  match a, b with
  | HCursor x, HCursor y | HBlock x, HBlock y | HHeight x, HHeight y => x =? y
  | HState, HState => true
  | _, _ => false       (* HOther never matches: an unexpected write is a mismatch *)
  end.
Definition fop_eqb (a b : fop) : bool :=
  match a, b with
  | FCreate x, FCreate y | FWrite x, FWrite y => fname_eqb x y
  | FRename x x', FRename y y' => fname_eqb x y && fname_eqb x' y'
  | _, _ => false
  end.
Definition fshape_eqb (a b : fshape) : bool :=
  match a, b with XOp x, XOp y => fop_eqb x y | _, _ => false end.   (* XOther never matches *)
Definition call_eqb (a b : N * list N * Z * N) : bool :=
  let '(h, t, z, p) := a in let '(h', t', z', p') := b in
  (h =? h') && list_eqb N.eqb t t' && (z =? z')%Z && (p =? p').
Definition state_eqb (a b : N * Z * N) : bool :=
  let '(h, z, p) := a in let '(h', z', p') := b in (h =? h') && (z =? z')%Z && (p =? p').

Definition pblock_eqb (a b : pblock) : bool :=
  (pb_height a =? pb_height b) && (pb_time a =? pb_time b)%Z && list_eqb N.eqb (pb_txs a) (pb_txs b) &&
  (pb_link a =? pb_link b) && (pb_dh a =? pb_dh b) && (pb_app a =? pb_app b) && (pb_chain a =? pb_chain b) &&
  (pb_prop a =? pb_prop b) && (pb_hsig a =? pb_hsig b) && (pb_signer a =? pb_signer b) && (pb_ssig a =? pb_ssig b) &&
  (pb_meta a =? pb_meta b) && (pb_vbasic a =? pb_vbasic b).

Definition obs_eqb (a b : obs) : bool :=
  (ob_res a =? ob_res b) && (ob_n a =? ob_n b) && opt_eqb call_eqb (ob_call a) (ob_call b) &&
  opt_eqb N.eqb (ob_req a) (ob_req b) && list_eqb shape_eqb (ob_shapes a) (ob_shapes b) &&
  (ob_height a =? ob_height b) && opt_eqb state_eqb (ob_state a) (ob_state b) &&
  list_eqb (opt_eqb pblock_eqb) (ob_tip a) (ob_tip b) && list_eqb fshape_eqb (ob_fops a) (ob_fops b).

(* 1 = per-item observations differ, 2 = final blocks differ *)
Definition check_case (k : pcase) : list N :=
  let '(os, bs) := model_case k in
  (if list_eqb obs_eqb os (pc_obs k) then [] else [1]) ++
  (if list_eqb (opt_eqb pblock_eqb) bs (pc_blocks k) then [] else [2]).

Fixpoint mismatches_from (i : N) (cs : list pcase) : list (N * list N) :=
  match cs with
  | [] => []
  | c :: r => match check_case c with
              | [] => mismatches_from (i + 1) r
              | l => (i, l) :: mismatches_from (i + 1) r
              end
  end.
Definition mismatches := mismatches_from 0.

(* which cases lie inside the domain of which theorem (reported as coverage, not compared) *)
Definition in_c01_domain (k : pcase) : bool := wf_cfgb (case_cfg k) && crash_free (pc_hist k).
Definition in_c04_domain (k : pcase) : bool := wf_cfgb (case_cfg k) && untampered (pc_hist k).
Definition count (p : pcase -> bool) (cs : list pcase) : N := N.of_nat (List.length (filter p cs)).
