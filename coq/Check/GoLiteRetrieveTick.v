(* Check/GoLiteRetrieveTick.v — the body of Manager.RetrieveLoop (block/retriever.go), the loop that scans the DA layer,
   translated from the Go source on every run: ONE ITERATION of the endless loop, evaluated with
   processNextDAHeaderAndData, the DA-height register and the wake-up channels as scripted collaborators whose calls are
   logged.

   [go_RetrieveLoop]: for ALL worlds (the DA height, a failing or successful examination of that height, a context
   cancelled before or during it) an iteration waits for a wake-up and then examines exactly the current DA height, once;
     * after a FAILED examination (and a live context) the height is NOT advanced and the loop waits for the next
       wake-up: the same height is examined again — no height is ever skipped;
     * after a successful one the continuation token is offered without blocking and the height advances by exactly one;
     * a context cancelled before the wake-up ends the loop with nothing called.
   Used by C09. *)
From Coq Require Import String List NArith ZArith Bool Lia.
From Verif Require Import Model.Types Model.Admission Model.GoLite Check.GoLiteTactics gen.GoLiteFuns.
Import ListNotations.
Open Scope string_scope.
Open Scope list_scope.

Record rworld := { r_cancel0 : bool;      (* cancelled before the wake-up *)
                   r_cancel1 : bool;      (* cancelled by the time the examination returns *)
                   r_h : N; r_ok : bool; r_future : bool }.
Definition er (ok : bool) : gval := VErr (negb ok).
Definition ctx_v (w : rworld) : gval := VTok "ctx" [VBool (r_cancel1 w)].
Definition retr_mgr (w : rworld) : gval :=
  VObj "Manager" [("logger", VUnit); ("retrieveCh", VTok "retrieveCh" []); ("daHeight", VAtom "daHeight" (r_h w));
                  ("$orc", VOrc "m" [("processNextDAHeaderAndData", [er (r_ok w)]); ("areAllErrorsHeightFromFuture", [VBool (r_future w)])])].
Definition retr_globals (w : rworld) : env :=
  [("$cancelled", VBool (r_cancel0 w)); ("$continue", VTok "continue" []);
   ("$pkg", VOrc "pkg" [("$wait_any", [VUnit]); ("$try_send", [VUnit])])].

Definition is_receiver (e : gval) : bool := match e with VEff x _ => x =? "receiver" | _ => false end.
(* the translated functions that run inside this lemma file; every other call is a scripted collaborator *)
Definition retr_funs : list (string * gfun) :=
  filter (fun p => (fst p =? "Manager.RetrieveLoop")) gen_funs.
Definition run_retrieve (w : rworld) : option (list gval * list gval) :=
  match lookup retr_funs "Manager.RetrieveLoop" with
  | Some fn => interp (bind (exec 400 retr_funs (retr_globals w) (start_env fn (Some (retr_mgr w)) [ctx_v w]) [] (f_body fn))
                            (fun r => RRet (fst r, filter (fun e => negb (is_receiver e)) (rev (snd r)))))
  | None => None
  end.

Definition token_ch : gval := VZero "make chan struct{}".
Definition retrieve_expect (w : rworld) : list gval * list gval :=
  if r_cancel0 w then ([], []) else
  let c1 := [VEff "pkg.$wait_any" [VTok "retrieveCh" []; token_ch]; VEff "m.processNextDAHeaderAndData" [ctx_v w]] in
  if negb (r_ok w) && negb (r_cancel1 w) then ([VTok "continue" []], c1)
  else ([VTok "continue" []], c1 ++ [VEff "pkg.$try_send" [token_ch]; VEff "daHeight.store" [VN (r_h w + 1)]]).

Ltac plazy := lazy -[N.eqb N.leb N.ltb N.add N.sub].
Ltac split_on c := match c with context [?b] => is_var b; match type of b with bool => destruct b end end.
Ltac hstep := match goal with
              | |- (if ?c then _ else _) = _ => split_on c
              | |- _ = Some (if ?c then _ else _) => split_on c
              end; cbv beta iota.

Lemma go_RetrieveLoop : forall w, run_retrieve w = Some (retrieve_expect w).
Proof. intros [c0 c1 h ok fut]. plazy. repeat hstep; reflexivity. Qed.

(* a failed examination never moves the DA height *)
Lemma failed_examination_keeps_height : forall w,
  r_cancel0 w = false -> r_ok w = false -> r_cancel1 w = false ->
  filter (fun e => match e with VEff n _ => n =? "daHeight.store" | _ => false end) (snd (retrieve_expect w)) = [].
Proof. intros w H0 Hk H1. unfold retrieve_expect. rewrite H0, Hk, H1. reflexivity. Qed.

(* a successful one moves it by exactly one *)
Lemma successful_examination_advances_by_one : forall w,
  r_cancel0 w = false -> r_ok w = true ->
  filter (fun e => match e with VEff n _ => n =? "daHeight.store" | _ => false end) (snd (retrieve_expect w))
  = [VEff "daHeight.store" [VN (r_h w + 1)]].
Proof. intros w H0 Hk. unfold retrieve_expect. rewrite H0, Hk. reflexivity. Qed.

Print Assumptions go_RetrieveLoop.
Print Assumptions failed_examination_keeps_height.
Print Assumptions successful_examination_advances_by_one.
