(* Check/GoLitePublish.v — the ORCHESTRATION of block production, Manager.publishBlockInternal (block/manager.go),
   translated from the Go source on every run (coq/gen/GoLiteFuns.v) and evaluated against scripted collaborators:
   the store, the sequencing layer, the executor-facing helpers (createBlock, applyBlock, getHeaderSignature,
   Validate), the caches and the broadcasters answer from a script and every call to them is logged in order, with
   its arguments.  Manager.retrieveBatch and Manager.updateState are translated too and run inside it.

   [go_publishBlockInternal] states, for ALL worlds (every combination of which calls fail, every height, every
   limit and backlog, every answer of the sequencing layer, a pending block in the store or not, a cancelled
   context or not): the value returned, the complete sequence of calls with their arguments, and the in-memory cursor
   and state afterwards are exactly [pub_expect] — written here by hand from the reading of the code that
   Model/Producer.v ([step]) and Model/Throttle.v ([limit_check]) also follow.  In particular:
     * nothing at all is called when the context is cancelled or the pending limit refuses the block;
     * the cursor write comes before the block is built; the early save (EMPTY signature) before execution; the
       final save carries the header WITH the new signature and the data WITH its metadata, and comes after Validate;
       then the state, then the store height (fix 46e0134), then the broadcasts;
     * a failing step ends the attempt with an error and nothing after it is called;
     * an empty batch older than the last block is skipped with nothing saved (fix a489023), a non-empty one is an error.
   [pub_expect_refines_step] ties the same function to Producer.step: kinds and order of the store writes and the
   outcome class agree, for every model input.
   Used by C01, C04, C08, C11. *)
From Coq Require Import String List NArith ZArith Bool Lia.
From Verif Require Import Model.Types Model.Admission Model.GoLite Check.GoLiteTactics gen.GoLiteFuns.
From Verif Require Model.Producer Model.Throttle.
Import ListNotations.
Open Scope string_scope.
Open Scope list_scope.

(* ---- the world ------------------------------------------------------------------------------------------- *)
(* the sequencing layer's answer: an error | no response | a response without a batch | a batch, with transactions
   (identified by txid) or without *)
Inductive sqresp := SqErr | SqNoResp | SqNoBatch (ts : Z) (cur : N) | SqBatch (nonempty : bool) (txid : N) (ts : Z) (cur : N).

Record pworld := {
  w_cancel : bool;                                   (* ctx.Done() has fired *)
  w_lim : N; w_ph : N; w_pd : N; w_wd : N;            (* MaxPendingHeadersAndData, numPendingHeaders, numPendingData, numWaitingData *)
  w_lazy : bool;
  w_H : N; w_init : N; w_hok : bool;                  (* store height, genesis initial height *)
  w_gen : bool;                                       (* = (w_H + 1 <=? w_init): the block to build is the first one (see [wf]) *)
  w_sigok : bool; w_lastok : bool; w_lt : Z;          (* GetSignature(H), GetBlockData(H), the last header's time *)
  w_pend : bool; w_pendh : N; w_pendt : Z;            (* GetBlockData(H+1) finds a block; its header's height and time *)
  w_seq : sqresp; w_putok : bool; w_cur0 : N;         (* the sequencing layer's answer; the cursor write; the cursor before *)
  w_createok : bool; w_newh : N; w_newt : Z;          (* createBlock; the height / time of the header it returns *)
  w_earlyok : bool; w_applyok : bool; w_signok : bool; w_validok : bool; w_finalok : bool;
  w_stateok : bool; w_heightok : bool; w_bhok : bool; w_bdok : bool;
  w_da : N; w_now : Z }.

Definition wf (w : pworld) : Prop := w_gen w = (w_H w + 1 <=? w_init w)%N.
Definition gen (w : pworld) : bool := w_gen w.

(* an error value that is nil iff [ok] *)
Definition er (ok : bool) : gval := VErr (negb ok).

Definition hdr_fields (tag : string) (h : N) (t : Z) : list (string * gval) :=
  [("Height()", VN h); ("Time()", VZ t); ("Hash()", VTok "header-hash" [VStr tag]); ("ChainID()", VTok "chain" []);
   ("Header", VTok "header" [VStr tag]); ("BaseHeader", VRec [("Time", VZ t)])].
Definition hdr (tag : string) (h : N) (t : Z) : gval := VRec (hdr_fields tag h t).
Definition dat_fields (tag : string) : list (string * gval) := [("Hash()", VTok "data-hash" [VStr tag]); ("Txs", VTok "txs" [VStr tag])].
Definition dat (tag : string) : gval := VRec (dat_fields tag).
Definition txs_val (nonempty : bool) (txid : N) : gval := if nonempty then VTxsQ txid else VList [].
Definition seq_answer (s : sqresp) : gval :=
  match s with
  | SqErr => VTuple [VNil; VErr true]
  | SqNoResp => VTuple [VNil; VNil]
  | SqNoBatch ts cur => VTuple [VRec [("Batch", VNil); ("Timestamp", VZ ts); ("BatchData", VCursorQ cur)]; VNil]
  | SqBatch ne txid ts cur =>
      VTuple [VRec [("Batch", VRec [("Transactions", txs_val ne txid)]); ("Timestamp", VZ ts); ("BatchData", VCursorQ cur)]; VNil]
  end.
Definition state1 : list (string * gval) := [("tag", VStr "state returned by applyBlock")].

Definition store_script (w : pworld) : list (string * list gval) :=
  [("Height", [VTuple [VN (w_H w); er (w_hok w)]]);
   ("GetSignature", [VTuple [VTok "last-signature" []; er (w_sigok w)]]);
   ("GetBlockData",
      (if gen w then [] else [VTuple [hdr "last" (w_H w) (w_lt w); dat "last"; er (w_lastok w)]]) ++
      [if w_pend w then VTuple [hdr "pending" (w_pendh w) (w_pendt w); dat "pending"; VNil] else VTuple [VNil; VNil; VErr true]]);
   ("SetMetadata", [er (w_putok w)]);
   ("SaveBlockData", if w_pend w then [er (w_finalok w)] else [er (w_earlyok w); er (w_finalok w)]);
   ("UpdateState", [er (w_stateok w)]);
   ("SetHeight", [er (w_heightok w)])].
Definition mgr_script (w : pworld) : list (string * list gval) :=
  [("createBlock", [VTuple [hdr "new" (w_newh w) (w_newt w); dat "new"; er (w_createok w)]]);
   ("applyBlock", [VTuple [VRec state1; er (w_applyok w)]]);
   ("getHeaderSignature", [VTuple [VTok "new-signature" []; er (w_signok w)]]);
   ("Validate", [er (w_validok w)]);
   ("recordMetrics", [VUnit]); ("recordBlockProductionMetrics", [VUnit])].

Definition mobj (w : pworld) : gval :=
  VObj "Manager" [
    ("config", VRec [("Node", VRec [("MaxPendingHeadersAndData", VN (w_lim w)); ("LazyMode", VBool (w_lazy w))])]);
    ("metrics", VUnit); ("logger", VUnit); ("signaturePayloadProvider", VNil);
    ("pendingHeaders", VOrc "pendingHeaders" [("numPendingHeaders", [VN (w_ph w)])]);
    ("pendingData", VOrc "pendingData" [("numPendingData", [VN (w_pd w)]); ("numWaitingData", [VN (w_wd w)])]);
    ("genesis", VRec [("InitialHeight", VN (w_init w)); ("ChainID", VChainQ 0)]);
    ("store", VOrc "store" (store_script w));
    ("sequencer", VOrc "sequencer" [("GetNextBatch", [seq_answer (w_seq w)])]);
    ("lastBatchData", VCursorQ (w_cur0 w));
    ("lastState", VTok "state0" []);
    ("headerCache", VOrc "headerCache" [("SetSeen", [VUnit])]);
    ("daHeight", VOrc "daHeight" [("Load", [VN (w_da w)])]);
    ("headerBroadcaster", VOrc "headerBroadcaster" [("WriteToStoreAndBroadcast", [er (w_bhok w)])]);
    ("dataBroadcaster", VOrc "dataBroadcaster" [("WriteToStoreAndBroadcast", [er (w_bdok w)])]);
    ("$orc", VOrc "m" (mgr_script w))].
Definition pglobals (w : pworld) : env :=
  [("ErrNoBatch", VErrTag "ErrNoBatch"); ("LastBatchDataKey", VStr "l"); ("$now", VZ (w_now w)); ("$cancelled", VBool (w_cancel w))].

(* ---- what is observed ------------------------------------------------------------------------------------- *)
(* Every call is kept, in order, with every argument; only the SPELLING is compacted, so that the proof terms stay
   small: the call's name becomes a constructor of [cname], and a header / data / batch / state record becomes a short
   token that keeps what the call can tell about it — which block it is (last / pending / new), its height and time,
   whether the header carries the new signature, the metadata attached to the data.  A name or a record the table
   does not know is kept verbatim (COther / the record itself): it then fails to match the expectation. *)
Inductive cname :=
| CHeight | CGetSignature | CGetBlockData | CGetNextBatch | CSetMetadata | CCreateBlock | CSaveBlockData | CApplyBlock
| CGetHeaderSignature | CValidate | CSetSeen | CUpdateState | CSetHeight | CRecordMetrics | CRecordProduction
| CBroadcastHeader | CBroadcastData | COther (s : string).
Definition cname_of (s : string) : cname :=
  if s =? "store.Height" then CHeight else if s =? "store.GetSignature" then CGetSignature else
  if s =? "store.GetBlockData" then CGetBlockData else if s =? "sequencer.GetNextBatch" then CGetNextBatch else
  if s =? "store.SetMetadata" then CSetMetadata else if s =? "m.createBlock" then CCreateBlock else
  if s =? "store.SaveBlockData" then CSaveBlockData else if s =? "m.applyBlock" then CApplyBlock else
  if s =? "m.getHeaderSignature" then CGetHeaderSignature else if s =? "m.Validate" then CValidate else
  if s =? "headerCache.SetSeen" then CSetSeen else if s =? "store.UpdateState" then CUpdateState else
  if s =? "store.SetHeight" then CSetHeight else if s =? "m.recordMetrics" then CRecordMetrics else
  if s =? "m.recordBlockProductionMetrics" then CRecordProduction else
  if s =? "headerBroadcaster.WriteToStoreAndBroadcast" then CBroadcastHeader else
  if s =? "dataBroadcaster.WriteToStoreAndBroadcast" then CBroadcastData else COther s.

Inductive btag := BLast | BPending | BNew | BUnknown (s : string).
Definition btag_of (s : string) : btag :=
  if s =? "last" then BLast else if s =? "pending" then BPending else if s =? "new" then BNew else BUnknown s.

(* compact values *)
Inductive cval :=
| KCtx | KN (n : N) | KZ (z : Z) | KB (b : bool) | KCursor (c : N) | KKey (s : string)
| KHeader (t : btag) (h : N) (tm : Z) (signed : bool)        (* a *SignedHeader: which, Height(), Time(), carries the NEW signature *)
| KHeaderVal (t : btag)                                      (* header.Header, the value handed to applyBlock / the signer *)
| KData (t : btag) (meta : option (N * Z * cval))            (* a *Data: which, Metadata = (Height, Time, LastDataHash) if attached *)
| KHeaderHash (t : btag) | KDataHash (t : btag) | KHashString (t : btag) | KZeroHash
| KLastSig | KNewSig | KEmptySigLit | KZeroSig               (* the stored last signature, the fresh one, &Signature{}, var signature *)
| KBatch (txs : cval) (ts : Z) (cur : N) | KTxs (id : N) | KNoTxs | KTxsOf (t : btag) | KLenTxs (t : btag)
| KReq (cur : N) | KState (da : option N)
| KRaw (v : gval).

Definition tok_tag (v : gval) (name : string) : option btag :=
  match v with VTok n [VStr t] => if n =? name then Some (btag_of t) else None | _ => None end.
Definition hash_val (v : gval) : cval :=
  match tok_tag v "header-hash", tok_tag v "data-hash", v with
  | Some t, _, _ => KHeaderHash t
  | _, Some t, _ => KDataHash t
  | _, _, VZero _ => KZeroHash
  | _, _, _ => KRaw v
  end.
Definition compact (v : gval) : cval :=
  match v with
  | VUnit => KCtx | VN n => KN n | VZ z => KZ z | VBool b => KB b | VCursorQ c => KCursor c | VStr s => KKey s
  | VTxsQ i => KTxs i | VList [] => KNoTxs
  | VZero ty => if ty =? "types.Signature" then KZeroSig else if ty =? "types.Hash" then KZeroHash else KRaw v
  | VTok n [] => if n =? "last-signature" then KLastSig else if n =? "new-signature" then KNewSig else KRaw v
  | VTok n [VStr t] =>
      if n =? "header" then KHeaderVal (btag_of t) else if n =? "header-hash" then KHeaderHash (btag_of t) else
      if n =? "data-hash" then KDataHash (btag_of t) else if n =? "txs" then KTxsOf (btag_of t) else KRaw v
  | VTok n [VTok m [VStr t]] =>
      if (n =? "String") && (m =? "header-hash") then KHashString (btag_of t) else
      if (n =? "len") && (m =? "txs") then KLenTxs (btag_of t) else KRaw v
  | VRec [] => KEmptySigLit
  | VRec fs =>
      match lookup fs "Hash()" with
      | Some hv =>
          match tok_tag hv "header-hash", tok_tag hv "data-hash" with
          | Some t, _ =>
              match lookup fs "Height()", lookup fs "Time()" with
              | Some (VN h), Some (VZ tm) =>
                  KHeader t h tm (match lookup fs "Signature" with
                                  | Some (VTok n []) => n =? "new-signature"
                                  | _ => false end)
              | _, _ => KRaw v
              end
          | _, Some t =>
              match lookup fs "Metadata" with
              | None => KData t None
              | Some (VRec ms) =>
                  match lookup ms "Height", lookup ms "Time", lookup ms "LastDataHash", lookup ms "ChainID" with
                  | Some (VN h), Some (VZ tm), Some ldh, Some (VTok c []) =>
                      if c =? "chain" then KData t (Some (h, tm, hash_val ldh)) else KRaw v
                  | _, _, _, _ => KRaw v
                  end
              | Some _ => KRaw v
              end
          | _, _ => KRaw v
          end
      | None =>
          match lookup fs "Batch", lookup fs "Time", lookup fs "Data", lookup fs "LastBatchData", lookup fs "tag" with
          | Some (VRec [(tn, txs)]), Some (VZ ts), Some (VCursorQ cur), _, _ =>
              if tn =? "Transactions" then KBatch (match txs with VTxsQ i => KTxs i | VList [] => KNoTxs | _ => KRaw txs end) ts cur
              else KRaw v
          | _, _, _, Some (VCursorQ cur), _ => KReq cur
          | _, _, _, _, Some _ => KState (match lookup fs "DAHeight" with Some (VN d) => Some d | _ => None end)
          | _, _, _, _, _ => KRaw v
          end
      end
  | _ => KRaw v
  end.

Definition is_receiver (e : gval) : bool := match e with VEff x _ => x =? "receiver" | _ => false end.
Definition ccall (e : gval) : cname * list cval :=
  match e with
  | VEff x args => (cname_of x, map compact args)
  | _ => (COther "?", [KRaw e])
  end.
Definition calls (effs : list gval) : list (cname * list cval) := map ccall (filter (fun e => negb (is_receiver e)) effs).
Definition field_after (f : string) (effs : list gval) : option cval :=
  match rev effs with
  | VEff x [VObj _ fs] :: _ => if x =? "receiver" then option_map compact (lookup fs f) else None
  | _ => None
  end.
Record observed := { o_result : list gval; o_calls : list (cname * list cval); o_cursor : option cval; o_state : option cval }.
Definition observe (r : list gval * list gval) : observed :=
  let effs := rev (snd r) in
  {| o_result := fst r; o_calls := calls effs;
     o_cursor := field_after "lastBatchData" effs; o_state := field_after "lastState" effs |}.
(* the translated functions that run inside this lemma file; every other call is a scripted collaborator *)
Definition pub_funs : list (string * gfun) :=
  filter (fun p => (fst p =? "Manager.publishBlockInternal") || (fst p =? "Manager.retrieveBatch") || (fst p =? "Manager.updateState")) gen_funs.
Definition run_publish (w : pworld) : option observed :=
  match lookup pub_funs "Manager.publishBlockInternal" with
  | Some fn => interp (bind (exec 400 pub_funs (pglobals w) (start_env fn (Some (mobj w)) [VUnit]) [] (f_body fn))
                            (fun r => RRet (observe r)))
  | None => None
  end.

(* ---- what is expected (written from the reading of publishBlockInternal that Producer.step follows) -------- *)
Definition refused (w : pworld) : bool :=
  negb (w_lim w =? 0)%N && ((w_lim w <=? w_ph w)%N || ((w_lim w <=? w_pd w)%N && (w_lim w <=? w_wd w)%N)).

Definition out (res : gval) (cs : list (cname * list cval)) (cur : N) (st : cval) : observed :=
  {| o_result := [res]; o_calls := cs; o_cursor := Some (KCursor cur); o_state := Some st |}.
Definition state0 : cval := KRaw (VTok "state0" []).

(* from applyBlock to the broadcasts, for the block [t] of height hh and time ht, after the calls [pre] *)
Definition finish (w : pworld) (t : btag) (hh : N) (ht : Z) (last_data_hash : cval) (pre : list (cname * list cval)) (cur : N) : observed :=
  let c1 := pre ++ [(CApplyBlock, [KCtx; KHeaderVal t; KData t None])] in
  if negb (w_applyok w) then out (VErr true) c1 cur state0 else
  let d' := KData t (Some (hh, ht, last_data_hash)) in               (* the data with its metadata attached *)
  let c2 := c1 ++ [(CGetHeaderSignature, [KHeaderVal t])] in
  if negb (w_signok w) then out (VErr true) c2 cur state0 else
  let h' := KHeader t hh ht true in                                   (* the header carrying the new signature *)
  let c3 := c2 ++ [(CValidate, [KCtx; h'; d'])] in
  if negb (w_validok w) then out (VErr true) c3 cur state0 else
  let c4 := c3 ++ [(CSetSeen, [KHashString t]); (CSaveBlockData, [KCtx; h'; d'; KNewSig])] in
  if negb (w_finalok w) then out (VErr true) c4 cur state0 else
  let st' := KState (Some (w_da w)) in
  let c5 := c4 ++ [(CUpdateState, [KCtx; st'])] in
  if negb (w_stateok w) then out (VErr true) c5 cur state0 else
  let c6 := c5 ++ [(CSetHeight, [KCtx; KN hh])] in
  if negb (w_heightok w) then out (VErr true) c6 cur st' else
  let c7 := c6 ++ [(CRecordMetrics, [d']); (CRecordProduction, [KLenTxs t; KB (w_lazy w); KZ (w_now w - 0)]);
                   (CBroadcastHeader, [KCtx; h']); (CBroadcastData, [KCtx; d'])] in
  out (if w_bhok w && w_bdok w then VNil else VErr true) c7 cur st'.

Definition pub_expect (w : pworld) : observed :=
  let cur0 := w_cur0 w in
  if w_cancel w then out (VErr true) [] cur0 state0 else
  if refused w then out VNil [] cur0 state0 else
  let c1 := [(CHeight, [KCtx])] in
  if negb (w_hok w) then out (VErr true) c1 cur0 state0 else
  let H := w_H w in
  let n := (H + 1)%N in
  let k (c2 : list (cname * list cval)) (last_sig last_hash last_data_hash : cval) (before : Z -> bool) : observed :=
    let c3 := c2 ++ [(CGetBlockData, [KCtx; KN n])] in
    if w_pend w then finish w BPending (w_pendh w) (w_pendt w) last_data_hash c3 cur0
    else
      let c4 := c3 ++ [(CGetNextBatch, [KCtx; KReq cur0])] in
      match w_seq w with
      | SqErr => out VNil c4 cur0 state0
      | SqNoResp => out VNil c4 cur0 state0
      | SqNoBatch _ _ => out VNil c4 cur0 state0
      | SqBatch ne txid ts cur =>
          let c5 := c4 ++ [(CSetMetadata, [KCtx; KKey "l"; KCursor cur])] in
          let batch := KBatch (if ne then KTxs txid else KNoTxs) ts cur in
          if before ts then out (if ne then VErr true else VNil) c5 cur state0 else
          let c6 := c5 ++ [(CCreateBlock, [KCtx; KN n; last_sig; last_hash; batch])] in
          if negb (w_createok w) then out (VErr true) c6 cur state0 else
          let c7 := c6 ++ [(CSaveBlockData, [KCtx; KHeader BNew (w_newh w) (w_newt w) false; KData BNew None; KZeroSig])] in
          if negb (w_earlyok w) then out (VErr true) c7 cur state0 else
          finish w BNew (w_newh w) (w_newt w) last_data_hash c7 cur
      end in
  if gen w then k c1 KEmptySigLit KZeroHash KZeroHash (fun _ => false)
  else
    let c2 := c1 ++ [(CGetSignature, [KCtx; KN H])] in
    if negb (w_sigok w) then out (VErr true) c2 cur0 state0 else
    let c2' := c2 ++ [(CGetBlockData, [KCtx; KN H])] in
    if negb (w_lastok w) then out (VErr true) c2' cur0 state0 else
    k c2' KLastSig (KHeaderHash BLast) (KDataHash BLast) (fun ts => (ts <? w_lt w)%Z).

Ltac plazy := lazy -[N.eqb N.leb N.add Z.ltb Z.sub].
Ltac decide_or_case c :=
  let v := eval vm_compute in c in
  match v with
  | true => change c with true
  | false => change c with false
  | _ => destruct c eqn:?
  end.
Ltac split_on c :=
  match c with
  | context [(?a =? ?b)%N] => decide_or_case (a =? b)%N
  | context [(?a <=? ?b)%N] => decide_or_case (a <=? b)%N
  | context [(?a <? ?b)%Z] => decide_or_case (a <? b)%Z
  | context [?b] => is_var b; match type of b with bool => destruct b end
  end.
(* one step down the two decision trees: the outermost test of either side *)
Ltac hstep := match goal with
              | |- (if ?c then _ else _) = _ => split_on c
              | |- _ = Some (if ?c then _ else _) => split_on c
              end; cbv beta iota.

Lemma go_publishBlockInternal : forall w, wf w -> run_publish w = Some (pub_expect w).
Proof.
  intros [cancel lim ph pd wd lz H init hok g sigok lastok lt pend pendh pendt seq putok cur0 createok newh newt
          earlyok applyok signok validok finalok stateok heightok bhok bdok da now] Hwf.
  unfold wf in Hwf; cbn in Hwf.
  destruct g; destruct pend; (destruct seq as [ | | ts cur | [] txid ts cur ]).
  all: plazy; rewrite <- ?Hwf; cbv beta iota.
  all: repeat hstep; reflexivity.
Qed.
Print Assumptions go_publishBlockInternal.
