(* Check/ConcCheck.v — C13 part A: the observable part of the joint invariant of Model/Conc.v (gcheck)
   evaluated on the state of the REAL aggregator after it has halted (harness/c13: store height, state height,
   blocks with hash ids and predecessor ids, both watermarks volatile and persisted, DA-included height volatile
   and persisted, last finalized height, and what the DA double holds, as (height, block id)).
   Proofs/ConcProofs.gcheck_reachable: the model satisfies gcheck = [] in every reachable state in which the
   producer is between two steps; here the implementation's state is held against the same check.  With the
   watermark mutexes free (all loops have returned) gcheck demands persisted watermark = volatile watermark for
   both kinds (g_wm_eq): a stored copy that fell behind because two writers' store writes were reordered shows here. *)
From Coq Require Import NArith List Bool.
From Verif Require Import Model.Conc.
Import ListNotations.
Open Scope N_scope.

Record ccase := {
  cc_id : N;
  cc_blocks : list (N * block);        (* height, block *)
  cc_ht : N; cc_sth : N;
  cc_wh : N; cc_pwh : N; cc_wd : N; cc_pwd : N;
  cc_dah : list (N * N); cc_dad : list (N * N);
  cc_di : N; cc_pdi : N; cc_fin : N
}.

Definition blk_of (l : list (N * block)) : N -> option block :=
  fun h => match find (fun p => N.eqb (fst p) h) l with Some p => Some (snd p) | None => None end.

Definition shared_of (c : ccase) : shared :=
  {| blk := blk_of (cc_blocks c); ht := cc_ht c; sth := cc_sth c;
     wmv := fun k => match k with Hdr => cc_wh c | Dat => cc_wd c end;
     wmp := fun k => match k with Hdr => cc_pwh c | Dat => cc_pwd c end;
     mu := fun _ => 0;                   (* every loop has returned: nobody is inside setLastSubmittedHeight *)
     da := fun k => match k with Hdr => cc_dah c | Dat => cc_dad c end;
     mk := fun _ => [];
     di := cc_di c; pdi := cc_pdi c; fin := cc_fin c |}.

Definition mkb (id prev : N) (txs final : bool) : block := {| b_id := id; b_prev := prev; b_txs := txs; b_final := final |}.

Definition cmismatches (cs : list ccase) : list (N * list N) :=
  flat_map (fun c => match gcheck (shared_of c) with [] => [] | l => [(cc_id c, l)] end) cs.
