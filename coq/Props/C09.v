(* Props/C09.v — DA scanning never skips a height, retries on failure, survives any blob.
   Statements only; every proof is [exact <lemma of Proofs/RetrieverProofs.v>].
   Quantification: [c] = stored / configured start height and the ids sync has already seen;
   [da] = for every height from the start on, the blobs there (any mix of classes, any number) and the
   outcomes the DA gives to successive fetch attempts of that height (listing error with any text class,
   nil listing, error on any chunk, success), "from the future" after that and beyond the list;
   [h] = any sequence of wake-ups of RetrieveLoop and direct calls of processNextDAHeaderAndData.
   Heights are unbounded naturals (the uint64 wrap at 2^64-1 is not modelled). *)
From Coq Require Import NArith List Bool.
From Coq Require Import ZArith.
From Verif Require Import Model.Retriever Proofs.RetrieverProofs.
From Verif Require Model.RetrieverQueue Proofs.RetrieverQueueProofs.
From Verif Require Check.GoLiteRetrieveAttempt Proofs.GoLiteRetrieveRefine.
Import ListNotations.
Open Scope N_scope.

(* The iterations of any run form a chain: the first examines the start height max(stored, configured),
   each next one examines the height the previous one left the cursor at; every iteration (rec_ok) calls
   the DA only for the cursor's height, makes at most 10 attempts, retries after each transient error,
   and moves the cursor — by exactly one — iff it is a loop iteration whose deciding attempt was a
   successful fetch or a confirmed not-found; after a failure the cursor stays, so the next iteration
   examines the same height again.  The final cursor is where the last iteration left it. *)
Theorem C09_cursor_full : forall (c : cfg) (da : list hinfo) (h : list item),
  linked (boot c) (iterations c da h) /\
  Forall rec_ok (iterations c da h) /\
  s_cursor (final c da h) = last_next (boot c) (iterations c da h).
Proof. exact cursor_thm. Qed.
Print Assumptions C09_cursor_full.

(* No height is skipped and every genuine blob of a passed height is handed to sync: for every height n
   between the start and the final cursor there is a loop iteration that examined n, returned nil after a
   successful or not-found fetch of n, moved the cursor to n+1, and emitted exactly the genuine, not yet
   seen headers and data among ALL the blobs the DA holds at n, in DA order (none if not-found). *)
Theorem C09_no_skip_full : forall (c : cfg) (da : list hinfo) (h : list item) (n : N),
  boot c <= n < s_cursor (final c da h) ->
  exists r, In r (iterations c da h) /\ i_height r = n /\ i_next r = n + 1 /\
            i_loop r = true /\ i_result r = PNil /\
            (last (i_classes r) AError = ASuccess \/ last (i_classes r) AError = ANotFound) /\
            i_events r = (if succeeded (i_classes r) then genuine_events c n (content c da n) else []).
Proof. exact no_skip_thm. Qed.
Print Assumptions C09_no_skip_full.

(* the cursor never goes below the start and never decreases as the history is extended *)
Theorem C09_monotone_full : forall (c : cfg) (da : list hinfo) (h1 h2 : list item),
  boot c <= s_cursor (final c da h1) /\ s_cursor (final c da h1) <= s_cursor (final c da (h1 ++ h2)).
Proof. exact monotone_thm. Qed.
Print Assumptions C09_monotone_full.

(* Chunked fetching: for any blob list the chunk fetches concatenate to the whole list; chunk k covers ids
   100k .. and is non-empty; a fully successful fetch returns exactly the list after GetIDs and one Get per
   chunk; an error in chunk i fails the whole height after exactly i+1 Get calls. *)
Theorem C09_chunks_full : forall (h : N) (bl : list blob),
  concat (map snd (chunks bl)) = bl /\
  (forall k off c, nth_error (chunks bl) k = Some (off, c) ->
       off = (k * batch_size)%nat /\ c = firstn batch_size (skipn (k * batch_size) bl) /\ c <> []) /\
  (bl <> [] -> retrieve h bl OOk = (SSuccess bl, CGetIDs h :: map (get_call h) (chunks bl))) /\
  (forall i e, (i < length (chunks bl))%nat ->
       retrieve h bl (OChunkErr i e) =
       (SError (e_fut e), CGetIDs h :: map (get_call h) (firstn (S i) (chunks bl)))).
Proof. exact chunks_all. Qed.
Print Assumptions C09_chunks_full.

(* Every iteration, whatever the blobs: the blobs it was offered are the DA's content of its height, and
   its events are, on a successful fetch, exactly the genuine unseen headers/data in DA order, and none
   otherwise.  Junk of every kind, signed data without txs or without metadata, and already-seen items
   yield nothing. *)
Theorem C09_emits_full : forall (c : cfg) (da : list hinfo) (h : list item),
  Forall (fun r => emits_ok c r /\ i_blobs r = content c da (i_height r)) (iterations c da h).
Proof. exact emits_thm. Qed.
Print Assumptions C09_emits_full.

(* Any blob list survives: when the fetch succeeds, processNextDAHeaderAndData returns nil for EVERY list of
   blob classes (junk, empty, metadata-less, genuine mixed), hands over exactly the genuine unseen ones and
   leaves the rest of the script untouched.  (Before "fix: retriever: signed data without metadata no longer
   panics the DA scan" this was false: see known_findings.json, panic-signed-data-without-metadata.) *)
Theorem C09_survives_any_blob_full : forall (c : cfg) (h : N) (bl : list blob) (outs : list outcome),
  bl <> [] ->
  let p := attempts c h bl retries (OOk :: outs) in
  p_res p = PNil /\ p_events p = genuine_events c h bl /\ p_outs p = outs.
Proof. exact survives_thm. Qed.
Print Assumptions C09_survives_any_blob_full.

(* The scan never stalls: every wake-up and every direct call is served — it examines at least the
   cursor's height (a non-empty list of iterations, each of at most 10 attempts by C09_cursor_full) and
   returns to waiting.  (The blocking send on a full event channel is outside the model.) *)
Theorem C09_never_stalls_full : forall (c : cfg) (da : list hinfo) (h : list item),
  length (snd (run c da h)) = length h /\ Forall (fun recs => recs <> []) (snd (run c da h)).
Proof. exact served_thm. Qed.
Print Assumptions C09_never_stalls_full.

(* ==== the loop with its two wake-up channels (Model/Retriever.v: lturn, lrun) ==========================
   [ls] = the loop's state: cursor, unused DA, whether m.retrieveCh (DA-block ticks, capacity 1) and the
   loop's own blobsFoundCh (continuation token, capacity 1) hold a value; [ts] = what the environment decides
   turn by turn: which of two ready channels `select` takes, and whether a tick arrives while the turn runs.
   Quantified over ALL such sequences: every interleaving of ticks with iterations, every resolution of
   select's choice. *)

(* The re-arm of blobsFoundCh never blocks the loop: from a running loop no sequence of turns leads to a
   loop goroutine waiting for ever in its own send (the send is `select { case ch <- v: default: }`; a
   blocking send would, see ex_blocking_rearm_would_stall below). *)
Theorem C09_rearm_never_blocks_full : forall (c : cfg) (ts : list turn) (ls : lstate),
  l_stuck ls = false -> l_stuck (fst (lrun RNonBlocking c ls ts)) = false.
Proof. exact never_blocks_thm. Qed.
Print Assumptions C09_rearm_never_blocks_full.

(* A pending wake-up is always served — tick or token, whichever select takes, with or without a tick
   arriving meanwhile: the turn makes exactly one iteration, at the cursor's height; the loop keeps running;
   if the height was passed the cursor moved by one AND the token is in blobsFoundCh again, so the next select
   does not wait for a DA-block tick; otherwise the cursor stays. *)
Theorem C09_wakeup_served_full : forall (c : cfg) (ls : lstate) (t : turn),
  l_stuck ls = false -> l_tick ls || l_tok ls = true ->
  exists r, snd (lturn RNonBlocking c ls t) = [r] /\
            i_height r = s_cursor (l_scan ls) /\ i_loop r = true /\
            l_stuck (fst (lturn RNonBlocking c ls t)) = false /\
            s_cursor (l_scan (fst (lturn RNonBlocking c ls t))) = i_next r /\
            (i_result r = PNil -> l_tok (fst (lturn RNonBlocking c ls t)) = true /\ i_next r = i_height r + 1) /\
            (i_result r <> PNil -> i_next r = i_height r).
Proof. exact turn_served_thm. Qed.
Print Assumptions C09_wakeup_served_full.

(* Ticks and select's choices decide only HOW MANY wake-ups get served, never what an iteration does: the
   iterations of any run of the two-channel loop are an initial part of the iterations of k wake-ups of the
   merged model, for some k — so everything proved above about [iterations] holds of every interleaving. *)
Theorem C09_ticks_refine_full : forall (c : cfg) (da : list hinfo) (tick : bool) (ts : list turn),
  exists k, is_prefix (literations RNonBlocking c (linit c da tick) ts) (iterations c da (repeat ISignal k)).
Proof. exact ticks_refine_thm. Qed.
Print Assumptions C09_ticks_refine_full.

(* C09_cursor_full / C09_emits_full for every interleaving *)
Theorem C09_ticks_cursor_full : forall (c : cfg) (da : list hinfo) (tick : bool) (ts : list turn),
  let its := literations RNonBlocking c (linit c da tick) ts in
  linked (boot c) its /\ Forall rec_ok its /\
  Forall (fun r => emits_ok c r /\ i_blobs r = content c da (i_height r)) its /\
  s_cursor (l_scan (fst (lrun RNonBlocking c (linit c da tick) ts))) = last_next (boot c) its.
Proof. exact ticks_cursor_thm. Qed.
Print Assumptions C09_ticks_cursor_full.

(* C09_no_skip_full for every interleaving *)
Theorem C09_ticks_no_skip_full : forall (c : cfg) (da : list hinfo) (tick : bool) (ts : list turn) (n : N),
  boot c <= n < s_cursor (l_scan (fst (lrun RNonBlocking c (linit c da tick) ts))) ->
  exists r, In r (literations RNonBlocking c (linit c da tick) ts) /\ i_height r = n /\ i_next r = n + 1 /\
            i_loop r = true /\ i_result r = PNil /\
            (last (i_classes r) AError = ASuccess \/ last (i_classes r) AError = ANotFound) /\
            i_events r = (if succeeded (i_classes r) then genuine_events c n (content c da n) else []).
Proof. exact ticks_no_skip_thm. Qed.
Print Assumptions C09_ticks_no_skip_full.

(* Catch-up is not stalled by ticks: with a wake-up pending and [pre] heights ahead that the DA serves at
   the first iteration, after as many turns — any ticks during them, any choices of select — the cursor
   stands at their end, each turn made one iteration, the loop is running and (if it moved at all) the
   token is armed for the height after them. *)
Theorem C09_catch_up_full : forall (c : cfg) (pre rest : list hinfo) (cur : N) (tick tok : bool) (ts : list turn),
  tick || tok = true -> all_pass c cur pre -> length ts = length pre ->
  let ls' := fst (lrun RNonBlocking c {| l_scan := {| s_cursor := cur; s_rest := pre ++ rest |};
                                         l_tick := tick; l_tok := tok; l_stuck := false |} ts) in
  s_cursor (l_scan ls') = cur + N.of_nat (length pre) /\ s_rest (l_scan ls') = rest /\
  l_stuck ls' = false /\ l_tok ls' = (match pre with [] => tok | _ => true end) /\
  length (literations RNonBlocking c {| l_scan := {| s_cursor := cur; s_rest := pre ++ rest |};
                                        l_tick := tick; l_tok := tok; l_stuck := false |} ts) = length pre.
Proof. exact catch_up_thm. Qed.
Print Assumptions C09_catch_up_full.

(* ==== the payload of signed data (Model/Retriever.v: sdpost, decode_sd, classify_sd, phandle) =============
   [pda] = the DA described by what was POSTED: per height the posts (headers, junk, and SignedData blobs with
   their transaction list as it stands on the wire — any length, any mix of zero-length, one-byte, repeated and
   large transactions, in any position —, Metadata present or not, signer right or wrong, the tx list the
   signature covers) and the outcome script.  The class-level DA of the theorems above is [da_of DCopyAll pda]:
   the class of a SignedData blob is COMPUTED from the post by the model of the decoder + handlePotentialData +
   isValidSignedData. *)

(* the tx codec as it is: encoding then decoding gives back every transaction list unchanged *)
Theorem C09_tx_codec_roundtrip_full : forall l : list tx, slices_to_txs DCopyAll (txs_to_slices l) = l.
Proof. exact codec_roundtrip. Qed.
Print Assumptions C09_tx_codec_roundtrip_full.

(* every genuine data blob — signed by the proposer over exactly the transactions it carries, at least one
   transaction of ANY length, Metadata present — is admitted as data and decodes to the transactions posted *)
Theorem C09_genuine_data_admitted_full : forall sp : sdpost, genuineb sp = true ->
  classify_sd DCopyAll sp = BData (sp_id sp) /\ decode_sd DCopyAll sp = sp_wire sp.
Proof. exact genuine_admitted_thm. Qed.
Print Assumptions C09_genuine_data_admitted_full.

(* the handler with payload refines the class-level handler of the theorems above (whatever the decoder) *)
Theorem C09_payload_refines_full : forall (m : txdecode) (c : cfg) (daH : N) (posts : list post),
  map erase (phandle m c daH posts) = genuine_events c daH (map (classify m) posts).
Proof. exact phandle_erase. Qed.
Print Assumptions C09_payload_refines_full.

(* Every iteration of every run hands over what was posted (handed_ok): its events are the payload-erased
   image of what handlePotentialHeader/Data hand over, and that is — on a successful fetch — exactly the
   genuine unseen headers and genuine unseen data blobs of its height in DA order, every data event carrying
   the transaction list exactly as posted; nothing otherwise. *)
Theorem C09_hands_over_posted_txs_full : forall (c : cfg) (pda : list hpost) (h : list item),
  Forall (handed_ok c pda) (iterations c (da_of DCopyAll pda) h).
Proof. exact hands_over_thm. Qed.
Print Assumptions C09_hands_over_posted_txs_full.

(* No height is skipped, with payload: every height below the final cursor was passed by a loop iteration that
   handed over exactly the posted events of that height. *)
Theorem C09_no_skip_payload_full : forall (c : cfg) (pda : list hpost) (h : list item) (n : N),
  boot c <= n < s_cursor (final c (da_of DCopyAll pda) h) ->
  exists r, In r (iterations c (da_of DCopyAll pda) h) /\ i_height r = n /\ i_next r = n + 1 /\
            i_loop r = true /\ i_result r = PNil /\
            (last (i_classes r) AError = ASuccess \/ last (i_classes r) AError = ANotFound) /\
            map erase (handed DCopyAll c pda r) = i_events r /\
            handed DCopyAll c pda r = (if succeeded (i_classes r) then posted_events c n (pcontent c pda n) else []).
Proof. exact payload_no_skip_thm. Qed.
Print Assumptions C09_no_skip_payload_full.

(* a genuine unseen data blob among the posts of a height is among that height's posted events, with the
   transaction list it was posted with *)
Theorem C09_posted_data_is_due_full : forall (c : cfg) (daH : N) (posts : list post) (sp : sdpost),
  In (PSigned sp) posts -> genuineb sp = true -> mem (sp_id sp) (c_seen_d c) = false ->
  In (PEData (sp_id sp) daH (sp_wire sp)) (posted_events c daH posts).
Proof. exact posted_events_in. Qed.
Print Assumptions C09_posted_data_is_due_full.

(* the same for every interleaving of the two-channel loop *)
Theorem C09_ticks_hands_over_posted_txs_full : forall (c : cfg) (pda : list hpost) (tick : bool) (ts : list turn),
  Forall (handed_ok c pda) (literations RNonBlocking c (linit c (da_of DCopyAll pda) tick) ts).
Proof. exact ticks_hands_over_thm. Qed.
Print Assumptions C09_ticks_hands_over_posted_txs_full.

Theorem C09_ticks_no_skip_payload_full : forall (c : cfg) (pda : list hpost) (tick : bool) (ts : list turn) (n : N),
  boot c <= n < s_cursor (l_scan (fst (lrun RNonBlocking c (linit c (da_of DCopyAll pda) tick) ts))) ->
  exists r, In r (literations RNonBlocking c (linit c (da_of DCopyAll pda) tick) ts) /\ i_height r = n /\ i_next r = n + 1 /\
            i_loop r = true /\ i_result r = PNil /\
            (last (i_classes r) AError = ASuccess \/ last (i_classes r) AError = ANotFound) /\
            map erase (handed DCopyAll c pda r) = i_events r /\
            handed DCopyAll c pda r = (if succeeded (i_classes r) then posted_events c n (pcontent c pda n) else []).
Proof. exact ticks_payload_no_skip_thm. Qed.
Print Assumptions C09_ticks_no_skip_payload_full.

(* ---- non-vacuity -------------------------------------------------------------------------------------- *)
Definition many (n : nat) : list blob := map (fun i => BJunk (N.of_nat i)) (seq 0 n).

Example ex_250_ids_3_chunks :
  map (fun oc => (fst oc, length (snd oc))) (chunks (many 250)) = [(0, 100); (100, 100); (200, 50)]%nat.
Proof. vm_compute. reflexivity. Qed.

Definition e_plain := {| e_nf := false; e_fut := false |}.
Definition e_notfound := {| e_nf := true; e_fut := false |}.
Definition ex_cfg : cfg := {| c_stored := 3; c_start := 5; c_seen_h := [2]; c_seen_d := [] |}.
Definition ex_da : list hinfo :=
  [ {| h_blobs := [BJunk 0; BHeader 1; BData 1; BHeader 2; BEmptyData]; h_outs := [OListErr e_plain; OChunkErr 0 e_plain; OOk] |};
    {| h_blobs := []; h_outs := [OListErr e_notfound] |};
    {| h_blobs := [BData 4]; h_outs := repeat (OListErr e_plain) 11 ++ [OOk] |} ].

(* one wake-up: height 5 after two retried errors, height 6 not found, height 7 fails ten times;
   second wake-up: one more error at 7, then success; then height 8 is from the future *)
Example ex_run :
  map (fun r => (i_height r, i_classes r, i_result r, i_events r, i_next r)) (iterations ex_cfg ex_da [ISignal; ISignal]) =
  [ (5, [AError; AError; ASuccess], PNil, [EHeader 1 5; EData 1 5], 6);
    (6, [ANotFound], PNil, [], 7);
    (7, repeat AError 10, PErr, [], 7);
    (7, [AError; ASuccess], PNil, [EData 4 7], 8);
    (8, [AFuture], PFuture, [], 8) ].
Proof. vm_compute. reflexivity. Qed.

Example ex_final_cursor : s_cursor (final ex_cfg ex_da [ISignal; ISignal]) = 8.
Proof. vm_compute. reflexivity. Qed.

(* the history that crashed the scan before the fix: the metadata-less signed data is skipped, the blobs
   around it are handed over, the cursor moves on *)
Definition wit_cfg : cfg := {| c_stored := 0; c_start := 7; c_seen_h := []; c_seen_d := [] |}.
Definition wit_da : list hinfo := [ {| h_blobs := [BHeader 1; BDataNoMeta 2; BData 3]; h_outs := [OOk] |} ].
Example ex_former_crash :
  map (fun r => (i_height r, i_result r, i_events r, i_marks r, i_next r)) (iterations wit_cfg wit_da [ISignal; ISignal]) =
  [ (7, PNil, [EHeader 1 7; EData 3 7], [MHeader 1 7; MData 3 7], 8); (8, PFuture, [], [], 8); (8, PFuture, [], [], 8) ].
Proof. vm_compute. reflexivity. Qed.

(* ---- ticks during a catch-up run ---------------------------------------------------------------------- *)
Definition cu_cfg : cfg := {| c_stored := 0; c_start := 100; c_seen_h := []; c_seen_d := [] |}.
Definition cu_da : list hinfo := repeat {| h_blobs := []; h_outs := [OOk] |} 6.   (* heights 100..105 are empty *)
Definition tk (pick tick : bool) : turn := {| t_pick_tick := pick; t_tick := tick |}.
(* a tick arrives during the first iteration; at the second turn both channels are ready and select takes
   the tick, leaving the token in blobsFoundCh; the third height's re-arm finds the channel full *)
Definition cu_turns : list turn := [tk false true; tk true false; tk false false; tk false false; tk false false;
                                    tk false false; tk false false; tk false false; tk false false].

Example ex_all_pass : all_pass cu_cfg 100 cu_da.
Proof. vm_compute. repeat split. Qed.

(* the code: the re-arm after height 101 finds blobsFoundCh full and drops the signal; the cursor reaches the
   DA head 106, finds it from the future, and the loop goes back to waiting with both channels empty *)
Example ex_tick_during_catch_up :
  let '(ls, rr) := lrun RNonBlocking cu_cfg (linit cu_cfg cu_da true) cu_turns in
  (s_cursor (l_scan ls), l_tick ls, l_tok ls, l_stuck ls, map (fun r => (i_height r, i_result r)) (concat rr)) =
  (106, false, false, false,
   [(100, PNil); (101, PNil); (102, PNil); (103, PNil); (104, PNil); (105, PNil); (106, PFuture)]).
Proof. vm_compute. reflexivity. Qed.

(* NOT the code: were the re-arm a send that waits for room, the same turns leave the loop blocked for ever
   after height 101 with heights 102..105 never examined — the premise RNonBlocking of the theorems above
   is what keeps the scan alive, and the correspondence check compares it with the real loop *)
Example ex_blocking_rearm_would_stall :
  let '(ls, rr) := lrun RBlocking cu_cfg (linit cu_cfg cu_da true) cu_turns in
  (l_stuck ls, map (fun r => i_height r) (concat rr)) = (true, [100; 101]).
Proof. vm_compute. reflexivity. Qed.

(* ---- the payload of signed data: boundary transactions ------------------------------------------------- *)
(* a genuine data blob: proposer's signature over exactly the transactions on the wire, Metadata present *)
Definition gen_sd (id : N) (txs : list tx) : post :=
  PSigned {| sp_id := id; sp_wire := txs; sp_meta := true; sp_signer := true; sp_sigfor := Some txs |}.
(* height 7: a header, then genuine data with a zero-length transaction in the middle / only a zero-length
   transaction / first and last zero-length / a repeated transaction, then a blob signed over other
   transactions than it carries, one from a wrong signer, and one without any transaction *)
Definition pl_da : list hpost :=
  [ {| hp_posts := [PHeader 1; gen_sd 2 [3; 0; 4]; gen_sd 3 [0]; gen_sd 4 [0; 5; 0]; gen_sd 5 [7; 7];
                    PSigned {| sp_id := 6; sp_wire := [3; 4]; sp_meta := true; sp_signer := true; sp_sigfor := Some [3; 0; 4] |};
                    PSigned {| sp_id := 8; sp_wire := [9]; sp_meta := true; sp_signer := false; sp_sigfor := Some [9] |};
                    gen_sd 9 [] ];
       hp_outs := [OOk] |} ].

Example ex_boundary_txs_handed_over :
  map (fun r => (i_height r, i_result r, handed DCopyAll wit_cfg pl_da r, i_next r))
      (iterations wit_cfg (da_of DCopyAll pl_da) [ISignal]) =
  [ (7, PNil, [PEHeader 1 7; PEData 2 7 [3; 0; 4]; PEData 3 7 [0]; PEData 4 7 [0; 5; 0]; PEData 5 7 [7; 7]], 8);
    (8, PFuture, [], 8) ].
Proof. vm_compute. reflexivity. Qed.

Example ex_boundary_txs_genuine :
  map (fun p => match p with PSigned sp => genuineb sp | _ => false end) (hp_posts (hd {| hp_posts := []; hp_outs := [] |} pl_da)) =
  [false; true; true; true; true; false; false; false].
Proof. vm_compute. reflexivity. Qed.

(* NOT the code: were zero-length entries left out when decoding, the re-marshalled data of blobs 2 and 4 would
   differ from what the proposer signed (dropped as badly signed), blob 3 would decode to no transactions
   (dropped as empty) — three genuine blobs of an examined height never handed to sync, the cursor moves on.
   The premise DCopyAll of the theorems above is what the correspondence check compares with the real decoder. *)
Example ex_skipping_empty_txs_would_drop_genuine_data :
  map (fun r => (i_height r, i_result r, i_events r, handed DSkipEmpty wit_cfg pl_da r, i_next r))
      (iterations wit_cfg (da_of DSkipEmpty pl_da) [ISignal]) =
  [ (7, PNil, [EHeader 1 7; EData 5 7], [PEHeader 1 7; PEData 5 7 [7; 7]], 8);
    (8, PFuture, [], [], 8) ].
Proof. vm_compute. reflexivity. Qed.

(* ==== the signature payload of headers: chains with their own SignaturePayloadProvider ===================
   [conf] = the provider the node is configured with (ManagerOptions.SignaturePayloadProvider; 0 = the default,
   any other number = a chain-specific one); [xda] = the DA described by what was POSTED: every SignedHeader
   blob with who signed it and over which provider's payload (hdpost), everything else as before. *)

(* A header blob is admitted by a node iff it is genuine for the node's chain: signed by the proposer over the
   payload the chain's provider defines — whatever that provider is. *)
Theorem C09_header_admitted_iff_genuine_full : forall (conf : scheme) (hp : hdpost),
  (hd_genuineb conf hp = true -> view_hd VConfigured conf hp = PHeader (hd_id hp)) /\
  (hd_genuineb conf hp = false -> view_hd VConfigured conf hp = PJunk junk_bad_header).
Proof. exact header_admitted_iff_thm. Qed.
Print Assumptions C09_header_admitted_iff_genuine_full.

Theorem C09_genuine_header_admitted_full : forall (conf : scheme) (hp : hdpost) (m : txdecode),
  hd_genuineb conf hp = true -> classify m (view VConfigured conf (XHeader hp)) = BHeader (hd_id hp).
Proof. exact genuine_header_admitted_thm. Qed.
Print Assumptions C09_genuine_header_admitted_full.

(* Every iteration of every run of a node with ANY configured provider hands over, on a successful fetch, exactly
   the genuine unseen headers of its chain and the genuine unseen data of its height in DA order, and nothing
   otherwise. *)
Theorem C09_hands_over_posted_headers_full : forall (conf : scheme) (c : cfg) (xda : list xhpost) (h : list item),
  Forall (xhanded_ok VConfigured conf c xda) (iterations c (da_of DCopyAll (pda_of VConfigured conf xda)) h).
Proof. exact hands_over_headers_thm. Qed.
Print Assumptions C09_hands_over_posted_headers_full.

Theorem C09_ticks_hands_over_posted_headers_full :
  forall (conf : scheme) (c : cfg) (xda : list xhpost) (tick : bool) (ts : list turn),
  Forall (xhanded_ok VConfigured conf c xda)
         (literations RNonBlocking c (linit c (da_of DCopyAll (pda_of VConfigured conf xda)) tick) ts).
Proof. exact ticks_hands_over_headers_thm. Qed.
Print Assumptions C09_ticks_hands_over_posted_headers_full.

(* No height is skipped: every height below the final cursor was passed by a loop iteration that handed over
   exactly the chain's posted events of that height. *)
Theorem C09_no_skip_headers_full : forall (conf : scheme) (c : cfg) (xda : list xhpost) (h : list item) (n : N),
  boot c <= n < s_cursor (final c (da_of DCopyAll (pda_of VConfigured conf xda)) h) ->
  exists r, In r (iterations c (da_of DCopyAll (pda_of VConfigured conf xda)) h) /\ i_height r = n /\ i_next r = n + 1 /\
            i_loop r = true /\ i_result r = PNil /\
            (last (i_classes r) AError = ASuccess \/ last (i_classes r) AError = ANotFound) /\
            map erase (handed DCopyAll c (pda_of VConfigured conf xda) r) = i_events r /\
            handed DCopyAll c (pda_of VConfigured conf xda) r =
            (if succeeded (i_classes r) then xposted_events conf c n (xcontent c xda n) else []).
Proof. exact headers_no_skip_thm. Qed.
Print Assumptions C09_no_skip_headers_full.

Theorem C09_ticks_no_skip_headers_full :
  forall (conf : scheme) (c : cfg) (xda : list xhpost) (tick : bool) (ts : list turn) (n : N),
  boot c <= n < s_cursor (l_scan (fst (lrun RNonBlocking c (linit c (da_of DCopyAll (pda_of VConfigured conf xda)) tick) ts))) ->
  exists r, In r (literations RNonBlocking c (linit c (da_of DCopyAll (pda_of VConfigured conf xda)) tick) ts) /\
            i_height r = n /\ i_next r = n + 1 /\ i_loop r = true /\ i_result r = PNil /\
            (last (i_classes r) AError = ASuccess \/ last (i_classes r) AError = ANotFound) /\
            map erase (handed DCopyAll c (pda_of VConfigured conf xda) r) = i_events r /\
            handed DCopyAll c (pda_of VConfigured conf xda) r =
            (if succeeded (i_classes r) then xposted_events conf c n (xcontent c xda n) else []).
Proof. exact ticks_headers_no_skip_thm. Qed.
Print Assumptions C09_ticks_no_skip_headers_full.

(* a genuine unseen header of the chain among the posts of a height is among that height's posted events *)
Theorem C09_posted_header_is_due_full : forall (conf : scheme) (c : cfg) (daH : N) (xs : list xpost) (hp : hdpost),
  In (XHeader hp) xs -> hd_genuineb conf hp = true -> mem (hd_id hp) (c_seen_h c) = false ->
  In (PEHeader (hd_id hp) daH) (xposted_events conf c daH xs).
Proof. exact xposted_header_in. Qed.
Print Assumptions C09_posted_header_is_due_full.

(* on a chain with the default provider a lost verifier changes nothing (why tests on default chains cannot see it) *)
Theorem C09_fallback_invisible_on_default_chain_full : forall x : xpost,
  view VFallback default_scheme x = view VConfigured default_scheme x.
Proof. exact fallback_same_on_default_chain. Qed.
Print Assumptions C09_fallback_invisible_on_default_chain_full.

(* ---- non-vacuity: a chain whose header signatures cover a chain-specific payload (provider 1) ----------- *)
Definition hd_by (id : N) (signer : bool) (s : scheme) : xpost :=
  XHeader {| hd_id := id; hd_signer := signer; hd_sigfor := Some s |}.
(* height 7: junk, two genuine headers of the chain (proposer, payload 1), a header the proposer signed over the
   DEFAULT payload (not valid on this chain), a forgery (foreign key) over the chain's payload, genuine data *)
Definition hx_da : list xhpost :=
  [ {| xp_posts := [XPost (PJunk 1); hd_by 1 true 1; hd_by 2 true 1; hd_by 3 true 0; hd_by 4 false 1; XPost (gen_sd 5 [3; 0])];
       xp_outs := [OOk] |} ].

Example ex_custom_payload_headers_handed_over :
  map (fun r => (i_height r, i_result r, handed DCopyAll wit_cfg (pda_of VConfigured 1 hx_da) r, i_next r))
      (iterations wit_cfg (da_of DCopyAll (pda_of VConfigured 1 hx_da)) [ISignal]) =
  [ (7, PNil, [PEHeader 1 7; PEHeader 2 7; PEData 5 7 [3; 0]], 8); (8, PFuture, [], 8) ].
Proof. vm_compute. reflexivity. Qed.

Example ex_custom_payload_headers_due :
  xposted_events 1 wit_cfg 7 (xcontent wit_cfg hx_da 7) = [PEHeader 1 7; PEHeader 2 7; PEData 5 7 [3; 0]].
Proof. vm_compute. reflexivity. Qed.

(* NOT the code: were the node's provider not on the header object when ValidateBasic runs (installed before a
   decode that overwrites the receiver), the signatures would be checked against the default payload: the two
   genuine headers of an examined height are never handed to sync, a header that is not valid on this chain is,
   and the cursor moves on.  The premise VConfigured of the theorems above is what the correspondence check
   compares with the real handlePotentialHeader on chains with chain-specific providers. *)
Example ex_lost_verifier_would_drop_genuine_headers :
  map (fun r => (i_height r, i_result r, handed DCopyAll wit_cfg (pda_of VFallback 1 hx_da) r, i_next r))
      (iterations wit_cfg (da_of DCopyAll (pda_of VFallback 1 hx_da)) [ISignal]) =
  [ (7, PNil, [PEHeader 3 7; PEData 5 7 [3; 0]], 8); (8, PFuture, [], 8) ].
Proof. vm_compute. reflexivity. Qed.

(* ---- the hand-off to the sync loop through the BOUNDED event channels (Model/RetrieverQueue.v) --------------------
   headerInCh / dataInCh have a capacity ([capH], [capD]: 10000 each in the code, any numbers here); a DA height is
   given by the runs of genuine unseen headers / data among its blobs in DA order; the consumer (SyncLoop) is an
   INPUT: [rs] = any sequence of rounds (away for any time, then takes up to a headers and up to b data - none
   included).  The hand-off is the code's: it waits for room (HWait; its ctx is the loop's, done at shutdown
   only).  [final_q] = the state after the wake-up and the rounds, the loop quiescent. *)
Theorem C09_handoff_never_drops_full : forall (capH capD boot : N) (heights : list (list RetrieverQueue.qrun_t)) (rs : list RetrieverQueue.qround),
  let s := RetrieverQueueProofs.final_q capH capD boot heights rs in
  RetrieverQueue.handed_h s + RetrieverQueue.count true (RetrieverQueue.remaining s) = RetrieverQueue.count true (concat heights) /\
  RetrieverQueue.handed_d s + RetrieverQueue.count false (RetrieverQueue.remaining s) = RetrieverQueue.count false (concat heights) /\
  RetrieverQueue.q_lost_h s = 0 /\ RetrieverQueue.q_lost_d s = 0 /\
  RetrieverQueue.q_lh s <= capH /\ RetrieverQueue.q_ld s <= capD.
Proof. exact RetrieverQueueProofs.handoff_never_drops. Qed.
Print Assumptions C09_handoff_never_drops_full.

(* however long the consumer stays away: the cursor is past a height only when every genuine event of it and of
   all heights before it has been handed over (taken by the consumer or waiting in the channel) *)
Theorem C09_handoff_cursor_full : forall (capH capD boot : N) (heights : list (list RetrieverQueue.qrun_t)) (rs : list RetrieverQueue.qround),
  let s := RetrieverQueueProofs.final_q capH capD boot heights rs in
  exists k, RetrieverQueue.q_cursor s = boot + N.of_nat k /\ (k <= length heights)%nat /\
    RetrieverQueue.count true (concat (firstn k heights)) <= RetrieverQueue.handed_h s /\
    RetrieverQueue.count false (concat (firstn k heights)) <= RetrieverQueue.handed_d s.
Proof. exact RetrieverQueueProofs.handoff_cursor. Qed.
Print Assumptions C09_handoff_cursor_full.

(* the scan waits inside a height only in front of a FULL channel, with an event in hand *)
Theorem C09_handoff_waits_only_when_full_full : forall (capH capD boot : N) (heights : list (list RetrieverQueue.qrun_t)) (rs : list RetrieverQueue.qround),
  RetrieverQueueProofs.Blocked capH capD (RetrieverQueueProofs.final_q capH capD boot heights rs).
Proof. exact RetrieverQueueProofs.handoff_waits_only_when_full. Qed.
Print Assumptions C09_handoff_waits_only_when_full_full.

(* and when nothing is left to hand over the cursor is past the last height *)
Theorem C09_handoff_done_cursor_full : forall (capH capD boot : N) (heights : list (list RetrieverQueue.qrun_t)) (rs : list RetrieverQueue.qround),
  let s := RetrieverQueueProofs.final_q capH capD boot heights rs in
  heights <> [] -> RetrieverQueue.q_pend s = None -> RetrieverQueue.q_rest s = [] ->
  RetrieverQueue.q_cursor s = boot + N.of_nat (length heights).
Proof. exact RetrieverQueueProofs.handoff_done_cursor. Qed.
Print Assumptions C09_handoff_done_cursor_full.

Definition hq_heights : list (list RetrieverQueue.qrun_t) := [[(true, 3); (false, 1)]; [(true, 1); (false, 2)]].
Definition hq_sched : list RetrieverQueue.qround := [(40000, 0, 0); (1000, 1, 0); (1000, 5, 5); (1000, 5, 5)].
Definition hq_proj (x : list RetrieverQueue.qobs_t * RetrieverQueue.qstate) :=
  (fst x, (RetrieverQueue.q_cursor (snd x), RetrieverQueue.q_th (snd x), RetrieverQueue.q_td (snd x),
           RetrieverQueue.q_lost_h (snd x), RetrieverQueue.q_lost_d (snd x))).

(* channels of 2 slots, heights 7 and 8 with 4 headers and 3 data, a consumer that is away for 40 s first: the scan
   waits at height 7 with headerInCh full; in the end all 4 + 3 events were taken and the cursor is 9 *)
Example ex_handoff_waits_for_slow_consumer :
  hq_proj (RetrieverQueue.qrun RetrieverQueue.HWait 2 2 (RetrieverQueue.qstart 2 2 7 hq_heights) hq_sched) =
  ([(7, 2, 0); (7, 2, 0); (8, 2, 1); (9, 1, 2)], (9, 4, 3, 0, 0)).
Proof. vm_compute. reflexivity. Qed.

(* NOT the code: were the context of the hand-off's select one with a deadline of 30 s per DA height, the same
   consumer would find the cursor at 8 after its 40 s, one header and one data of height 7 never handed over and
   never fetched again - so the statements above are not vacuous.  That the real hand-off is HWait is what the
   correspondence check ties to block/retriever.go (back-pressure cases with a scheduled consumer). *)
Example ex_deadline_handoff_would_drop_genuine_events :
  hq_proj (RetrieverQueue.qrun (RetrieverQueue.HDeadline 30000) 2 2 (RetrieverQueue.qstart 2 2 7 hq_heights) hq_sched) =
  ([(8, 2, 0); (8, 2, 0); (9, 2, 2); (9, 0, 0)], (9, 3, 2, 1, 1)).
Proof. vm_compute. reflexivity. Qed.

(* ---- the retry loop TRANSLATED FROM THE SOURCE (Check/GoLiteRetrieveAttempt.v, regenerated on every run) ---------
   THE WHOLE EXAMINATION of a DA height.  [examine] runs the code's attempts one after the other — each attempt IS the
   translated iteration of `for r := 0; r < dAFetcherRetries; r++` in Manager.processNextDAHeaderAndData
   (go_processNext_iter) — on the statuses Retriever.retrieve gives for the successive DA outcomes.  For every
   configuration, height, blob list and outcome script the code's examination returns nil exactly when the model's
   [process] does: the model the theorems above are stated over is what the source says. *)
Theorem C09_translated_examination_refines_process_full : forall (c : cfg) (h : N) (hi : hinfo),
  GoLiteRetrieveAttempt.examine h false 0
    (GoLiteRetrieveRefine.classes h (h_blobs hi) retries (h_outs hi))
  = Some (GoLiteRetrieveRefine.is_pnil (p_res (process c h hi))).
Proof. exact GoLiteRetrieveRefine.examination_refines_process. Qed.
Print Assumptions C09_translated_examination_refines_process_full.

(* the translated examination returns nil ONLY IF one of at most ten fetches came back without error, every fetch
   before it having failed with a retryable error: a DA height whose fetches all fail is never passed as examined *)
Theorem C09_translated_nil_only_after_a_fetch_full : forall fs h,
  GoLiteRetrieveAttempt.examine h false 0 fs = Some true ->
  exists k f, (Z.of_nat k < 10)%Z /\ nth_error fs k = Some f /\
              (f = GoLiteRetrieveAttempt.FNotFound \/ f = GoLiteRetrieveAttempt.FFound) /\
              forall j, (j < k)%nat -> nth_error fs j = Some GoLiteRetrieveAttempt.FFailed.
Proof. exact GoLiteRetrieveAttempt.examination_nil_only_after_a_fetch. Qed.
Print Assumptions C09_translated_nil_only_after_a_fetch_full.
