(* Props/C09.v — DA scanning never skips a height, retries on failure, survives any blob.
   Statements only; every proof is [exact <lemma of Proofs/RetrieverProofs.v>].
   Quantification: [c] = stored / configured start height and the ids sync has already seen;
   [da] = for every height from the start on, the blobs there (any mix of classes, any number) and the
   outcomes the DA gives to successive fetch attempts of that height (listing error with any text class,
   nil listing, error on any chunk, success), "from the future" after that and beyond the list;
   [h] = any sequence of wake-ups of RetrieveLoop and direct calls of processNextDAHeaderAndData.
   Heights are unbounded naturals (the uint64 wrap at 2^64-1 is not modelled). *)
From Coq Require Import NArith List Bool.
From Verif Require Import Model.Retriever Proofs.RetrieverProofs.
Import ListNotations.
Open Scope N_scope.

(* The iterations of any run form a chain: the first examines the start height max(stored, configured),
   each next one examines the height the previous one left the cursor at; every iteration (rec_ok) calls
   the DA only for the cursor's height, makes at most 10 attempts, retries after each transient error,
   and moves the cursor — by exactly one — iff it is a loop iteration whose deciding attempt was a
   successful fetch or a confirmed not-found; after a failure the cursor stays, so the next iteration
   examines the same height again.  The final cursor is where the last iteration left it. *)
Theorem C09_cursor_full : forall (c : cfg) (da : list hinfo) (h : list item),
  linked (boot c) (iterations c da h) /\
  Forall rec_ok (iterations c da h) /\
  s_cursor (final c da h) = last_next (boot c) (iterations c da h).
Proof. exact cursor_thm. Qed.
Print Assumptions C09_cursor_full.

(* No height is skipped and every genuine blob of a passed height is handed to sync: for every height n
   between the start and the final cursor there is a loop iteration that examined n, returned nil after a
   successful or not-found fetch of n, moved the cursor to n+1, and emitted exactly the genuine, not yet
   seen headers and data among ALL the blobs the DA holds at n, in DA order (none if not-found). *)
Theorem C09_no_skip_full : forall (c : cfg) (da : list hinfo) (h : list item) (n : N),
  boot c <= n < s_cursor (final c da h) ->
  exists r, In r (iterations c da h) /\ i_height r = n /\ i_next r = n + 1 /\
            i_loop r = true /\ i_result r = PNil /\
            (last (i_classes r) AError = ASuccess \/ last (i_classes r) AError = ANotFound) /\
            i_events r = (if succeeded (i_classes r) then genuine_events c n (content c da n) else []).
Proof. exact no_skip_thm. Qed.
Print Assumptions C09_no_skip_full.

(* the cursor never goes below the start and never decreases as the history is extended *)
Theorem C09_monotone_full : forall (c : cfg) (da : list hinfo) (h1 h2 : list item),
  boot c <= s_cursor (final c da h1) /\ s_cursor (final c da h1) <= s_cursor (final c da (h1 ++ h2)).
Proof. exact monotone_thm. Qed.
Print Assumptions C09_monotone_full.

(* Chunked fetching: for any blob list the chunk fetches concatenate to the whole list; chunk k covers ids
   100k .. and is non-empty; a fully successful fetch returns exactly the list after GetIDs and one Get per
   chunk; an error in chunk i fails the whole height after exactly i+1 Get calls. *)
Theorem C09_chunks_full : forall (h : N) (bl : list blob),
  concat (map snd (chunks bl)) = bl /\
  (forall k off c, nth_error (chunks bl) k = Some (off, c) ->
       off = (k * batch_size)%nat /\ c = firstn batch_size (skipn (k * batch_size) bl) /\ c <> []) /\
  (bl <> [] -> retrieve h bl OOk = (SSuccess bl, CGetIDs h :: map (get_call h) (chunks bl))) /\
  (forall i e, (i < length (chunks bl))%nat ->
       retrieve h bl (OChunkErr i e) =
       (SError (e_fut e), CGetIDs h :: map (get_call h) (firstn (S i) (chunks bl)))).
Proof. exact chunks_all. Qed.
Print Assumptions C09_chunks_full.

(* Every iteration, whatever the blobs: the blobs it was offered are the DA's content of its height, and
   its events are, on a successful fetch, exactly the genuine unseen headers/data in DA order, and none
   otherwise.  Junk of every kind, signed data without txs or without metadata, and already-seen items
   yield nothing. *)
Theorem C09_emits_full : forall (c : cfg) (da : list hinfo) (h : list item),
  Forall (fun r => emits_ok c r /\ i_blobs r = content c da (i_height r)) (iterations c da h).
Proof. exact emits_thm. Qed.
Print Assumptions C09_emits_full.

(* Any blob list survives: when the fetch succeeds, processNextDAHeaderAndData returns nil for EVERY list of
   blob classes (junk, empty, metadata-less, genuine mixed), hands over exactly the genuine unseen ones and
   leaves the rest of the script untouched.  (Before "fix: retriever: signed data without metadata no longer
   panics the DA scan" this was false: see known_findings.json, panic-signed-data-without-metadata.) *)
Theorem C09_survives_any_blob_full : forall (c : cfg) (h : N) (bl : list blob) (outs : list outcome),
  bl <> [] ->
  let p := attempts c h bl retries (OOk :: outs) in
  p_res p = PNil /\ p_events p = genuine_events c h bl /\ p_outs p = outs.
Proof. exact survives_thm. Qed.
Print Assumptions C09_survives_any_blob_full.

(* The scan never stalls: every wake-up and every direct call is served — it examines at least the
   cursor's height (a non-empty list of iterations, each of at most 10 attempts by C09_cursor_full) and
   returns to waiting.  (The blocking send on a full event channel is outside the model.) *)
Theorem C09_never_stalls_full : forall (c : cfg) (da : list hinfo) (h : list item),
  length (snd (run c da h)) = length h /\ Forall (fun recs => recs <> []) (snd (run c da h)).
Proof. exact served_thm. Qed.
Print Assumptions C09_never_stalls_full.

(* ==== the loop with its two wake-up channels (Model/Retriever.v: lturn, lrun) ==========================
   [ls] = the loop's state: cursor, unused DA, whether m.retrieveCh (DA-block ticks, capacity 1) and the
   loop's own blobsFoundCh (continuation token, capacity 1) hold a value; [ts] = what the environment decides
   turn by turn: which of two ready channels `select` takes, and whether a tick arrives while the turn runs.
   Quantified over ALL such sequences: every interleaving of ticks with iterations, every resolution of
   select's choice. *)

(* The re-arm of blobsFoundCh never blocks the loop: from a running loop no sequence of turns leads to a
   loop goroutine waiting for ever in its own send (the send is `select { case ch <- v: default: }`; a
   blocking send would, see ex_blocking_rearm_would_stall below). *)
Theorem C09_rearm_never_blocks_full : forall (c : cfg) (ts : list turn) (ls : lstate),
  l_stuck ls = false -> l_stuck (fst (lrun RNonBlocking c ls ts)) = false.
Proof. exact never_blocks_thm. Qed.
Print Assumptions C09_rearm_never_blocks_full.

(* A pending wake-up is always served — tick or token, whichever select takes, with or without a tick
   arriving meanwhile: the turn makes exactly one iteration, at the cursor's height; the loop keeps running;
   if the height was passed the cursor moved by one AND the token is in blobsFoundCh again, so the next select
   does not wait for a DA-block tick; otherwise the cursor stays. *)
Theorem C09_wakeup_served_full : forall (c : cfg) (ls : lstate) (t : turn),
  l_stuck ls = false -> l_tick ls || l_tok ls = true ->
  exists r, snd (lturn RNonBlocking c ls t) = [r] /\
            i_height r = s_cursor (l_scan ls) /\ i_loop r = true /\
            l_stuck (fst (lturn RNonBlocking c ls t)) = false /\
            s_cursor (l_scan (fst (lturn RNonBlocking c ls t))) = i_next r /\
            (i_result r = PNil -> l_tok (fst (lturn RNonBlocking c ls t)) = true /\ i_next r = i_height r + 1) /\
            (i_result r <> PNil -> i_next r = i_height r).
Proof. exact turn_served_thm. Qed.
Print Assumptions C09_wakeup_served_full.

(* Ticks and select's choices decide only HOW MANY wake-ups get served, never what an iteration does: the
   iterations of any run of the two-channel loop are an initial part of the iterations of k wake-ups of the
   merged model, for some k — so everything proved above about [iterations] holds of every interleaving. *)
Theorem C09_ticks_refine_full : forall (c : cfg) (da : list hinfo) (tick : bool) (ts : list turn),
  exists k, is_prefix (literations RNonBlocking c (linit c da tick) ts) (iterations c da (repeat ISignal k)).
Proof. exact ticks_refine_thm. Qed.
Print Assumptions C09_ticks_refine_full.

(* C09_cursor_full / C09_emits_full for every interleaving *)
Theorem C09_ticks_cursor_full : forall (c : cfg) (da : list hinfo) (tick : bool) (ts : list turn),
  let its := literations RNonBlocking c (linit c da tick) ts in
  linked (boot c) its /\ Forall rec_ok its /\
  Forall (fun r => emits_ok c r /\ i_blobs r = content c da (i_height r)) its /\
  s_cursor (l_scan (fst (lrun RNonBlocking c (linit c da tick) ts))) = last_next (boot c) its.
Proof. exact ticks_cursor_thm. Qed.
Print Assumptions C09_ticks_cursor_full.

(* C09_no_skip_full for every interleaving *)
Theorem C09_ticks_no_skip_full : forall (c : cfg) (da : list hinfo) (tick : bool) (ts : list turn) (n : N),
  boot c <= n < s_cursor (l_scan (fst (lrun RNonBlocking c (linit c da tick) ts))) ->
  exists r, In r (literations RNonBlocking c (linit c da tick) ts) /\ i_height r = n /\ i_next r = n + 1 /\
            i_loop r = true /\ i_result r = PNil /\
            (last (i_classes r) AError = ASuccess \/ last (i_classes r) AError = ANotFound) /\
            i_events r = (if succeeded (i_classes r) then genuine_events c n (content c da n) else []).
Proof. exact ticks_no_skip_thm. Qed.
Print Assumptions C09_ticks_no_skip_full.

(* Catch-up is not stalled by ticks: with a wake-up pending and [pre] heights ahead that the DA serves at
   the first iteration, after as many turns — any ticks during them, any choices of select — the cursor
   stands at their end, each turn made one iteration, the loop is running and (if it moved at all) the
   token is armed for the height after them. *)
Theorem C09_catch_up_full : forall (c : cfg) (pre rest : list hinfo) (cur : N) (tick tok : bool) (ts : list turn),
  tick || tok = true -> all_pass c cur pre -> length ts = length pre ->
  let ls' := fst (lrun RNonBlocking c {| l_scan := {| s_cursor := cur; s_rest := pre ++ rest |};
                                         l_tick := tick; l_tok := tok; l_stuck := false |} ts) in
  s_cursor (l_scan ls') = cur + N.of_nat (length pre) /\ s_rest (l_scan ls') = rest /\
  l_stuck ls' = false /\ l_tok ls' = (match pre with [] => tok | _ => true end) /\
  length (literations RNonBlocking c {| l_scan := {| s_cursor := cur; s_rest := pre ++ rest |};
                                        l_tick := tick; l_tok := tok; l_stuck := false |} ts) = length pre.
Proof. exact catch_up_thm. Qed.
Print Assumptions C09_catch_up_full.

(* ---- non-vacuity -------------------------------------------------------------------------------------- *)
Definition many (n : nat) : list blob := map (fun i => BJunk (N.of_nat i)) (seq 0 n).

Example ex_250_ids_3_chunks :
  map (fun oc => (fst oc, length (snd oc))) (chunks (many 250)) = [(0, 100); (100, 100); (200, 50)]%nat.
Proof. vm_compute. reflexivity. Qed.

Definition e_plain := {| e_nf := false; e_fut := false |}.
Definition e_notfound := {| e_nf := true; e_fut := false |}.
Definition ex_cfg : cfg := {| c_stored := 3; c_start := 5; c_seen_h := [2]; c_seen_d := [] |}.
Definition ex_da : list hinfo :=
  [ {| h_blobs := [BJunk 0; BHeader 1; BData 1; BHeader 2; BEmptyData]; h_outs := [OListErr e_plain; OChunkErr 0 e_plain; OOk] |};
    {| h_blobs := []; h_outs := [OListErr e_notfound] |};
    {| h_blobs := [BData 4]; h_outs := repeat (OListErr e_plain) 11 ++ [OOk] |} ].

(* one wake-up: height 5 after two retried errors, height 6 not found, height 7 fails ten times;
   second wake-up: one more error at 7, then success; then height 8 is from the future *)
Example ex_run :
  map (fun r => (i_height r, i_classes r, i_result r, i_events r, i_next r)) (iterations ex_cfg ex_da [ISignal; ISignal]) =
  [ (5, [AError; AError; ASuccess], PNil, [EHeader 1 5; EData 1 5], 6);
    (6, [ANotFound], PNil, [], 7);
    (7, repeat AError 10, PErr, [], 7);
    (7, [AError; ASuccess], PNil, [EData 4 7], 8);
    (8, [AFuture], PFuture, [], 8) ].
Proof. vm_compute. reflexivity. Qed.

Example ex_final_cursor : s_cursor (final ex_cfg ex_da [ISignal; ISignal]) = 8.
Proof. vm_compute. reflexivity. Qed.

(* the history that crashed the scan before the fix: the metadata-less signed data is skipped, the blobs
   around it are handed over, the cursor moves on *)
Definition wit_cfg : cfg := {| c_stored := 0; c_start := 7; c_seen_h := []; c_seen_d := [] |}.
Definition wit_da : list hinfo := [ {| h_blobs := [BHeader 1; BDataNoMeta 2; BData 3]; h_outs := [OOk] |} ].
Example ex_former_crash :
  map (fun r => (i_height r, i_result r, i_events r, i_marks r, i_next r)) (iterations wit_cfg wit_da [ISignal; ISignal]) =
  [ (7, PNil, [EHeader 1 7; EData 3 7], [MHeader 1 7; MData 3 7], 8); (8, PFuture, [], [], 8); (8, PFuture, [], [], 8) ].
Proof. vm_compute. reflexivity. Qed.

(* ---- ticks during a catch-up run ---------------------------------------------------------------------- *)
Definition cu_cfg : cfg := {| c_stored := 0; c_start := 100; c_seen_h := []; c_seen_d := [] |}.
Definition cu_da : list hinfo := repeat {| h_blobs := []; h_outs := [OOk] |} 6.   (* heights 100..105 are empty *)
Definition tk (pick tick : bool) : turn := {| t_pick_tick := pick; t_tick := tick |}.
(* a tick arrives during the first iteration; at the second turn both channels are ready and select takes
   the tick, leaving the token in blobsFoundCh; the third height's re-arm finds the channel full *)
Definition cu_turns : list turn := [tk false true; tk true false; tk false false; tk false false; tk false false;
                                    tk false false; tk false false; tk false false; tk false false].

Example ex_all_pass : all_pass cu_cfg 100 cu_da.
Proof. vm_compute. repeat split. Qed.

(* the code: the re-arm after height 101 finds blobsFoundCh full and drops the signal; the cursor reaches the
   DA head 106, finds it from the future, and the loop goes back to waiting with both channels empty *)
Example ex_tick_during_catch_up :
  let '(ls, rr) := lrun RNonBlocking cu_cfg (linit cu_cfg cu_da true) cu_turns in
  (s_cursor (l_scan ls), l_tick ls, l_tok ls, l_stuck ls, map (fun r => (i_height r, i_result r)) (concat rr)) =
  (106, false, false, false,
   [(100, PNil); (101, PNil); (102, PNil); (103, PNil); (104, PNil); (105, PNil); (106, PFuture)]).
Proof. vm_compute. reflexivity. Qed.

(* NOT the code: were the re-arm a send that waits for room, the same turns leave the loop blocked for ever
   after height 101 with heights 102..105 never examined — the premise RNonBlocking of the theorems above
   is what keeps the scan alive, and the correspondence check compares it with the real loop *)
Example ex_blocking_rearm_would_stall :
  let '(ls, rr) := lrun RBlocking cu_cfg (linit cu_cfg cu_da true) cu_turns in
  (l_stuck ls, map (fun r => i_height r) (concat rr)) = (true, [100; 101]).
Proof. vm_compute. reflexivity. Qed.
