(* Props/C06.v — every committed block reaches the DA layer in order; the watermark is sound.
   Statements only; every proof is [exact <lemma of Proofs/SubmitterProofs.v>].

   Quantification: [c] = any DA block time / mempool TTL; [init] = any initial height >= 1; [hist] = any
   history over  IPublish b  (a block with / without transactions is committed),  ITick k sc  (one iteration
   of the header / data submission loop whose DA calls are answered by the outcomes sc = accept all, accept a
   prefix, not included, already in mempool, too big, error, deadline, account sequence, accepted but
   acknowledgement lost, cancel; the end of sc is the cancellation of the context, i.e. the iteration is cut
   between any two attempts),  ILoop k sc  (the loop itself),  IRestart  (new Manager on the same datastore).
   A restart between two attempts of one submitToDA call is  ITick k (first j outcomes) ; IRestart.
   Chains of any length: an idle stretch of n blocks is n items  IPublish false  (the case files of harness/c06
   write it as one run-length item, see C06_run_length_full at the end).

   NOT in Coq: that a blob decodes to exactly the committed header / signed data and verifies under the
   proposer key (blobs are abstract (kind, height) here; the Go oracle of harness/c06 checks it on the real
   bytes of every blob of every call; the codec is C12's subject). *)
From Coq Require Import NArith List Bool Sorted.
From Verif Require Import Model.Submitter Proofs.SubmitterProofs.
From Verif Require Check.SubmitterCheck.
Import ListNotations.
Open Scope N_scope.

(* relevant k s m : height m takes part in kind k's submission — every height for headers, the heights
   whose block has transactions for data (createSignedDataToSubmit elides empty data).
   resume init meta : the watermark a (re)started Manager begins with = the recorded one if there is one (not 0),
   else initial height - 1 (block/manager.go:354-361, the repair of F8; in memory only). *)

(* Safety.  At every moment of every history, for headers and for data:
   1. the in-memory watermark is exactly the one a restart would resume from: the recorded one, or — while
      nothing has been recorded yet — initial height - 1 (below which no block exists); equivalently
      max(recorded, initial - 1).  (Before the repair this read "in-memory = recorded"; that is now false
      between a boot with initial height > 1 and the first successful submission, by design of the repair.)
   2. it does not exceed the chain height;
   3. every committed relevant height up to it has its blob accepted by the DA layer (it never moves past a
      height whose blob the DA layer did not accept);
   4. the DA layer holds blobs of committed heights only, and whenever it holds height x it holds every
      committed relevant height below x (blobs reach the DA layer in height order, nothing is skipped);
   5. every submit call ever made was made with the watermark a restart would resume from, carries strictly
      increasing heights of committed blocks, all above the watermark (nothing confirmed is re-submitted), and
      omits no relevant height between the watermark and any height it carries (never skips; starts right
      above the watermark). *)
Theorem C06_watermark_sound_full : forall (c : cfg) (init : N) (hist : list item) (k : kind),
  1 <= init ->
  let s := run c init hist in
  let sd := get_side k s in
  vol sd = resume (s_init s) (meta sd) /\ vol sd = N.max (meta0 (meta sd)) (s_init s - 1) /\
  vol sd <= height s /\
  (forall m, s_init s <= m <= vol sd -> relevant k s m -> In m (acc sd)) /\
  (forall x, In x (acc sd) -> s_init s <= x <= height s /\ relevant k s x /\
             forall m, s_init s <= m < x -> relevant k s m -> In m (acc sd)) /\
  (forall cl, In cl (calls sd) ->
     c_vol cl = resume (s_init s) (c_meta cl) /\ StronglySorted N.lt (c_hs cl) /\
     forall x, In x (c_hs cl) ->
       c_vol cl < x <= height s /\ s_init s <= x /\ relevant k s x /\
       forall m, c_vol cl < m < x -> relevant k s m -> In m (c_hs cl)).
Proof. exact watermark_sound. Qed.
Print Assumptions C06_watermark_sound_full.

(* The in-memory and the recorded watermark never decrease, restarts included. *)
Theorem C06_watermark_monotone_full : forall (c : cfg) (init : N) (h1 h2 : list item) (k : kind),
  1 <= init ->
  vol (get_side k (run c init h1)) <= vol (get_side k (run c init (h1 ++ h2))) /\
  meta0 (meta (get_side k (run c init h1))) <= meta0 (meta (get_side k (run c init (h1 ++ h2)))).
Proof. exact watermark_monotone. Qed.
Print Assumptions C06_watermark_monotone_full.

(* Liveness, for ALL initial heights >= 1 (true since the repair of F8).  From every reachable state, one
   iteration against a DA layer that fails fewer than maxSubmitAttempts times (any failure kinds, accepted-but-
   acknowledgement-lost included) and then accepts the request leaves every committed relevant block on the DA
   layer and the header watermark at the chain height.  (30 or more failures: the iteration returns its error,
   the state still satisfies C06_watermark_sound_full, and the statement applies to the next iteration.) *)
Theorem C06_eventually_full : forall (c : cfg) (init : N) (hist : list item) (k : N) (fails sc : list outcome) (kd : kind),
  1 <= init ->
  forallb nonprogress fails = true -> (length fails < max_attempts)%nat ->
  let s := run c init hist in
  height s <= k ->
  let s' := fst (step c s (ITick kd (fails ++ OAccept k :: sc))) in
  (forall m, s_init s <= m <= height s -> relevant kd s m -> In m (acc (get_side kd s'))) /\
  (kd = KHeader -> vol (s_h s') = height s).
Proof. exact (fun c init hist k fails sc kd H1 => eventually_all c init H1 hist k fails sc kd). Qed.
Print Assumptions C06_eventually_full.

(* Liveness across an idle chain (an instance of C06_eventually_full, stated because it is the situation in which
   the data watermark does NOT move: it only steps on an accepted non-empty data blob).  From any reachable
   state, after an idle stretch of ANY length n (blocks without transactions) followed by a block with
   transactions, one data iteration against a DA layer that fails fewer than maxSubmitAttempts times and then
   accepts leaves the data of that block on the DA layer.  No bound on n: the pending range handed to
   createSignedDataToSubmit is the whole of (watermark, height]. *)
Theorem C06_after_idle_stretch_full : forall (c : cfg) (init : N) (hist : list item) (n : nat) (k : N) (fails sc : list outcome),
  1 <= init ->
  forallb nonprogress fails = true -> (length fails < max_attempts)%nat ->
  let s := run c init (hist ++ repeat (IPublish false) n ++ [IPublish true]) in
  height s <= k ->
  let s' := fst (step c s (ITick KData (fails ++ OAccept k :: sc))) in
  nonempty_at (s_init s) (s_chain s) (height s) = true /\
  height s = height (run c init hist) + N.of_nat n + 1 /\
  In (height s) (acc (s_d s')).
Proof. exact after_idle_stretch. Qed.
Print Assumptions C06_after_idle_stretch_full.

(* The case files of harness/c06 write a stretch of n blocks of one kind as ONE run-length item (HPublishN b n,
   Model.Submitter.hitem).  It denotes n single IPublish items, and the comparator (Check.SubmitterCheck.check_items)
   walks exactly the expanded history: the theorems above, which quantify over all [list item], cover it. *)
Theorem C06_run_length_full : forall (c : cfg) (init : N) (h : list hitem) (b : bool) (n : N),
  run c init (expand_hist (h ++ [HPublishN b n])) = run c init (expand_hist h ++ repeat (IPublish b) (N.to_nat n)).
Proof. exact publish_run_length. Qed.
Print Assumptions C06_run_length_full.

Theorem C06_comparator_runs_expansion_full : forall (c : cfg) (h : list hitem) (os : list Check.SubmitterCheck.iout) (s : state),
  length h = length os ->
  fst (Check.SubmitterCheck.check_items c s h os) = run_from c s (expand_hist h).
Proof. exact check_items_state. Qed.
Print Assumptions C06_comparator_runs_expansion_full.

(* ---- blocks committed while a DA call is in flight (Model/SubmitterConc.v) ------------------------------------ *)
(* The aggregator commits blocks while a submission iteration is under way (a DA call takes up to 60 s).  Histories
   [list citem]: the items above (CH) and  CTickP k scp  = one iteration of the k loop in which every DA answer of scp
   comes with the blocks committed between the moment that call is made and the moment its answer is processed; the
   chain is threaded through the attempt loop of submitToDA (SubmitterConc.submit_p).  [crun] runs such a history. *)
From Verif Require Import Model.SubmitterConc Proofs.SubmitterConcProofs.

(* Every history with in-flight commits reaches exactly the state of a sequential history: each such iteration acts as
   the iteration on the chain as it was when the iteration started, followed by the commits of the answers it consumed
   (nothing the code does after an answer reads the store). *)
Theorem C06_inflight_history_is_sequential_full : forall (c : cfg) (init : N) (h : list citem),
  crun c init h = run c init (cexpand c (boot init) h).
Proof. exact crun_is_run. Qed.
Print Assumptions C06_inflight_history_is_sequential_full.

(* Safety (the statement of C06_watermark_sound_full, word for word) at every moment of every history with in-flight
   commits. *)
Theorem C06_watermark_sound_inflight_full : forall (c : cfg) (init : N) (hist : list citem) (k : kind),
  1 <= init ->
  let s := crun c init hist in
  let sd := get_side k s in
  vol sd = resume (s_init s) (meta sd) /\ vol sd = N.max (meta0 (meta sd)) (s_init s - 1) /\
  vol sd <= height s /\
  (forall m, s_init s <= m <= vol sd -> relevant k s m -> In m (acc sd)) /\
  (forall x, In x (acc sd) -> s_init s <= x <= height s /\ relevant k s x /\
             forall m, s_init s <= m < x -> relevant k s m -> In m (acc sd)) /\
  (forall cl, In cl (calls sd) ->
     c_vol cl = resume (s_init s) (c_meta cl) /\ StronglySorted N.lt (c_hs cl) /\
     forall x, In x (c_hs cl) ->
       c_vol cl < x <= height s /\ s_init s <= x /\ relevant k s x /\
       forall m, c_vol cl < m < x -> relevant k s m -> In m (c_hs cl)).
Proof. exact watermark_sound_conc. Qed.
Print Assumptions C06_watermark_sound_inflight_full.

Theorem C06_watermark_monotone_inflight_full : forall (c : cfg) (init : N) (h1 h2 : list citem) (k : kind),
  1 <= init ->
  vol (get_side k (crun c init h1)) <= vol (get_side k (crun c init (h1 ++ h2))) /\
  meta0 (meta (get_side k (crun c init h1))) <= meta0 (meta (get_side k (crun c init (h1 ++ h2)))).
Proof. exact watermark_monotone_conc. Qed.
Print Assumptions C06_watermark_monotone_inflight_full.

(* The point of it.  From any reachable state s: after an iteration of the k loop during which blocks were committed,
   the k watermark (in memory and recorded) is at most the chain height the iteration STARTED from, and so is every
   height it put on the DA layer — a block committed after the batch was built is never stepped over; it is pending
   for the next iteration (C06_eventually_inflight_full). *)
Theorem C06_inflight_block_not_stepped_over_full : forall (c : cfg) (init : N) (h : list citem) (k : kind) (scp : pscript),
  1 <= init ->
  let s := crun c init h in
  let s' := cstep_state c s (CTickP k scp) in
  vol (get_side k s') <= height s /\ meta0 (meta (get_side k s')) <= height s /\
  (forall x, In x (acc (get_side k s')) -> x <= height s) /\
  height s <= height s'.
Proof. exact inflight_not_stepped_over. Qed.
Print Assumptions C06_inflight_block_not_stepped_over_full.

(* Liveness from every state reachable with in-flight commits (the statement of C06_eventually_full). *)
Theorem C06_eventually_inflight_full : forall (c : cfg) (init : N) (h : list citem) (k : N) (fails sc : list outcome) (kd : kind),
  1 <= init ->
  forallb nonprogress fails = true -> (length fails < max_attempts)%nat ->
  let s := crun c init h in
  height s <= k ->
  let s' := fst (step c s (ITick kd (fails ++ OAccept k :: sc))) in
  (forall m, s_init s <= m <= height s -> relevant kd s m -> In m (acc (get_side kd s'))) /\
  (kd = KHeader -> vol (s_h s') = height s).
Proof. exact eventually_conc. Qed.
Print Assumptions C06_eventually_inflight_full.

(* ---- the loops keep retrying ------------------------------------------------------------------------------------ *)
(* HeaderSubmissionLoop / DataSubmissionLoop go round until their context ends.  For EVERY script of DA answers sc —
   failures of every kind, accepted-but-acknowledgement-lost, and "cancelled" answers (context.Canceled / the DA
   sentinel coming back from the DA node while the node's own context is alive) anywhere in it: when the loop has run,
   either it has asked for every answer of sc (the script's end is the end of its context), or every committed relevant
   block is on the DA layer.  It never sits on pending work while the DA layer still answers.  [loop_left] = the
   answers not asked for; the harness compares its length with what the DA double has left. *)
Theorem C06_loop_retries_until_context_ends_full : forall (c : cfg) (init : N) (h : list citem) (kd : kind) (sc : list outcome),
  1 <= init ->
  let s := crun c init h in
  let s' := fst (step c s (ILoop kd sc)) in
  loop_left c s kd sc = [] \/
  (forall m, s_init s <= m <= height s -> relevant kd s m -> In m (acc (get_side kd s'))).
Proof. exact loop_retries_conc. Qed.
Print Assumptions C06_loop_retries_until_context_ends_full.

(* the instance the wording of the property names: a "cancelled" answer, then a DA layer that accepts *)
Theorem C06_loop_survives_cancelled_answer_full : forall (c : cfg) (init : N) (hist : list item) (kd : kind) (b : bool) (k : N) (sc : list outcome),
  1 <= init ->
  let s := run c init hist in
  height s <= k ->
  let s' := fst (step c s (ILoop kd (OCancel b :: OAccept k :: sc))) in
  forall m, s_init s <= m <= height s -> relevant kd s m -> In m (acc (get_side kd s')).
Proof. exact loop_survives_cancel. Qed.
Print Assumptions C06_loop_survives_cancelled_answer_full.

(* the comparator (Check.SubmitterCheck.check_citems, what [mismatches] evaluates) ends in — and compares the
   observations item by item against — the states of [crun_from] *)
Theorem C06_comparator_walks_history_full : forall (c : cfg) (h : list citem) (os : list Check.SubmitterCheck.iout) (s : state),
  length h = length os ->
  fst (Check.SubmitterCheck.check_citems c s h os) = crun_from c s h.
Proof. exact check_citems_state. Qed.
Print Assumptions C06_comparator_walks_history_full.

(* ---- non-vacuity ------------------------------------------------------------------------------------ *)
Definition cf := {| c_bt := 1000; c_ttl := 2 |}.

(* initial height 1: five blocks (the 1st and 4th empty); header iteration: failure, acknowledgement lost for
   2 blobs, 1 of 3 accepted, cancellation (= cut between attempts); restart; data iteration with a prefix
   accepted; the header loop itself; two more blocks; a closing accepting iteration of each kind *)
Definition ex_hist : list item :=
  [ IPublish false; IPublish true; IPublish true; IPublish false; IPublish true;
    ITick KHeader [OFail FNotIncluded; OAckLost 2 FErr; OAccept 1];
    IRestart;
    ITick KData [OFail FTooBig; OAccept 1; OCancel true];
    ILoop KHeader [OAccept 2; OFail FInMempool; OAccept 1000];
    IPublish true; IPublish false;
    ITick KHeader [OAccept 1000]; ITick KData [OAccept 1000] ].

Example ex_state :
  let s := run cf 1 ex_hist in
  height s = 7 /\
  vol (s_h s) = 7 /\ meta (s_h s) = Some 7 /\ rev (acc (s_h s)) = [1; 2; 1; 2; 3; 4; 5; 6; 7] /\
  vol (s_d s) = 6 /\ meta (s_d s) = Some 6 /\ rev (acc (s_d s)) = [2; 3; 5; 6] /\
  map c_hs (rev (calls (s_h s))) = [[1;2;3;4;5]; [1;2;3;4;5]; [1;2;3;4;5]; [2;3;4;5]; [4;5]; [4;5]; [6;7]] /\
  map c_hs (rev (calls (s_d s))) = [[2;3;5]; [2;3;5]; [3;5]; [3;5;6]].
Proof. vm_compute. repeat split; try reflexivity; try discriminate. Qed.

(* the hypotheses of C06_eventually_full are met: 29 failures then acceptance, from a reachable state *)
Example ex_eventually :
  let s := run cf 1 (firstn 8 ex_hist) in
  let fails := repeat (OFail FDeadline) 14 ++ repeat (OAckLost 1 FNotIncluded) 15 in
  forallb nonprogress fails = true /\ (length fails < max_attempts)%nat /\ height s <= 5 /\
  let s' := fst (step cf s (ITick KHeader (fails ++ [OAccept 5]))) in
  vol (s_h s) = 1 /\ vol (s_h s') = 5 /\ snd (step cf s (ITick KHeader (fails ++ [OAccept 5]))) = (RDone, 881500).
Proof. vm_compute. repeat split; try reflexivity; try discriminate. Qed.

(* 30 failures: the iteration gives up with its error and the watermark stays *)
Example ex_exhausted :
  let s := run cf 1 (firstn 5 ex_hist) in
  fst (snd (step cf s (ITick KHeader (repeat (OFail FErr) 30 ++ [OAccept 1000])))) = RExhausted /\
  vol (s_h (fst (step cf s (ITick KHeader (repeat (OFail FErr) 30 ++ [OAccept 1000]))))) = 0.
Proof. vm_compute. repeat split; try reflexivity; try discriminate. Qed.

(* initial height 7: boot, restart before anything is recorded, submission, restart after *)
Example ex_initial_7 :
  let s0 := run cf 7 [IPublish false; IPublish true; IRestart] in
  height s0 = 8 /\ vol (s_h s0) = 6 /\ meta (s_h s0) = None /\
  let s1 := run cf 7 [IPublish false; IPublish true; IRestart; ITick KHeader [OAccept 1]; IRestart;
                      ITick KHeader [OFail FErr; OAccept 1000]; ITick KData [OAccept 1000]; IRestart] in
  vol (s_h s1) = 8 /\ meta (s_h s1) = Some 8 /\ rev (acc (s_h s1)) = [7; 8] /\
  map c_hs (rev (calls (s_h s1))) = [[7; 8]; [8]; [8]] /\
  vol (s_d s1) = 8 /\ rev (acc (s_d s1)) = [8].
Proof. vm_compute. repeat split; try reflexivity; try discriminate. Qed.

(* before the repair (F8): the watermark of a fresh Manager was 0 whatever the initial height; with initial
   height 2 and one block getPending then asks for height 1, which does not exist, and fails — on every
   iteration, so nothing was ever submitted.  With the repaired start value it returns the committed block. *)
Example before_the_repair_getpending_fails :
  pending_range 2 2 0 = None /\ pending_range 7 9 0 = None /\
  pending_range 2 2 (resume 2 None) = Some [2] /\ pending_range 7 9 (resume 7 None) = Some [7; 8; 9] /\
  resume 1 None = 0 /\ resume 7 (Some 8) = 8.
Proof. vm_compute. repeat split; reflexivity. Qed.

(* an idle chain: one block with transactions on the DA layer, then 300 blocks without, then a block with
   transactions (height 302).  The data watermark is still 1; the pending range of the data iteration is the whole
   of 2..302, the one non-empty block is found and submitted; the header iteration after a DA outage (3 failures)
   carries all 301 pending headers in every call.  Hypotheses of C06_after_idle_stretch_full met with n = 300. *)
Example ex_idle_stretch :
  let h0 := [IPublish true; ITick KHeader [OAccept 1000]; ITick KData [OAccept 1000]] in
  let s := run cf 1 (h0 ++ repeat (IPublish false) 300 ++ [IPublish true]) in
  s = run cf 1 (expand_hist (map HI h0 ++ [HPublishN false 300; HI (IPublish true)])) /\
  height s = 302 /\ vol (s_d s) = 1 /\ vol (s_h s) = 1 /\
  pending_range 1 302 (vol (s_d s)) = Some (seqN 2 301) /\
  let sd := fst (step cf s (ITick KData [OFail FErr; OAccept 302])) in
  map c_hs (firstn 2 (calls (s_d sd))) = [[302]; [302]] /\ vol (s_d sd) = 302 /\ meta (s_d sd) = Some 302 /\
  let sh := fst (step cf s (ITick KHeader [OFail FErr; OFail FNotIncluded; OFail FDeadline; OAccept 302])) in
  map (fun cl => length (c_hs cl)) (firstn 4 (calls (s_h sh))) = [301; 301; 301; 301]%nat /\ vol (s_h sh) = 302.
Proof. vm_compute. repeat split; try reflexivity; try discriminate. Qed.

(* in-flight commit: blocks 1 (txs) 2 (empty) 3 (txs); a data iteration whose first DA call fails and whose second is
   accepted; while the first is in flight block 4 (txs) is committed, while the second is in flight block 5 (empty) and
   block 6 (txs).  The batch is [1;3] in both calls; afterwards the data watermark is 3 — not 4, not 6 —, the chain
   height 6, and the next accepting iteration carries exactly [4;6]. *)
Example ex_inflight :
  let h := [CH (HI (IPublish true)); CH (HI (IPublish false)); CH (HI (IPublish true));
            CTickP KData [(OFail FErr, [true]); (OAccept 1000, [false; true]); (OAccept 1000, [true])]] in
  let s := crun cf 1 h in
  height s = 6 /\ s_chain s = [true; false; true; true; false; true] /\
  vol (s_d s) = 3 /\ meta (s_d s) = Some 3 /\ rev (acc (s_d s)) = [1; 3] /\
  map c_hs (rev (calls (s_d s))) = [[1; 3]; [1; 3]] /\
  cexpand cf (boot 1) h = [IPublish true; IPublish false; IPublish true;
                           ITick KData [OFail FErr; OAccept 1000; OAccept 1000]; IPublish true; IPublish false; IPublish true] /\
  let s2 := fst (step cf s (ITick KData [OAccept 1000])) in
  map c_hs (firstn 1 (calls (s_d s2))) = [[4; 6]] /\ vol (s_d s2) = 6 /\ rev (acc (s_d s2)) = [1; 3; 4; 6].
Proof. vm_compute. repeat split; try reflexivity; try discriminate. Qed.

(* the loop and a "cancelled" answer: three headers pending; the DA answers: error, cancelled (sentinel), cancelled,
   accept.  Four calls, all with [1;2;3]; nothing of the script is left; watermark 3.  With nothing pending the loop
   leaves its script untouched. *)
Example ex_loop_cancel :
  let s := run cf 1 [IPublish true; IPublish false; IPublish true] in
  let sc := [OFail FErr; OCancel true; OCancel false; OAccept 1000] in
  let s' := fst (step cf s (ILoop KHeader sc)) in
  loop_left cf s KHeader sc = [] /\ vol (s_h s') = 3 /\
  map c_hs (rev (calls (s_h s'))) = [[1; 2; 3]; [1; 2; 3]; [1; 2; 3]; [1; 2; 3]] /\
  loop_left cf s' KHeader sc = sc /\
  loop_left cf s KData [OCancel false; OAccept 1000; OFail FErr] = [OFail FErr].
Proof. vm_compute. repeat split; try reflexivity; try discriminate. Qed.

(* FROM TRANSLATED CODE.  The recorded last-submitted height never decreases: pendingBase.setLastSubmittedHeight,
   translated from /repo's source on every run (Check/GoLiteFiles.v), for ALL current and new heights replaces the
   in-memory watermark iff the new height is GREATER, and only then writes that same height to the store (a failing
   store write is logged and changes nothing else). *)
From Verif Require Check.GoLiteFiles Model.GoLite.
From Coq Require String.
Theorem C06_translated_watermark_only_moves_up_full : forall cur new key put_ok,
  GoLiteFiles.run_calls [(GoLiteFiles.le_name, GoLite.VUnit)] GoLiteFiles.set_name
                        (Some (GoLiteFiles.pb_v cur key put_ok)) [GoLiteFiles.ctx; GoLite.VN new]
  = Some (GoLiteFiles.watermark_expect cur new key).
Proof. exact GoLiteFiles.go_setLastSubmittedHeight. Qed.
Print Assumptions C06_translated_watermark_only_moves_up_full.

(* REFINEMENT FROM TRANSLATED CODE.  [submit] is what the retry loop of submitToDA does — the Go loop itself
   (block/submitter.go), translated from /repo's source on every run as ONE ITERATION over the loop's locals and
   evaluated by Model/GoLite.v with the DA helper, the postSubmit callback and the timer as scripted collaborators
   (Check/GoLiteSubmitLoop.v: [go_submitToDA_iter], for ALL locals, configurations and helper answers).  [submit_unfold]:
   one unfolding of [submit] is [model_attempt]; and for EVERY state of the model's loop the translated iteration does
   what [model_attempt] says: on a success with count c, postSubmit receives exactly the first c remaining items and
   exactly these leave `remaining` (finished iff c is all of them, backoff 0); on any other answer nothing is marked and
   nothing dropped, with the model's next backoff; a cancellation returns nil. *)
From Verif Require Proofs.GoLiteSubmitLoopRefine Check.GoLiteSubmitLoop.
From Coq Require Import ZArith.
Theorem C06_submit_unfolds_to_attempt_full : forall c f b rem o sc sd el,
  submit c (S f) b rem (o :: sc) sd el =
  let n := N.of_nat (length rem) in
  let sd1 := log_call rem o sd in
  let el' := (el + b + call_cost o)%N in
  match GoLiteSubmitLoopRefine.model_attempt c b rem o with
  | GoLiteSubmitLoopRefine.ADone marked => (set_last (last_height marked) sd1, sc, RDone, el')
  | GoLiteSubmitLoopRefine.AGoOn b' rem' marked =>
      submit c f b' rem' sc (match marked with Some l => set_last (last_height l) sd1 | None => sd1 end) el'
  | GoLiteSubmitLoopRefine.ACancelled => (sd1, sc, RCancelled, el')
  end.
Proof. exact GoLiteSubmitLoopRefine.submit_unfold. Qed.
Print Assumptions C06_submit_unfolds_to_attempt_full.

Theorem C06_translated_loop_iteration_refines_submit_full : forall (c : cfg) (f : nat) (b done : N) (rem : list N) (o : outcome),
  (f < 30)%nat ->
  exists x, GoLiteSubmitLoop.run_iter (GoLiteSubmitLoopRefine.lworld_of c (S f) b done rem o) = Some x /\
    let n := N.of_nat (length rem) in
    match GoLiteSubmitLoopRefine.model_attempt c b rem o with
    | GoLiteSubmitLoopRefine.ADone marked =>
        GoLiteSubmitLoopRefine.post_segment x = Some (done, done + N.of_nat (length marked)) /\
        GoLiteSubmitLoopRefine.next_locals x = Some (true, 0%Z, done + n, done + n)
    | GoLiteSubmitLoopRefine.AGoOn b' rem' marked =>
        GoLiteSubmitLoopRefine.post_segment x = option_map (fun l => (done, done + N.of_nat (length l))) marked /\
        GoLiteSubmitLoopRefine.next_locals x = Some (false, Z.of_N b', done + (n - N.of_nat (length rem')), done + n)
    | GoLiteSubmitLoopRefine.ACancelled =>
        GoLiteSubmitLoopRefine.returned_nil x = true /\ GoLiteSubmitLoopRefine.post_segment x = None
    end.
Proof. exact GoLiteSubmitLoopRefine.translated_iter_refines_submit. Qed.
Print Assumptions C06_translated_loop_iteration_refines_submit_full.

(* THE WHOLE LOOP.  [code_submit] runs the translated iteration again and again, reading off the code's own observation
   what happened (nil returned? which items did postSubmit receive? which remain? which backoff?); for every
   configuration, every number of attempts left up to maxSubmitAttempts, every backoff, every list of heights, every
   script of DA answers, every side and clock it is Submitter.submit — result, side, unconsumed script and time. *)
Theorem C06_translated_retry_loop_is_submit_full : forall c fuel b done rem sc sd el,
  (fuel <= 30)%nat ->
  GoLiteSubmitLoopRefine.code_submit c fuel b done rem sc sd el = submit c fuel b rem sc sd el.
Proof. exact GoLiteSubmitLoopRefine.code_submit_is_submit. Qed.
Print Assumptions C06_translated_retry_loop_is_submit_full.

(* ---- THE SECOND WRITER OF THE DATA WATERMARK: block production's numWaitingData (Model/SubmitterWaiting.v) ------- *)
(* The last-submitted-data height is written by the data submission loop AND by block production: publishBlockInternal's
   pending-limit check (MaxPendingHeadersAndData = L reached) calls PendingData.numWaitingData, which reads the pending
   range and steps the watermark over the items without transactions it meets before the first one with transactions
   (to the height each fetched item carries).  Histories [list witem]: everything above (WC) and  WPublish L b qs  = one
   call of publishBlockInternal under the limit L in which, after numWaitingData has read the pending range and before
   its loop examines the k-th item, the data submission loop runs the iterations qs[k] (any DA answers: acceptance of
   a prefix, failures, cancellation); then, unless refused, the block is committed.  [wrun] runs such a history. *)
From Verif Require Import Model.SubmitterWaiting Proofs.SubmitterWaitingProofs.

(* histories without the new item are exactly the histories with in-flight commits *)
Theorem C06_two_writers_extends_inflight_full : forall (c : cfg) (init : N) (h : list citem),
  wrun c init (map WC h) = crun c init h.
Proof. exact (fun c init h => wrun_from_WC c h (boot init)). Qed.
Print Assumptions C06_two_writers_extends_inflight_full.

(* Safety (the statement of C06_watermark_sound_full, word for word) at every moment of every history in which the two
   writers of the data watermark interleave in any of these ways. *)
Theorem C06_watermark_sound_two_writers_full : forall (c : cfg) (init : N) (hist : list witem) (k : kind),
  1 <= init ->
  let s := wrun c init hist in
  let sd := get_side k s in
  vol sd = resume (s_init s) (meta sd) /\ vol sd = N.max (meta0 (meta sd)) (s_init s - 1) /\
  vol sd <= height s /\
  (forall m, s_init s <= m <= vol sd -> relevant k s m -> In m (acc sd)) /\
  (forall x, In x (acc sd) -> s_init s <= x <= height s /\ relevant k s x /\
             forall m, s_init s <= m < x -> relevant k s m -> In m (acc sd)) /\
  (forall cl, In cl (calls sd) ->
     c_vol cl = resume (s_init s) (c_meta cl) /\ StronglySorted N.lt (c_hs cl) /\
     forall x, In x (c_hs cl) ->
       c_vol cl < x <= height s /\ s_init s <= x /\ relevant k s x /\
       forall m, c_vol cl < m < x -> relevant k s m -> In m (c_hs cl)).
Proof. exact watermark_sound_waiting. Qed.
Print Assumptions C06_watermark_sound_two_writers_full.

Theorem C06_watermark_monotone_two_writers_full : forall (c : cfg) (init : N) (h1 h2 : list witem) (k : kind),
  1 <= init ->
  vol (get_side k (wrun c init h1)) <= vol (get_side k (wrun c init (h1 ++ h2))) /\
  meta0 (meta (get_side k (wrun c init h1))) <= meta0 (meta (get_side k (wrun c init (h1 ++ h2)))).
Proof. exact watermark_monotone_waiting. Qed.
Print Assumptions C06_watermark_monotone_two_writers_full.

(* Liveness (C06_eventually_full word for word) from every state reachable with both writers: what block production
   stepped over is never something that still had to be submitted. *)
Theorem C06_eventually_two_writers_full : forall (c : cfg) (init : N) (hist : list witem) (k : N) (fails sc : list outcome) (kd : kind),
  1 <= init ->
  forallb nonprogress fails = true -> (length fails < max_attempts)%nat ->
  let s := wrun c init hist in
  height s <= k ->
  let s' := fst (step c s (ITick kd (fails ++ OAccept k :: sc))) in
  (forall m, s_init s <= m <= height s -> relevant kd s m -> In m (acc (get_side kd s'))) /\
  (kd = KHeader -> vol (s_h s') = height s).
Proof. exact (fun c init hist k fails sc kd H1 => eventually_waiting c init hist k fails sc kd H1). Qed.
Print Assumptions C06_eventually_two_writers_full.

(* One call of publishBlockInternal, whatever the data submission loop does inside the check: the data watermark it leaves
   (in memory and recorded) is at most the chain height BEFORE the call (never the height of the block being committed,
   never above the store), every committed block with transactions up to it has its data on the DA layer, and the
   header side is untouched. *)
Theorem C06_limit_check_steps_over_accepted_only_full : forall (c : cfg) (init : N) (h : list witem) (L : N) (b : bool) (qs : wsched),
  1 <= init ->
  let s := wrun c init h in
  let s' := wstep c s (WPublish L b qs) in
  vol (s_d s') <= height s /\ meta0 (meta (s_d s')) <= height s /\
  (forall m, s_init s <= m <= vol (s_d s') -> nonempty_at (s_init s) (s_chain s) m = true -> In m (acc (s_d s'))) /\
  vol (s_h s') = vol (s_h s) /\ meta (s_h s') = meta (s_h s) /\ acc (s_h s') = acc (s_h s).
Proof. exact publish_steps_over_accepted_only. Qed.
Print Assumptions C06_limit_check_steps_over_accepted_only_full.

Theorem C06_comparator_walks_two_writer_history_full : forall (c : cfg) (h : list witem) (os : list Check.SubmitterCheck.iout) (s : state),
  length h = length os ->
  fst (Check.SubmitterCheck.check_witems c s h os) = wrun_from c s h.
Proof. exact check_witems_state. Qed.
Print Assumptions C06_comparator_walks_two_writer_history_full.

(* Non-vacuity: limit 3; heights 1 (no transactions), 2, 3 (transactions), headers submitted, no data submitted.  The
   fourth publishBlockInternal reaches the limit (3 data items pending) and calls numWaitingData, which reads (1,2,3);
   then the data loop submits data 2 and 3, the DA layer accepts data 2 only and the round ends: watermark 2; then
   numWaitingData's loop: item 1 has no transactions, setLastSubmittedDataHeight(1) changes nothing (2 > 1); two items
   wait, fewer than 3: the block (height 4) is committed.  Data watermark 2, data 3 still to be submitted — and the next
   accepting iteration submits exactly [3].  (The mutation "one update for the run of leading empty items, first height
   re-read after the range" would give watermark 3 here.)  Sequentially (no iteration inside) the check steps over
   height 1.  With limit 2 the same call is refused and commits nothing. *)
Example ex_two_writers :
  let pre := [WPublish 3 false []; WC (CH (HI (ITick KHeader [OAccept 1000])));
              WPublish 3 true []; WC (CH (HI (ITick KHeader [OAccept 1000])));
              WPublish 3 true []; WC (CH (HI (ITick KHeader [OAccept 1000])))] in
  let s0 := wrun cf 1 pre in
  height s0 = 3 /\ vol (s_d s0) = 0 /\
  let '(called, refused, s1) := limit_check cf 3 [[[OAccept 1]]] s0 in
  called = true /\ refused = false /\ vol (s_d s1) = 2 /\ meta (s_d s1) = Some 2 /\ rev (acc (s_d s1)) = [2] /\
  let s2 := wstep cf s0 (WPublish 3 true [[[OAccept 1]]]) in
  height s2 = 4 /\ vol (s_d s2) = 2 /\
  let s3 := fst (step cf s2 (ITick KData [OAccept 1000])) in
  map c_hs (firstn 1 (calls (s_d s3))) = [[3; 4]] /\ rev (acc (s_d s3)) = [2; 3; 4] /\
  vol (s_d (wstep cf s0 (WPublish 3 true []))) = 1 /\
  let '(called2, refused2, s4) := limit_check cf 2 [] s0 in
  called2 = true /\ refused2 = true /\ height (wstep cf s0 (WPublish 2 true [])) = 3.
Proof. vm_compute. repeat split; try reflexivity; try discriminate. Qed.

(* ---- createSignedDataToSubmit TRANSLATED FROM THE SOURCE (Check/GoLiteSignedData.v, regenerated on every run) -----
   The walk over the pending data with the code's own body keeps exactly the pending heights that carry
   transactions, in order, one signed item each (the `filter f r` of tick_side), and never leaves the function when
   signing succeeds. *)
From Verif Require Check.GoLiteSignedData Proofs.GoLiteSignedDataRefine.
Theorem C06_translated_signed_data_walk_is_filter_full : forall (f : N -> bool) (hs : list N) (acc : list GoLite.gval),
  GoLiteSignedDataRefine.code_walk f acc hs = (false, acc ++ map GoLiteSignedDataRefine.item_of (filter f hs)).
Proof. exact GoLiteSignedDataRefine.code_walk_is_filter. Qed.
Print Assumptions C06_translated_signed_data_walk_is_filter_full.

Theorem C06_translated_submitted_data_heights_full : forall (f : N -> bool) (hs : list N),
  flat_map GoLiteSignedDataRefine.height_of (snd (GoLiteSignedDataRefine.code_walk f [] hs)) = filter f hs.
Proof. exact GoLiteSignedDataRefine.submitted_heights_are_the_nonempty_ones. Qed.
Print Assumptions C06_translated_submitted_data_heights_full.
