(* Props/C11.v — no transaction taken from the mempool is lost on its way into the chain.
   Statements only; every proof is [exact <lemma of Proofs/ReaperProofs.v>].
   Histories (Model/Reaper.v): a transaction arrives in the mempool (any bytes, repeats included) | boot | reap |
   produce at a clock reading | the process dies inside a boot / reap / produce after k of its datastore writes
   (every write boundary; with or without the ExecuteTxs call that follows the last durable write) | write attempt
   number k of a boot / reap / produce returns an error once and the process lives on (a transient datastore fault at
   EVERY write of every action: IFault) | a produce step whose ExecuteTxs call returns an error (IExecFail: a
   transient failure of the execution layer, the process lives on) | a produce step DURING which a complete reap runs,
   after any number of the step's acts (IMid: reaper loop and aggregation loop are concurrent goroutines).
   Queue-full refusals are the reaps that find the queue at its bound [max]; bursts of any length are histories.
   All the theorems over histories below quantify over these items too (an IExecFail / IMid item is neither a crash
   nor a write fault: C11_no_dup_full covers them).

   The property AS WORDED is false of the code (C11_no_loss_clock_refuted, C11_no_loss_crash_refuted,
   C11_no_loss_fault_refuted: defects of block/manager.go, listed as known findings).  What holds:
     C11_no_loss_partial            no loss, for every history — crashes AND write faults included — in which no batch
                                    is handed out without its block being saved in the same action (the guard
                                    [safe_hist] = none of the three defects occurs)
     C11_cursor_fault_harmless_full a failed LastBatchData (cursor) write changes nothing: the block is built from the
                                    batch in hand all the same
     C11_order_full                 release order, for EVERY history
     C11_no_dup_full                nothing twice without crashes, for EVERY crash-free and fault-free history
     C11_refused_handoff_full       a refused hand-off marks nothing seen (it is retried by the next reap)
     C11_queue_is_C10_spec_full     the model's queue steps are the FIFO specification C10 proves of the real queue
     C11_handout_whole_full         a produce step that takes a batch takes ALL of it, whatever it holds (no size limit:
                                    GetNextBatchRequest.MaxBytes is not honoured by the single sequencer), deletes its
                                    record and — clock permitting — commits a block holding exactly that batch
     C11_restart_keeps_queue_full   a clean restart rebuilds the queue from its records and touches nothing else
     C11_exec_failure_retried_full  a produce step whose ExecuteTxs fails has saved the block built from the batch it
                                    took; the next produce step commits exactly that block
     C11_concurrent_reap_same_block_full  a reap running in the middle of a produce step changes nothing of what the
                                    step takes, builds, executes and commits
   Under the pending-submission limit (Model/ReaperLimit.v: MaxPendingHeadersAndData = lim, the two DA watermarks moved
   independently by the header and the data submission loop), at the end of this file:
     C11_backpressure_takes_nothing_full  a produce step refused by the limit takes NOTHING from the sequencer: no queue
                                    record is deleted, nothing is released, the queue is what it was
     C11_backpressure_lifts_full    once the DA layer has accepted everything the refusal is over, the node untouched
     C11_no_limit_is_base_full      limit 0 never refuses; a step that is not refused is the step of Model/Reaper.v
     C11_no_loss_limit_partial / C11_order_limit_full / C11_no_dup_limit_full   the three theorems over histories, for
                                    every limit and every history with watermark moves at any point *)
From Coq Require Import NArith ZArith List Bool.
From Verif Require Import Model.Reaper Proofs.ReaperProofs Model.ReaperLimit Proofs.ReaperLimitProofs.
Import ListNotations.
Arguments IArrive t%N.
Arguments lostb t%N s.

(* For every queue bound, genesis time and history inside the guard: every transaction GetTxs ever returned is in
   a block record, or in the queue, or still in the mempool and not marked seen (so the next reap offers it
   again); and once nothing is in flight (node up, queue empty, no block above the store height, nothing unseen in
   the mempool) every such transaction is in a committed block.  Crashes at every other write boundary, refusals of
   any length and repeated bytes are all inside the guard, and so is a write fault at every write but one: the
   Put of a hand-off (refused: nothing marked), a seen mark (logged: the others are made), the queue Delete (printed:
   the batch is handed out, its record stays and is loaded again by the next start-up), the LastBatchData cursor
   write (logged: the block is built), the final block save / the state write (error: the early-saved block is
   re-used by the next step), the store-height write (error: the running node then refuses to produce — its state
   is above the store height — until it is restarted; nothing is lost), the writes of a start-up (it fails).
   MISSING for _full: histories in which a non-empty batch is taken with a clock reading before the last block's
   time, the process dies after the queue delete and before the early block save, or the early block save itself
   fails after the queue delete (the three refuted cases; [safe_hist] also excludes — conservatively — a regressed
   clock reading together with a failed queue Delete, where the batch survives in its stale record).
   NOT PROVED: that a quiescent state is always reached (the harness drains every history and its oracle reports a
   history that does not quiesce). *)
Theorem C11_no_loss_partial : forall (max : N) (gt : Z) (h : list item),
  safe_hist max gt st0 h = true ->
  let s := final max gt h in
  (forall t, In t (taken s) ->
     In t (concat (block_txs s)) \/ In t (concat (queue s)) \/ (In t (mem s) /\ memb t (seen s) = false)) /\
  (quiescedb s = true -> forall t, In t (taken s) -> In t (concat (committed s))).
Proof. exact no_loss_partial. Qed.
Print Assumptions C11_no_loss_partial.

(* For EVERY history (no guard): the non-empty committed blocks are released batches, in release order
   (a subsequence: a released batch may be missing — that is the loss above — but never out of order, repeated or
   invented); inside the guard the non-empty block records are exactly the released batches. *)
Theorem C11_order_full : forall (max : N) (gt : Z) (h : list item),
  let s := final max gt h in
  Subseq (filter nonempty (committed s)) (released s) /\
  (safe_hist max gt st0 h = true -> filter nonempty (block_txs s) = released s).
Proof. exact order_full. Qed.
Print Assumptions C11_order_full.

(* For EVERY crash-free history (restarts, refusals, clock regressions and repeated bytes allowed): no transaction
   occurs twice in the block records — neither in two blocks nor twice in one.  The property words this clause "in
   the absence of crashes"; a write fault is not a crash, but it leaves the traces of one (a hand-off whose mark is
   missing, a handed-out batch whose record stays), so the clause is stated for histories with neither. *)
Theorem C11_no_dup_full : forall (max : N) (gt : Z) (h : list item),
  crash_free h = true -> fault_free h = true -> NoDup (concat (block_txs (final max gt h))).
Proof. exact no_dup_chain_full. Qed.
Print Assumptions C11_no_dup_full.

(* In every state (running or not, any history behind it): if write attempt k of a produce step is the
   SetMetadata(LastBatchDataKey) of retrieveBatch — the bookkeeping write that follows GetNextBatch — then the step in
   which that attempt FAILS leaves exactly the state, and has exactly the result, of the step without a fault: the
   batch taken from the sequencer is built into the block. *)
Theorem C11_cursor_fault_harmless_full : forall (max : N) (gt : Z) (s : st) (ts : Z) (k : nat),
  nth_error (writes_of (fst (acts_of max gt s (AProduce ts)))) k = Some WMeta ->
  step max gt s (IFault (AProduce ts) k) = step max gt s (IRun (AProduce ts)) /\
  fst (observe max gt s (IFault (AProduce ts) k)) = fst (observe max gt s (IRun (AProduce ts))).
Proof. exact cursor_fault_harmless. Qed.
Print Assumptions C11_cursor_fault_harmless_full.

(* A hand-off refused by a full queue changes nothing but the ghost [taken]: no transaction is marked seen. *)
Theorem C11_refused_handoff_full : forall (max : N) (gt : Z) (s : st),
  up s = true -> full max (queue s) = true ->
  step max gt s (IRun AReap) = set_taken (taken s ++ mem s) s.
Proof. exact refused_no_trace. Qed.
Print Assumptions C11_refused_handoff_full.

(* The queue of this model is the FIFO specification of C10: under any encoding of transaction lists as the content
   ids of Model/Queue.v, acceptance / refusal at the bound / hand-out of the head are the steps [s_step] of the
   specification that C10_fifo_full proves the real single-sequencer queue to refine (restarts and crashes included). *)
Theorem C11_queue_is_C10_spec_full : forall (enc : batch -> Verif.Model.Queue.batch) (max : N) (q : list batch),
  (forall b, Verif.Model.Queue.s_step max (map enc q) (Verif.Model.Queue.USubmit true (Verif.Model.Queue.UB (enc b))) =
     if full max q then (map enc q, Verif.Model.Queue.RFull) else (map enc (q ++ [b]), Verif.Model.Queue.ROk)) /\
  Verif.Model.Queue.s_step max (map enc q) (Verif.Model.Queue.UNext true) =
    match q with
    | [] => (map enc q, Verif.Model.Queue.REmpty)
    | b :: r => (map enc r, Verif.Model.Queue.RBatch (enc b))
    end.
Proof. exact (fun enc max q => conj (queue_submit_is_C10 enc max q) (queue_next_is_C10 enc max q)). Qed.
Print Assumptions C11_queue_is_C10_spec_full.

(* In every state of a running node with a batch [b] at the head of the queue, no pending block and a readable last
   header: the produce step hands out the WHOLE of [b] — [b] is any list of transactions, the model has no notion of
   their size or number, as queue.go Next has none — deletes its record (one WQDel of all of [b]; nothing is put
   back: no WQPut among the writes), and, unless the clock reading is before the last block's time (the refuted
   case above), saves and commits a block of the next height holding exactly [b].  Tied to the code by the harness on
   hand-offs whose total size is just under / at / just over 1 500 000 bytes and other byte limits a size-aware
   hand-out could use, followed by restarts and crashes between the block that took the batch and the next one. *)
Theorem C11_handout_whole_full : forall (max : N) (gt : Z) (s : st) (ts : Z) (b : batch) (q : list batch) (lt : option Z),
  up s = true -> queue s = b :: q -> nth_error (blocks s) (th s) = None -> last_time s = Some lt ->
  let s' := step max gt s (IRun (AProduce ts)) in
  queue s' = q /\ stale s' = stale s /\ released s' = released s ++ [b] /\
  writes_of (item_acts max gt s (IRun (AProduce ts))) =
    (if before ts lt then [WQDel b; WMeta]
     else [WQDel b; WMeta; WBlock (S (th s)) b ts false; WBlock (S (th s)) b ts true; WState (S (th s)); WHeight (S (th s))]) /\
  (before ts lt = false ->
     blocks s' = blocks s ++ [{| b_txs := b; b_time := ts; b_signed := true |}] /\ th s' = S (th s) /\ sh s' = S (th s) /\
     fst (observe max gt s (IRun (AProduce ts))) = 3%N).
Proof. exact handout_whole. Qed.
Print Assumptions C11_handout_whole_full.

(* In every state with a state record (any history behind it, node running or not): a clean restart puts every queue
   record — the stale ones first — back into the queue in record order and changes nothing else of what the property
   speaks about: whatever waited in the queue before the restart waits in it afterwards. *)
Theorem C11_restart_keeps_queue_full : forall (max : N) (gt : Z) (s : st),
  sh s <> 0 ->
  let s' := step max gt s (IRun ABoot) in
  up s' = true /\ queue s' = stale s ++ queue s /\ stale s' = [] /\ blocks s' = blocks s /\ sh s' = sh s /\
  seen s' = seen s /\ mem s' = mem s /\ taken s' = taken s /\ released s' = released s.
Proof. exact restart_keeps_records. Qed.
Print Assumptions C11_restart_keeps_queue_full.

(* In every state of a running node with a batch [b] at the head of the queue, no pending block, a readable last
   header, the state record at the store height and a clock reading not before the last block's time: the produce
   step whose ExecuteTxs call FAILS (manager.go applyBlock returns an error: a transient outage of the execution
   layer, a cancelled context) has taken [b] (record deleted), written the cursor and SAVED the block holding [b]
   before the call; it returns the error (result 12) and the node lives on; the NEXT produce step — at any clock
   reading, it takes nothing from the sequencer — executes and commits exactly that block.  The batch released by
   the sequencer is never held by the running step alone while the executor runs. *)
Theorem C11_exec_failure_retried_full : forall (max : N) (gt : Z) (s : st) (ts ts' : Z) (b : batch) (q : list batch) (lt : option Z),
  up s = true -> queue s = b :: q -> nth_error (blocks s) (th s) = None -> last_time s = Some lt ->
  before ts lt = false -> sh s = th s ->
  let s1 := step max gt s (IExecFail ts) in
  let s2 := step max gt s1 (IRun (AProduce ts')) in
  observe max gt s (IExecFail ts) = (12%N, [WQDel b; WMeta; WBlock (S (th s)) b ts false]) /\
  queue s1 = q /\ released s1 = released s ++ [b] /\ th s1 = th s /\ up s1 = true /\
  blocks s2 = blocks s ++ [{| b_txs := b; b_time := ts; b_signed := true |}] /\ th s2 = S (th s) /\ sh s2 = S (th s) /\
  queue s2 = q /\ released s2 = released s ++ [b] /\
  observe max gt s1 (IRun (AProduce ts')) = (3%N, [WBlock (S (th s)) b ts true; WState (S (th s)); WHeight (S (th s))]).
Proof. exact execfail_retried. Qed.
Print Assumptions C11_exec_failure_retried_full.

(* In every state of a running node, for every point [p] of the produce step: the step during which a complete reap
   runs (after its first S p acts: right after GetNextBatch has answered, after the cursor write, after the early
   save, after ExecuteTxs, ...) leaves exactly the block records, state height, store height, released list, stale
   records, mempool and result of the undisturbed step: the batch in the producer's hands is the batch the sequencer
   released, whatever is handed to the sequencer meanwhile.  (The hand-off itself is the hand-off of a reap on the
   state reached by those first acts — [item_acts]: its writes sit between the step's writes — and is covered, with
   everything else, by the theorems over histories.) *)
Theorem C11_concurrent_reap_same_block_full : forall (max : N) (gt : Z) (s : st) (ts : Z) (p : nat),
  up s = true ->
  let s' := step max gt s (IMid ts p) in let s0 := step max gt s (IRun (AProduce ts)) in
  blocks s' = blocks s0 /\ sh s' = sh s0 /\ th s' = th s0 /\ released s' = released s0 /\ stale s' = stale s0 /\
  mem s' = mem s0 /\ up s' = up s0 /\
  fst (observe max gt s (IMid ts p)) = fst (observe max gt s (IRun (AProduce ts))).
Proof. exact mid_same_block_fields. Qed.
Print Assumptions C11_concurrent_reap_same_block_full.

(* ---- the property as worded is false of the faithful model -------------------------------------------------- *)
(* F12: nothing crashes; the batch [7] is taken with a clock reading (150) before the last block's time (200):
   its queue record is deleted, publishBlockInternal returns an error, and the transaction — marked seen — is in
   no block record after ANY continuation of the history. *)
Definition h_clock : list item :=
  [IRun ABoot; IRun (AProduce 100); IRun (AProduce 200); IArrive 7; IRun AReap; IRun (AProduce 150)].

Lemma h_clock_lost : crash_free h_clock = true /\ In 7%N (taken (final 1 0 h_clock)) /\ lostb 7 (final 1 0 h_clock) = true.
Proof. vm_compute. split; [reflexivity | split; [left; reflexivity | reflexivity]]. Qed.

Theorem C11_no_loss_clock_refuted : exists (max : N) (gt : Z) (h : list item) (t : tx),
  crash_free h = true /\ In t (taken (final max gt h)) /\
  forall h', ~ In t (concat (block_txs (final max gt (h ++ h')))).
Proof.
  exists 1%N, 0%Z, h_clock, 7%N. destruct h_clock_lost as (A & B & C).
  split; [exact A | split; [exact B | exact (lost_forever 1 0 h_clock 7%N C)]].
Qed.
Print Assumptions C11_no_loss_clock_refuted.

(* F13: the clock never steps back; the process dies in a produce step after ONE datastore write (the delete of the
   queue record) — or after two (delete, cursor) — i.e. before the early block save. *)
Definition h_crash (k : nat) : list item :=
  [IRun ABoot; IRun (AProduce 100); IArrive 7; IRun AReap; ICrash (AProduce 200) k false].

Lemma h_crash_lost : forall k, k = 1 \/ k = 2 ->
  clock_monotone 1 0 st0 (h_crash k) = true /\ In 7%N (taken (final 1 0 (h_crash k))) /\ lostb 7 (final 1 0 (h_crash k)) = true.
Proof. intros k [->| ->]; vm_compute; (split; [reflexivity | split; [left; reflexivity | reflexivity]]). Qed.

Theorem C11_no_loss_crash_refuted : forall k, k = 1 \/ k = 2 ->
  exists (max : N) (gt : Z) (h : list item) (t : tx),
  clock_monotone max gt st0 h = true /\ In t (taken (final max gt h)) /\
  forall h', ~ In t (concat (block_txs (final max gt (h ++ h')))).
Proof.
  intros k Hk. exists 1%N, 0%Z, (h_crash k), 7%N. destruct (h_crash_lost k Hk) as (A & B & C).
  split; [exact A | split; [exact B | exact (lost_forever 1 0 (h_crash k) 7%N C)]].
Qed.
Print Assumptions C11_no_loss_crash_refuted.

(* A write fault: nothing crashes, the clock never steps back; write attempt 2 of the produce step — the early
   SaveBlockData, after the queue Delete and the cursor write — returns an error once: publishBlockInternal returns
   "failed to save block", the batch in hand is dropped, the transaction — marked seen — is in no block record after
   ANY continuation. *)
Definition h_fault : list item :=
  [IRun ABoot; IRun (AProduce 100); IArrive 7; IRun AReap; IFault (AProduce 200) 2].

Lemma h_fault_lost :
  crash_free h_fault = true /\ clock_monotone 1 0 st0 h_fault = true /\ In 7%N (taken (final 1 0 h_fault)) /\ lostb 7 (final 1 0 h_fault) = true /\
  observe 1 0 (final 1 0 [IRun ABoot; IRun (AProduce 100); IArrive 7; IRun AReap]) (IFault (AProduce 200) 2) =
    (9%N, [WQDel [7%N]; WMeta; WFail (WBlock 2 [7%N] 200 false)]).
Proof. vm_compute. repeat split; try reflexivity. left; reflexivity. Qed.

Theorem C11_no_loss_fault_refuted : exists (max : N) (gt : Z) (h : list item) (t : tx),
  crash_free h = true /\ clock_monotone max gt st0 h = true /\ In t (taken (final max gt h)) /\
  forall h', ~ In t (concat (block_txs (final max gt (h ++ h')))).
Proof.
  exists 1%N, 0%Z, h_fault, 7%N. destruct h_fault_lost as (A & B & C & D & _).
  split; [exact A | split; [exact B | split; [exact C | exact (lost_forever 1 0 h_fault 7%N D)]]].
Qed.
Print Assumptions C11_no_loss_fault_refuted.

(* ---- non-vacuity ------------------------------------------------------------------------------------------------ *)
(* a history inside the guard with: a repeat of the same bytes in one reap (3 twice), a refusal burst (bound 1: two
   reaps refused while [3;4] waits), a crash between the queue Put and the marks (reap, k = 1: [5] is queued, 5 is
   never marked seen), a crash between the final save and the state write (produce, k = 4), a crash between the
   state and the height write (k = 5; the next boot raises the store height), restarts, and a drain to quiescence *)
Definition ex_h : list item :=
  [IRun ABoot; IRun (AProduce 100); IArrive 3; IArrive 4; IArrive 3; IRun AReap; IArrive 5; IRun AReap; IRun AReap;
   ICrash (AProduce 200) 4 true; IRun ABoot; IRun (AProduce 300); ICrash AReap 1 false; IRun ABoot;
   ICrash (AProduce 400) 5 false; IRun ABoot; IRun AReap; IRun (AProduce 500); IRun AReap; IRun (AProduce 600); IRun AReap].

Example ex_in_guard : safe_hist 1 0 st0 ex_h = true.
Proof. vm_compute. reflexivity. Qed.

Example ex_quiesced : quiescedb (final 1 0 ex_h) = true.
Proof. vm_compute. reflexivity. Qed.

Example ex_chain :
  committed (final 1 0 ex_h) = [[]; [3; 4]; [5]; []; []]%N /\
  released (final 1 0 ex_h) = [[3; 4]; [5]]%N /\
  taken (final 1 0 ex_h) = [3; 4; 3; 3; 4; 3; 5; 3; 4; 3; 5; 5]%N /\
  observations 1 0 st0 [IRun ABoot; ICrash (AProduce 100) 2 false; IRun ABoot] =
    [(1, [WBlock 1 [] 0 true]); (7, [WBlock 1 [] 0 true; WState 1]); (1, [WHeight 1])]%N.
Proof. vm_compute. repeat split; reflexivity. Qed.

(* a history inside the guard with a write fault at every kind of write but the early block save: the queue Put (the
   hand-off of [3;4] is refused, then retried), a seen mark (4 stays unmarked and is handed off again by the next
   reap: it is in the chain twice), the queue Delete (the record of [3;4] stays), the cursor write, the final block save, the state write,
   the store-height write (the node refuses to produce until it is restarted; the restart loads the stale record of
   [3;4] again), a start-up write; drained to quiescence *)
Definition ex_hf : list item :=
  [IFault ABoot 0; IRun ABoot; IRun (AProduce 100); IArrive 3; IArrive 4; IFault AReap 0; IFault AReap 2;
   IRun AReap; IFault (AProduce 200) 0; IFault (AProduce 300) 1; IArrive 5; IRun AReap; IFault (AProduce 400) 3;
   IRun (AProduce 500); IArrive 6; IRun AReap; IFault (AProduce 600) 4; IRun (AProduce 700); IFault (AProduce 800) 4;
   IRun (AProduce 900); IRun ABoot; IRun (AProduce 1000); IRun (AProduce 1100); IRun AReap].

Example ex_hf_in_guard : safe_hist 0 0 st0 ex_hf = true /\ quiescedb (final 0 0 ex_hf) = true /\ fault_free ex_hf = false.
Proof. vm_compute. repeat split; reflexivity. Qed.

Example ex_hf_chain :
  committed (final 0 0 ex_hf) = [[]; [3; 4]; [4]; [5]; [6]; []; [3; 4]; []]%N /\
  released (final 0 0 ex_hf) = [[3; 4]; [4]; [5]; [6]; [3; 4]]%N /\
  map (fun o => fst o) (observations 0 0 st0 ex_hf) = [11; 1; 3; 0; 0; 2; 2; 2; 3; 3; 0; 2; 9; 3; 0; 2; 9; 3; 9; 10; 1; 3; 3; 2]%N /\
  observe 0 0 (final 0 0 [IRun ABoot; IRun (AProduce 100); IArrive 3; IRun AReap]) (IFault (AProduce 200) 1) =
    (3%N, [WQDel [3%N]; WFail WMeta; WBlock 2 [3%N] 200 false; WBlock 2 [3%N] 200 true; WState 2; WHeight 2]).
Proof. vm_compute. repeat split; reflexivity. Qed.

(* the hypothesis of C11_cursor_fault_harmless_full is met: a batch is queued, write attempt 1 of the produce step is
   the cursor write *)
Example ex_cursor :
  let s := final 1 0 [IRun ABoot; IRun (AProduce 100); IArrive 3; IRun AReap] in
  nth_error (writes_of (fst (acts_of 1 0 s (AProduce 200)))) 1 = Some WMeta /\
  block_txs (step 1 0 s (IFault (AProduce 200) 1)) = [[]; [3%N]].
Proof. vm_compute. split; reflexivity. Qed.

(* a crash-free history with repeated bytes, a restart and a clock regression (hypothesis of C11_no_dup_full) *)
Definition ex_nocrash : list item :=
  [IRun ABoot; IArrive 1; IArrive 1; IArrive 2; IRun AReap; IRun (AProduce 100); IRun (AProduce 200); IArrive 1;
   IRun ABoot; IRun AReap; IArrive 3; IRun AReap; IRun (AProduce 150); IRun (AProduce 300)].

Example ex_nocrash_ok : crash_free ex_nocrash = true /\ fault_free ex_nocrash = true /\ block_txs (final 2 0 ex_nocrash) = [[]; [1; 2]; []]%N.
Proof. vm_compute. repeat split; reflexivity. Qed.

(* the hypothesis of C11_refused_handoff_full is met: bound 1, one batch waiting, another transaction arrives *)
Example ex_refused :
  let s := final 1 0 [IRun ABoot; IArrive 3; IRun AReap; IArrive 4] in
  up s = true /\ full 1 (queue s) = true /\ seen (step 1 0 s (IRun AReap)) = seen s /\ new_txs (step 1 0 s (IRun AReap)) = [4%N].
Proof. vm_compute. repeat split; reflexivity. Qed.

(* before the reaper repair (the same bytes listed twice by GetTxs were handed off twice): the selection without the
   in-batch test keeps both copies *)
Example before_the_reaper_repair :
  filter (fun t => negb (memb t [])) [7; 7]%N = [7; 7]%N /\ select [] [] [7; 7]%N = [7%N].
Proof. vm_compute. split; reflexivity. Qed.

(* the hypotheses of C11_handout_whole_full are met: two batches wait ([10;11] — in the harness two transactions
   of 500 000 + 1 000 000 bytes — and [3]); the step takes all of the first, the restart that follows keeps the second,
   the next step takes it *)
Example ex_handout :
  let s := final 0 0 [IRun ABoot; IRun (AProduce 100); IArrive 10; IArrive 11; IRun AReap; IArrive 3; IRun AReap] in
  up s = true /\ queue s = [[10; 11]; [3]]%N /\ nth_error (blocks s) (th s) = None /\ last_time s = Some (Some 0%Z) /\
  sh s <> 0 /\
  block_txs (run 0 0 s [IRun (AProduce 200); IRun ABoot; IRun (AProduce 300)]) = [[]; [10; 11]; [3]]%N /\
  queue (run 0 0 s [IRun (AProduce 200); IRun ABoot]) = [[3]]%N.
Proof. vm_compute. repeat split; try reflexivity. discriminate. Qed.

(* the hypotheses of C11_exec_failure_retried_full are met, and a history with a failing ExecuteTxs call is inside the
   guard of C11_no_loss_partial, crash-free and fault-free: [3] is taken by the step whose execution fails (result 12,
   the block is saved early), committed by the next step; the failing call on the pending block (second IExecFail)
   changes nothing *)
Definition ex_hx : list item :=
  [IRun ABoot; IRun (AProduce 100); IArrive 3; IRun AReap; IExecFail 200; IExecFail 250; IArrive 4; IRun AReap;
   IRun (AProduce 300); IRun (AProduce 400); IRun AReap].

Example ex_execfail :
  let s := final 1 0 [IRun ABoot; IRun (AProduce 100); IArrive 3; IRun AReap] in
  up s = true /\ queue s = [[3%N]] /\ nth_error (blocks s) (th s) = None /\ last_time s = Some (Some 0%Z) /\ sh s = th s /\
  safe_hist 1 0 st0 ex_hx = true /\ crash_free ex_hx = true /\ fault_free ex_hx = true /\ quiescedb (final 1 0 ex_hx) = true /\
  committed (final 1 0 ex_hx) = [[]; [3]; [4]]%N /\
  map (fun o => fst o) (observations 1 0 st0 ex_hx) = [1; 3; 0; 2; 12; 12; 0; 2; 3; 3; 2]%N /\
  map b_time (blocks (final 1 0 ex_hx)) = [0; 200; 400]%Z.
Proof. vm_compute. repeat split; reflexivity. Qed.

(* a crash-free, fault-free history inside the guard with reaps in the middle of produce steps: the queue holds exactly
   [3] when the step takes it and [4] is handed off right after GetNextBatch has answered (p = 0: after the queue
   Delete) — the block holds [3], [4] waits; bound 1: the hand-off of [5] in the middle of the step that takes [4] is
   accepted because the queue has just been emptied (before the step it would have been refused); a reap after
   ExecuteTxs (p = 3) sees the mempool without the executed transactions *)
Definition ex_hm : list item :=
  [IRun ABoot; IRun (AProduce 100); IArrive 3; IRun AReap; IArrive 4; IMid 200 0; IArrive 5; IRun AReap; IMid 300 0;
   IArrive 6; IMid 400 3; IRun (AProduce 500); IRun AReap].

Example ex_mid :
  safe_hist 1 0 st0 ex_hm = true /\ crash_free ex_hm = true /\ fault_free ex_hm = true /\ quiescedb (final 1 0 ex_hm) = true /\
  committed (final 1 0 ex_hm) = [[]; [3]; [4]; [5]; [6]]%N /\ released (final 1 0 ex_hm) = [[3]; [4]; [5]; [6]]%N /\
  observe 1 0 (final 1 0 [IRun ABoot; IRun (AProduce 100); IArrive 3; IRun AReap; IArrive 4]) (IMid 200 0) =
    (3%N, [WQDel [3%N]; WQPut [4%N]; WSeen 4%N; WMeta; WBlock 2 [3%N] 200 false; WBlock 2 [3%N] 200 true; WState 2; WHeight 2]) /\
  observe 1 0 (final 1 0 [IRun ABoot; IRun (AProduce 100); IArrive 3; IRun AReap; IArrive 4; IMid 200 0; IArrive 5; IRun AReap]) (IRun AReap) = (2%N, []) /\
  snd (observe 1 0 (final 1 0 [IRun ABoot; IRun (AProduce 100); IArrive 3; IRun AReap; IArrive 4; IMid 200 0; IArrive 5; IRun AReap]) (IMid 300 0)) =
    [WQDel [4%N]; WQPut [5%N]; WSeen 5%N; WMeta; WBlock 3 [4%N] 300 false; WBlock 3 [4%N] 300 true; WState 3; WHeight 3].
Proof. vm_compute. repeat split; reflexivity. Qed.

(* ---- under the pending-submission limit (Model/ReaperLimit.v) --------------------------------------------------------------- *)
(* In every state of a running node — any limit, any two watermarks, any history behind it — in which the back-pressure
   test of publishBlockInternal holds (pending headers >= lim, or pending data >= lim and waiting data >= lim), every
   kind of produce step (plain, with a crash / write fault / executor failure scheduled, with a reap in its middle)
   takes NOTHING from the sequencer: no batch is released, no queue record is deleted or left stale, no block record,
   height or mempool changes, the watermarks stay, the queue keeps every batch it held in its order (a reap scheduled
   inside the step can only append one); and but for that reap the step writes nothing at all.  The batch at the head
   of the queue waits for the tick on which the test no longer holds. *)
Theorem C11_backpressure_takes_nothing_full : forall (lim max : N) (gt : Z) (l : lst) (it : item),
  up (base l) = true -> is_produce it = true -> refuses lim l = true ->
  let l' := lstep lim max gt l (LBase it) in
  released (base l') = released (base l) /\ stale (base l') = stale (base l) /\ blocks (base l') = blocks (base l) /\
  sh (base l') = sh (base l) /\ th (base l') = th (base l) /\ mem (base l') = mem (base l) /\
  hsub l' = hsub l /\ dsub l' = dsub l /\
  (exists q', queue (base l') = queue (base l) ++ q') /\
  (forall w, In w (snd (lobserve lim max gt l (LBase it))) -> is_del (AW w) = false) /\
  (match it with IMid _ _ => True | _ => snd (lobserve lim max gt l (LBase it)) = [] /\ queue (base l') = queue (base l) end).
Proof. exact backpressure_takes_nothing. Qed.
Print Assumptions C11_backpressure_takes_nothing_full.

(* In every state of a running node: once the DA layer has accepted the headers and the data up to the store height the
   test no longer holds (whatever the limit), and nothing of the node's state has changed — so the next produce step is
   the step of Model/Reaper.v (C11_no_limit_is_base_full) and hands out the head of the queue whole
   (C11_handout_whole_full). *)
Theorem C11_backpressure_lifts_full : forall (lim max : N) (gt : Z) (l : lst),
  up (base l) = true ->
  let l' := lstep lim max gt (lstep lim max gt l (LHdrSub (th (base l)))) (LDataSub (th (base l))) in
  base l' = base l /\ refuses lim l' = false.
Proof. exact backpressure_lifts. Qed.
Print Assumptions C11_backpressure_lifts_full.

(* Limit 0 (the default) never refuses; and whatever the limit, an item that is not a refused produce step is exactly
   the item of Model/Reaper.v on the node's state, with the same observation. *)
Theorem C11_no_limit_is_base_full :
  (forall l, refuses 0 l = false) /\
  (forall (lim max : N) (gt : Z) (l : lst) (it : item), blocked lim l it = false ->
     lstep lim max gt l (LBase it) = set_base (step max gt (base l) it) l /\
     lobserve lim max gt l (LBase it) = observe max gt (base l) it).
Proof. exact (conj no_limit_never_refuses not_refused_is_base). Qed.
Print Assumptions C11_no_limit_is_base_full.

(* C11_no_loss_partial for every limit and every history under it: the items of Model/Reaper.v (crashes, write faults,
   executor failures, reaps inside steps) interleaved in any way with "the DA layer has accepted the headers up to n"
   and "... the data up to n" (each watermark on its own: headers confirmed while data stalls, or the reverse, for any
   length of time).  Guard: no step that is NOT refused hands out a batch without saving its block (the three refuted
   defects); a refused step is inside the guard whatever was scheduled for it. *)
Theorem C11_no_loss_limit_partial : forall (lim max : N) (gt : Z) (h : list litem),
  lsafe_hist lim max gt lst0 h = true ->
  let s := base (lfinal lim max gt h) in
  (forall t, In t (taken s) ->
     In t (concat (block_txs s)) \/ In t (concat (queue s)) \/ (In t (mem s) /\ memb t (seen s) = false)) /\
  (quiescedb s = true -> forall t, In t (taken s) -> In t (concat (committed s))).
Proof. exact no_loss_limit_partial. Qed.
Print Assumptions C11_no_loss_limit_partial.

Theorem C11_order_limit_full : forall (lim max : N) (gt : Z) (h : list litem),
  let s := base (lfinal lim max gt h) in
  Subseq (filter nonempty (committed s)) (released s) /\
  (lsafe_hist lim max gt lst0 h = true -> filter nonempty (block_txs s) = released s).
Proof. exact order_limit_full. Qed.
Print Assumptions C11_order_limit_full.

Theorem C11_no_dup_limit_full : forall (lim max : N) (gt : Z) (h : list litem),
  crash_free (base_items h) = true -> fault_free (base_items h) = true ->
  NoDup (concat (block_txs (base (lfinal lim max gt h)))).
Proof. exact no_dup_limit_full. Qed.
Print Assumptions C11_no_dup_limit_full.

(* non-vacuity: limit 2; the DA layer confirms every header at once and no data: blocks 2 and 3 carry [1] and [2], the
   data backlog reaches the limit; [3] is handed to the sequencer and three ticks are refused (result 13, nothing
   written, [3] stays queued; the third has a reap in its middle, which hands off [4] behind it); the DA layer accepts
   the data; the next two ticks commit [3] and [4].  While headers stall the header half refuses alone (ex_hdr). *)
Definition ex_hl : list litem :=
  [LBase (IRun ABoot); LBase (IRun (AProduce 100)); LHdrSub 1;
   LBase (IArrive 1); LBase (IRun AReap); LBase (IRun (AProduce 200)); LHdrSub 2;
   LBase (IArrive 2); LBase (IRun AReap); LBase (IRun (AProduce 300)); LHdrSub 3;
   LBase (IArrive 3); LBase (IRun AReap)].
Definition ex_hl2 : list litem :=
  [LBase (IRun (AProduce 400)); LBase (IExecFail 500); LBase (IArrive 4); LBase (IMid 600 0); LDataSub 3;
   LBase (IRun (AProduce 700)); LBase (IRun (AProduce 800)); LBase (IRun AReap)].

Example ex_limit :
  let l := lfinal 2 0 0 ex_hl in
  up (base l) = true /\ refuses 2 l = true /\ pending_headers l = 0 /\ waiting_data l = 2 /\ queue (base l) = [[3%N]] /\
  lobservations 2 0 0 l ex_hl2 =
    [(13, []); (13, []); (0, []); (13, [WQPut [4]; WSeen 4]); (0, []);
     (3, [WQDel [3]; WMeta; WBlock 4 [3] 700 false; WBlock 4 [3] 700 true; WState 4; WHeight 4]);
     (3, [WQDel [4]; WMeta; WBlock 5 [4] 800 false; WBlock 5 [4] 800 true; WState 5; WHeight 5]); (2, [])]%N /\
  lsafe_hist 2 0 0 lst0 (ex_hl ++ ex_hl2) = true /\ quiescedb (base (lfinal 2 0 0 (ex_hl ++ ex_hl2))) = true /\
  committed (base (lfinal 2 0 0 (ex_hl ++ ex_hl2))) = [[]; [1]; [2]; [3]; [4]]%N /\
  crash_free (base_items (ex_hl ++ ex_hl2)) = true /\ fault_free (base_items (ex_hl ++ ex_hl2)) = true.
Proof. vm_compute. repeat split; reflexivity. Qed.

Example ex_hdr :
  let l := lfinal 1 0 0 [LBase (IRun ABoot); LBase (IRun (AProduce 100)); LBase (IArrive 1); LBase (IRun AReap)] in
  refuses 1 l = true /\ waiting_data l = 0 /\ pending_headers l = 1 /\
  lobserve 1 0 0 l (LBase (ICrash (AProduce 200) 3 true)) = (7%N, []) /\
  queue (base (lstep 1 0 0 l (LBase (ICrash (AProduce 200) 3 true)))) = [[1%N]].
Proof. vm_compute. repeat split; reflexivity. Qed.

(* ---- Reaper.SubmitTxs TRANSLATED FROM THE SOURCE (Check/GoLiteReaper.v, regenerated on every run) ----------------
   The selection loop of the reaper, run with the code's own body (GoLiteReaperRefine.code_select: every step IS the
   translated body of `for _, tx := range txs`, by go_select_one), selects exactly Reaper.select — for every seen set,
   batch set, list selected so far and transaction list; so the ONE SubmitBatchTxs of a reap (go_SubmitTxs) carries
   exactly Reaper.new_txs, in the executor's order. *)
From Verif Require Model.GoLite Check.GoLiteReaper Proofs.GoLiteReaperRefine.
Theorem C11_translated_selection_is_select_full : forall (sn l inb : list Reaper.tx) (acc : list GoLite.gval),
  GoLiteReaperRefine.code_select sn inb acc l = acc ++ map GoLite.VN (Reaper.select sn inb l).
Proof. exact GoLiteReaperRefine.code_select_is_select. Qed.
Print Assumptions C11_translated_selection_is_select_full.

Theorem C11_translated_reap_hands_over_new_txs_full : forall s : Reaper.st,
  GoLiteReaperRefine.code_select (Reaper.seen s) [] [] (Reaper.mem s) = map GoLite.VN (Reaper.new_txs s).
Proof. exact GoLiteReaperRefine.reap_hands_over_new_txs. Qed.
Print Assumptions C11_translated_reap_hands_over_new_txs_full.

(* a hand-off the sequencer refuses marks nothing seen and notifies nobody: the transactions are offered again *)
Theorem C11_translated_refused_handoff_marks_nothing_full : forall w : GoLiteReaper.rworld,
  GoLiteReaper.r_getok w = true -> GoLiteReaper.r_submitok w = false ->
  filter GoLiteReaper.marks_or_notifies (snd (GoLiteReaper.reap_expect w)) = [].
Proof. exact GoLiteReaper.refused_handoff_marks_nothing. Qed.
Print Assumptions C11_translated_refused_handoff_marks_nothing_full.
