(* Props/C11.v — no transaction taken from the mempool is lost on its way into the chain.
   Statements only; every proof is [exact <lemma of Proofs/ReaperProofs.v>].
   Histories (Model/Reaper.v): a transaction arrives in the mempool (any bytes, repeats included) | boot | reap |
   produce at a clock reading | the process dies inside a boot / reap / produce after k of its datastore writes
   (every write boundary; with or without the ExecuteTxs call that follows the last durable write).  Queue-full
   refusals are the reaps that find the queue at its bound [max]; bursts of any length are histories.

   The property AS WORDED is false of the code (C11_no_loss_clock_refuted, C11_no_loss_crash_refuted: two defects of
   block/manager.go, listed as known findings).  What holds:
     C11_no_loss_partial            no loss, for every history in which no batch is released without its block
                                    being saved in the same action (the guard [safe_hist] = neither defect occurs)
     C11_order_full                 release order, for EVERY history
     C11_no_dup_full                nothing twice without crashes, for EVERY crash-free history
     C11_refused_handoff_full       a refused hand-off marks nothing seen (it is retried by the next reap)
     C11_queue_is_C10_spec_full     the model's queue steps are the FIFO specification C10 proves of the real queue *)
From Coq Require Import NArith ZArith List Bool.
From Verif Require Import Model.Reaper Proofs.ReaperProofs.
Import ListNotations.
Arguments IArrive t%N.
Arguments lostb t%N s.

(* For every queue bound, genesis time and history inside the guard: every transaction GetTxs ever returned is in
   a block record, or in the queue, or still in the mempool and not marked seen (so the next reap offers it
   again); and once nothing is in flight (node up, queue empty, no block above the store height, nothing unseen in
   the mempool) every such transaction is in a committed block.  Crashes at every other write boundary, refusals of
   any length and repeated bytes are all inside the guard.
   MISSING for _full: histories in which a non-empty batch is taken with a clock reading before the last block's
   time, or the process dies after the queue delete and before the early block save (the two refuted cases).
   NOT PROVED: that a quiescent state is always reached (the harness drains every history and its oracle reports a
   history that does not quiesce). *)
Theorem C11_no_loss_partial : forall (max : N) (gt : Z) (h : list item),
  safe_hist max gt st0 h = true ->
  let s := final max gt h in
  (forall t, In t (taken s) ->
     In t (concat (block_txs s)) \/ In t (concat (queue s)) \/ (In t (mem s) /\ memb t (seen s) = false)) /\
  (quiescedb s = true -> forall t, In t (taken s) -> In t (concat (committed s))).
Proof. exact no_loss_partial. Qed.
Print Assumptions C11_no_loss_partial.

(* For EVERY history (no guard): the non-empty committed blocks are released batches, in release order
   (a subsequence: a released batch may be missing — that is the loss above — but never out of order, repeated or
   invented); inside the guard the non-empty block records are exactly the released batches. *)
Theorem C11_order_full : forall (max : N) (gt : Z) (h : list item),
  let s := final max gt h in
  Subseq (filter nonempty (committed s)) (released s) /\
  (safe_hist max gt st0 h = true -> filter nonempty (block_txs s) = released s).
Proof. exact order_full. Qed.
Print Assumptions C11_order_full.

(* For EVERY crash-free history (restarts, refusals, clock regressions and repeated bytes allowed): no transaction
   occurs twice in the block records — neither in two blocks nor twice in one. *)
Theorem C11_no_dup_full : forall (max : N) (gt : Z) (h : list item),
  crash_free h = true -> NoDup (concat (block_txs (final max gt h))).
Proof. exact no_dup_chain_full. Qed.
Print Assumptions C11_no_dup_full.

(* A hand-off refused by a full queue changes nothing but the ghost [taken]: no transaction is marked seen. *)
Theorem C11_refused_handoff_full : forall (max : N) (gt : Z) (s : st),
  up s = true -> full max (queue s) = true ->
  step max gt s (IRun AReap) = set_taken (taken s ++ mem s) s.
Proof. exact refused_no_trace. Qed.
Print Assumptions C11_refused_handoff_full.

(* The queue of this model is the FIFO specification of C10: under any encoding of transaction lists as the content
   ids of Model/Queue.v, acceptance / refusal at the bound / hand-out of the head are the steps [s_step] of the
   specification that C10_fifo_full proves the real single-sequencer queue to refine (restarts and crashes included). *)
Theorem C11_queue_is_C10_spec_full : forall (enc : batch -> Verif.Model.Queue.batch) (max : N) (q : list batch),
  (forall b, Verif.Model.Queue.s_step max (map enc q) (Verif.Model.Queue.USubmit true (Verif.Model.Queue.UB (enc b))) =
     if full max q then (map enc q, Verif.Model.Queue.RFull) else (map enc (q ++ [b]), Verif.Model.Queue.ROk)) /\
  Verif.Model.Queue.s_step max (map enc q) (Verif.Model.Queue.UNext true) =
    match q with
    | [] => (map enc q, Verif.Model.Queue.REmpty)
    | b :: r => (map enc r, Verif.Model.Queue.RBatch (enc b))
    end.
Proof. exact (fun enc max q => conj (queue_submit_is_C10 enc max q) (queue_next_is_C10 enc max q)). Qed.
Print Assumptions C11_queue_is_C10_spec_full.

(* ---- the property as worded is false of the faithful model -------------------------------------------------- *)
(* F12: nothing crashes; the batch [7] is taken with a clock reading (150) before the last block's time (200):
   its queue record is deleted, publishBlockInternal returns an error, and the transaction — marked seen — is in
   no block record after ANY continuation of the history. *)
Definition h_clock : list item :=
  [IRun ABoot; IRun (AProduce 100); IRun (AProduce 200); IArrive 7; IRun AReap; IRun (AProduce 150)].

Lemma h_clock_lost : crash_free h_clock = true /\ In 7%N (taken (final 1 0 h_clock)) /\ lostb 7 (final 1 0 h_clock) = true.
Proof. vm_compute. split; [reflexivity | split; [left; reflexivity | reflexivity]]. Qed.

Theorem C11_no_loss_clock_refuted : exists (max : N) (gt : Z) (h : list item) (t : tx),
  crash_free h = true /\ In t (taken (final max gt h)) /\
  forall h', ~ In t (concat (block_txs (final max gt (h ++ h')))).
Proof.
  exists 1%N, 0%Z, h_clock, 7%N. destruct h_clock_lost as (A & B & C).
  split; [exact A | split; [exact B | exact (lost_forever 1 0 h_clock 7%N C)]].
Qed.
Print Assumptions C11_no_loss_clock_refuted.

(* F13: the clock never steps back; the process dies in a produce step after ONE datastore write (the delete of the
   queue record) — or after two (delete, cursor) — i.e. before the early block save. *)
Definition h_crash (k : nat) : list item :=
  [IRun ABoot; IRun (AProduce 100); IArrive 7; IRun AReap; ICrash (AProduce 200) k false].

Lemma h_crash_lost : forall k, k = 1 \/ k = 2 ->
  clock_monotone 1 0 st0 (h_crash k) = true /\ In 7%N (taken (final 1 0 (h_crash k))) /\ lostb 7 (final 1 0 (h_crash k)) = true.
Proof. intros k [->| ->]; vm_compute; (split; [reflexivity | split; [left; reflexivity | reflexivity]]). Qed.

Theorem C11_no_loss_crash_refuted : forall k, k = 1 \/ k = 2 ->
  exists (max : N) (gt : Z) (h : list item) (t : tx),
  clock_monotone max gt st0 h = true /\ In t (taken (final max gt h)) /\
  forall h', ~ In t (concat (block_txs (final max gt (h ++ h')))).
Proof.
  intros k Hk. exists 1%N, 0%Z, (h_crash k), 7%N. destruct (h_crash_lost k Hk) as (A & B & C).
  split; [exact A | split; [exact B | exact (lost_forever 1 0 (h_crash k) 7%N C)]].
Qed.
Print Assumptions C11_no_loss_crash_refuted.

(* ---- non-vacuity ------------------------------------------------------------------------------------------------ *)
(* a history inside the guard with: a repeat of the same bytes in one reap (3 twice), a refusal burst (bound 1: two
   reaps refused while [3;4] waits), a crash between the queue Put and the marks (reap, k = 1: [5] is queued, 5 is
   never marked seen), a crash between the final save and the state write (produce, k = 4), a crash between the
   state and the height write (k = 5; the next boot raises the store height), restarts, and a drain to quiescence *)
Definition ex_h : list item :=
  [IRun ABoot; IRun (AProduce 100); IArrive 3; IArrive 4; IArrive 3; IRun AReap; IArrive 5; IRun AReap; IRun AReap;
   ICrash (AProduce 200) 4 true; IRun ABoot; IRun (AProduce 300); ICrash AReap 1 false; IRun ABoot;
   ICrash (AProduce 400) 5 false; IRun ABoot; IRun AReap; IRun (AProduce 500); IRun AReap; IRun (AProduce 600); IRun AReap].

Example ex_in_guard : safe_hist 1 0 st0 ex_h = true.
Proof. vm_compute. reflexivity. Qed.

Example ex_quiesced : quiescedb (final 1 0 ex_h) = true.
Proof. vm_compute. reflexivity. Qed.

Example ex_chain :
  committed (final 1 0 ex_h) = [[]; [3; 4]; [5]; []; []]%N /\
  released (final 1 0 ex_h) = [[3; 4]; [5]]%N /\
  taken (final 1 0 ex_h) = [3; 4; 3; 3; 4; 3; 5; 3; 4; 3; 5; 5]%N /\
  observations 1 0 st0 [IRun ABoot; ICrash (AProduce 100) 2 false; IRun ABoot] =
    [(1, [WBlock 1 [] 0 true]); (7, [WBlock 1 [] 0 true; WState 1]); (1, [WHeight 1])]%N.
Proof. vm_compute. repeat split; reflexivity. Qed.

(* a crash-free history with repeated bytes, a restart and a clock regression (hypothesis of C11_no_dup_full) *)
Definition ex_nocrash : list item :=
  [IRun ABoot; IArrive 1; IArrive 1; IArrive 2; IRun AReap; IRun (AProduce 100); IRun (AProduce 200); IArrive 1;
   IRun ABoot; IRun AReap; IArrive 3; IRun AReap; IRun (AProduce 150); IRun (AProduce 300)].

Example ex_nocrash_ok : crash_free ex_nocrash = true /\ block_txs (final 2 0 ex_nocrash) = [[]; [1; 2]; []]%N.
Proof. vm_compute. split; reflexivity. Qed.

(* the hypothesis of C11_refused_handoff_full is met: bound 1, one batch waiting, another transaction arrives *)
Example ex_refused :
  let s := final 1 0 [IRun ABoot; IArrive 3; IRun AReap; IArrive 4] in
  up s = true /\ full 1 (queue s) = true /\ seen (step 1 0 s (IRun AReap)) = seen s /\ new_txs (step 1 0 s (IRun AReap)) = [4%N].
Proof. vm_compute. repeat split; reflexivity. Qed.

(* before the reaper repair (the same bytes listed twice by GetTxs were handed off twice): the selection without the
   in-batch test keeps both copies *)
Example before_the_reaper_repair :
  filter (fun t => negb (memb t [])) [7; 7]%N = [7; 7]%N /\ select [] [] [7; 7]%N = [7%N].
Proof. vm_compute. split; reflexivity. Qed.
