(* Props/C19.v — the proposer key file protects the key and yields a working, matching signer.
   Statements only; every proof is [exact <lemma of Proofs/KeyFileProofs.v>].
   The model (Model/KeyFile.v) is of the REPAIRED pkg/signer/file/local.go (fixes/C19-*.diff).
   Cryptography is a parameter [c : crypto]; [ideal c] = AEAD correct and binding to key and nonce, Argon2
   injective and disjoint from raw keys, Ed25519 correct (trusted base).  Passphrases, salts, nonces and
   keys are byte strings of ANY length unless a hypothesis says otherwise (the code draws 16-byte salts and
   12-byte nonces; Ed25519 seeds have 32 bytes). *)
From Coq Require Import NArith List Bool.
From Verif Require Import Model.KeyFile Proofs.KeyFileProofs.
Import ListNotations.
Open Scope list_scope.

(* No file whatsoever (absent, unparsable, any four decoded fields: any salt incl. none = legacy format, any
   nonce length, any ciphertext, any public key bytes) and no passphrase (incl. empty) makes load, export
   or import panic.  No hypothesis on the cryptography. *)
Theorem C19_no_panic_full : forall (c : crypto) (f : file c) (pass : bytes),
  load c f pass <> Panic /\ export c f pass <> Panic /\
  (forall priv salt nonce, import c priv pass salt nonce <> Panic).
Proof. exact no_panic. Qed.
Print Assumptions C19_no_panic_full.

(* Whatever file loads, under whatever passphrase: the public key the signer reports is the public key of
   its private key, its address is the one full nodes derive from that public key (types.KeyAddress /
   types.NewSigner), and the noop signer of the same private key is the same signer with the same address.
   No hypothesis on the cryptography. *)
Theorem C19_loaded_signer_matches_full : forall (c : crypto) (f : file c) (pass : bytes) (s : signer),
  load c f pass = Ok s ->
  s_pub s = pub_of_priv (s_priv s) /\ length (s_priv s) = 64 /\ length (s_pub s) = 32 /\
  signer_address c s = key_address c (signer_public s) /\
  noop_signer (s_priv s) = s /\ noop_address c (s_priv s) = signer_address c s.
Proof. exact loaded_signer_matches. Qed.
Print Assumptions C19_loaded_signer_matches_full.

(* A key created and saved under ANY passphrase loads with that passphrase to the same key; signatures made
   by the loaded signer verify under the public key it reports; its address is the address of the created
   public key; export returns the private key. *)
Theorem C19_create_load_full : forall (c : crypto), ideal c ->
  forall seed pass salt nonce, length seed = 32 -> salt <> [] -> length nonce = 12 ->
  let s := fst (create c seed pass salt nonce) in
  let f := snd (create c seed pass salt nonce) in
  load c f pass = Ok s /\
  (forall m, signer_verifies c s m = true) /\
  signer_public s = ed_pub c seed /\
  signer_address c s = key_address c (ed_pub c seed) /\
  export c f pass = Ok (s_priv s).
Proof. exact create_load. Qed.
Print Assumptions C19_create_load_full.

(* A saved key neither loads nor exports with any other passphrase. *)
Theorem C19_wrong_passphrase_full : forall (c : crypto), ideal c ->
  forall s pass salt nonce pass', salt <> [] -> length nonce = 12 -> pass' <> pass ->
  load c (save c s pass salt nonce) pass' = Err EDecrypt /\
  export c (save c s pass salt nonce) pass' = Err EDecrypt.
Proof. exact wrong_passphrase. Qed.
Print Assumptions C19_wrong_passphrase_full.

(* Corruption: take the file of a saved key and ANY file content d' whose ciphertext field is either the
   saved one or bytes that no key opens (what a blind change of ciphertext bytes gives under an ideal AEAD).
   If d' loads under ANY passphrase, then d' is the saved content, the passphrase is the saving one and the
   signer is the saved key.  So a change of the nonce, salt, public key or ciphertext — as well as the wrong
   passphrase — never yields a signer; with C19_no_panic_full it yields an error.  An absent file and a
   file that does not parse (every truncation) are errors. *)
Theorem C19_corrupted_file_full : forall (c : crypto), ideal c ->
  forall s pass salt nonce, wf_signer s -> salt <> [] -> length nonce = 12 ->
  forall (d' : keydata c) pass' s',
    (kd_ct c d' = seal c (argon c pass salt) nonce (s_priv s) \/ unopenable c (kd_ct c d')) ->
    load c (FData d') pass' = Ok s' ->
    FData d' = save c s pass salt nonce /\ pass' = pass /\ s' = s.
Proof. exact corrupted_file. Qed.
Print Assumptions C19_corrupted_file_full.

Theorem C19_unreadable_file_full : forall (c : crypto) (pass : bytes),
  load c FAbsent pass = Err EIo /\ load c FBadJson pass = Err EJson /\
  export c FAbsent pass = Err EIo /\ export c FBadJson pass = Err EJson.
Proof. exact unreadable_file. Qed.
Print Assumptions C19_unreadable_file_full.

(* Export followed by import (under any new passphrase) preserves the key. *)
Theorem C19_export_import_full : forall (c : crypto), ideal c ->
  forall s pass salt nonce pass2 salt2 nonce2,
  wf_signer s -> salt <> [] -> length nonce = 12 -> salt2 <> [] -> length nonce2 = 12 ->
  exists pt f2,
    export c (save c s pass salt nonce) pass = Ok pt /\
    import c pt pass2 salt2 nonce2 = Ok f2 /\
    f2 = save c s pass2 salt2 nonce2 /\
    load c f2 pass2 = Ok s.
Proof. exact export_import. Qed.
Print Assumptions C19_export_import_full.

(* Legacy salt-less files load with the passphrase they were written under. *)
Theorem C19_legacy_load_full : forall (c : crypto), ideal c ->
  forall s pass rawkey nonce, wf_signer s -> fallback_derive pass = Ok rawkey -> length nonce = 12 ->
  load c (legacy_file c s rawkey nonce) pass = Ok s /\
  export c (legacy_file c s rawkey nonce) pass = Ok (s_priv s).
Proof. exact legacy_load. Qed.
Print Assumptions C19_legacy_load_full.

(* Legacy files and another passphrase.  "Loads only with that passphrase" is FALSE for the legacy format:
   only the first 32 bytes of the passphrase enter the key (a property of the format, listed as a known
   finding; no repair without changing the format).  Guard of the partial theorem: the other passphrase
   derives another legacy key. *)
Theorem C19_legacy_wrong_passphrase_partial : forall (c : crypto), ideal c ->
  forall s rawkey nonce pass', fallback_derive pass' <> Ok rawkey ->
  (exists e, load c (legacy_file c s rawkey nonce) pass' = Err e) /\
  (exists e, export c (legacy_file c s rawkey nonce) pass' = Err e).
Proof. exact legacy_wrong_passphrase_guarded. Qed.
Print Assumptions C19_legacy_wrong_passphrase_partial.

Theorem C19_legacy_wrong_passphrase_refuted :
  legacy_p1 <> legacy_p2 /\
  forall (c : crypto) (d : keydata c), kd_salt c d = [] ->
    load c (FData d) legacy_p1 = load c (FData d) legacy_p2 /\
    export c (FData d) legacy_p1 = export c (FData d) legacy_p2.
Proof. exact legacy_wrong_passphrase_witness. Qed.
Print Assumptions C19_legacy_wrong_passphrase_refuted.

(* ---- histories over one key file ------------------------------------------------------------------
   [hop] = the operations of the package applied one after the other to ONE path (load, export, import over
   what is there, create), each with ANY passphrase; [hrun] = result and file after each step.
   [opens_exactly f P s]: f loads and exports with every passphrase of P, to the key s, and with no other
   passphrase.  The ghost state [sealst] carries the file, P and the key; only a successful import and a
   create on a free path change P (to "the passphrase that call was given") and the key. *)

(* Loads and exports, however many and with whatever passphrases (right, wrong, empty, all-zero, long), leave
   the file exactly as it is: so the passphrases that open it, and the key, are the same afterwards.  No
   hypothesis on the cryptography. *)
Theorem C19_readonly_history_full : forall (c : crypto) (ops : list (hop c)) (f : file c),
  Forall hop_reads ops ->
  Forall (fun fr => fst fr = f) (hrun c f ops) /\ hfile c f ops = f.
Proof. exact readonly_history_keeps_file. Qed.
Print Assumptions C19_readonly_history_full.

Theorem C19_readonly_history_same_answers_full : forall (c : crypto) (ops : list (hop c)) (f : file c) (p : bytes),
  Forall hop_reads ops ->
  load c (hfile c f ops) p = load c f p /\ export c (hfile c f ops) p = export c f p.
Proof. exact readonly_history_same_answers. Qed.
Print Assumptions C19_readonly_history_same_answers_full.

(* An operation that reports an error (import of bytes that are no key, create on a path that holds a file)
   has not touched the file. *)
Theorem C19_failed_step_keeps_file_full : forall (c : crypto) (f : file c) (op : hop c) (e : err),
  snd (hstep c f op) = RDone (Err e) -> fst (hstep c f op) = f.
Proof. exact failed_step_keeps_file. Qed.
Print Assumptions C19_failed_step_keeps_file_full.

(* After EVERY step of ANY history the file opens with exactly the passphrase it was last sealed with, and
   to the key last sealed in it — and with NO passphrase after a fault that killed the file (HDamage: deleted,
   no longer parsing, ciphertext bytes no key opens), until the next successful import / create.
   (hop_wf: the salts the code draws are non-empty, its nonces have 12 bytes, the key pair Create draws is a
   matching one, a fault leaves a dead file.) *)
Theorem C19_history_keeps_seal_full : forall (c : crypto), ideal c ->
  forall (ops : list (hop c)) (st : sealst c),
  Forall hop_wf ops -> seal_ok c st -> Forall (seal_ok c) (seal_trace c st ops).
Proof. exact history_keeps_seal. Qed.
Print Assumptions C19_history_keeps_seal_full.

(* Faults.  WHATEVER happened on the path before — creates, imports (= key rotations, under the same or another
   passphrase), loads, exports, earlier faults — once the key file is deleted, cut short / emptied / otherwise
   no longer parsing, or holds ciphertext bytes that no key opens, EVERY later load and export, with ANY
   passphrase (those that opened earlier contents of the path included), reports an error and leaves the file
   as it is: a corrupted or truncated key file never yields a usable signer, and nothing rotated away comes
   back.  No hypothesis on the cryptography. *)
Theorem C19_damaged_file_never_opens_full : forall (c : crypto) (before after : list (hop c)) (f bad : file c),
  dead_file c bad -> Forall hop_reads after ->
  Forall (fun fr => fst fr = bad /\ exists e, snd fr = RSigner (Err e) \/ snd fr = RBytes (Err e))
         (hrun c (hfile c f (before ++ [HDamage bad])) after).
Proof. exact damaged_file_never_opens. Qed.
Print Assumptions C19_damaged_file_never_opens_full.

Theorem C19_dead_file_full : forall (c : crypto) (f : file c) (p : bytes), dead_file c f ->
  (exists e, load c f p = Err e) /\ (exists e, export c f p = Err e).
Proof. exact dead_file_never_opens. Qed.
Print Assumptions C19_dead_file_full.

(* where histories start: a created file opens with exactly its passphrase; a legacy salt-less file with
   exactly the passphrases deriving its raw key (see C19_legacy_wrong_passphrase_refuted for what that set is) *)
Theorem C19_history_starts_full : forall (c : crypto), ideal c ->
  (forall seed pass salt nonce, length seed = 32 -> salt <> [] -> length nonce = 12 ->
     opens_exactly c (snd (create c seed pass salt nonce)) (eq pass) (fst (create c seed pass salt nonce))) /\
  (forall s rawkey nonce, wf_signer s -> length nonce = 12 ->
     opens_exactly c (legacy_file c s rawkey nonce) (fun p => fallback_derive p = Ok rawkey) s).
Proof. exact history_starts. Qed.
Print Assumptions C19_history_starts_full.

(* ---- signing sessions ---------------------------------------------------------------------------------
   Whatever sequence of Sign calls is made on one signer — fresh slices, the same buffer again, the same
   buffer rewritten in place, a prefix of it — every signature is the signature of the bytes the message held
   at the time of the call and verifies, for those bytes, under the public key the signer reports. *)
Theorem C19_sign_session_full : forall (c : crypto), ideal c ->
  forall seed ops, length seed = 32 ->
  let s := new_signer c seed in
  session_sigs c s ops = map (signer_sign c s) (session_msgs [] ops) /\
  Forall2 (fun m sig => verify_under c (signer_public s) m sig = true) (session_msgs [] ops) (session_sigs c s ops).
Proof. exact sign_session_verifies. Qed.
Print Assumptions C19_sign_session_full.

Theorem C19_loaded_sign_session_full : forall (c : crypto), ideal c ->
  forall seed pass salt nonce s ops,
  length seed = 32 -> salt <> [] -> length nonce = 12 ->
  load c (snd (create c seed pass salt nonce)) pass = Ok s ->
  Forall2 (fun m sig => verify_under c (signer_public s) m sig = true) (session_msgs [] ops) (session_sigs c s ops).
Proof. exact loaded_sign_session_verifies. Qed.
Print Assumptions C19_loaded_sign_session_full.

(* ---- non-vacuity --------------------------------------------------------------------------------- *)
(* the ideal hypotheses are satisfiable: the symbolic instance used by the correspondence check meets them *)
Example ex_ideal_inhabited : ideal sym.
Proof. exact sym_ideal. Qed.

Definition ex_seed : bytes := map N.of_nat (seq 1 32).
Definition ex_salt : bytes := map N.of_nat (seq 100 16).
Definition ex_nonce : bytes := map N.of_nat (seq 200 12).
Definition ex_long : bytes := repeat 65%N 4096.
Definition ex_file (pass : bytes) : file sym := snd (create sym ex_seed pass ex_salt ex_nonce).
Definition ex_signer : signer := new_signer sym ex_seed.

Example ex_hypotheses : length ex_seed = 32 /\ ex_salt <> [] /\ length ex_nonce = 12 /\ wf_signer ex_signer.
Proof. repeat split; try reflexivity. discriminate. Qed.

(* empty, one-byte and 4096-byte passphrases: load, wrong passphrase, signature, export+import *)
Example ex_roundtrips :
  load sym (ex_file []) [] = Ok ex_signer /\
  load sym (ex_file [7%N]) [7%N] = Ok ex_signer /\
  load sym (ex_file ex_long) ex_long = Ok ex_signer /\
  load sym (ex_file ex_long) (repeat 65%N 4095) = Err EDecrypt /\
  load sym (ex_file []) [0%N] = Err EDecrypt /\
  signer_verifies sym ex_signer [1%N; 2%N] = true /\
  (match export sym (ex_file [7%N]) [7%N] with
   | Ok pt => match import sym pt [] ex_salt ex_nonce with
              | Ok f2 => load sym f2 []
              | _ => Err EOther
              end
   | _ => Err EOther
   end) = Ok ex_signer.
Proof. vm_compute. repeat split; reflexivity. Qed.

(* corrupted variants of a saved file, as the harness describes them: nonce of 11 bytes (the last base64
   character replaced by '='), salt removed + empty passphrase, another key's public key, ciphertext bytes
   changed, salt changed, file cut short *)
Definition ex_variant (ct : sct) (nonce pub salt : bytes) : file sym := FData (mkKeydata sym ct nonce pub salt).
Definition ex_ct : sct := CSeal (KArgon [7%N] ex_salt) ex_nonce (s_priv ex_signer).
Example ex_corruptions :
  load sym (ex_variant ex_ct (firstn 11 ex_nonce) ex_seed ex_salt) [7%N] = Err ENonce /\
  load sym (ex_variant ex_ct ex_nonce ex_seed []) [] = Err ELegacyEmpty /\
  load sym (ex_variant ex_ct ex_nonce (repeat 9%N 32) ex_salt) [7%N] = Err EMismatch /\
  load sym (ex_variant ex_ct ex_nonce (repeat 9%N 31) ex_salt) [7%N] = Err EPub /\
  load sym (ex_variant CJunk ex_nonce ex_seed ex_salt) [7%N] = Err EDecrypt /\
  load sym (ex_variant ex_ct ex_nonce ex_seed (0%N :: ex_salt)) [7%N] = Err EDecrypt /\
  load sym FBadJson [7%N] = Err EJson /\
  load sym (ex_variant ex_ct ex_nonce ex_seed ex_salt) [7%N] = Ok ex_signer.
Proof. vm_compute. repeat split; reflexivity. Qed.

(* a legacy file written under a 5-byte passphrase: the derived key, the load, the guard of the partial
   theorem, and the refuting pair *)
Definition ex_legacy_pass : bytes := [104; 101; 108; 108; 111]%N.
Definition ex_legacy_key : bytes :=
  match fallback_derive ex_legacy_pass with Ok k => k | _ => [] end.
Example ex_legacy :
  length ex_legacy_key = 32 /\
  fallback_derive ex_legacy_pass = Ok ex_legacy_key /\
  load sym (legacy_file sym ex_signer ex_legacy_key ex_nonce) ex_legacy_pass = Ok ex_signer /\
  fallback_derive [104%N] <> Ok ex_legacy_key /\
  load sym (legacy_file sym ex_signer ex_legacy_key ex_nonce) [104%N] = Err EDecrypt /\
  load sym (legacy_file sym ex_signer ex_legacy_key ex_nonce) [] = Err ELegacyEmpty /\
  fallback_derive [] = Panic.
Proof. vm_compute. repeat split; try reflexivity. discriminate. Qed.

(* a history over one path: a legacy file is loaded (right passphrase), loaded with the all-zero passphrase of
   the same length, exported, re-imported under a new passphrase, loaded with the old and the new one; a
   create on the occupied path and an import of 63 bytes fail and change nothing *)
Definition ex_zero5 : bytes := repeat 0%N 5.
Definition ex_hist : list (hop sym) :=
  [HLoad ex_legacy_pass; HLoad ex_zero5; HExport ex_legacy_pass; HCreate ex_signer [7%N] ex_salt ex_nonce;
   HImport (repeat 1%N 63) [7%N] ex_salt ex_nonce;
   HImport (s_priv ex_signer) [7%N] ex_salt ex_nonce; HLoad ex_legacy_pass; HLoad [7%N]].
Definition ex_legacy_f : file sym := legacy_file sym ex_signer ex_legacy_key ex_nonce.
Example ex_history :
  Forall hop_wf ex_hist /\
  map snd (hrun sym ex_legacy_f ex_hist) =
    [RSigner (Ok ex_signer); RSigner (Err EDecrypt); RBytes (Ok (s_priv ex_signer)); RDone (Err EExists);
     RDone (Err EPriv); RDone (Ok tt); RSigner (Err EDecrypt); RSigner (Ok ex_signer)] /\
  map fst (firstn 5 (hrun sym ex_legacy_f ex_hist)) = repeat ex_legacy_f 5 /\
  hfile sym ex_legacy_f ex_hist = ex_file [7%N].
Proof.
  split; [|vm_compute; repeat split; reflexivity].
  repeat constructor; try discriminate. all: try reflexivity.
Qed.

(* a key rotation followed by a fault: key A created under [7], key B imported over it under [8]; the file is
   then cut short (no longer parses): neither the current nor the rotated-away passphrase opens anything, a
   create on the occupied path is refused; after a deletion a create works again *)
Definition ex_seed_b : bytes := map N.of_nat (seq 50 32).
Definition ex_signer_b : signer := new_signer sym ex_seed_b.
Definition ex_rotate_damage : list (hop sym) :=
  [HCreate ex_signer [7%N] ex_salt ex_nonce; HLoad [7%N];
   HImport (s_priv ex_signer_b) [8%N] ex_salt ex_nonce; HLoad [8%N]; HLoad [7%N];
   HDamage FBadJson; HLoad [8%N]; HLoad [7%N]; HExport [7%N]; HCreate ex_signer [7%N] ex_salt ex_nonce;
   HDamage FAbsent; HLoad [7%N]; HCreate ex_signer [9%N] ex_salt ex_nonce; HLoad [9%N]].
Example ex_rotation_then_damage :
  Forall hop_wf ex_rotate_damage /\
  map snd (hrun sym FAbsent ex_rotate_damage) =
    [RDone (Ok tt); RSigner (Ok ex_signer);
     RDone (Ok tt); RSigner (Ok ex_signer_b); RSigner (Err EDecrypt);
     RDone (Ok tt); RSigner (Err EJson); RSigner (Err EJson); RBytes (Err EJson); RDone (Err EExists);
     RDone (Ok tt); RSigner (Err EIo); RDone (Ok tt); RSigner (Ok ex_signer)].
Proof.
  split; [|vm_compute; reflexivity].
  repeat constructor; try discriminate.
Qed.

(* passphrases are byte strings, taken as they are: a trailing line feed / carriage return is part of the
   passphrase on every path (create, import, load, export) *)
Definition ex_pw : bytes := [112; 119]%N.
Definition ex_pw_lf : bytes := [112; 119; 10]%N.
Definition ex_pw_crlf : bytes := [112; 119; 13; 10]%N.
Example ex_trailing_linebreak :
  load sym (ex_file ex_pw_lf) ex_pw_lf = Ok ex_signer /\
  load sym (ex_file ex_pw_lf) ex_pw = Err EDecrypt /\
  load sym (ex_file ex_pw) ex_pw_lf = Err EDecrypt /\
  load sym (ex_file ex_pw) ex_pw_crlf = Err EDecrypt /\
  export sym (ex_file ex_pw) ex_pw_lf = Err EDecrypt /\
  (match import sym (s_priv ex_signer) ex_pw_crlf ex_salt ex_nonce with
   | Ok f2 => (load sym f2 ex_pw_crlf, load sym f2 ex_pw, export sym f2 ex_pw_crlf)
   | _ => (Err EOther, Err EOther, Err EOther)
   end) = (Ok ex_signer, Err EDecrypt, Ok (s_priv ex_signer)).
Proof. vm_compute. repeat split; reflexivity. Qed.

(* a signing session on one buffer: sign, rewrite two bytes in place, sign again, sign a prefix, sign again *)
Definition ex_session : list sop := [SNew [1; 2; 3; 4]%N; SPatch 1 [9; 9]%N; SResign; SPrefix 2; SFresh [5%N]; SPatch 3 [7; 7; 7]%N].
Example ex_session_msgs :
  session_msgs [] ex_session = [[1; 2; 3; 4]; [1; 9; 9; 4]; [1; 9; 9; 4]; [1; 9]; [5]; [1; 9; 9; 7]]%N.
Proof. vm_compute. reflexivity. Qed.

(* ---- saveKeys / loadKeys TRANSLATED FROM THE SOURCE (Check/GoLiteKeyFile.v, regenerated on every run) --------------
   Where the secrets go, read off the translated code's calls with their arguments: in EVERY world (each collaborator
   failing or not) the raw private key reaches gcm.Seal and zeroBytes only, the passphrase deriveKeyArgon2 and
   zeroBytes only, the derived key aes.NewCipher and zeroBytes only; what is written is the JSON of {sealed key, nonce,
   PUBLIC key, salt}, once, with mode 0600 (go_saveKeys). *)
From Verif Require Check.GoLiteKeyFile.
Theorem C19_translated_secrets_confined_full : forall w : GoLiteKeyFile.sworld, GoLiteKeyFile.secrets_confined w = true.
Proof. exact GoLiteKeyFile.secrets_are_confined. Qed.
Print Assumptions C19_translated_secrets_confined_full.

(* loading: the signer's keys are set only after the file parsed, the nonce had the right length, the ciphertext
   OPENED under the key derived from the passphrase and the file's salt, both raw keys parsed and the public key
   belongs to the private key; in every other world an error comes back and no key is set ... *)
Theorem C19_translated_keys_set_only_after_every_check_full : forall w : GoLiteKeyFile.lworld,
  GoLiteKeyFile.lo_priv (GoLiteKeyFile.load_expect w) <> Some GoLite.VNil ->
  GoLiteKeyFile.l_read w = true /\ GoLiteKeyFile.l_parse w = true /\ GoLiteKeyFile.l_nonce_len w = true /\
  GoLiteKeyFile.l_open w = true /\ GoLiteKeyFile.l_privparse w = true /\ GoLiteKeyFile.l_pubparse w = true /\
  GoLiteKeyFile.l_match w = true /\ GoLiteKeyFile.lo_result (GoLiteKeyFile.load_expect w) = [GoLite.VNil].
Proof. exact GoLiteKeyFile.keys_set_only_after_every_check. Qed.
Print Assumptions C19_translated_keys_set_only_after_every_check_full.

(* ... and loading never writes, creates, renames or removes a file *)
Theorem C19_translated_load_never_writes_full : forall (w : GoLiteKeyFile.lworld) (e : GoLite.gval),
  In e (GoLiteKeyFile.lo_calls (GoLiteKeyFile.load_expect w)) -> GoLiteKeyFile.writes_a_file e = false.
Proof. exact GoLiteKeyFile.load_never_writes. Qed.
Print Assumptions C19_translated_load_never_writes_full.
