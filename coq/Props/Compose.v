(* Props/Compose.v — END-TO-END COMPOSITION of the per-property models.
   Statements only; every proof is [exact <lemma of Proofs/ComposeProofs.v>].  Nothing is re-modelled here:
   the theorems connect the step functions of Model/Producer.v (C01/C04), Model/Syncer.v (C02/C05),
   Model/Retriever.v (C09), Model/Submitter.v (C06) and Model/Includer.v (C07) through translations of their
   record types / event vocabularies, and instantiate the property theorems of one model with the conclusions
   of another.  What is assumed, and why, is listed in Props/Compose.README.

   Vocabulary (definitions in Proofs/ComposeProofs.v):
     committed_chain c st   the sequencer's stored blocks from the initial height up to the height of the
                            RECORDED STATE, each as (signed header, data) — the Syncer's [block] type
     sync_config c st       genesis as the full node reads it; InitChain root = AppHash of the first block
     exec_followsb exec l   every successful ExecuteTxs call in the sequencer's log l returned
                            [exec prev height time txs]  (decidable; the execution layer is deterministic: C15)
     tr_blk b               (b_sh b, b_data b)
*)
From Coq Require Import String NArith ZArith List Bool Lia.
From Verif Require Import Base.KV Base.Keys Model.Types.
From Verif Require Model.Producer Model.Syncer Model.Retriever Model.Submitter Model.Includer.
From Verif Require Proofs.ProducerProofs Proofs.SyncerProofs Proofs.SubmitterProofs Proofs.IncluderProofs.
From Verif Require Import Proofs.ComposeProofs.
Import ListNotations.
Open Scope list_scope.
Open Scope N_scope.

(* ================================================================================================ *)
(* 1. Producer -> Syncer                                                                            *)
(* ================================================================================================ *)

(* (1a) FULL, every history.  For every well-formed sequencer configuration (initial height >= 1, signer =
   genesis proposer), EVERY history of the sequencer model (boots, production steps with any sequencer /
   execution responses, crashes after any number of writes of any action, shutdowns cut anywhere, hand-damaged
   cache files) and every function [exec] the recorded execution results follow:
   the committed chain satisfies the Syncer's [ChainValid] (= the hypothesis of C02/C05) for the translated
   genesis; it has one block per height from the initial height to the recorded state's height, each being
   the stored block; and replaying it from the genesis state ends in exactly the recorded state. *)
Theorem Compose_producer_chain_is_sync_valid_full :
  forall (exec : root -> N -> Z -> list tx -> root) (c : P.cfg) (h : list P.item),
  P.wf_cfg c -> exec_followsb exec (P.g_execs (P.run c h)) = true ->
  let st := P.run c h in let m := P.img_of st in
  let C := committed_chain c st in let g := sync_config c st in
  S.ChainValid exec g (P.c_key c) C /\
  length C = N.to_nat (state_height c m + 1 - P.c_initial c) /\
  (forall i, (i < length C)%nat ->
     nth_error C i = option_map tr_blk (P.g_block m (P.c_initial c + N.of_nat i)) /\
     P.g_block m (P.c_initial c + N.of_nat i) <> None) /\
  (forall s, P.g_state m = Some s ->
     P.c_initial c <= s_height s /\ In (init_root c st) (P.g_inits st) /\
     S.state_after exec (S.genesis_state g) C (length C) = s).
Proof. exact producer_chain_sync_valid_all. Qed.
Print Assumptions Compose_producer_chain_is_sync_valid_full.

(* (1b) FULL, crash-free histories (the histories of C01): additionally the committed chain reaches the
   STORE height. The same holds after any history whenever a process runs (1b'). *)
Theorem Compose_producer_chain_crash_free_full :
  forall (exec : root -> N -> Z -> list tx -> root) (c : P.cfg) (h : list P.item),
  P.wf_cfg c -> P.crash_free h = true -> exec_followsb exec (P.g_execs (P.run c h)) = true ->
  chain_bridged exec c (P.run c h) /\
  length (committed_chain c (P.run c h)) = N.to_nat (P.g_height (P.img_of (P.run c h)) + 1 - P.c_initial c).
Proof. exact producer_chain_sync_valid_crash_free. Qed.
Print Assumptions Compose_producer_chain_crash_free_full.

Theorem Compose_producer_chain_running_full :
  forall (exec : root -> N -> Z -> list tx -> root) (c : P.cfg) (h : list P.item) (v : P.vol),
  P.wf_cfg c -> P.vol_of (P.run c h) = Some v -> exec_followsb exec (P.g_execs (P.run c h)) = true ->
  length (committed_chain c (P.run c h)) = N.to_nat (P.g_height (P.img_of (P.run c h)) + 1 - P.c_initial c).
Proof. exact producer_chain_sync_valid_running. Qed.
Print Assumptions Compose_producer_chain_running_full.

(* (1c) FULL.  E2E_full_node_follows_sequencer: for every sequencer history [h] and EVERY delivery history
   [hs] of header / data events of the sequencer's committed chain to the full node (any order, duplicates,
   any DA tags, clean restarts, crashes after any number of writes of any event, crashes during start-up,
   nested): the full node is running and holds exactly the first j blocks of the sequencer's chain for some j
   — recorded height = initial + j - 1, the stored block at every height up to it IS the sequencer's block,
   the state (root included) is the state after those j blocks.  (C05_recovery_full instantiated.) *)
Theorem E2E_full_node_follows_sequencer :
  forall (exec : root -> N -> Z -> list tx -> root) (c : P.cfg) (h : list P.item) (hs : list S.item),
  P.wf_cfg c -> exec_followsb exec (P.g_execs (P.run c h)) = true ->
  let C := committed_chain c (P.run c h) in let g := sync_config c (P.run c h) in
  Forall (S.item_in C) hs ->
  S.n_status (S.run exec g hs) = S.Running /\ exists j, S.synced_to exec g C (S.run exec g hs) j.
Proof. exact e2e_follows. Qed.
Print Assumptions E2E_full_node_follows_sequencer.

(* (1c') FULL, crash-free delivery histories: moreover the execution calls the full node made are exactly
   blocks 1..j of the sequencer's chain, in height order, each once (C02_safety_full instantiated). *)
Theorem E2E_full_node_follows_sequencer_clean :
  forall (exec : root -> N -> Z -> list tx -> root) (c : P.cfg) (h : list P.item) (hs : list S.item),
  P.wf_cfg c -> exec_followsb exec (P.g_execs (P.run c h)) = true ->
  let C := committed_chain c (P.run c h) in let g := sync_config c (P.run c h) in
  Forall (S.item_in C) hs -> forallb S.is_clean hs = true ->
  S.n_status (S.run exec g hs) = S.Running /\
  exists j, S.synced_to exec g C (S.run exec g hs) j /\
            S.n_log (S.run exec g hs) = S.calls_after exec (S.genesis_state g) C j.
Proof. exact e2e_follows_clean. Qed.
Print Assumptions E2E_full_node_follows_sequencer_clean.

(* (1d) PARTIAL (guard: distinct_commitmentsb on the sequencer's committed chain — the open C02 finding
   incomplete-equal-tx-lists).  If the clean delivery history contains the header of every committed block
   and the data of every non-empty one, the full node IS at the sequencer's recorded state: same height, the
   same state record (state root included) in memory and on disk, the sequencer's block at every height, and
   it executed exactly the sequencer's blocks, once each, in order. *)
Theorem E2E_full_node_reaches_sequencer_partial :
  forall (exec : root -> N -> Z -> list tx -> root) (c : P.cfg) (h : list P.item) (hs : list S.item),
  P.wf_cfg c -> exec_followsb exec (P.g_execs (P.run c h)) = true ->
  let st := P.run c h in let C := committed_chain c st in let g := sync_config c st in
  Forall (S.item_in C) hs -> forallb S.is_clean hs = true ->
  S.distinct_commitmentsb C = true ->
  (forall b, In b C -> S.header_delivered hs b) ->
  (forall b, In b C -> d_txs (snd b) <> [] -> S.data_delivered hs b) ->
  forall s, P.g_state (P.img_of st) = Some s ->
    let nd := S.run exec g hs in
    S.n_status nd = S.Running /\
    S.d_height (S.n_disk nd) = s_height s /\ S.n_last nd = s /\ S.d_state (S.n_disk nd) = Some s /\
    (forall k, P.c_initial c <= k <= s_height s ->
       S.d_block (S.n_disk nd) k = option_map tr_blk (P.g_block (P.img_of st) k)) /\
    S.n_log nd = S.calls_after exec (S.genesis_state g) C (length C).
Proof. exact e2e_reaches. Qed.
Print Assumptions E2E_full_node_reaches_sequencer_partial.

(* (1e) PARTIAL (same guard).  After ANY past [hs1] of the full node — crashes anywhere included — a clean
   suffix [hs2] that delivers the header of every committed block and the data of every non-empty one brings
   it to the sequencer's recorded state (C05_resync_partial instantiated). *)
Theorem E2E_full_node_resyncs_to_sequencer_partial :
  forall (exec : root -> N -> Z -> list tx -> root) (c : P.cfg) (h : list P.item) (hs1 hs2 : list S.item),
  P.wf_cfg c -> exec_followsb exec (P.g_execs (P.run c h)) = true ->
  let st := P.run c h in let C := committed_chain c st in let g := sync_config c st in
  Forall (S.item_in C) (hs1 ++ hs2) -> forallb S.is_clean hs2 = true ->
  S.distinct_commitmentsb C = true ->
  (forall b, In b C -> S.header_delivered hs2 b) ->
  (forall b, In b C -> d_txs (snd b) <> [] -> S.data_delivered hs2 b) ->
  forall s, P.g_state (P.img_of st) = Some s ->
    let nd := S.run exec g (hs1 ++ hs2) in
    S.n_status nd = S.Running /\
    S.d_height (S.n_disk nd) = s_height s /\ S.n_last nd = s /\ S.d_state (S.n_disk nd) = Some s /\
    (forall k, P.c_initial c <= k <= s_height s ->
       S.d_block (S.n_disk nd) k = option_map tr_blk (P.g_block (P.img_of st) k)).
Proof. exact e2e_resyncs. Qed.
Print Assumptions E2E_full_node_resyncs_to_sequencer_partial.

(* The two facts about the producer model that the bridge needed and C01's [chain] does not record, proved
   for EVERY history: the only block ever built for the initial height carries the genesis time; every block
   at or below the recorded state's height carries its Data metadata. *)
Theorem Compose_producer_extra_invariant_full : forall (c : P.cfg) (h : list P.item),
  P.wf_cfg c ->
  (forall n txs t, In (n, txs, t) (P.g_built (P.run c h)) -> n = P.c_initial c -> t = P.c_gtime c) /\
  (forall s, P.g_state (P.img_of (P.run c h)) = Some s ->
   forall k b, P.c_initial c <= k <= s_height s -> P.g_block (P.img_of (P.run c h)) k = Some b ->
               d_meta (P.b_data b) <> None).
Proof. exact reach_extra. Qed.
Print Assumptions Compose_producer_extra_invariant_full.

(* ================================================================================================ *)
(* 2. Retriever -> Syncer                                                                           *)
(* ================================================================================================ *)
(* [hd_of] / [dd_of]: what a BHeader id / BData id of the retriever model decodes to.
   da_of_chain hd_of dd_of C da : every BHeader / BData blob of the DA description decodes to the header /
   data of a block of C (the other blob classes are unconstrained: junk, empty data, data without metadata).
   fed_by evs hs : every event the history hs delivers (or dies in) is one of evs. *)

(* (2a) FULL.  DA scan + sync, safety.  Any number of scan runs (any start heights, any DA outcome scripts,
   any wake-up sequences) over DA descriptions whose genuine blobs are those of a valid chain; the events they
   emit reach the sync loop in any order, any multiplicity, across clean restarts and crashes: the node runs
   and holds exactly a prefix of the chain. *)
Theorem Compose_scan_sync_follows_full :
  forall (hd_of : N -> sheader) (dd_of : N -> data) exec g k C
         (runs : list (R.cfg * list R.hinfo * list R.item)) (hs : list S.item),
  S.ChainValid exec g k C ->
  Forall (fun x => let '(c, da, h) := x in da_of_chain hd_of dd_of C da) runs ->
  fed_by (runs_events hd_of dd_of runs) hs ->
  S.n_status (S.run exec g hs) = S.Running /\ exists j, S.synced_to exec g C (S.run exec g hs) j.
Proof. exact scan_sync_follows. Qed.
Print Assumptions Compose_scan_sync_follows_full.

(* (2b) PARTIAL (guards: distinct_commitmentsb C — C02's open finding; honest_da da — the DA answers "not
   found" only for heights that hold no blob).  DA scan + sync converge: if the DA holds, at heights the scan
   cursor has passed, the (not yet seen) header blob of each of the first m blocks and the data blob of each
   non-empty one, and the sync loop consumed every emitted event (any order, duplicates, clean restarts), the
   node is at height >= initial + m - 1 and holds exactly the chain's blocks up to its height. *)
Theorem Compose_scan_sync_converges_partial :
  forall (hd_of : N -> sheader) (dd_of : N -> data) exec g k C (c : R.cfg) (da : list R.hinfo) (h : list R.item)
         (hs : list S.item) (m : nat),
  S.ChainValid exec g k C -> S.distinct_commitmentsb C = true ->
  da_of_chain hd_of dd_of C da -> honest_da da = true ->
  (m <= length C)%nat ->
  (forall i b, (i < m)%nat -> nth_error C i = Some b -> header_on_da hd_of c da h b) ->
  (forall i b, (i < m)%nat -> nth_error C i = Some b -> d_txs (snd b) <> [] -> data_on_da dd_of c da h b) ->
  fed_by (map (tr_event hd_of dd_of) (scan_events c da h)) hs -> forallb S.is_clean hs = true ->
  (forall e, In e (scan_events c da h) -> In (S.IEv (tr_event hd_of dd_of e)) hs) ->
  S.n_status (S.run exec g hs) = S.Running /\
  S.g_initial g + N.of_nat m - 1 <= S.d_height (S.n_disk (S.run exec g hs)) /\
  exists j, S.synced_to exec g C (S.run exec g hs) j.
Proof. exact scan_sync_converges. Qed.
Print Assumptions Compose_scan_sync_converges_partial.

(* (2c) FULL.  With an honest DA every height the cursor has passed handed over ALL its genuine unseen
   blobs (strengthens C09_no_skip_full, whose conclusion allows "none" after a not-found answer). *)
Theorem Compose_passed_height_emits_full :
  forall (c : R.cfg) (da : list R.hinfo) (h : list R.item) (n : N),
  honest_da da = true -> R.boot c <= n < R.s_cursor (R.final c da h) ->
  forall e, In e (R.genuine_events c n (R.content c da n)) -> In e (scan_events c da h).
Proof. exact passed_height_emits. Qed.
Print Assumptions Compose_passed_height_emits_full.

(* (2d) FULL.  Sequencer -> DA -> retriever -> full node in one statement: the chain on the DA is the
   sequencer's committed chain. *)
Theorem E2E_sequencer_da_scan_full_node :
  forall (exec : root -> N -> Z -> list tx -> root) (c : P.cfg) (h : list P.item)
         (hd_of : N -> sheader) (dd_of : N -> data)
         (runs : list (R.cfg * list R.hinfo * list R.item)) (hs : list S.item),
  P.wf_cfg c -> exec_followsb exec (P.g_execs (P.run c h)) = true ->
  let C := committed_chain c (P.run c h) in let g := sync_config c (P.run c h) in
  Forall (fun x => let '(rc, da, rh) := x in da_of_chain hd_of dd_of C da) runs ->
  fed_by (runs_events hd_of dd_of runs) hs ->
  S.n_status (S.run exec g hs) = S.Running /\ exists j, S.synced_to exec g C (S.run exec g hs) j.
Proof. exact e2e_da_path. Qed.
Print Assumptions E2E_sequencer_da_scan_full_node.

(* ================================================================================================ *)
(* 3. Submitter -> Includer                                                                         *)
(* ================================================================================================ *)
(* [hid] / [did]: height -> id of the block's header hash / data commitment; [dah k j]: the DA height at which
   the DA layer included the j-th submit call of kind k (res.Height).
   da_entries dah k calls : the submitter model's DA log with DA heights — (block height, DA height) of every
       blob the DA layer kept of every logged call; its block heights are exactly the model's [acc] (3c).
   backed dah hid did s hi : the includer history hi appends exactly the blocks the submitter state s has
       committed, and each of its header / data marks is an ACKNOWLEDGED acceptance (StatusSuccess,
       SubmittedCount) of a logged call of s, at that call's DA height — what postSubmit does.
   derive dah hid did c init ch : the includer history of a combined history ch (publish / submission
       iterations and loops / includer runs / clean restarts / crashes and faults inside includer runs). *)

(* (3a) FULL.  Reported DA-included height n  =>  block n is committed; rhb/<n>/h and rhb/<n>/d are recorded;
   a header blob with block n's hash is in the submitter model's DA log at the recorded DA height (and in
   the model's own [acc]); if block n has transactions a data blob with its commitment is in the DA log at
   the recorded DA height, otherwise the recorded data DA height repeats the header's. *)
Theorem Compose_submitter_includer_sound_full :
  forall (dah : Sub.kind -> nat -> N) (hid did : N -> N) (c : Sub.cfg) (init : N)
         (sh : list Sub.item) (hi : list Inc.item) (n : N),
  1 <= init -> (forall m, did m <> 0) ->
  let s := Sub.run c init sh in
  backed dah hid did s hi ->
  let nd := Inc.run (init - 1) hi in
  init - 1 < n <= Inc.rep nd ->
  n <= Sub.height s /\
  exists hda dda,
    Inc.meta_get (Inc.meta nd) (Inc.KH n) = Some hda /\ Inc.meta_get (Inc.meta nd) (Inc.KT n) = Some dda /\
    (exists x, hid x = hid n /\ In (x, hda) (da_entries dah Sub.KHeader (Sub.calls (Sub.s_h s))) /\
               In x (Sub.acc (Sub.s_h s))) /\
    (if Sub.nonempty_at (Sub.s_init s) (Sub.s_chain s) n
     then exists y, did y = did n /\ In (y, dda) (da_entries dah Sub.KData (Sub.calls (Sub.s_d s))) /\
                    In y (Sub.acc (Sub.s_d s))
     else dda = hda).
Proof. exact sub_inc_sound. Qed.
Print Assumptions Compose_submitter_includer_sound_full.

(* (3a') FULL: the same for every height visible at the instant of death k effects into an includer run *)
Theorem Compose_submitter_includer_sound_at_death_full :
  forall (dah : Sub.kind -> nat -> N) (hid did : N -> N) (c : Sub.cfg) (init : N)
         (sh : list Sub.item) (hi : list Inc.item) (k : nat) (n : N),
  1 <= init -> (forall m, did m <> 0) ->
  let s := Sub.run c init sh in
  backed dah hid did s hi ->
  let nd := Inc.dying (Inc.run (init - 1) hi) k in
  init - 1 < n <= Inc.di nd ->
  included_in_da dah hid did s (Inc.meta nd) n.
Proof. exact sub_inc_sound_at_death. Qed.
Print Assumptions Compose_submitter_includer_sound_at_death_full.

(* (3b) FULL.  The derived history of every combined history is backed by the submitter run of that history;
   hence E2E: on the combined node a reported DA-included height speaks about blobs that really are in the
   DA log. *)
Theorem Compose_derive_is_backed_full :
  forall (dah : Sub.kind -> nat -> N) (hid did : N -> N) (c : Sub.cfg) (init : N) (ch : list citem),
  1 <= init -> backed dah hid did (Sub.run c init (sub_hist ch)) (derive dah hid did c init ch).
Proof. exact derive_is_backed. Qed.
Print Assumptions Compose_derive_is_backed_full.

Theorem E2E_da_included_height_is_on_da :
  forall (dah : Sub.kind -> nat -> N) (hid did : N -> N) (c : Sub.cfg) (init : N) (ch : list citem) (n : N),
  1 <= init -> (forall m, did m <> 0) ->
  let s := Sub.run c init (sub_hist ch) in
  let nd := Inc.run (init - 1) (derive dah hid did c init ch) in
  init - 1 < n <= Inc.rep nd ->
  included_in_da dah hid did s (Inc.meta nd) n.
Proof. exact e2e_da_included_sound. Qed.
Print Assumptions E2E_da_included_height_is_on_da.

(* with collision-free header hashes it is the header blob of height n itself; with pairwise distinct data
   commitments it is the data blob of height n itself *)
Theorem Compose_included_header_exact_full :
  forall (dah : Sub.kind -> nat -> N) (hid did : N -> N) (s : Sub.state) (meta : Inc.metaT) (n : N),
  (forall a b, hid a = hid b -> a = b) ->
  included_in_da dah hid did s meta n ->
  exists hda, Inc.meta_get meta (Inc.KH n) = Some hda /\
              In (n, hda) (da_entries dah Sub.KHeader (Sub.calls (Sub.s_h s))) /\ In n (Sub.acc (Sub.s_h s)).
Proof. exact included_in_da_exact. Qed.
Print Assumptions Compose_included_header_exact_full.

Theorem Compose_included_data_exact_full :
  forall (dah : Sub.kind -> nat -> N) (hid did : N -> N) (s : Sub.state) (meta : Inc.metaT) (n : N),
  (forall a b, did a = did b -> a = b) ->
  included_in_da dah hid did s meta n -> Sub.nonempty_at (Sub.s_init s) (Sub.s_chain s) n = true ->
  exists dda, Inc.meta_get meta (Inc.KT n) = Some dda /\
              In (n, dda) (da_entries dah Sub.KData (Sub.calls (Sub.s_d s))) /\ In n (Sub.acc (Sub.s_d s)).
Proof. exact included_in_da_exact_data. Qed.
Print Assumptions Compose_included_data_exact_full.

(* (3c) FULL.  The DA log with heights used above is the submitter model's own DA log: same block heights. *)
Theorem Compose_da_entries_are_acc_full :
  forall (dah : Sub.kind -> nat -> N) (c : Sub.cfg) (init : N) (h : list Sub.item) (k : Sub.kind) (x : N),
  In x (Sub.acc (Sub.get_side k (Sub.run c init h))) <->
  exists da, In (x, da) (da_entries dah k (Sub.calls (Sub.get_side k (Sub.run c init h)))).
Proof. exact acc_da_entries. Qed.
Print Assumptions Compose_da_entries_are_acc_full.

(* ================================================================================================ *)
(* Non-vacuity: concrete histories meeting every hypothesis                                           *)
(* ================================================================================================ *)

(* ---- 1. a sequencer history with two crashes (initial height 5): a failed first start, the genesis block, a
   two-transaction block, an empty block with an equal timestamp, a step that dies after its early save, a
   restart that re-uses the early-saved block, a step that dies between the state write and the height write
   (recorded state: height 9, store height 8).  The execution layer is SyncerProofs.ex_exec. ---- *)
Definition ex_cfg : P.cfg := {| P.c_chain := 3; P.c_initial := 5; P.c_gtime := 100%Z; P.c_key := 7; P.c_gaddr := Addr 7 |}.
Definition ex_hist : list P.item :=
  [ P.IRun (P.ABoot None); P.IRun (P.ABoot (Some 1));
    P.IRun (P.AStep P.SNil (P.EOk 12));
    P.IRun (P.AStep (P.SBatch [10; 11] 200%Z 1) (P.EOk 92));
    P.IRun (P.AStep (P.SBatch [] 200%Z 2) (P.EOk 651));
    P.ICrash (P.AStep (P.SBatch [12] 300%Z 3) (P.EOk 4566)) 2;
    P.IRun (P.ABoot None);
    P.IRun (P.AStep P.SNil (P.EOk 4566));
    P.ICrash (P.AStep (P.SBatch [13] 400%Z 4) (P.EOk 31972)) 4 ].
Definition ex_st : P.mach := P.run ex_cfg ex_hist.
Definition ex_C : list S.block := Eval vm_compute in committed_chain ex_cfg ex_st.
Definition ex_g : S.config := Eval vm_compute in sync_config ex_cfg ex_st.

Example ex_producer_hypotheses :
  P.wf_cfg ex_cfg /\ exec_followsb SP.ex_exec (P.g_execs ex_st) = true /\
  committed_chain ex_cfg ex_st = ex_C /\ sync_config ex_cfg ex_st = ex_g /\
  length ex_C = 5%nat /\ P.g_height (P.img_of ex_st) = 8 /\
  option_map s_height (P.g_state (P.img_of ex_st)) = Some 9 /\ S.distinct_commitmentsb ex_C = true /\
  map P.o_res (P.outputs ex_cfg ex_hist) =
    [P.OBootFailInit; P.OBootOk; P.OCommitted 5; P.OCommitted 6; P.OCommitted 7; P.OCrashed; P.OBootOk;
     P.OCommitted 8; P.OCrashed].
Proof. split; [split; [vm_compute; discriminate|reflexivity]|]. vm_compute. repeat split; reflexivity. Qed.

(* a delivery history of that chain to a full node: reverse order, duplicates, a crash inside the
   application of the second of two blocks (k = 5: block and state written, height not), a crash during start-up, a clean restart; then everything once more, cleanly *)
Definition xh (i : nat) (da : N) : S.event := S.EvHeader (fst (nth i ex_C (S.genesis_block ex_g))) da.
Definition xd (i : nat) (da : N) : S.event := S.EvData (snd (nth i ex_C (S.genesis_block ex_g))) da.
Definition ex_hs1 : list S.item :=
  [ S.IEv (xh 4 9); S.IEv (xd 4 9); S.IEv (xd 1 3); S.IEv (xh 1 3); S.ICrash (xh 0 1) 5; S.ICrashBoot 0;
    S.IEv (xh 3 2); S.IRestart; S.IEv (xd 3 2) ].
Definition ex_hs2 : list S.item :=
  [ S.IEv (xh 4 9); S.IEv (xd 4 9); S.IEv (xh 3 8); S.IEv (xd 3 8); S.IEv (xh 2 7); S.IRestart;
    S.IEv (xh 1 6); S.IEv (xd 1 6); S.IEv (xh 0 5); S.IEv (xh 0 5) ].

Example ex_delivery_hypotheses :
  Forall (S.item_in ex_C) (ex_hs1 ++ ex_hs2) /\ forallb S.is_clean ex_hs2 = true /\
  (forall b, In b ex_C -> S.header_delivered ex_hs2 b) /\
  (forall b, In b ex_C -> d_txs (snd b) <> [] -> S.data_delivered ex_hs2 b).
Proof.
  split; [repeat constructor; cbn; try exact I; eexists; SP.solve_in|].
  split; [reflexivity|]. split.
  - intros b Hb. cbn in Hb. repeat (destruct Hb as [<-|Hb]; [eexists; SP.solve_in|]). destruct Hb.
  - intros b Hb Hne. cbn in Hb.
    repeat (destruct Hb as [<-|Hb]; [first [exfalso; apply Hne; reflexivity|eexists; SP.solve_in]|]). destruct Hb.
Qed.

(* what the theorems then say, computed: after hs1 (crashes) the node holds a prefix; after hs1 ++ hs2 it is
   at the sequencer's recorded state *)
Example ex_delivery_result :
  S.d_height (S.n_disk (S.run SP.ex_exec ex_g ex_hs1)) = 6 /\
  S.d_height (S.n_disk (S.run SP.ex_exec ex_g (ex_hs1 ++ ex_hs2))) = 9 /\
  Some (S.n_last (S.run SP.ex_exec ex_g (ex_hs1 ++ ex_hs2))) = P.g_state (P.img_of ex_st) /\
  option_map s_app (P.g_state (P.img_of ex_st)) = Some 31972.
Proof. vm_compute. repeat split; reflexivity. Qed.

(* ---- 2. a DA layer holding that chain among junk, scanned by the retriever model ---- *)
Definition ex_hd (id : N) : sheader := fst (nth (N.to_nat id) ex_C (S.genesis_block ex_g)).
Definition ex_dd (id : N) : data := snd (nth (N.to_nat id) ex_C (S.genesis_block ex_g)).
Definition e_plain := {| R.e_nf := false; R.e_fut := false |}.
Definition ex_rc : R.cfg := {| R.c_stored := 0; R.c_start := 20; R.c_seen_h := []; R.c_seen_d := [] |}.
Definition ex_da : list R.hinfo :=
  [ {| R.h_blobs := [R.BJunk 0; R.BHeader 1; R.BData 1; R.BHeader 0; R.BEmptyData];
       R.h_outs := [R.OListErr e_plain; R.OChunkErr 0 e_plain; R.OOk] |};
    {| R.h_blobs := []; R.h_outs := [R.OListNil] |};
    {| R.h_blobs := [R.BHeader 2; R.BDataNoMeta 7; R.BHeader 4; R.BData 4; R.BData 3; R.BHeader 3; R.BHeader 1];
       R.h_outs := repeat (R.OListErr e_plain) 11 ++ [R.OOk; R.OOk] |} ].
Definition ex_rh : list R.item := [R.ISignal; R.IProc; R.ISignal].
Definition ex_scan_hs : list S.item := map S.IEv (map (tr_event ex_hd ex_dd) (scan_events ex_rc ex_da ex_rh)).

Example ex_scan_hypotheses :
  da_of_chain ex_hd ex_dd ex_C ex_da /\ honest_da ex_da = true /\
  R.s_cursor (R.final ex_rc ex_da ex_rh) = 23 /\
  fed_by (map (tr_event ex_hd ex_dd) (scan_events ex_rc ex_da ex_rh)) ex_scan_hs /\
  forallb S.is_clean ex_scan_hs = true /\
  (forall i b, (i < 5)%nat -> nth_error ex_C i = Some b -> header_on_da ex_hd ex_rc ex_da ex_rh b) /\
  (forall i b, (i < 5)%nat -> nth_error ex_C i = Some b -> d_txs (snd b) <> [] -> data_on_da ex_dd ex_rc ex_da ex_rh b).
Proof.
  split.
  { repeat constructor; cbn; try exact I; eexists; SP.solve_in. }
  split; [vm_compute; reflexivity|]. split; [vm_compute; reflexivity|]. split.
  { unfold fed_by, ex_scan_hs. rewrite Forall_forall. intros i Hi. apply in_map_iff in Hi. destruct Hi as (e & <- & He). exact He. }
  split; [vm_compute; reflexivity|]. split.
  - intros i b Hi Hb.
    destruct i as [|[|[|[|[|i]]]]]; [| | | | |exfalso; lia];
      cbn in Hb; inversion Hb; subst b.
    + exists 20, 0. split; [vm_compute; split; [discriminate|reflexivity]|]. split; [SP.solve_in|split; reflexivity].
    + exists 20, 1. split; [vm_compute; split; [discriminate|reflexivity]|]. split; [SP.solve_in|split; reflexivity].
    + exists 22, 2. split; [vm_compute; split; [discriminate|reflexivity]|]. split; [SP.solve_in|split; reflexivity].
    + exists 22, 3. split; [vm_compute; split; [discriminate|reflexivity]|]. split; [SP.solve_in|split; reflexivity].
    + exists 22, 4. split; [vm_compute; split; [discriminate|reflexivity]|]. split; [SP.solve_in|split; reflexivity].
  - intros i b Hi Hb Hne.
    destruct i as [|[|[|[|[|i]]]]]; [| | | | |exfalso; lia];
      cbn in Hb; inversion Hb; subst b; try (exfalso; apply Hne; reflexivity).
    + exists 20, 1. split; [vm_compute; split; [discriminate|reflexivity]|]. split; [SP.solve_in|split; reflexivity].
    + exists 22, 3. split; [vm_compute; split; [discriminate|reflexivity]|]. split; [SP.solve_in|split; reflexivity].
    + exists 22, 4. split; [vm_compute; split; [discriminate|reflexivity]|]. split; [SP.solve_in|split; reflexivity].
Qed.

Example ex_scan_result :
  map (fun r => (R.i_height r, R.i_classes r, R.i_next r)) (R.iterations ex_rc ex_da ex_rh) =
    [ (20, [R.AError; R.AError; R.ASuccess], 21); (21, [R.ANotFound], 22); (22, repeat R.AError 10, 22);
      (22, [R.AError; R.ASuccess], 22); (22, [R.ASuccess], 23); (23, [R.AFuture], 23) ] /\
  length ex_scan_hs = 15%nat /\
  S.d_height (S.n_disk (S.run SP.ex_exec ex_g ex_scan_hs)) = 9 /\
  Some (S.n_last (S.run SP.ex_exec ex_g ex_scan_hs)) = P.g_state (P.img_of ex_st).
Proof. vm_compute. repeat split; reflexivity. Qed.

(* ---- 3. a combined aggregator history: three blocks (the first empty; the 2nd and 3rd with the SAME data
   commitment), a header submission whose first answer is accepted-but-acknowledgement-lost, includer runs,
   a crash that loses the marks, a data submission, a clean restart ---- *)
Definition x_hid (n : N) : N := 100 + n.
Definition x_did (n : N) : N := if n =? 4 then 203 else 200 + n.      (* blocks 3 and 4 share a commitment *)
Definition x_dah (k : Sub.kind) (j : nat) : N := match k with Sub.KHeader => 1000 | Sub.KData => 2000 end + N.of_nat j.
Definition x_cf : Sub.cfg := {| Sub.c_bt := 1000; Sub.c_ttl := 2 |}.
Definition ex_ch : list citem :=
  [ CPublish false; CPublish true; CPublish true;
    CTick Sub.KHeader [Sub.OAckLost 1 Sub.FErr; Sub.OAccept 2; Sub.OFail Sub.FNotIncluded];
    CInclude;
    CTick Sub.KData [Sub.OAccept 1];
    CInclude;
    CTick Sub.KHeader [Sub.OAccept 9];
    CRestart; CInclude;
    CCrash 0; CInclude ].

Example ex_combined :
  let s := Sub.run x_cf 2 (sub_hist ex_ch) in
  let hi := derive x_dah x_hid x_did x_cf 2 ex_ch in
  let nd := Inc.run 1 hi in
  (forall m, x_did m <> 0) /\
  hi = [ Inc.IAppend {| Inc.bh := 102; Inc.bd := 0 |}; Inc.IAppend {| Inc.bh := 103; Inc.bd := 203 |};
         Inc.IAppend {| Inc.bh := 104; Inc.bd := 203 |};
         Inc.IMarkH 102 1001; Inc.IMarkH 103 1001; Inc.IInclude; Inc.IMarkD 203 2000; Inc.IInclude;
         Inc.IMarkH 104 1003; Inc.IRestart; Inc.IInclude; Inc.ICrash 0; Inc.IInclude ] /\
  Inc.rep nd = 4 /\ Sub.height s = 4 /\
  rev (da_entries x_dah Sub.KHeader (Sub.calls (Sub.s_h s))) = [(2, 1000); (2, 1001); (3, 1001); (4, 1003)] /\
  rev (da_entries x_dah Sub.KData (Sub.calls (Sub.s_d s))) = [(3, 2000)] /\
  Inc.meta_get (Inc.meta nd) (Inc.KH 4) = Some 1003 /\
  (* block 4's data was never submitted: the reported height rests on block 3's blob with the same commitment *)
  Inc.meta_get (Inc.meta nd) (Inc.KT 4) = Some 2000 /\ Sub.acc (Sub.s_d s) = [3].
Proof.
  cbv zeta. split; [intros m; unfold x_did; destruct (m =? 4); [discriminate|]; destruct m; discriminate|].
  vm_compute. repeat split; reflexivity.
Qed.
