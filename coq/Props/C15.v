(* Props/C15.v — reference execution layer (apps/testapp/kv KVExecutor): the state root depends only on
   the ordered transactions executed so far.  Statements only; every proof is
   [exact <lemma of Proofs/KVExecProofs.v>].  The model is the code AFTER the repair
   fixes/C15-finalized-height-in-root.diff (before it, the first theorem is false: see findings). *)
From Coq Require Import String NArith List Bool.
From Verif Require Import Base.Keys Model.KVExec Proofs.KVExecProofs.
Import ListNotations.
Open Scope string_scope.
Open Scope list_scope.

(* For every history h of InitChain / ExecuteTxs / SetFinal / InjectTx / GetTxs / reopen calls, in any
   interleaving: the results of the ExecuteTxs calls are exactly [spec_exec] of the blocks alone (error for a
   rejected block, otherwise root_of_txs of the transactions of all accepted blocks so far, in order), and the
   root of the store after h (after ANY prefix, h being arbitrary) is root_of_txs of the executed
   transactions — a function of that ordered transaction list and of nothing else. *)
Theorem C15_root_function_of_txs_full : forall h : list item,
  exec_outs (outputs h) = spec_exec [] (blocks_of h) /\
  root (s_db (final h)) = root_of_txs (executed (blocks_of h)).
Proof. exact root_function_of_txs. Qed.
Print Assumptions C15_root_function_of_txs_full.

(* two independently driven instances (any two histories: different finalization times, mempool traffic,
   restarts, InitChain calls) that are fed the same blocks return the same state roots, call by call *)
Theorem C15_two_instances_agree_full : forall h1 h2 : list item,
  blocks_of h1 = blocks_of h2 ->
  exec_outs (outputs h1) = exec_outs (outputs h2) /\
  root (s_db (final h1)) = root (s_db (final h2)).
Proof. exact two_instances. Qed.
Print Assumptions C15_two_instances_agree_full.

(* a call other than ExecuteTxs (finalize, inject, get-txs, init, reopen) never changes the root *)
Theorem C15_only_exec_changes_root_full : forall (h : list item) (i : item),
  is_exec i = false -> root (s_db (final (h ++ [i]))) = root (s_db (final h)).
Proof. exact non_exec_keeps_root. Qed.
Print Assumptions C15_only_exec_changes_root_full.

(* executing a block that contains a transaction the code rejects (no "=", empty key, reserved key)
   returns an error and leaves the whole machine — every key of the store and the mempool — as it was *)
Theorem C15_malformed_noop_full : forall (h : list item) (b : list string) (tx : string),
  In tx b -> parse_tx tx = None ->
  final (h ++ [IExec b]) = final h /\
  outputs (h ++ [IExec b]) = outputs h ++ [(OExec None, root (s_db (final h)))].
Proof. exact malformed_noop. Qed.
Print Assumptions C15_malformed_noop_full.

(* executing the same block twice in a row: same machine state as executing it once, same result twice *)
Theorem C15_reexec_idempotent_full : forall (h : list item) (b : list string),
  final (h ++ [IExec b; IExec b]) = final (h ++ [IExec b]) /\
  exists o, outputs (h ++ [IExec b; IExec b]) = outputs h ++ [o; o].
Proof. exact reexec_idem. Qed.
Print Assumptions C15_reexec_idempotent_full.

(* InitChain at any point succeeds with some root g; every later InitChain, whatever was called in
   between, returns the same g and changes nothing *)
Theorem C15_init_idempotent_full : forall h1 h2 : list item,
  exists g,
    snd (step (final h1) IInit) = OInit (Some g) /\
    step (final (h1 ++ IInit :: h2)) IInit = (final (h1 ++ IInit :: h2), OInit (Some g)).
Proof. exact init_idem. Qed.
Print Assumptions C15_init_idempotent_full.

(* the first InitChain returns the root of the transactions executed before it (so the genesis root, too,
   does not depend on finalization, mempool or restarts) *)
Theorem C15_first_init_root_full : forall h : list item,
  forallb (fun i => negb (is_init i)) h = true ->
  snd (step (final h) IInit) = OInit (Some (root_of_txs (executed (blocks_of h)))).
Proof. exact first_init_root. Qed.
Print Assumptions C15_first_init_root_full.

(* ---- non-vacuity: two different schedules over the same three blocks (one of them rejected), with
   finalization, mempool traffic, restarts, a repeated block and repeated InitChain ------------------- *)
Definition b1 := ["a=1"; " b = 2 "].
Definition b2 := ["a=3"; "genesis/./initialized=x"].    (* rejected: reserved key after cleaning *)
Definition b3 := ["c/../a = 4"; "k="].
Definition hA : list item :=
  [IInit; IExec b1; IFinal 1; IInject "z=9"; IExec b2; IExec b3; IFinal 2; IGetTxs; IExec b3; IInit].
Definition hB : list item :=
  [IFinal 7; IExec b1; IReopen; IExec b2; IInit; IInject "q"; IReopen; IExec b3; IExec b3; IGetTxs; IFinal 0].

Example ex_same_blocks : blocks_of hA = blocks_of hB /\ blocks_of hA = [b1; b2; b3; b3].
Proof. vm_compute. split; reflexivity. Qed.

Example ex_exec_results :
  exec_outs (outputs hA) = [Some "/a:1;/b:2;"; None; Some "/a:4;/b:2;/k:;"; Some "/a:4;/b:2;/k:;"]
  /\ exec_outs (outputs hB) = exec_outs (outputs hA).
Proof. vm_compute. split; reflexivity. Qed.

Example ex_histories_differ_otherwise :
  init_outs (outputs hA) = [Some ""; Some ""] /\ init_outs (outputs hB) = [Some "/a:1;/b:2;"]
  /\ db_get k_final (s_db (final hA)) = Some "2" /\ db_get k_final (s_db (final hB)) = Some "7".
Proof. vm_compute. repeat split; reflexivity. Qed.

Example ex_malformed_hypothesis : In "genesis/./initialized=x" b2 /\ parse_tx "genesis/./initialized=x" = None
  /\ parse_tx "novalue" = None /\ parse_tx " =v" = None /\ parse_tx "finalizedHeight=3" = None.
Proof. vm_compute. repeat split; auto. Qed.

Example ex_first_init_hypothesis :
  forallb (fun i => negb (is_init i)) [IFinal 7; IExec b1; IReopen; IExec b2] = true.
Proof. vm_compute. reflexivity. Qed.

(* ---- KVExecutor.ExecuteTxs TRANSLATED FROM THE SOURCE (Check/GoLiteKVExec.v, regenerated on every run) -------------
   The translated body of the walk over a block's transactions stages exactly the pair parse_tx yields and leaves
   the function exactly when parse_tx yields none; the walk with that body refines parse_block; and the translated
   function commits the batch exactly for the blocks the model calls block_ok — in the worlds the model's string
   functions describe (SplitN = split_eq, TrimSpace = trim, ds.NewKey = clean_key). *)
From Verif Require Check.GoLiteKVExec Proofs.GoLiteKVExecRefine.
Theorem C15_translated_tx_refines_parse_tx_full : forall tx,
  GoLiteKVExec.staged (GoLiteKVExecRefine.world_of tx) = match KVExec.parse_tx tx with Some p => [p] | None => [] end /\
  GoLiteKVExec.left_fn (GoLiteKVExecRefine.world_of tx) = match KVExec.parse_tx tx with Some _ => false | None => true end.
Proof. exact GoLiteKVExecRefine.tx_refines_parse_tx. Qed.
Print Assumptions C15_translated_tx_refines_parse_tx_full.

Theorem C15_translated_walk_refines_parse_block_full : forall txs,
  match KVExec.parse_block txs with
  | Some ps => GoLiteKVExecRefine.code_walk txs = (false, ps)
  | None => fst (GoLiteKVExecRefine.code_walk txs) = true
  end.
Proof. exact GoLiteKVExecRefine.walk_refines_parse_block. Qed.
Print Assumptions C15_translated_walk_refines_parse_block_full.

(* a block with a refused transaction commits nothing: all or nothing, from the translated function *)
Theorem C15_translated_refused_block_commits_nothing_full : forall w : GoLiteKVExec.xworld,
  GoLiteKVExec.x_left w = true ->
  filter (fun e => match e with GoLite.VEff n _ => String.eqb n "batch.Commit" | _ => false end)
         (snd (GoLiteKVExec.exec_expect w)) = [].
Proof. exact GoLiteKVExec.refused_block_commits_nothing. Qed.
Print Assumptions C15_translated_refused_block_commits_nothing_full.
