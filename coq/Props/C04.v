(* Props/C04.v — Sequencer node recovers from a crash at any point of block production.
   Statements only; every proof is [exact <lemma of Proofs/ProducerProofs.v>].
   Model: Model/Producer.v, of the tree AFTER the repairs 46e0134 (state written before the store height),
   d2502c2 (cache files written atomically), a489023 (an empty batch older than the last block is skipped).
   A history is any list over
     IRun (ABoot ic) | IRun (AStep seq exec)            an action runs to completion
     ICrash (ABoot ic) k | ICrash (AStep seq exec) k    the process dies after k atomic datastore writes of it
     IStop None | IStop (Some cp)                       shutdown: SaveCache performs [save_ops] = for each of the 8 cache files
                                                        create <file>.tmp, write it, rename it over <file>; Some cp = the process
                                                        dies at cp: CutAfter k = after k of these 24 operations, CutInside k b =
                                                        inside operation k+1, b bytes of a file's stream written (any strict prefix)
     ITamper f                                          NOT a crash: a cache file truncated by hand
   so crashes before the first / after the last write, between ANY two writes (k is unrestricted), crashes
   that recur during recovery (any nesting depth), crashes of the recovery boot itself and crashes in the
   middle of writing the caches at shutdown — between two files, between two operations on one file, in the
   middle of the bytes of one file; during the first save into an empty directory or any later one — are
   ordinary list elements.  [run c h] is the state after [h]
   from an empty datastore.  All theorems: ALL well-formed configurations, ALL histories, NO guard. *)
From Coq Require Import String NArith ZArith List Bool.
From Verif Require Import Base.KV Base.Keys Model.Types Model.Producer Proofs.ProducerProofs.
Import ListNotations.
Open Scope N_scope.

(* (i),(iii),(iv) FULL.  After EVERY history the durable image is consistent ([ChainDurable]): nothing is
   committed, or heights initial..n hold a valid hash-linked signed [chain] (C01's predicate; none skipped
   or repeated), the recorded state is exactly the state after block n, and the recorded height is n — or
   n-1 in the image a process left behind when it died between the state write and the height write.
   And whenever a process runs, i.e. after every successful (re)start and after every step of it,
   recorded height, recorded state and stored blocks agree exactly ([ChainValid]). *)
Theorem C04_consistent_full : forall (c : cfg) (h : list item),
  wf_cfg c ->
  ChainDurable c (run c h) /\ (forall v, vol_of (run c h) = Some v -> ChainValid c (run c h)).
Proof. exact consistent_all. Qed.
Print Assumptions C04_consistent_full.

(* the same, height by height (see [block_facts]), for every state in which a process runs *)
Theorem C04_blocks_valid_full : forall (c : cfg) (h : list item),
  wf_cfg c -> forall v, vol_of (run c h) = Some v ->
  let st := run c h in let m := img_of st in
  forall k, c_initial c <= k -> k <= g_height m ->
  exists r0 s, In r0 (g_inits st) /\ g_state m = Some s /\ s_height s = g_height m /\
               block_facts c (g_block m) (g_built st) (g_execs st) r0 (g_height m) s k.
Proof. exact blocks_valid_running. Qed.
Print Assumptions C04_blocks_valid_full.

(* (ii) FULL.  Whatever happens later (h2: more steps, crashes anywhere, restarts, shutdowns), a height that
   was committed (<= recorded height) keeps exactly its block, and the recorded height never decreases.  A
   block is published (broadcast) only by a step that returns OCommitted, i.e. after its state and height
   are written, so "published" is covered by "committed". *)
Theorem C04_committed_stable_full : forall (c : cfg) (h1 h2 : list item),
  wf_cfg c ->
  let st1 := run c h1 in let st2 := run c (h1 ++ h2) in
  g_height (img_of st1) <= g_height (img_of st2) /\
  forall k, k <= g_height (img_of st1) -> g_block (img_of st2) k = g_block (img_of st1) k.
Proof. exact committed_stable. Qed.
Print Assumptions C04_committed_stable_full.

(* (v) FULL.  After every history of boots, steps, crashes and shutdowns ([untampered]: no cache file damaged
   BY HAND, which no crash of the repaired code can do) a restart with a working execution layer succeeds,
   height, state and blocks agree, and a well-formed pair of responses commits the next block at once. *)
Theorem C04_restart_full : forall (c : cfg) (h : list item) (r0 : root),
  wf_cfg c -> untampered h = true ->
  let st' := fst (exec_item c (run c h) (IRun (ABoot (Some r0)))) in
  exists v, vol_of st' = Some v /\ ChainValid c st' /\
    forall sq e, wf_resp c st' sq e = true ->
      a_out (step c (img_of st') v sq e) = OCommitted (g_height (img_of st') + 1).
Proof. exact restart_all. Qed.
Print Assumptions C04_restart_full.

(* (v), the cache directory by itself, FULL.  [dir_ok d]: no cache file under its FINAL name (the only names
   LoadFromDisk reads) holds a partial gob stream (an empty file or a strict prefix), which is what makes
   LoadCache, hence NewManager, fail.  Whatever the directory holds before (nothing = the first save; complete
   files = a later save; stale temporary files of an earlier crash), SaveCache cut at ANY point — after any
   number of file operations, inside the write of any file after any number of bytes — leaves it so; hence after
   every history without hand-made damage every start finds loadable cache files. *)
Theorem C04_save_cache_cut_full : forall (d : list fname) (cp : cutpt),
  dir_ok d = true -> dir_ok (cut_dir d save_ops cp) = true.
Proof. exact save_cache_cut_ok. Qed.
Print Assumptions C04_save_cache_cut_full.

Theorem C04_cache_files_full : forall (c : cfg) (h : list item),
  untampered h = true -> files_ok (run c h) = true.
Proof. exact cache_files_ok_all. Qed.
Print Assumptions C04_cache_files_full.

(* not a property of every way of writing the files: the same save writing each file IN PLACE under its final name
   (as before d2502c2, or only when the file does not exist yet) is refuted by a process that dies inside the write
   of the first file of the first save *)
Example save_in_place_is_refuted :
  dir_ok [] = true /\
  dir_ok (cut_dir [] (flat_map save_file_in_place (seq 0 n_files)) (CutInside 1 26)) = false.
Proof. split; [reflexivity|exact in_place_first_save_torn]. Qed.

(* ---- non-vacuity: nesting depth 2 on a 3-block chain: a step dies after its early save (2 writes), the
   recovery boot itself dies, the second recovery succeeds and re-uses the early-saved block; a step dies
   between the state write and the height write (k = 4) and the restart raises the height; a step dies
   after ALL its writes (k = 5); the FIRST shutdown dies inside the write of the first cache file (7 bytes written),
   a restart, a block, a shutdown that dies inside the write of the fourth file, a restart, one more block ---- *)
Definition ex_cfg : cfg := {| c_chain := 3; c_initial := 2; c_gtime := 100%Z; c_key := 7; c_gaddr := Addr 7 |}.
Definition ex_history : list item :=
  [ IRun (ABoot (Some 1)); IRun (AStep SNil (EOk 2));
    IRun (AStep (SBatch [10] 200%Z 1) (EOk 3));
    ICrash (AStep (SBatch [11; 12] 300%Z 2) (EOk 4)) 2;
    ICrash (ABoot (Some 5)) 0;
    IRun (ABoot (Some 6));
    IRun (AStep (SBatch [13] 400%Z 3) (EOk 7));
    ICrash (AStep (SBatch [] 400%Z 4) (EOk 8)) 4;
    IRun (ABoot None);
    ICrash (AStep (SBatch [15] 450%Z 6) (EOk 10)) 5;
    IRun (ABoot None);
    IStop (Some (CutInside 1 7));
    IRun (ABoot None);
    IRun (AStep (SBatch [14] 500%Z 5) (EOk 9));
    IStop (Some (CutInside 10 30));
    IRun (ABoot None);
    IRun (AStep (SBatch [16] 600%Z 7) (EOk 11)) ].

Example ex_hypotheses : wf_cfg ex_cfg /\ untampered ex_history = true.
Proof. split; [split; [vm_compute; discriminate|reflexivity]|reflexivity]. Qed.

Example ex_outcomes :
  map o_res (outputs ex_cfg ex_history) =
  [ OBootOk; OCommitted 2; OCommitted 3; OCrashed; OCrashed; OBootOk; OCommitted 4; OCrashed; OBootOk; OCrashed; OBootOk;
    OStopped; OBootOk; OCommitted 7; OStopped; OBootOk; OCommitted 8 ]
  /\ g_height (img_of (run ex_cfg ex_history)) = 8
  (* the only partial file at the end is the temporary file the second cut shutdown left behind (the stale temporary
     file of the first one was overwritten and renamed by the second); after the first one it was <file 0>.tmp *)
  /\ bad_files (run ex_cfg ex_history) = [FTmp 3]
  /\ bad_files (run ex_cfg (firstn 12 ex_history)) = [FTmp 0]
  /\ option_map (fun b => d_txs (b_data b)) (g_block (img_of (run ex_cfg ex_history)) 4) = Some [11; 12]
  /\ option_map (fun b => d_txs (b_data b)) (g_block (img_of (run ex_cfg ex_history)) 5) = Some []
  (* the image the process left behind when it died between the state write and the height write *)
  /\ g_height (img_of (run ex_cfg (firstn 8 ex_history))) = 4
  /\ option_map s_height (g_state (img_of (run ex_cfg (firstn 8 ex_history)))) = Some 5
  (* the restart raises the height *)
  /\ g_height (img_of (run ex_cfg (firstn 9 ex_history))) = 5.
Proof. vm_compute. repeat split. Qed.

(* ---- the defects of the tree before the repairs, kept as examples of what the repaired model does ------ *)
Definition w_cfg : cfg := {| c_chain := 1; c_initial := 1; c_gtime := 0%Z; c_key := 7; c_gaddr := Addr 7 |}.

(* F5 (before 46e0134 a crash after 4 writes of the second block left height 2 / state 1 and wedged the node):
   now the 4th write is the STATE; the image has state height 2, store height 1; the restart raises the
   height and the next step commits height 3 *)
Definition f5_history : list item :=
  [ IRun (ABoot (Some 1)); IRun (AStep SNil (EOk 2));
    ICrash (AStep (SBatch [5] 1000%Z 1) (EOk 3)) 4;
    IRun (ABoot (Some 4)); IRun (AStep (SBatch [6] 2000%Z 2) (EOk 5)) ].
Example before_the_repair_F5 :
  map o_res (outputs w_cfg f5_history) = [OBootOk; OCommitted 1; OCrashed; OBootOk; OCommitted 3]
  /\ g_height (img_of (run w_cfg (firstn 3 f5_history))) = 1
  /\ option_map s_height (g_state (img_of (run w_cfg (firstn 3 f5_history)))) = Some 2
  /\ g_height (img_of (run w_cfg (firstn 4 f5_history))) = 2.
Proof. vm_compute. repeat split. Qed.

(* F5 on the first block (before: the restart re-created the genesis block over the committed one): the state
   of height 1 is now on disk before the height, the restart finds it, does not call InitChain again, and
   block 1 is untouched *)
Definition f5b_h1 : list item := [ IRun (ABoot (Some 1)); ICrash (AStep SNil (EOk 2)) 2 ].
Definition f5b_h2 : list item := [ IRun (ABoot (Some 9)) ].
Example before_the_repair_F5_first_block :
  g_block (img_of (run w_cfg (f5b_h1 ++ f5b_h2))) 1 = g_block (img_of (run w_cfg f5b_h1)) 1
  /\ g_inits (run w_cfg (f5b_h1 ++ f5b_h2)) = [1]
  /\ g_height (img_of (run w_cfg (f5b_h1 ++ f5b_h2))) = 1.
Proof. vm_compute. repeat split. Qed.

(* F6 (before d2502c2 a crash during SaveCache left a torn file and every later start failed): a shutdown cut
   anywhere (here: inside the write of the second file) is followed by a successful start; only damage BY HAND
   makes a start fail (file 2 damaged, the shutdown dies inside the write of <file 2>.tmp: still damaged), until
   a shutdown gets as far as renaming that file (9 operations = three files) *)
Example before_the_repair_F6 :
  map o_res (outputs w_cfg [IRun (ABoot (Some 1)); IRun (AStep SNil (EOk 2)); IStop (Some (CutInside 4 0)); IRun (ABoot None)])
    = [OBootOk; OCommitted 1; OStopped; OBootOk]
  /\ map o_res (outputs w_cfg [IRun (ABoot (Some 1)); ITamper 2%nat; IStop (Some (CutInside 7 12)); IRun (ABoot (Some 5))])
    = [OBootOk; OTampered; OStopped; OBootFailCache]
  /\ map o_res (outputs w_cfg [IRun (ABoot (Some 1)); ITamper 2%nat; IStop (Some (CutAfter 9)); IRun (ABoot (Some 5))])
    = [OBootOk; OTampered; OStopped; OBootOk].
Proof. vm_compute. repeat split. Qed.

(* REFINEMENT FROM TRANSLATED CODE.  The step the histories above are made of, [step], is what
   Manager.publishBlockInternal does — the Go function itself, translated from /repo's source on every run
   (coq/gen/GoLiteFuns.v, with Manager.retrieveBatch and Manager.updateState inside it) and evaluated by
   Model/GoLite.v against scripted collaborators (Check/GoLitePublish.v: [go_publishBlockInternal], for ALL worlds).
   For EVERY input of [step] — configuration, durable image, volatile state, answer of the sequencing layer, answer
   of the executor — the translated code performs the store writes of [step]: the same kinds (cursor, early block
   with the empty signature, final block with the new signature, state, height), the same heights and cursor, in
   the same order; it returns nil exactly when the model's outcome is committed / skipped; the in-memory cursor ends
   where the model's does.  So the write sequence the crash points [ICrash _ k] cut is the write sequence of the
   code as it is now. *)
From Verif Require Proofs.GoLitePublishRefine.
Theorem C04_translated_publish_refines_step_full : forall c m v s e,
  exists o, Check.GoLitePublish.run_publish (GoLitePublishRefine.world_of c m v s e) = Some o /\
            GoLitePublishRefine.code_writes o = GoLitePublishRefine.model_writes (step c m v s e) /\
            GoLitePublishRefine.nil_result o = GoLitePublishRefine.ok_outcome (a_out (step c m v s e)) /\
            Check.GoLitePublish.o_cursor o =
              Some (Check.GoLitePublish.KCursor (GoLitePublishRefine.cursor_of (step c m v s e) v)).
Proof. exact GoLitePublishRefine.translated_publish_refines_step. Qed.
Print Assumptions C04_translated_publish_refines_step_full.

(* REFINEMENT FROM TRANSLATED CODE, start-up.  [boot] — the recovery step after every crash of the histories above — is
   what getInitialState (block/manager.go, the start-up path of NewManager) does: the Go function itself, translated
   from /repo's source on every run and evaluated by Model/GoLite.v against scripted collaborators
   (Check/GoLiteBoot.v: [go_getInitialState], for ALL worlds).  For EVERY configuration, durable image and answer of
   InitChain (cache files intact) the translated code fails exactly when the model's outcome is a boot failure, and
   saves a block — the genesis block, once — exactly when the model's first write is that block; when a state is
   stored it is adopted as it is: nothing is executed, nothing is written, no block above it is looked for. *)
From Verif Require Proofs.GoLiteBootRefine Check.GoLiteBoot.
Theorem C04_translated_boot_refines_model_full : forall (c : cfg) (m : img) (ic : option root),
  exists o, GoLiteBoot.run_boot (GoLiteBootRefine.bworld_of c m ic) = Some o /\
            GoLiteBootRefine.failed o = GoLiteBootRefine.model_failed (boot c m true ic) /\
            GoLiteBootRefine.saved_heights o = GoLiteBootRefine.model_block_heights (boot c m true ic).
Proof. exact GoLiteBootRefine.translated_boot_refines_model. Qed.
Print Assumptions C04_translated_boot_refines_model_full.

(* ---- the start of NewManager TRANSLATED FROM THE SOURCE (Check/GoLiteStartup.v, regenerated on every run) ----------
   Whenever the initial state was obtained, the start-up asks the store to set its height to EXACTLY the state's
   LastBlockHeight, in every world (go_NewManager_start gives the complete call sequence): the write by which a
   start-up repairs a process that died between the state write and the height write of a block. *)
From Verif Require Check.GoLiteStartup.
Theorem C04_translated_startup_sets_the_height_full : forall w : GoLiteStartup.nworld,
  GoLiteStartup.n_init_ok w = true -> In (GoLiteStartup.height_call w) (snd (GoLiteStartup.start_expect w)).
Proof. exact GoLiteStartup.startup_always_sets_the_height. Qed.
Print Assumptions C04_translated_startup_sets_the_height_full.
