(* Props/C04.v — Sequencer node recovers from a crash at any point of block production.
   Statements only; every proof is [exact <lemma of Proofs/ProducerProofs.v>].
   Model: Model/Producer.v.  A history is any list over
     IRun (ABoot ic) | IRun (AStep seq exec)            an action runs to completion
     ICrash (ABoot ic) k | ICrash (AStep seq exec) k    the process dies after k atomic datastore writes of it
     IStop torn                                          shutdown; torn = dies while a cache file is partly written
   so crashes before the first / after the last write, crashes that recur during recovery (any nesting
   depth) and crashes of the recovery boot itself are ordinary list elements.  [run c h] is the state
   after [h] from an empty datastore.  Decidable guards on the history:
     f5_hit c h — some crash cut a production step strictly inside its commit group (store height
                  written, state not yet written);
     f1_hit c h — an EMPTY batch older than the last block was taken (C01's finding);
     f6_hit c h — a shutdown died while a cache file was partly written. *)
From Coq Require Import String NArith ZArith List Bool.
From Verif Require Import Base.KV Base.Keys Model.Types Model.Producer Proofs.ProducerProofs.
Import ListNotations.
Open Scope N_scope.

(* (i),(iii),(iv) PARTIAL, guard f5_hit = false.  After every such history — all crash points of all
   boots and steps, nested to any depth, empty and non-empty batches, any prior chain — the durable
   image is consistent: either nothing is committed (height < initial, no state) or heights
   initial..height hold a valid hash-linked signed [chain] (C01's predicate: no height skipped or
   repeated) and the recorded state is exactly the state after the block at the recorded height.
   Missing for the full property: histories with a crash between the height write and the state write. *)
Theorem C04_consistent_partial : forall (c : cfg) (h : list item),
  wf_cfg c -> f5_hit c h = false -> ChainValid c (run c h).
Proof. exact chain_valid_guarded. Qed.
Print Assumptions C04_consistent_partial.

Theorem C04_blocks_valid_partial : forall (c : cfg) (h : list item),
  wf_cfg c -> f5_hit c h = false ->
  let st := run c h in let m := img_of st in
  forall k, c_initial c <= k -> k <= g_height m ->
  exists r0 s, In r0 (g_inits st) /\ g_state m = Some s /\ s_height s = g_height m /\
               block_facts c (g_block m) (g_built st) (g_execs st) r0 (g_height m) s k.
Proof. exact blocks_valid_guarded. Qed.
Print Assumptions C04_blocks_valid_partial.

(* (ii) PARTIAL, guard f5_hit = false.  Whatever happens later (h2: more steps, crashes, restarts), a
   height that was committed (<= recorded height) keeps exactly its block, and the recorded height never
   decreases.  A block is published (broadcast) only by a step that returns OCommitted, i.e. after its
   height and state are written, so "published" is covered by "committed". *)
Theorem C04_committed_stable_partial : forall (c : cfg) (h1 h2 : list item),
  wf_cfg c -> f5_hit c (h1 ++ h2) = false ->
  let st1 := run c h1 in let st2 := run c (h1 ++ h2) in
  g_height (img_of st1) <= g_height (img_of st2) /\
  forall k, k <= g_height (img_of st1) -> g_block (img_of st2) k = g_block (img_of st1) k.
Proof. exact committed_stable. Qed.
Print Assumptions C04_committed_stable_partial.

(* (v) PARTIAL, guards f5_hit, f1_hit, f6_hit = false.  After every such history a restart with a
   working execution layer succeeds, and from the recovered state a well-formed pair of responses
   commits the next block at once. *)
Theorem C04_restart_partial : forall (c : cfg) (h : list item) (r0 : root),
  wf_cfg c -> f5_hit c h = false -> f1_hit c h = false -> f6_hit c h = false ->
  let st' := fst (exec_item c (run c h) (IRun (ABoot (Some r0)))) in
  exists v, vol_of st' = Some v /\
    forall sq e, wf_resp c st' sq e = true ->
      a_out (step c (img_of st') v sq e) = OCommitted (g_height (img_of st') + 1).
Proof. exact restart_guarded. Qed.
Print Assumptions C04_restart_partial.

(* REFUTED (DESIGN section 4 F5).  Without the guard the consistency statement is false of the model:
   the process dies between the height write and the state write of the second block; after the
   restart height = 2 but the recorded state is that of height 1, the next block is built on the stale
   state, fails validation and is re-used for ever ([wedged]: nothing ever commits or changes again). *)
Theorem C04_consistent_refuted :
  ~ (forall c h, wf_cfg c -> ChainValid c (run c h))
  /\ exists c h, wf_cfg c /\ f1_hit c h = false /\ f6_hit c h = false /\ ~ ChainValid c (run c h) /\ wedged c (run c h).
Proof. exact recovery_refuted. Qed.
Print Assumptions C04_consistent_refuted.

(* REFUTED (F5, first block).  Without the guard a committed block can be replaced: the first block is
   committed, the process dies before the state write, the restart finds no state, calls InitChain
   again and re-creates the genesis block over the committed one. *)
Theorem C04_committed_stable_refuted :
  ~ (forall c h1 h2, wf_cfg c ->
       forall k, k <= g_height (img_of (run c h1)) -> g_block (img_of (run c (h1 ++ h2))) k = g_block (img_of (run c h1)) k).
Proof. exact stable_refuted. Qed.
Print Assumptions C04_committed_stable_refuted.

(* REFUTED (F6).  Without the f6 guard "a restart succeeds" is false of the model: after a shutdown that
   dies while a cache file is partly written, every later start fails in LoadCache, with any InitChain
   outcome, and changes nothing — although the durable chain itself is valid. *)
Theorem C04_restart_refuted :
  ~ (forall c h r0, wf_cfg c -> f5_hit c h = false -> f1_hit c h = false ->
       exists v, vol_of (fst (exec_item c (run c h) (IRun (ABoot (Some r0))))) = Some v)
  /\ exists c h, wf_cfg c /\ f5_hit c h = false /\ f1_hit c h = false /\ ChainValid c (run c h) /\
       forall ic, let st' := fst (exec_item c (run c h) (IRun (ABoot ic))) in
         vol_of st' = None /\ files_ok st' = false /\ img_of st' = img_of (run c h).
Proof. exact restart_refuted. Qed.
Print Assumptions C04_restart_refuted.

(* ---- non-vacuity: nesting depth 2 on a 3-block chain: a step dies after its early save (2 writes), the
   recovery boot itself dies, the second recovery succeeds and re-uses the early-saved block; later a step
   dies after ALL its writes (k = 5), a clean shutdown, a restart, one more block ------------------- *)
Definition ex_cfg : cfg := {| c_chain := 3; c_initial := 2; c_gtime := 100%Z; c_key := 7; c_gaddr := Addr 7 |}.
Definition ex_history : list item :=
  [ IRun (ABoot (Some 1)); IRun (AStep SNil (EOk 2));
    IRun (AStep (SBatch [10] 200%Z 1) (EOk 3));
    ICrash (AStep (SBatch [11; 12] 300%Z 2) (EOk 4)) 2;
    ICrash (ABoot (Some 5)) 0;
    IRun (ABoot (Some 6));
    IRun (AStep (SBatch [13] 400%Z 3) (EOk 7));
    ICrash (AStep (SBatch [] 400%Z 4) (EOk 8)) 5;
    IRun (ABoot None);
    IStop false;
    IRun (ABoot None);
    IRun (AStep (SBatch [14] 500%Z 5) (EOk 9)) ].

Example ex_hypotheses :
  wf_cfg ex_cfg /\ f5_hit ex_cfg ex_history = false /\ f1_hit ex_cfg ex_history = false /\ f6_hit ex_cfg ex_history = false.
Proof. split; [split; [vm_compute; discriminate|reflexivity]|]. vm_compute. repeat split. Qed.

Example ex_outcomes :
  map o_res (outputs ex_cfg ex_history) =
  [ OBootOk; OCommitted 2; OCommitted 3; OCrashed; OCrashed; OBootOk; OCommitted 4; OCrashed; OBootOk; OStopped; OBootOk; OCommitted 6 ]
  /\ g_height (img_of (run ex_cfg ex_history)) = 6
  /\ option_map (fun b => d_txs (b_data b)) (g_block (img_of (run ex_cfg ex_history)) 4) = Some [11; 12]
  /\ option_map (fun b => d_txs (b_data b)) (g_block (img_of (run ex_cfg ex_history)) 5) = Some [].
Proof. vm_compute. repeat split. Qed.

(* the witnesses are reachable histories that hit exactly their guard *)
Example ex_witness_guards :
  f5_hit wcfg f5_history = true /\ f5_hit wcfg (f5b_h1 ++ f5b_h2) = true /\ f6_hit wcfg f6_history = true /\
  map o_res (outputs wcfg f5_history) = [OBootOk; OCommitted 1; OCrashed; OBootOk; OErrValidate].
Proof. vm_compute. repeat split. Qed.
