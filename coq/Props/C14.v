(* Props/C14.v — the block store behaves like a height-indexed map, atomically and durably.
   Statements only; every proof is [exact <lemma of Proofs/StoreProofs.v>]. *)
From Coq Require Import String NArith List Bool.
From Verif Require Import Base.KV Base.Keys Model.Store Proofs.StoreProofs.
Import ListNotations.
Open Scope string_scope.

(* For every history of operations, reopenings and crashes inside operations, over all heights,
   hashes, values and metadata keys (saved headers with equal hashes having equal heights): every
   result the store returns is the result of the height-indexed-map specification, where each
   crashed operation either happened entirely or not at all; and the final image represents the
   final specification state (relation R: per key kind, exactly the latest value written). *)
Theorem C14_refines_full : forall h : list item,
  hash_consistentb (saves h) = true ->
  exists happened,
    outputs h = snd (a_run a_init h happened) /\
    R (final h) (fst (a_run a_init h happened)).
Proof. exact store_refines. Qed.
Print Assumptions C14_refines_full.

(* records of different kinds never overwrite one another: the key builders are jointly injective *)
Theorem C14_keys_disjoint_full : forall a b : keykind, key_of a = key_of b -> a = b.
Proof. exact key_of_inj. Qed.
Print Assumptions C14_keys_disjoint_full.

(* the recorded height only grows — for all histories, no hypothesis *)
Theorem C14_height_monotone_full : forall h1 h2 : list item,
  exists n1 n2, c_height (final h1) = Some n1 /\ c_height (final (h1 ++ h2)) = Some n2 /\ (n1 <= n2)%N.
Proof. exact height_monotone. Qed.
Print Assumptions C14_height_monotone_full.

(* a read by hash returns a block with that hash (the one currently at its height) or not-found,
   and not-found only when no stored block has that hash *)
Theorem C14_by_hash_full : forall (h : list item) (hash : string),
  hash_consistentb (saves h) = true ->
  match snd (step (final h) (OGetByHash hash)) with
  | RBlock hd d => hhash hd = hash /\ snd (step (final h) (OGetBlock (hheight hd))) = RBlock hd d
  | RErr => forall n hd d, snd (step (final h) (OGetBlock n)) = RBlock hd d -> hhash hd <> hash
  | _ => False
  end.
Proof. exact by_hash_sound. Qed.
Print Assumptions C14_by_hash_full.

(* a block save is all-or-nothing under a crash *)
Theorem C14_save_atomic_full : forall (m : img) hd d s k,
  crash_after k m (fst (step m (OSave hd d s))) = m \/
  crash_after k m (fst (step m (OSave hd d s))) = apply_writes m (fst (step m (OSave hd d s))).
Proof. exact save_atomic. Qed.
Print Assumptions C14_save_atomic_full.

(* ---- non-vacuity: a concrete history meeting the hypotheses, with an overwrite at one height by a
   header of a different hash, a crash inside a save, a reopen, and the node's metadata keys ------- *)
Definition hA := {| hid := 1; hheight := 5; hhash := "aa" |}.
Definition hB := {| hid := 2; hheight := 5; hhash := "bb" |}.
Definition hC := {| hid := 3; hheight := 6; hhash := "cc" |}.
Definition ex_history : list item :=
  [ IOp (OSave hA 1 1); IOp (OSetHeight 5); ICrash (OSave hB 2 2) 0; IOp (OGetByHash "aa");
    IOp (OSave hB 2 2); IReopen; IOp (OGetByHash "aa"); IOp (OGetByHash "bb"); ICrash (OSave hC 3 3) 1;
    IOp (OSetHeight 3); IOp OHeight; IOp (OSetMeta "last-submitted-header-height" 7); IOp (OGetMeta "d") ].

Example ex_meets_hypothesis : hash_consistentb (saves ex_history) = true.
Proof. vm_compute. reflexivity. Qed.

Example ex_outputs :
  outputs ex_history =
  [ Some RUnit; Some RUnit; None; Some (RBlock hA 1); Some RUnit; None; Some RErr; Some (RBlock hB 2); None;
    Some RUnit; Some (RHeight 5); Some RUnit; Some RErr ].
Proof. vm_compute. reflexivity. Qed.

Example node_meta_keys_clean :
  forallb clean_meta ["d"; "l"; "last-submitted-header-height"; "last-submitted-data-height"; "rhb/12/h"; "rhb/12/d"] = true
  /\ forallb (fun k => negb (clean_meta k)) [""; "a//b"; "../h/1"; "a/"; "./x"] = true.
Proof. vm_compute. split; reflexivity. Qed.
